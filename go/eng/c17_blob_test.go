package eng

// C17 (d): history blobs.  translateOneDataBlob / tryRepairInvalidUTF8InBlob are unexported; they are
// driven through the exported namespace translator on a response that carries raw history batches.

import (
	"fmt"
	"reflect"
	"strings"
	"sync"

	commonpb "go.temporal.io/api/common/v1"
	enumspb "go.temporal.io/api/enums/v1"
	historypb "go.temporal.io/api/history/v1"
	"go.temporal.io/server/api/adminservice/v1"
	replicationpb "go.temporal.io/server/api/replication/v1"
	"go.temporal.io/server/common/log"
	"go.temporal.io/server/common/log/tag"
	"go.temporal.io/server/common/persistence/serialization"
	"google.golang.org/protobuf/proto"
	"google.golang.org/protobuf/reflect/protoreflect"

	"github.com/temporalio/s2s-proxy/interceptor"
	common122 "github.com/temporalio/s2s-proxy/proto/1_22/api/common/v1"
	enums122 "github.com/temporalio/s2s-proxy/proto/1_22/api/enums/v1"
	failure122 "github.com/temporalio/s2s-proxy/proto/1_22/api/failure/v1"
	history122 "github.com/temporalio/s2s-proxy/proto/1_22/api/history/v1"
	serialization122 "github.com/temporalio/s2s-proxy/proto/1_22/server/common/persistence/serialization"
)

var (
	curSerializer    = serialization.NewSerializer()
	legacySerializer = serialization122.NewSerializer()
	blobNsMap        = map[string]string{"ns-src": "ns-dst"}
)

// blobLog captures what the translator logs about blob repair.
type blobLog struct {
	mu   sync.Mutex
	kind string // none | repaired | failed
}

func (b *blobLog) add(level, msg string) {
	b.mu.Lock()
	defer b.mu.Unlock()
	switch {
	case level == "debug" && strings.HasPrefix(msg, "repaired invalid utf-8 in history event blob"):
		b.kind = "repaired"
	case level == "error" && strings.HasPrefix(msg, "failed to repair invalid utf-8 in history event blob"):
		b.kind = "failed"
	}
}
func (b *blobLog) Debug(msg string, _ ...tag.Tag)  { b.add("debug", msg) }
func (b *blobLog) Info(msg string, _ ...tag.Tag)   { b.add("info", msg) }
func (b *blobLog) Warn(msg string, _ ...tag.Tag)   { b.add("warn", msg) }
func (b *blobLog) Error(msg string, _ ...tag.Tag)  { b.add("error", msg) }
func (b *blobLog) DPanic(msg string, _ ...tag.Tag) { b.add("dpanic", msg) }
func (b *blobLog) Panic(msg string, _ ...tag.Tag)  { b.add("panic", msg) }
func (b *blobLog) Fatal(msg string, _ ...tag.Tag)  { b.add("fatal", msg) }

var _ log.Logger = (*blobLog)(nil)

// visitorOutcome: what the namespace visitor makes of a list of events.  The blob code hands the
// visitor a []*HistoryEvent (whole-batch skip rule for event types without namespace fields), so the
// reference does the same through the existing verif hook VerifVisitNamespace - the visitor alone,
// no blob code.  Events are translated in place.
func visitorOutcome(events []*historypb.HistoryEvent) (string, []*historypb.HistoryEvent) {
	m, err := interceptor.VerifVisitNamespace(events, blobNsMap)
	switch {
	case err != nil:
		return "err", nil
	case m:
		return "match", events
	}
	return "nomatch", events
}

type blobStages struct {
	empty                                 bool
	deser, legacy, repair, reser, redeser string
	visitor, ser                          string
	reference                             []*historypb.HistoryEvent // what the output must decode to when no error is due
	repairable                            bool
}

func (s blobStages) opLine() string {
	return fmt.Sprintf("blob empty=%d deser=%s legacy=%s repair=%s reser=%s redeser=%s visitor=%s ser=%s",
		b2i(s.empty), s.deser, s.legacy, s.repair, s.reser, s.redeser, s.visitor, s.ser)
}

// blobStagesFor executes the stages with independent means (serializers, own sanitiser, visitor on a History).
func blobStagesFor(data []byte) blobStages {
	s := blobStages{deser: "ok", legacy: "ok", repair: "unchanged", reser: "ok", redeser: "ok", visitor: "nomatch", ser: "ok"}
	if len(data) == 0 {
		s.empty = true
		return s
	}
	cur := &commonpb.DataBlob{EncodingType: enumspb.ENCODING_TYPE_PROTO3, Data: data}
	events, err := curSerializer.DeserializeEvents(cur)
	s.deser = stdKind(err)
	switch s.deser {
	case "ok":
		s.visitor, s.reference = visitorOutcome(events)
		return s
	case "other":
		return s
	}
	// the visitor sees whatever the failed deserialisation returned unless the repair replaces it
	s.visitor, _ = visitorOutcome(events)
	ev122, err := legacySerializer.DeserializeEvents(&common122.DataBlob{EncodingType: enums122.ENCODING_TYPE_PROTO3, Data: data})
	if err != nil {
		s.legacy = "err"
		return s
	}
	changed, tooDeep := false, false
	for _, e := range ev122 {
		c, d := sanitiseFailures(reflect.ValueOf(e))
		changed, tooDeep = changed || c, tooDeep || d
	}
	switch {
	case tooDeep:
		s.repair = "err"
		return s
	case !changed:
		return s
	}
	s.repair = "changed"
	out, err := legacySerializer.SerializeEvents(ev122, enums122.ENCODING_TYPE_PROTO3)
	if err != nil {
		s.reser = "err"
		return s
	}
	repaired, err := curSerializer.DeserializeEvents(&commonpb.DataBlob{EncodingType: enumspb.ENCODING_TYPE_PROTO3, Data: out.Data})
	if err != nil {
		s.redeser = "err"
		return s
	}
	s.repairable = true
	s.visitor, s.reference = visitorOutcome(repaired)
	return s
}

var c17BlobCarrier int

func c17Blob(e *Env, data []byte, kind string) {
	setup := "#blob " + hexOf(data)
	e.Emit(setup, "#")
	st := blobStagesFor(data)
	in := &commonpb.DataBlob{EncodingType: enumspb.ENCODING_TYPE_PROTO3, Data: append([]byte(nil), data...)}
	// the same bytes in one of three carriers: a repeated blob field and two single-blob fields (the translated / repaired
	// blob has to be written back into the message in each of them)
	lg := &blobLog{kind: "none"}
	tr := interceptor.NewNamespaceNameTranslator(lg, blobNsMap, blobNsMap)
	var matched bool
	var err error
	var out *commonpb.DataBlob
	carrier := c17BlobCarrier % 5
	c17BlobCarrier++
	switch carrier {
	case 0:
		resp := &adminservice.GetWorkflowExecutionRawHistoryV2Response{HistoryBatches: []*commonpb.DataBlob{in}}
		matched, err = tr.TranslateResponse(resp)
		out = resp.HistoryBatches[0]
	case 3, 4:
		// the blob among other, perfectly fine batches of the same list (first of two / in the middle of three): an error
		// about one batch is an error about the message, wherever the batch stands
		fine := func(id int64) *commonpb.DataBlob {
			b, _ := evSerializer.SerializeEvents([]*historypb.HistoryEvent{plainPadEvent(id)})
			return b
		}
		batches, pos := []*commonpb.DataBlob{in, fine(901)}, 0
		if carrier == 4 {
			batches, pos = []*commonpb.DataBlob{fine(900), in, fine(901)}, 1
		}
		resp := &adminservice.GetWorkflowExecutionRawHistoryV2Response{HistoryBatches: batches}
		matched, err = tr.TranslateResponse(resp)
		out = resp.HistoryBatches[pos]
	default:
		attrs := &replicationpb.HistoryTaskAttributes{NamespaceId: "ns-id", WorkflowId: "wf"}
		if carrier == 1 {
			attrs.Events = in
		} else {
			attrs.NewRunEvents = in
		}
		resp := &adminservice.StreamWorkflowReplicationMessagesResponse{Attributes: &adminservice.StreamWorkflowReplicationMessagesResponse_Messages{
			Messages: &replicationpb.WorkflowReplicationMessages{ReplicationTasks: []*replicationpb.ReplicationTask{{SourceTaskId: 1,
				Attributes: &replicationpb.ReplicationTask_HistoryTaskAttributes{HistoryTaskAttributes: attrs}}}, ExclusiveHighWatermark: 2}}}
		matched, err = tr.TranslateResponse(resp)
		if carrier == 1 {
			out = attrs.Events
		} else {
			out = attrs.NewRunEvents
		}
	}
	e.Count(fmt.Sprintf("blob_carrier_%d", carrier))
	result := "unchanged"
	switch {
	case err != nil:
		result = "error"
	case out != in:
		result = "rewritten"
	}
	e.Emit(st.opLine(), fmt.Sprintf("%s matched=%d log=%s", result, b2i(matched), lg.kind))
	e.Evals++
	e.Count("blob_kind_" + kind)
	e.Count("blob_result_" + result)
	e.Count("blob_log_" + lg.kind)
	e.Distinct(fnv(setup))
	bad := func(what, finding string) {
		v := map[string]any{"what": what + " (" + kind + ")", "ops": []string{setup}}
		if finding != "" {
			v["finding"] = finding
		}
		e.Violation(v)
	}
	if st.empty {
		return
	}
	// ---- monitor
	decodes := func(b *commonpb.DataBlob) ([]*historypb.HistoryEvent, bool) {
		ev, err := curSerializer.DeserializeEvents(b)
		return ev, err == nil
	}
	sameEvents := func(a, b []*historypb.HistoryEvent) bool {
		if len(a) != len(b) {
			return false
		}
		for i := range a {
			if !proto.Equal(a[i], b[i]) {
				return false
			}
		}
		return true
	}
	switch {
	case st.deser == "ok":
		// transparency: a blob the standard serializer accepts is only translated
		if err != nil {
			if st.visitor != "err" {
				bad("blob accepted by the standard serializer but an error was returned: "+err.Error(), "")
			}
			return
		}
		if lg.kind != "none" {
			bad("repair ran on a blob the standard serializer accepts", "")
		}
		got, ok := decodes(out)
		if !ok || !sameEvents(got, st.reference) {
			bad("blob accepted by the standard serializer: output differs from the translated standard decode", "")
		}
		if st.visitor == "nomatch" && out != in {
			bad("valid blob without any namespace match was rewritten", "")
		}
	case st.deser == "invalidutf8":
		if err != nil {
			if st.repairable && st.visitor != "err" {
				bad("blob with invalid UTF-8 only in failure messages was not repaired: "+err.Error(), "")
			}
			return
		}
		got, ok := decodes(out)
		switch {
		case !ok:
			// not repaired, no error: the statement's last clause
			bad("history blob with invalid UTF-8 that the repair cannot fix was passed on without an error (and without namespace translation)", "C17-blob-unrepairable-passed-silently")
		case !st.repairable || !sameEvents(got, st.reference):
			bad("repaired blob differs from the standard decode of the sanitised copy", "")
		}
	default:
		if err == nil {
			bad("blob the standard serializer rejects (non-UTF-8 error) was passed on without an error", "")
		}
	}
}

// genBlobCase builds a batch of legacy history events and serialises it with the legacy serializer.
func (g *msgGen) genBlobCase(evPaths []opath) (data []byte, kind string) {
	heT := reflect.TypeOf(history122.HistoryEvent{})
	n := 1 + g.r.IntN(4)
	events := make([]*history122.HistoryEvent, n)
	for i := range events {
		ev := reflect.New(heT)
		g.fill(ev.Elem(), 3)
		events[i] = ev.Interface().(*history122.HistoryEvent)
		events[i].EventId = int64(i + 1)
		if g.r.IntN(3) == 0 {
			events[i].EventType = enums122.EVENT_TYPE_WORKFLOW_EXECUTION_STARTED
			events[i].Attributes = &history122.HistoryEvent_WorkflowExecutionStartedEventAttributes{
				WorkflowExecutionStartedEventAttributes: &history122.WorkflowExecutionStartedEventAttributes{ParentWorkflowNamespace: []string{"ns-src", "other"}[g.r.IntN(2)]}}
		}
	}
	plant := func(depth int) {
		cur := reflect.ValueOf(events[g.r.IntN(n)]).Elem()
		p := evPaths[g.r.IntN(len(evPaths))]
		for _, s := range p.steps {
			cur = descend(cur, s, 1, 0)
		}
		msgs := make([]string, depth)
		for i := range msgs {
			msgs[i] = g.u8.validString(3)
		}
		msgs[g.r.IntN(min(depth, 10))] = g.u8.validString(2) + g.u8.invalid()
		if depth > 1 && g.r.IntN(2) == 0 {
			msgs[g.r.IntN(depth)] = g.u8.invalid()
		}
		cur.Addr().Interface().(*failure122.Failure).Cause = nil
		chainAt(cur, msgs)
	}
	other := func() bool {
		fs := otherStringFields(reflect.ValueOf(events[g.r.IntN(n)]))
		if len(fs) == 0 {
			return false
		}
		fs[g.r.IntN(len(fs))].SetString(g.u8.invalid())
		return true
	}
	switch k := g.r.IntN(100); {
	case k < 25:
		kind = "valid"
	case k < 55:
		kind = "failure-invalid"
		for i, m := 0, 1+g.r.IntN(3); i < m; i++ {
			plant(1 + g.r.IntN(5))
		}
	case k < 65:
		d := []int{9, 10, 11, 12}[g.r.IntN(4)]
		kind = fmt.Sprintf("chain-depth-%d", d)
		plant(d)
	case k < 80:
		kind = "other-field-invalid"
		if !other() {
			kind = "other-field-none-available"
		}
	case k < 88:
		kind = "other-field-and-failure-invalid"
		plant(1 + g.r.IntN(3))
		if !other() {
			kind = "failure-invalid"
		}
	default:
		kind = "garbled"
		if g.r.IntN(2) == 0 {
			plant(1 + g.r.IntN(3))
		}
	}
	blob, err := legacySerializer.SerializeEvents(events, enums122.ENCODING_TYPE_PROTO3)
	if err != nil {
		return nil, "marshal-error"
	}
	data = blob.Data
	if kind == "garbled" && len(data) > 0 {
		data = append([]byte(nil), data...)
		if g.r.IntN(2) == 0 {
			data = data[:g.r.IntN(len(data))]
			kind = "garbled-truncated"
		} else {
			for i, m := 0, 1+g.r.IntN(3); i < m; i++ {
				data[g.r.IntN(len(data))] = byte(g.r.IntN(256))
			}
			kind = "garbled-bytes"
		}
	}
	return data, kind
}

// legacyRoundTripBlobs passes every event blob inside m through the v1.22 schema (decode + encode with the legacy
// serializer), as the blob repair does: fields unknown to v1.22 do not survive.
func legacyRoundTripBlobs(m protoreflect.Message) {
	m.Range(func(fd protoreflect.FieldDescriptor, v protoreflect.Value) bool {
		switch {
		case fd.IsMap():
			if fd.MapValue().Message() != nil {
				v.Map().Range(func(_ protoreflect.MapKey, mv protoreflect.Value) bool {
					legacyRoundTripBlobs(mv.Message())
					return true
				})
			}
		case fd.Message() != nil && fd.Message().FullName() == "temporal.api.common.v1.DataBlob":
			if nonEventBlobFields[string(fd.FullName())] {
				return true
			}
			fix := func(bm protoreflect.Message) {
				blob := bm.Interface().(*commonpb.DataBlob)
				if len(blob.GetData()) == 0 {
					return
				}
				ev122, err := legacySerializer.DeserializeEvents(&common122.DataBlob{EncodingType: enums122.ENCODING_TYPE_PROTO3, Data: blob.Data})
				if err != nil {
					return
				}
				if out, err := legacySerializer.SerializeEvents(ev122, enums122.ENCODING_TYPE_PROTO3); err == nil {
					blob.Data = out.Data
				}
			}
			if fd.IsList() {
				for i := 0; i < v.List().Len(); i++ {
					fix(v.List().Get(i).Message())
				}
			} else {
				fix(v.Message())
			}
		case fd.Message() != nil:
			if fd.IsList() {
				for i := 0; i < v.List().Len(); i++ {
					legacyRoundTripBlobs(v.List().Get(i).Message())
				}
			} else {
				legacyRoundTripBlobs(v.Message())
			}
		}
		return true
	})
}
