package eng

// A scripted world around the REAL mux session pool (C10) and, optionally, the real
// grpcutil.MultiClientConn fed by it (C11):
//
//	mux.NewMuxProvider + mux.NewCustomMultiMuxManager  with a fake connProvider whose NewConnection
//	blocks until the script supplies the next result (error, or one end of a net.Pipe whose other
//	end the harness plays: real yamux peer, silent, mute, closing, garbage), or
//	mux.NewMuxReceiverProvider on a loopback TCP listener with the harness dialling (mode "tcp").
//
// Pipe worlds run inside ONE testing/synctest bubble per engine run: synctest.Wait() is the
// quiescence test and yamux's 10 s / 30 s timers run on the bubble's virtual clock.  (yamux keeps
// its timers in a package-level sync.Pool, so a process must not run yamux in two bubbles, nor in
// a bubble and then outside it, without flushing that pool — see flushYamuxTimerPool.)

import (
	"context"
	"errors"
	"fmt"
	"io"
	"net"
	"os"
	"runtime"
	"sort"
	"strconv"
	"strings"
	"sync"
	"sync/atomic"
	"syscall"
	"testing"
	"testing/synctest"
	"time"

	"github.com/hashicorp/yamux"
	dto "github.com/prometheus/client_model/go"
	"go.temporal.io/server/common/log"
	"google.golang.org/grpc"
	"google.golang.org/grpc/codes"
	"google.golang.org/grpc/status"
	"google.golang.org/protobuf/types/known/emptypb"
	"google.golang.org/protobuf/types/known/wrapperspb"

	"github.com/temporalio/s2s-proxy/config"
	"github.com/temporalio/s2s-proxy/metrics"
	"github.com/temporalio/s2s-proxy/transport/grpcutil"
	"github.com/temporalio/s2s-proxy/transport/mux"
)

// flushYamuxTimerPool empties yamux's package-level timer pool (two GC cycles clear a sync.Pool:
// primary -> victim -> dropped).  Needed between a synctest bubble and code outside it.
func flushYamuxTimerPool() {
	runtime.GC()
	runtime.GC()
	runtime.GC()
}

// ---- the fake connProvider ---------------------------------------------------------------

type connResult struct {
	c   net.Conn
	err error
}

// scriptCP satisfies mux's (unexported-named) connProvider interface.
type scriptCP struct {
	ch      chan connResult
	pending atomic.Int32
	closeCh chan struct{}
	addr    string
}

func (p *scriptCP) NewConnection() (net.Conn, error) {
	p.pending.Add(1)
	r := <-p.ch
	p.pending.Add(-1)
	return r.c, r.err
}
func (p *scriptCP) CloseCh() <-chan struct{} { return p.closeCh }
func (p *scriptCP) Address() string          { return p.addr }

// trackedConn is what the code under test gets: it records Close().
type trackedConn struct {
	net.Conn
	closed     atomic.Bool
	closeDelay atomic.Int64 // nanoseconds the first Close takes (a TLS close_notify on a stalled link, ...)
}

func (t *trackedConn) Close() error {
	if d := t.closeDelay.Swap(0); d > 0 {
		time.Sleep(time.Duration(d))
	}
	t.closed.Store(true)
	return t.Conn.Close()
}

// freezeConn is the harness end of a pipe; freeze() makes the peer go completely quiet without
// closing (reads abort, writes block, Close is swallowed) so that only keep-alives can notice.
type freezeConn struct {
	net.Conn
	frozen chan struct{}
	dead   chan struct{}
	once   sync.Once
	fonce  sync.Once
	pmu    sync.Mutex
	resume chan struct{} // non-nil while the link is stalled (pause): data is delayed, nothing is lost, nothing is closed
}

// pause stalls the link in both directions until unpause: a latency spike, not a failure.
func (f *freezeConn) pause() {
	f.pmu.Lock()
	if f.resume == nil {
		f.resume = make(chan struct{})
	}
	f.pmu.Unlock()
}
func (f *freezeConn) unpause() {
	f.pmu.Lock()
	if f.resume != nil {
		close(f.resume)
		f.resume = nil
	}
	f.pmu.Unlock()
}
func (f *freezeConn) waitResume() {
	f.pmu.Lock()
	ch := f.resume
	f.pmu.Unlock()
	if ch != nil {
		select {
		case <-ch:
		case <-f.dead:
		}
	}
}

func newFreezeConn(c net.Conn) *freezeConn {
	return &freezeConn{Conn: c, frozen: make(chan struct{}), dead: make(chan struct{})}
}
func (f *freezeConn) isFrozen() bool {
	select {
	case <-f.frozen:
		return true
	default:
		return false
	}
}
func (f *freezeConn) freeze() {
	f.fonce.Do(func() {
		close(f.frozen)
		_ = f.Conn.SetReadDeadline(time.Unix(1, 0)) // abort a Read already blocked in the pipe
	})
}
func (f *freezeConn) Read(p []byte) (int, error) {
	if f.isFrozen() {
		<-f.dead
		return 0, io.ErrClosedPipe
	}
	n, err := f.Conn.Read(p)
	if err != nil && f.isFrozen() {
		<-f.dead
		return 0, io.ErrClosedPipe
	}
	f.waitResume() // stalled link: what was read is handed on only when the stall is over
	return n, err
}
func (f *freezeConn) Write(p []byte) (int, error) {
	if f.isFrozen() {
		<-f.dead
		return 0, io.ErrClosedPipe
	}
	f.waitResume()
	return f.Conn.Write(p)
}
func (f *freezeConn) Close() error {
	if f.isFrozen() {
		f.once.Do(func() { close(f.dead) }) // local users of this end give up, but a stalled peer sends no FIN: the pipe stays open
		return nil
	}
	return f.forceClose()
}
func (f *freezeConn) forceClose() error {
	f.once.Do(func() { close(f.dead) })
	return f.Conn.Close()
}

// ---- the world -----------------------------------------------------------------------------

type mwConn struct {
	cid          int
	prov         *trackedConn   // pipe mode: the end handed to the code under test
	harn         net.Conn       // the harness end (pipe end behind a freezeConn, or the dialled TCP conn)
	frz          *freezeConn    // pipe mode only
	sess         *yamux.Session // pipe mode: the session the harness's sessionFn created for the code under test
	sessFail     bool           // pipe mode: sessionFn must fail on this connection
	peer         *yamux.Session // the harness's own yamux session on its end (healthy peers)
	srv          *grpc.Server   // C11: echo server on the peer session
	lis          *countingListener
	handed       bool          // passed to addNewMux
	lateAdd      bool          // ... after the lifetime had ended
	peerReady    chan struct{} // closed once m.peer is set (the harness session answers pings before startPeer has returned)
	dieBeforeAdd bool          // the peer answers the first ping and hangs up before addNewMux looks at the session
	hiccup       bool          // the link stalls for 11 s right after the provider's handshake ping was answered: the session's first health-check ping times out, the session survives
	muxID        string
	harnShut     bool // the harness closed / abandoned its end itself
	sawEOF       atomic.Bool
}

type muxWorld struct {
	t0        time.Time // when the manager was started (its housekeeping ticker fires every minute from here)
	t         *testing.T
	n         int
	role      string
	tcp       bool
	bubble    bool
	ctx       context.Context
	cancelFn  context.CancelFunc
	cancelled bool
	cp        *scriptCP
	prov      mux.MuxProvider
	mgr       mux.MultiMuxManager
	mcc       *grpcutil.MultiClientConn
	mu        sync.Mutex
	conns     []*mwConn
	byProv    map[net.Conn]*mwConn
	inflight  *mwConn
	addr      string
	withGRPC  bool
	echoGate  chan struct{} // C11: when non-nil, echo handlers block on it after reporting
	echoSeen  chan string
	labels    []string
}

var muxWorldSeq atomic.Int64

func (w *muxWorld) lookup(c net.Conn) *mwConn {
	w.mu.Lock()
	defer w.mu.Unlock()
	if m, ok := w.byProv[c]; ok {
		return m
	}
	// tcp mode: match the accepted conn to the dialled one by address
	if c != nil && c.RemoteAddr() != nil {
		for _, m := range w.conns {
			if m.harn != nil && m.harn.LocalAddr() != nil && m.harn.LocalAddr().String() == c.RemoteAddr().String() {
				return m
			}
		}
	}
	return nil
}

func yamuxQuiet() *yamux.Config {
	cfg := yamux.DefaultConfig()
	cfg.LogOutput = io.Discard
	return cfg
}

func newMuxWorld(t *testing.T, n int, role string, tcp, bubble, withGRPC bool) *muxWorld {
	w := &muxWorld{t: t, n: n, role: role, tcp: tcp, bubble: bubble, byProv: map[net.Conn]*mwConn{}, withGRPC: withGRPC}
	w.ctx, w.cancelFn = context.WithCancel(context.Background())
	name := fmt.Sprintf("mw%d", muxWorldSeq.Add(1))
	w.labels = []string{name, role, "verif"}
	logger := log.NewNoopLogger()
	var listeners []mux.OnConnectionListUpdate
	if withGRPC {
		var err error
		w.mcc, err = grpcutil.NewMultiClientConn(w.ctx, name, grpcutil.MakeDialOptions(nil, metrics.GetGRPCClientMetrics("outbound"))...)
		if err != nil {
			t.Fatal(err)
		}
		listeners = append(listeners, w.mcc.OnConnectionListUpdate)
	}
	builder := func(cb mux.AddNewMux, lt context.Context) (mux.MuxProvider, error) {
		wrapped := func(s *yamux.Session, c net.Conn) {
			m := w.lookup(c)
			late := lt.Err() != nil
			if m != nil && m.dieBeforeAdd {
				select { // the harness session may have answered the ping before startPeer stored it
				case <-m.peerReady:
				case <-time.After(10 * time.Second):
				}
			}
			if m != nil && m.dieBeforeAdd && m.peer != nil {
				// the narrow window between the provider's successful Ping and AddConnection: the peer is gone already
				m.harnShut = true
				if m.srv != nil {
					m.srv.Stop()
				}
				_ = m.peer.Close()
				select { // the provider's session notices (EOF in its receive loop) before we hand it over
				case <-s.CloseChan():
				case <-time.After(10 * time.Second):
				}
			}
			if m != nil && m.hiccup && m.frz != nil {
				m.frz.pause()
				go func() { time.Sleep(11 * time.Second); m.frz.unpause() }()
			}
			before := w.mgr.GetMuxConnections()
			cb(s, c)
			after := w.mgr.GetMuxConnections()
			if m != nil {
				m.handed, m.lateAdd = true, late
				for k := range after {
					if _, ok := before[k]; !ok {
						m.muxID = k
					}
				}
			}
		}
		if tcp {
			p, err := mux.NewMuxReceiverProvider(lt, name, wrapped, int64(n), config.TCPTLSInfo{ConnectionString: "127.0.0.1:0"}, w.labels, logger)
			if err == nil {
				w.addr = p.Address()
			}
			w.prov = p
			return p, err
		}
		w.cp = &scriptCP{ch: make(chan connResult), closeCh: make(chan struct{}), addr: "pipe"}
		if role == "receiver" {
			go func() { <-lt.Done(); close(w.cp.closeCh) }() // like receivingConnProvider: cleaned up once the lifetime ends
		} else {
			close(w.cp.closeCh) // like establishingConnProvider: nothing to clean up
		}
		sessionFn := func(c net.Conn) (*yamux.Session, error) {
			m := w.lookup(c)
			if m != nil && m.sessFail {
				return nil, errors.New("scripted sessionFn failure") // like yamux.Client on a bad config: the conn is left alone
			}
			var s *yamux.Session
			var err error
			if role == "receiver" {
				s, err = yamux.Server(c, yamuxQuiet())
			} else {
				s, err = yamux.Client(c, yamuxQuiet())
			}
			if m != nil {
				m.sess = s
			}
			return s, err
		}
		w.prov = mux.NewMuxProvider(lt, name, w.cp, sessionFn, int64(n), wrapped, w.labels, logger)
		return w.prov, nil
	}
	var err error
	w.mgr, err = mux.NewCustomMultiMuxManager(w.ctx, name, builder, nil, listeners, logger)
	if err != nil {
		t.Fatal(err)
	}
	w.t0 = time.Now()
	w.mgr.Start()
	return w
}

func (w *muxWorld) sleep(d time.Duration) {
	if w.bubble {
		time.Sleep(d) // virtual
	}
}

// regIDs: sorted (numerically) keys of the manager's session table
func (w *muxWorld) regIDs() []string {
	m := w.mgr.GetMuxConnections()
	ks := make([]string, 0, len(m))
	for k := range m {
		ks = append(ks, k)
	}
	sort.Slice(ks, func(i, j int) bool {
		a, _ := strconv.Atoi(ks[i])
		b, _ := strconv.Atoi(ks[j])
		return a < b
	})
	return ks
}

func (w *muxWorld) provExited() bool {
	select {
	case <-w.prov.CloseCh():
		return true
	default:
		return false
	}
}

func (w *muxWorld) connecting() bool {
	if w.tcp {
		// Accept() is not observable; after quiescence the provider is accepting iff a slot is free,
		// nothing is in flight and the listener is still open
		return !w.cancelled && w.inflight == nil && len(w.regIDs()) < w.n
	}
	return w.cp.pending.Load() > 0
}

func (w *muxWorld) phase() string {
	switch {
	case w.provExited():
		return "exited"
	case w.connecting():
		return "connecting"
	case w.inflight != nil:
		return "pinging"
	default:
		return "blocked"
	}
}

func (m *mwConn) harnessSeesOpen() bool {
	if m.harnShut {
		return false
	}
	if m.peer != nil {
		return !m.peer.IsClosed()
	}
	return !m.sawEOF.Load()
}

func (w *muxWorld) counts() (openConns, totalConns, openSess int) {
	for _, m := range w.conns {
		totalConns++
		if w.tcp {
			if m.harnessSeesOpen() {
				openConns++
			}
			continue
		}
		if !m.prov.closed.Load() {
			openConns++
		}
		if m.sess != nil && !m.sess.IsClosed() {
			openSess++
		}
	}
	return
}

func (w *muxWorld) rawObserve() string {
	reg := "-"
	if ids := w.regIDs(); len(ids) > 0 {
		reg = strings.Join(ids, ",")
	}
	b := func(x bool) string {
		if x {
			return "1"
		}
		return "0"
	}
	oc, tc, os := w.counts()
	if w.tcp {
		return fmt.Sprintf("reg=%s can=%s open=%d closed=%s", reg, b(w.mgr.CanAcceptConnections()), oc, b(w.mgr.IsClosed()))
	}
	return fmt.Sprintf("reg=%s can=%s phase=%s conns=%d/%d sess=%d closed=%s", reg, b(w.mgr.CanAcceptConnections()), w.phase(), oc, tc, os, b(w.mgr.IsClosed()))
}

// settle waits for quiescence: synctest.Wait() in a bubble; outside, until `until` (if any) holds and
// the observation has been stable for a while.
func (w *muxWorld) settle(until func() bool) {
	if w.bubble {
		synctest.Wait()
		return
	}
	deadline := time.Now().Add(8 * time.Second)
	for until != nil && !until() && time.Now().Before(deadline) {
		time.Sleep(2 * time.Millisecond)
	}
	// after the lifetime has ended and nothing is in flight, every path of the provider returns and onClose finishes
	for w.cancelled && w.inflight == nil && !w.mgr.IsClosed() && time.Now().Before(deadline) {
		time.Sleep(2 * time.Millisecond)
	}
	last, stable := w.rawObserve(), 0
	for stable < 12 && time.Now().Before(deadline) {
		time.Sleep(5 * time.Millisecond)
		cur := w.rawObserve()
		if cur == last {
			stable++
		} else {
			last, stable = cur, 0
		}
	}
}

func (w *muxWorld) observe() string { return w.rawObserve() }

// ---- ops -------------------------------------------------------------------------------------

// connOK hands the provider a fresh connection (pipe mode) / dials the listener (tcp mode).
func (w *muxWorld) connOK(sessFail bool) {
	m := &mwConn{cid: len(w.conns), sessFail: sessFail, peerReady: make(chan struct{})}
	if w.tcp {
		c, err := net.DialTimeout("tcp", w.addr, 3*time.Second)
		if err != nil {
			w.t.Fatalf("dial %s: %v", w.addr, err)
		}
		m.harn = c
		w.mu.Lock()
		w.conns = append(w.conns, m)
		w.mu.Unlock()
		w.inflight = m
		w.settle(nil)
		return
	}
	a, b := net.Pipe()
	m.prov = &trackedConn{Conn: a}
	m.frz = newFreezeConn(b)
	m.harn = m.frz
	w.mu.Lock()
	w.conns = append(w.conns, m)
	w.byProv[m.prov] = m
	w.mu.Unlock()
	w.cp.ch <- connResult{c: m.prov}
	if !sessFail {
		w.inflight = m
	}
	w.settle(nil)
}

// the kinds of error a connection attempt really ends with, in rotation: an opaque one, a genuine net timeout (a peer
// that drops SYNs; Go's net timeout errors also match context.DeadlineExceeded), connection refused, EOF
var dialErrKinds = func() []error {
	_, timeoutErr := net.DialTimeout("tcp", "127.0.0.1:9", time.Nanosecond)
	if timeoutErr == nil || !errors.Is(timeoutErr, context.DeadlineExceeded) {
		timeoutErr = &net.OpError{Op: "dial", Net: "tcp", Err: os.ErrDeadlineExceeded}
	}
	return []error{errors.New("scripted dial failure"), timeoutErr, &net.OpError{Op: "dial", Net: "tcp", Err: syscall.ECONNREFUSED}, io.EOF}
}()

var dialErrSeq atomic.Int64

func (w *muxWorld) connErr() {
	w.cp.ch <- connResult{err: dialErrKinds[int(dialErrSeq.Add(1))%len(dialErrKinds)]}
	w.settle(nil)
}

// startPeer runs the harness's real yamux session on its end (and, for C11, an echo gRPC server on it).
func (w *muxWorld) startPeer(m *mwConn) {
	var err error
	if w.role == "receiver" {
		m.peer, err = yamux.Client(m.harn, yamuxQuiet())
	} else {
		m.peer, err = yamux.Server(m.harn, yamuxQuiet())
	}
	if err != nil {
		w.t.Fatal(err)
	}
	if m.peerReady != nil {
		select {
		case <-m.peerReady:
		default:
			close(m.peerReady)
		}
	}
	if w.withGRPC {
		m.lis = &countingListener{Listener: m.peer}
		m.srv = grpc.NewServer(grpc.UnknownServiceHandler(func(_ any, ss grpc.ServerStream) error {
			var e emptypb.Empty
			if err := ss.RecvMsg(&e); err != nil {
				return err
			}
			if g := w.echoGate; g != nil {
				select {
				case w.echoSeen <- m.muxID:
				default:
				}
				select {
				case <-g:
				case <-ss.Context().Done():
					return status.Error(codes.Canceled, "gone")
				}
			}
			return ss.SendMsg(wrapperspb.String(fmt.Sprint(m.cid)))
		}))
		go func() { _ = m.srv.Serve(m.lis) }()
	}
}

// peer resolves the ping that is in flight on the connection handed out last.
func (w *muxWorld) peer(kind string) {
	m := w.inflight
	w.inflight = nil
	switch kind {
	case "ping-ok":
		before := len(w.regIDs())
		w.startPeer(m)
		w.settle(func() bool { return w.cancelled || len(w.regIDs()) > before })
	case "ping-hiccup": // answers the ping, then the link stalls for 11 s (no failure, nothing lost), then all is well again
		before := len(w.regIDs())
		m.hiccup = true
		w.startPeer(m)
		w.settle(func() bool { return w.cancelled || len(w.regIDs()) > before })
		time.Sleep(17 * time.Second) // 11 s of stall, then time for the client connection's re-dial back-off (about 1 s) to pass
		w.settle(nil)
	case "ping-die": // answers the ping, then hangs up before the provider has registered the session
		m.dieBeforeAdd = true
		w.startPeer(m)
		w.settle(func() bool {
			if w.cancelled {
				return true
			}
			if !m.handed {
				return false
			}
			for _, id := range w.regIDs() {
				if id == m.muxID {
					return false
				}
			}
			return true
		})
	case "silent": // never reads: the provider's ping write times out (10 s); 41 s also lets a keep-alive notice
		w.sleep(41 * time.Second)
		w.settle(nil)
	case "mute": // reads everything, answers nothing: the ping reply times out
		go func() { _, _ = io.Copy(io.Discard, m.harn) }()
		w.sleep(41 * time.Second)
		w.settle(nil)
	case "slow": // alive but too late for the first ping: 11 s of silence, then a perfectly healthy yamux peer
		w.sleep(11 * time.Second)
		w.settle(nil)
		w.startPeer(m)
		w.settle(nil)
	case "eof":
		m.harnShut = true
		_ = m.harn.Close()
		w.settle(nil)
	case "garbage":
		m.harnShut = true
		go func() {
			_, _ = m.harn.Write([]byte{0xde, 0xad, 0xbe, 0xef, 1, 2, 3, 4, 5, 6, 7, 8})
			_ = m.harn.Close()
		}()
		w.settle(nil)
	}
}

// nthRegistered: the connection registered under the k-th key (k modulo the number of keys)
func (w *muxWorld) nthRegistered(k int) *mwConn {
	ids := w.regIDs()
	if len(ids) == 0 {
		return nil
	}
	id := ids[k%len(ids)]
	for _, m := range w.conns {
		if m.handed && !m.lateAdd && m.muxID == id {
			return m
		}
	}
	w.t.Fatalf("registered id %s has no harness connection", id)
	return nil
}

func (w *muxWorld) die(k int, kind string) {
	m := w.nthRegistered(k)
	if m == nil {
		return
	}
	gone := func() bool {
		for _, id := range w.regIDs() {
			if id == m.muxID {
				return false
			}
		}
		return true
	}
	switch kind {
	case "remote":
		m.harnShut = true
		if m.srv != nil {
			m.srv.Stop()
		}
		_ = m.peer.Close()
	case "local":
		w.mgr.GetMuxConnections()[m.muxID].Close()
	case "slowclose":
		// a local close whose teardown is slow (the connection's Close takes 5 s) and straddles the manager's next
		// once-a-minute housekeeping tick: still one session ending, one slot to refill
		w.inflight = nil // a ping still in flight times out while we wait for the tick
		el := time.Since(w.t0)
		next := (el/time.Minute + 1) * time.Minute
		if wait := next - 2*time.Second - el; wait > 0 {
			time.Sleep(wait)
		} else {
			time.Sleep(wait + time.Minute)
		}
		if m.prov != nil {
			m.prov.closeDelay.Store(int64(5 * time.Second))
		}
		if ms := w.mgr.GetMuxConnections()[m.muxID]; ms != nil {
			ms.Close()
		}
		time.Sleep(9 * time.Second)
	case "stall":
		w.inflight = nil // a ping still in flight times out while we wait
		m.harnShut = true
		m.frz.freeze()
		w.sleep(45 * time.Second)
	}
	w.settle(gone)
}

func (w *muxWorld) cancel() {
	w.cancelled = true
	w.cancelFn()
	w.settle(func() bool { return w.inflight != nil || w.mgr.IsClosed() })
}

func (w *muxWorld) wait() {
	w.inflight = nil // a ping still in flight times out (pipe mode)
	w.sleep(61 * time.Second)
	w.settle(nil)
}

// heal: the peer is reachable and healthy from now on
func (w *muxWorld) heal() {
	if w.cancelled {
		return
	}
	for i := 0; i < 2*w.n+4; i++ {
		if w.inflight != nil {
			w.peer("ping-ok")
			continue
		}
		if !w.connecting() {
			return
		}
		w.connOK(false)
	}
}

func (w *muxWorld) end() {
	if w.inflight != nil {
		w.peer("eof")
	}
	if !w.tcp && w.cp.pending.Load() > 0 {
		w.connErr()
	}
	w.settle(func() bool { return !w.cancelled || w.mgr.IsClosed() })
}

// teardown releases everything the harness holds so that no goroutine survives the script.
func (w *muxWorld) teardown() {
	w.cancelFn()
	if !w.tcp && w.bubble {
		synctest.Wait()
		if w.cp.pending.Load() > 0 {
			w.cp.ch <- connResult{err: io.EOF}
		}
	}
	for _, m := range w.conns {
		if m.frz != nil {
			_ = m.frz.forceClose()
		} else if m.harn != nil {
			_ = m.harn.Close()
		}
		if m.srv != nil {
			m.srv.Stop()
		}
		if m.peer != nil {
			_ = m.peer.Close()
		}
		if m.prov != nil && !m.prov.closed.Load() {
			_ = m.prov.Conn.Close() // a leaked provider-side end: close the pipe under it so that a zombie session dies
		}
	}
	if w.mcc != nil {
		_ = w.mcc.Close()
	}
	if w.bubble {
		synctest.Wait()
	} else {
		time.Sleep(20 * time.Millisecond)
	}
}

// apply executes one op line (everything after `begin`); inapplicable ops are no-ops.
func (w *muxWorld) apply(op string) bool {
	f := strings.Fields(op)
	switch {
	case len(f) == 2 && f[0] == "conn":
		if !w.connecting() {
			return true
		}
		switch f[1] {
		case "ok":
			w.connOK(false)
		case "sessfail":
			if w.tcp {
				return false
			}
			w.connOK(true)
		case "err":
			if w.tcp {
				return false
			}
			w.connErr()
		default:
			return false
		}
	case len(f) == 2 && f[0] == "peer":
		switch f[1] {
		case "ping-ok", "eof", "garbage":
		case "silent", "mute", "slow", "ping-die":
			if w.tcp {
				return false
			}
		default:
			return false
		}
		if w.inflight == nil {
			return true
		}
		w.peer(f[1])
	case len(f) == 3 && f[0] == "die":
		k, err := strconv.Atoi(f[1])
		if err != nil || k < 0 {
			return false
		}
		switch f[2] {
		case "remote", "local":
		case "stall", "slowclose":
			if w.tcp {
				return false
			}
		default:
			return false
		}
		w.die(k, f[2])
	case len(f) == 1 && f[0] == "wait":
		if w.tcp {
			return false
		}
		w.wait()
	case len(f) == 1 && f[0] == "cancel":
		w.cancel()
	case len(f) == 1 && f[0] == "heal":
		w.heal()
	case len(f) == 1 && f[0] == "end":
		w.end()
	default:
		return false
	}
	return true
}

// ---- C11 helpers -----------------------------------------------------------------------------

// countingListener counts the yamux streams (= gRPC transports) a peer session has accepted and still holds.
type countingListener struct {
	net.Listener
	live atomic.Int32
	all  atomic.Int32
}

type countedStream struct {
	net.Conn
	l    *countingListener
	once sync.Once
}

func (c *countedStream) Close() error {
	c.once.Do(func() { c.l.live.Add(-1) })
	return c.Conn.Close()
}

func (l *countingListener) Accept() (net.Conn, error) {
	c, err := l.Listener.Accept()
	if err != nil {
		return nil, err
	}
	l.live.Add(1)
	l.all.Add(1)
	return &countedStream{Conn: c, l: l}, nil
}

// counterValue reads a prometheus counter of the repository's metrics package.
func muxErrorCount(labels []string, kind string) float64 {
	c, err := metrics.MuxErrors.GetMetricWithLabelValues(append(append([]string{}, labels...), kind)...)
	if err != nil {
		return 0
	}
	var m dto.Metric
	if err := c.Write(&m); err != nil || m.Counter == nil {
		return 0
	}
	return m.Counter.GetValue()
}
