package eng

// Stand-alone reproductions of the two C09 findings on the real code (no model, no harness plumbing):
//
//	cd /verif/go && GOFLAGS=-mod=mod GOPROXY=off go test -tags verif -run 'TestC09Repro' -v ./eng

import (
	"encoding/json"
	"testing"
	"testing/synctest"
	"time"

	"go.temporal.io/server/client/history"
	"go.temporal.io/server/common/channel"
	"go.temporal.io/server/common/log"

	"github.com/temporalio/s2s-proxy/config"
	"github.com/temporalio/s2s-proxy/encryption"
	"github.com/temporalio/s2s-proxy/proxy"
)

func reproManager(name string) proxy.ShardManager {
	ml := &config.MemberlistConfig{Enabled: true, NodeName: name, ProxyAddresses: map[string]string{"A": "a:1", "B": "b:1", "C": "c:1"}}
	sm := proxy.NewShardManager(ml, config.ShardCountConfig{Mode: config.ShardCountRouting}, encryption.TLSConfig{}, noopLoggers())
	proxy.VerifSetupCallbacks(sm)
	return sm
}

// Two instances register the same shard within one broadcast latency: B's whole RegisterShard falls between A's
// addLocalShard (Created) and A's broadcast (stamp).  Both announcements are delivered.  Nobody owns the shard
// afterwards, although both local streams are alive; a third instance with fresh state cannot deliver to it.
func TestC09ReproOverlap(t *testing.T) {
	synctest.Test(t, func(t *testing.T) {
		shard := history.ClusterShardID{ClusterID: 2, ShardID: 1}
		src := history.ClusterShardID{ClusterID: 1, ShardID: 1}
		sms := map[string]proxy.ShardManager{"A": reproManager("A"), "B": reproManager("B"), "C": reproManager("C")}
		for a, x := range sms { // everybody knows everybody (push/pull)
			for b, y := range sms {
				if a != b {
					proxy.VerifMergeRemoteState(y, proxy.VerifLocalState(x))
				}
			}
		}
		sent := map[string][]byte{} // the register announcement of each instance
		proxy.VerifSetBroadcastTap(func(node string, data []byte) {
			var m proxy.ShardMessage
			_ = json.Unmarshal(data, &m)
			if m.Type == "register" {
				sent[node] = data
			}
		})
		defer proxy.VerifSetBroadcastTap(nil)
		releaseA := make(chan struct{})
		first := true
		proxy.VerifSetPointHandler(func(name string) {
			if name == "RegisterShard.afterAdd" && first { // only A's registration is held between Created and the broadcast
				first = false
				<-releaseA
			}
		})
		defer proxy.VerifSetPointHandler(nil)

		chA, chB := make(chan proxy.RoutedMessage, 10), make(chan proxy.RoutedMessage, 10)
		time.Sleep(time.Millisecond)
		sms["A"].SetRemoteSendChan(shard, chA) // proxyStreamSender.Run: channel, then RegisterShard
		go sms["A"].RegisterShard(shard)       // Created = 1 ms, parked before the broadcast
		synctest.Wait()
		time.Sleep(time.Millisecond)
		sms["B"].SetRemoteSendChan(shard, chB)
		sms["B"].RegisterShard(shard) // Created = 2 ms, announced at 2 ms
		time.Sleep(time.Millisecond)
		close(releaseA) // A's announcement is stamped 3 ms
		synctest.Wait()

		proxy.VerifNotifyMsg(sms["A"], sent["B"]) // A: Created 1 < stamp 2  => evicted (correct: B is newer)
		proxy.VerifNotifyMsg(sms["B"], sent["A"]) // B: Created 2 < stamp 3  => evicted by the OLDER claim
		proxy.VerifNotifyMsg(sms["C"], sent["A"])
		proxy.VerifNotifyMsg(sms["C"], sent["B"])
		for _, n := range []string{"A", "B"} { // C pulls fresh state from both
			proxy.VerifMergeRemoteState(sms["C"], proxy.VerifLocalState(sms[n]))
		}
		_, liveA := sms["A"].GetRemoteSendChan(shard)
		_, liveB := sms["B"].GetRemoteSendChan(shard)
		okC := sms["C"].DeliverMessagesToShardOwner(shard, &proxy.RoutedMessage{SourceShard: src, Resp: msgResp(5)}, channel.NewShutdownOnce(), log.NewNoopLogger())
		t.Logf("local shards: A=%v B=%v; live local streams: A=%v B=%v; delivery from C: %v",
			sms["A"].GetLocalShards(), sms["B"].GetLocalShards(), liveA, liveB, okC)
		if len(sms["A"].GetLocalShards()) != 0 || len(sms["B"].GetLocalShards()) != 0 || !liveA || !liveB || okC {
			t.Fatalf("the finding did not reproduce")
		}
	})
}

// A full-state snapshot of an instance that is merged after NotifyLeave removed it puts the departed instance back.
func TestC09ReproStaleMerge(t *testing.T) {
	shard := history.ClusterShardID{ClusterID: 2, ShardID: 1}
	a, b := reproManager("A"), reproManager("B")
	a.RegisterShard(shard)
	snapshot := proxy.VerifLocalState(a) // what a push/pull with A has just read
	proxy.VerifNotifyLeave(b, "A")       // A leaves; B processes the event
	proxy.VerifMergeRemoteState(b, snapshot)
	st, _ := b.GetRemoteShardsForPeer("")
	t.Logf("B's remoteNodeStates after leave + delayed merge: %v", proxy.VerifRemoteNodeStates(b))
	if _, listed := st["A"]; !listed {
		t.Fatalf("the finding did not reproduce")
	}
}
