package eng

import (
	"context"
	"fmt"
	"io"
	"math/big"
	"strconv"
	"strings"
	"testing"
	"time"

	"go.temporal.io/server/api/adminservice/v1"
	"go.temporal.io/server/client/history"
	servercommon "go.temporal.io/server/common"
	"google.golang.org/grpc"
	"google.golang.org/grpc/codes"
	"google.golang.org/grpc/metadata"
	"google.golang.org/grpc/status"
	"google.golang.org/protobuf/proto"

	"github.com/temporalio/s2s-proxy/common"
	"github.com/temporalio/s2s-proxy/config"
	"github.com/temporalio/s2s-proxy/proxy"
)

// ---- C07: LCM-mode shard arithmetic and wiring (engine "shard") ----------------------------

func mapUnique(src, tgt, sid int32) (res string) {
	defer func() {
		if p := recover(); p != nil {
			res = "panic"
		}
	}()
	return fmt.Sprintf("ok %d", proxy.VerifMapShardIDUnique(src, tgt, sid))
}

func trueLCM(a, b int64) int64 {
	x, y := big.NewInt(a), big.NewInt(b)
	g := new(big.Int).GCD(nil, nil, x, y)
	return new(big.Int).Div(new(big.Int).Mul(x, y), g).Int64()
}

const adminStreamMethod = "/temporal.server.api.adminservice.v1.AdminService/StreamWorkflowReplicationMessages"
const adminDescribeMethod = "/temporal.server.api.adminservice.v1.AdminService/DescribeCluster"

// openStreamThrough opens a replication stream through conn with the given metadata, waits for
// it to end, and returns the error (nil on clean EOF).
func openStreamThrough(conn *grpc.ClientConn, md metadata.MD) error {
	ctx, cancel := context.WithTimeout(metadata.NewOutgoingContext(context.Background(), md), 10*time.Second)
	defer cancel()
	st, err := conn.NewStream(ctx, &grpc.StreamDesc{ServerStreams: true, ClientStreams: true}, adminStreamMethod)
	if err != nil {
		return err
	}
	resp := &adminservice.StreamWorkflowReplicationMessagesResponse{}
	err = st.RecvMsg(resp)
	if err == io.EOF {
		return nil
	}
	if err == nil {
		return fmt.Errorf("unexpected message")
	}
	return err
}

func streamMD(cc, cs, sc, ss int32) metadata.MD {
	return metadata.Pairs(history.MetadataKeyClientClusterID, strconv.Itoa(int(cc)), history.MetadataKeyClientShardID, strconv.Itoa(int(cs)),
		history.MetadataKeyServerClusterID, strconv.Itoa(int(sc)), history.MetadataKeyServerShardID, strconv.Itoa(int(ss)))
}

func mdString(md metadata.MD) string {
	g := func(k string) string {
		v := md.Get(k)
		if len(v) != 1 {
			return fmt.Sprintf("?%d", len(v))
		}
		return v[0]
	}
	return fmt.Sprintf("md %s %s %s %s", g(history.MetadataKeyClientClusterID), g(history.MetadataKeyClientShardID),
		g(history.MetadataKeyServerClusterID), g(history.MetadataKeyServerShardID))
}

func TestC07(t *testing.T) {
	e := NewEnv(t, "shard")
	defer e.Close(t)
	rng := e.Rng
	viol := func(what string, ops ...string) {
		e.Violation(map[string]any{"what": what, "ops": ops})
	}

	// (1) GCD / LCM for all pairs up to a bound, including zero and negative arguments
	bound := int32(64)
	if e.Thorough() {
		bound = 200
	}
	for a := int32(-2); a <= bound; a++ {
		for b := int32(-2); b <= bound; b++ {
			e.Emit(fmt.Sprintf("gcd %d %d", a, b), fmt.Sprint(common.GCD(a, b)))
			l := common.LCM(a, b)
			e.Emit(fmt.Sprintf("lcm %d %d", a, b), fmt.Sprint(l))
			e.Evals++
			if a >= 1 && b >= 1 {
				if int64(l) != trueLCM(int64(a), int64(b)) || l != common.LCM(b, a) {
					viol(fmt.Sprintf("LCM(%d,%d)=%d, mathematical lcm %d", a, b, l, trueLCM(int64(a), int64(b))), fmt.Sprintf("lcm %d %d", a, b))
				}
				e.Distinct(uint64(a)<<32 | uint64(b))
			}
		}
	}
	e.Count("gcd_lcm_pairs_exhaustive")
	// composites / powers of two up to 16384, and the overflow boundary
	special := []int32{1, 2, 3, 4, 5, 6, 7, 8, 12, 16, 24, 32, 48, 64, 96, 100, 128, 256, 500, 512, 1000, 1024, 2048, 3000, 4096, 8192, 10000, 12288, 16384}
	for _, a := range special {
		for _, b := range special {
			e.Emit(fmt.Sprintf("gcd %d %d", a, b), fmt.Sprint(common.GCD(a, b)))
			l := common.LCM(a, b)
			e.Emit(fmt.Sprintf("lcm %d %d", a, b), fmt.Sprint(l))
			e.Evals++
			if int64(l) != trueLCM(int64(a), int64(b)) {
				viol(fmt.Sprintf("LCM(%d,%d)=%d, mathematical lcm %d", a, b, l, trueLCM(int64(a), int64(b))), fmt.Sprintf("lcm %d %d", a, b))
			}
		}
	}
	for _, p := range [][2]int32{{46341, 46341}, {65536, 32768}, {65536, 65536}, {2147483647, 2}, {-2147483648, -1}, {-2147483648, 3}, {100000, 99999}} {
		e.Emit(fmt.Sprintf("gcd %d %d", p[0], p[1]), fmt.Sprint(common.GCD(p[0], p[1])))
		e.Emit(fmt.Sprintf("lcm %d %d", p[0], p[1]), fmt.Sprint(common.LCM(p[0], p[1])))
		e.Count("lcm_overflow_region")
	}

	// (2) mapShardIDUnique: every LCM shard id for small pairs; boundary + random ids for large ones
	checkMap := func(a, b int32, sids []int32, monitored bool) {
		L := common.LCM(a, b)
		for _, n := range []int32{a, b} {
			for _, s := range sids {
				op := fmt.Sprintf("map %d %d %d", L, n, s)
				r := mapUnique(L, n, s)
				e.Emit(op, r)
				e.Evals++
				if monitored && s >= 1 && s <= L {
					want := fmt.Sprintf("ok %d", (s-1)%n+1)
					if r != want {
						viol(fmt.Sprintf("mapShardIDUnique(%d,%d,%d) = %s, owner under count %d is %s", L, n, s, r, n, want), op)
					}
				}
			}
		}
	}
	small := int32(12)
	if e.Thorough() {
		small = 40
	}
	for a := int32(1); a <= small; a++ {
		for b := int32(1); b <= small; b++ {
			L := common.LCM(a, b)
			sids := make([]int32, 0, L+4)
			for s := int32(-1); s <= L+2; s++ {
				sids = append(sids, s)
			}
			checkMap(a, b, sids, true)
			e.Count("map_all_ids_pairs")
		}
	}
	for _, a := range special {
		for _, b := range special {
			L := common.LCM(a, b)
			sids := []int32{0, 1, 2, a, b, a + 1, b + 1, L - 1, L, L + 1, -1}
			for i := 0; i < 4; i++ {
				sids = append(sids, 1+rng.Int32N(L))
			}
			checkMap(a, b, sids, true)
		}
	}
	// arbitrary (src,tgt) pairs including non-divisible ones (panic), zero and negative counts
	for i := 0; i < 3000; i++ {
		src := rng.Int32N(40) - 3
		tgt := rng.Int32N(40) - 3
		sid := rng.Int32N(60) - 5
		e.Emit(fmt.Sprintf("map %d %d %d", src, tgt, sid), mapUnique(src, tgt, sid))
		e.Evals++
	}
	e.Count("map_arbitrary")

	// (3) hash consistency on the real hash: a workflow hashing to LCM shard s belongs, under the
	// serving cluster's own count n, to exactly the shard the proxy forwards s to.
	nh := 3000
	if e.Thorough() {
		nh = 100000
	}
	for i := 0; i < nh; i++ {
		a := special[rng.IntN(len(special))]
		b := special[rng.IntN(len(special))]
		L := common.LCM(a, b)
		ns, wf := fmt.Sprintf("ns-%d", rng.IntN(5)), fmt.Sprintf("wf-%d", rng.Uint64())
		s := servercommon.WorkflowIDToHistoryShard(ns, wf, L)
		for _, n := range []int32{a, b} {
			own := servercommon.WorkflowIDToHistoryShard(ns, wf, n)
			if got := mapUnique(L, n, s); got != fmt.Sprintf("ok %d", own) {
				viol(fmt.Sprintf("workflow %s/%s: LCM shard %d of %d forwarded to %s but owner under %d is %d", ns, wf, s, L, got, n, own))
			}
		}
		e.Evals++
	}
	e.Count("hash_consistency_samples")

	// (4) wiring through a real ClusterConnection in LCM mode: DescribeCluster override and the
	// metadata of the stream the proxy opens, both directions, with and without the bypass header
	// ... including pairs whose LCM lies far above any real shard count (4000 x 1024 -> 128000): ids in the LCM space are
	// not real shard ids, and every one of them must still be forwarded
	pairs := [][2]int32{{2, 3}, {3, 2}, {4, 6}, {1, 5}, {8, 8}, {5, 7}, {16, 12}, {4000, 1024}}
	if e.Thorough() {
		for i := 0; i < 40; i++ {
			pairs = append(pairs, [2]int32{1 + rng.Int32N(64), 1 + rng.Int32N(64)})
		}
		pairs = append(pairs, [2]int32{16384, 4096}, [2]int32{512, 768}, [2]int32{1000, 24})
	}
	for _, pr := range pairs {
		local, remote := pr[0], pr[1]
		pp, err := startProxyPair(t, config.ClusterConnConfig{ShardCountConfig: config.ShardCountConfig{Mode: config.ShardCountLCM, LocalShardCount: local, RemoteShardCount: remote}})
		if err != nil {
			t.Fatalf("startProxyPair: %v", err)
		}
		L := common.LCM(local, remote)
		for _, dir := range []string{"in", "out"} {
			conn, be, inverse, count := pp.FromRemote, pp.Local, 1, local
			if dir == "out" {
				conn, be, inverse, count = pp.FromLocal, pp.Remote, 0, remote
			}
			// DescribeCluster
			for _, bypass := range []int{0, 1} {
				be.Respond = func(m string, req proto.Message, md metadata.MD) (proto.Message, error) {
					return &adminservice.DescribeClusterResponse{HistoryShardCount: count, ClusterName: "c"}, nil
				}
				var md metadata.MD
				if bypass == 1 {
					md = metadata.Pairs(common.RequestTranslationHeaderName, "false")
				}
				resp, err := invoke(conn, adminDescribeMethod, nil, md)
				obs := "err"
				if err == nil {
					obs = fmt.Sprint(resp.(*adminservice.DescribeClusterResponse).HistoryShardCount)
				}
				op := fmt.Sprintf("e2edesc %d %d %d %d %d", local, remote, inverse, bypass, count)
				e.Emit(op, obs)
				e.Evals++
				if bypass == 0 && obs != fmt.Sprint(trueLCM(int64(local), int64(remote))) {
					viol(fmt.Sprintf("DescribeCluster via %s server reports %s shards, lcm(%d,%d)=%d", dir, obs, local, remote, L), op)
				}
			}
			// an upstream that is briefly unreachable after it has answered: whatever the proxy does about the failure (pass the
			// error on, answer from memory), every ANSWER to an ordinary caller names the LCM, and every answer to a caller
			// with the bypass header the real count
			{
				healthy := func(m string, req proto.Message, md metadata.MD) (proto.Message, error) {
					return &adminservice.DescribeClusterResponse{HistoryShardCount: count, ClusterName: "c"}, nil
				}
				steps := []struct {
					name    string
					respond func(m string, req proto.Message, md metadata.MD) (proto.Message, error)
				}{
					{"healthy", healthy},
					{"unavailable", func(string, proto.Message, metadata.MD) (proto.Message, error) {
						return nil, status.Error(codes.Unavailable, "upstream restarting")
					}},
					{"deadline", func(string, proto.Message, metadata.MD) (proto.Message, error) {
						return nil, status.Error(codes.DeadlineExceeded, "upstream slow")
					}},
					{"healthy-again", healthy},
				}
				for _, st := range steps {
					be.Respond = st.respond
					for _, bypass := range []bool{false, true, false} {
						var md metadata.MD
						if bypass {
							md = metadata.Pairs(common.RequestTranslationHeaderName, "false")
						}
						resp, err := invoke(conn, adminDescribeMethod, nil, md)
						op := fmt.Sprintf("# e2edesc-fault %d %d %s upstream=%s bypass=%v", local, remote, dir, st.name, bypass)
						e.Emit(op, "#")
						e.Evals++
						e.Count("describe_with_upstream_" + st.name)
						if err != nil {
							continue // no answer: nothing was reported
						}
						got := resp.(*adminservice.DescribeClusterResponse).HistoryShardCount
						want := int32(trueLCM(int64(local), int64(remote)))
						if bypass {
							want = count
						}
						if got != want {
							viol(fmt.Sprintf("DescribeCluster via %s server (local=%d remote=%d), upstream %s, bypass header %v: the caller was told %d shards, expected %d", dir, local, remote, st.name, bypass, got, want), op)
						}
					}
				}
			}
			// overlapping DescribeCluster calls: one with the bypass header is still in flight upstream when an ordinary one
			// arrives — each caller gets the answer for ITS OWN request (the ordinary one the LCM, the bypass one the real count)
			{
				gate, arrived := make(chan struct{}), make(chan struct{}, 8)
				be.Respond = func(m string, req proto.Message, md metadata.MD) (proto.Message, error) {
					arrived <- struct{}{}
					<-gate
					return &adminservice.DescribeClusterResponse{HistoryShardCount: count, ClusterName: "c"}, nil
				}
				type res struct {
					n   int32
					err error
				}
				call := func(bypass bool, out chan res) {
					var md metadata.MD
					if bypass {
						md = metadata.Pairs(common.RequestTranslationHeaderName, "false")
					}
					resp, err := invoke(conn, adminDescribeMethod, nil, md)
					r := res{err: err}
					if err == nil {
						r.n = resp.(*adminservice.DescribeClusterResponse).HistoryShardCount
					}
					out <- r
				}
				byp, ord := make(chan res, 1), make(chan res, 1)
				go call(true, byp)
				select {
				case <-arrived:
				case <-time.After(5 * time.Second):
				}
				go call(false, ord)
				select {
				case <-arrived: // the ordinary call went upstream on its own
				case <-time.After(300 * time.Millisecond): // ... or it is waiting on something else
				}
				close(gate)
				rb, ro := <-byp, <-ord
				op := fmt.Sprintf("# e2edesc-overlap %d %d %s", local, remote, dir)
				e.Emit(op, "#")
				e.Evals++
				if rb.err != nil || ro.err != nil || int64(ro.n) != trueLCM(int64(local), int64(remote)) || rb.n != count {
					viol(fmt.Sprintf("overlapping DescribeCluster calls via %s server (local=%d remote=%d): the ordinary caller was told %d shards (want lcm=%d), the caller with the bypass header %d (want %d) (%v %v)",
						dir, local, remote, ro.n, L, rb.n, count, ro.err, rb.err), op)
				}
			}
			// streams
			sids := []int32{1, L, 0, L + 1, -3}
			for i := 0; i < 4; i++ {
				sids = append(sids, 1+rng.Int32N(L))
			}
			for _, s := range sids {
				be.Reset()
				be.Stream = nil
				inMD := streamMD(7, 3, 9, s)
				err := openStreamThrough(conn, inMD)
				obs := "panic"
				var got metadata.MD
				for _, c := range be.Calls() {
					if strings.HasSuffix(c.Method, "StreamWorkflowReplicationMessages") {
						got = c.MD
					}
				}
				if got != nil {
					obs = mdString(got)
				} else if err == nil {
					obs = "nocall"
				}
				op := fmt.Sprintf("e2estream %d %d %d 7 3 9 %d", local, remote, inverse, s)
				e.Emit(op, obs)
				e.Evals++
				e.Distinct(fnv(op))
				if s >= 1 && s <= L {
					want := fmt.Sprintf("md 7 %d 9 %d", s, (s-1)%count+1)
					if obs != want {
						viol(fmt.Sprintf("LCM stream for shard %d via %s server opened with %q, expected %q", s, dir, obs, want), op)
					}
				}
			}
		}
		pp.Stop()
		e.Count("e2e_lcm_pairs")
	}
	// (5) faults while opening the upstream stream (handler level, fake serving cluster): whatever the proxy does when the
	// serving cluster is briefly unavailable or refuses, EVERY stream-open attempt it makes for LCM shard s carries the
	// remapped ids (client shard s, server shard ((s-1) mod count)+1): one consistent shard space on every path
	for _, pr := range [][2]int32{{2, 3}, {3, 2}, {4, 6}, {5, 7}} {
		local, remote := pr[0], pr[1]
		L := common.LCM(local, remote)
		for _, inbound := range []bool{true, false} {
			count := remote
			if inbound {
				count = local
			}
			for _, fault := range []string{"unavailable", "unavailable-twice", "refused", "none"} {
				for s := int32(1); s <= L; s++ {
					client := newMultiClient()
					client.opened = make(chan *cliStream, 4)
					switch fault {
					case "unavailable":
						client.openErrFirst = []error{status.Error(codes.Unavailable, "connection refused")}
					case "unavailable-twice":
						client.openErrFirst = []error{status.Error(codes.Unavailable, "transport is closing"), status.Error(codes.Unavailable, "transport is closing")}
					case "refused":
						client.openErrFirst = []error{status.Error(codes.PermissionDenied, "no")}
					}
					lifetime, stop := context.WithCancel(context.Background())
					dirs := []string{"outbound"}
					if inbound {
						dirs = []string{"inbound"}
					}
					srv := proxy.NewAdminServiceProxyServer("c07", client, client, proxy.AdminServiceOverrides{}, dirs, func(int32, int32) {},
						config.ShardCountConfig{Mode: config.ShardCountLCM, LocalShardCount: local, RemoteShardCount: remote},
						proxy.LCMParameters{LCM: L, TargetShardCount: count}, proxy.RoutingParameters{}, noopLoggers(), nil, lifetime)
					ctx, cancel := context.WithCancel(metadata.NewIncomingContext(context.Background(), streamMD(7, (s-1)%(local+remote-count)+1, 9, s)))
					ss := newSrvStream(ctx)
					done := make(chan error, 1)
					go func() { done <- srv.StreamWorkflowReplicationMessages(ss) }()
					select {
					case <-done:
					case <-client.opened:
						cancel()
						select {
						case <-done:
						case <-time.After(5 * time.Second):
						}
					case <-time.After(5 * time.Second):
					}
					cancel()
					stop()
					client.mu.Lock()
					attempts := append([]metadata.MD(nil), client.attempts...)
					client.mu.Unlock()
					want := fmt.Sprintf("md 7 %d 9 %d", s, (s-1)%count+1)
					op := fmt.Sprintf("# openfault %s local=%d remote=%d inbound=%v s=%d attempts=%d", fault, local, remote, inbound, s, len(attempts))
					e.Emit(op, "#")
					e.Evals++
					e.Count("openfault_" + fault)
					for i, md := range attempts {
						if got := mdString(md); got != want {
							viol(fmt.Sprintf("LCM stream for shard %d (local=%d remote=%d inbound=%v), upstream fault %q: open attempt %d of %d carried %q, expected %q", s, local, remote, inbound, fault, i+1, len(attempts), got, want), op)
							break
						}
					}
					if len(attempts) == 0 {
						viol(fmt.Sprintf("LCM stream for shard %d: the handler never tried to open the upstream stream", s), op)
					}
				}
			}
		}
	}
	// (6) the same handler, big LCM spaces: boundary ids of the LCM space (around every power of two, both counts, the ends)
	// and random ones — each is forwarded to exactly one upstream stream carrying the remapped ids
	bigPairs := [][2]int32{{4000, 1024}, {16384, 12288}, {3000, 2048}, {10000, 16384}, {16383, 16384}, {1000, 24}, {512, 768}}
	for _, pr := range bigPairs {
		local, remote := pr[0], pr[1]
		L := common.LCM(local, remote)
		for _, inbound := range []bool{true, false} {
			count := remote
			if inbound {
				count = local
			}
			sids := []int32{1, 2, local, remote, local + 1, remote + 1, L - 1, L}
			for p2 := int32(256); p2 > 0 && p2 <= L; p2 *= 2 {
				sids = append(sids, p2-1, p2, p2+1)
			}
			nr := 12
			if e.Thorough() {
				nr = 200
			}
			for i := 0; i < nr; i++ {
				sids = append(sids, 1+rng.Int32N(L))
			}
			for _, s := range sids {
				if s < 1 || s > L {
					continue
				}
				client := newMultiClient()
				client.opened = make(chan *cliStream, 4)
				lifetime, stop := context.WithCancel(context.Background())
				dirs := []string{"outbound"}
				if inbound {
					dirs = []string{"inbound"}
				}
				srv := proxy.NewAdminServiceProxyServer("c07", client, client, proxy.AdminServiceOverrides{}, dirs, func(int32, int32) {},
					config.ShardCountConfig{Mode: config.ShardCountLCM, LocalShardCount: local, RemoteShardCount: remote},
					proxy.LCMParameters{LCM: L, TargetShardCount: count}, proxy.RoutingParameters{}, noopLoggers(), nil, lifetime)
				ctx, cancel := context.WithCancel(metadata.NewIncomingContext(context.Background(), streamMD(7, (s-1)%(local+remote-count)+1, 9, s)))
				ss := newSrvStream(ctx)
				done := make(chan error, 1)
				go func() { done <- srv.StreamWorkflowReplicationMessages(ss) }()
				var herr error
				select {
				case herr = <-done:
				case <-client.opened:
					cancel()
					select {
					case <-done:
					case <-time.After(5 * time.Second):
					}
				case <-time.After(5 * time.Second):
				}
				cancel()
				stop()
				client.mu.Lock()
				attempts := append([]metadata.MD(nil), client.attempts...)
				client.mu.Unlock()
				want := fmt.Sprintf("md 7 %d 9 %d", s, (s-1)%count+1)
				op := fmt.Sprintf("# biglcm local=%d remote=%d inbound=%v s=%d attempts=%d", local, remote, inbound, s, len(attempts))
				e.Emit(op, "#")
				e.Evals++
				e.Count("biglcm_streams")
				if len(attempts) != 1 {
					viol(fmt.Sprintf("LCM stream for shard %d of %d (local=%d remote=%d inbound=%v): the handler opened %d upstream stream(s), expected exactly one (handler returned: %v)", s, L, local, remote, inbound, len(attempts), herr), op)
				} else if got := mdString(attempts[0]); got != want {
					viol(fmt.Sprintf("LCM stream for shard %d of %d (local=%d remote=%d inbound=%v) opened upstream with %q, expected %q", s, L, local, remote, inbound, got, want), op)
				}
			}
		}
	}
	// (7) all LCM shards at once: the initiating cluster opens one stream per LCM shard and keeps them all open. Several LCM
	// shards share one real shard of the serving cluster; their streams must coexist — every LCM shard is forwarded to exactly
	// one LIVE upstream stream with the remapped ids, for as long as the initiator keeps it open
	for _, pr := range [][2]int32{{2, 3}, {4, 6}, {8, 2}, {3, 3}, {5, 7}} {
		local, remote := pr[0], pr[1]
		L := common.LCM(local, remote)
		for _, inbound := range []bool{true, false} {
			count := remote
			dirs := []string{"outbound"}
			if inbound {
				count = local
				dirs = []string{"inbound"}
			}
			client := newMultiClient()
			lifetime, stop := context.WithCancel(context.Background())
			srv := proxy.NewAdminServiceProxyServer("c07", client, client, proxy.AdminServiceOverrides{}, dirs, func(int32, int32) {},
				config.ShardCountConfig{Mode: config.ShardCountLCM, LocalShardCount: local, RemoteShardCount: remote},
				proxy.LCMParameters{LCM: L, TargetShardCount: count}, proxy.RoutingParameters{}, noopLoggers(), nil, lifetime)
			type held struct {
				cancel context.CancelFunc
				done   chan error
			}
			hs := make([]held, L+1)
			order := rng.Perm(int(L))
			for _, i := range order {
				sid := int32(i + 1)
				ctx, cancel := context.WithCancel(metadata.NewIncomingContext(context.Background(), streamMD(7, (sid-1)%(local+remote-count)+1, 9, sid)))
				ss := newSrvStream(ctx)
				done := make(chan error, 1)
				hs[sid] = held{cancel, done}
				go func() { done <- srv.StreamWorkflowReplicationMessages(ss) }()
				for w := time.Now(); time.Since(w) < 3*time.Second; time.Sleep(time.Millisecond) { // this stream's upstream open has happened
					client.mu.Lock()
					n := len(client.attempts)
					client.mu.Unlock()
					if n > 0 && func() bool {
						for _, cs := range client.All() {
							if v := cs.md.Get(history.MetadataKeyClientShardID); len(v) > 0 && v[0] == fmt.Sprint(sid) {
								return true
							}
						}
						return false
					}() {
						break
					}
				}
			}
			time.Sleep(150 * time.Millisecond) // whatever one stream's arrival does to the others has happened by now
			op := fmt.Sprintf("# all-at-once local=%d remote=%d inbound=%v lcm=%d order=%v", local, remote, inbound, L, order)
			e.Emit(op, "#")
			e.Evals++
			e.Count("all_lcm_shards_at_once")
			for sid := int32(1); sid <= L; sid++ {
				want := fmt.Sprintf("md 7 %d 9 %d", sid, (sid-1)%count+1)
				live, dead := 0, 0
				for _, cs := range client.All() {
					if mdString(cs.md) == want {
						if cs.ctx.Err() == nil {
							live++
						} else {
							dead++
						}
					}
				}
				returned := false
				select {
				case err := <-hs[sid].done:
					returned = true
					hs[sid].done <- err
				default:
				}
				if live != 1 || returned {
					viol(fmt.Sprintf("all %d LCM shards opened at once (local=%d remote=%d inbound=%v): LCM shard %d has %d live and %d ended upstream stream(s) carrying %q, its handler has returned: %v — each LCM shard must stay forwarded to exactly one stream", L, local, remote, inbound, sid, live, dead, want, returned), op)
					break
				}
			}
			for sid := int32(1); sid <= L; sid++ {
				hs[sid].cancel()
			}
			stop()
			for sid := int32(1); sid <= L; sid++ {
				select {
				case <-hs[sid].done:
				case <-time.After(5 * time.Second):
				}
			}
		}
	}
	e.Sample([]string{"lcm 4 6", "map 12 4 7", "e2estream 2 3 1 7 3 9 5", "e2edesc 2 3 1 0 2"})
}
