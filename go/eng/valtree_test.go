package eng

// Value-level correspondence for C12 / C13 / C14 (ops `valns` / `valsa` of the engines "translate" and "namemap").
//
// A real message is dumped as ONE token-free line (no spaces) by walking the Go structs by reflection exactly as
// github.com/keilerkonzept/visit sees them: exported fields in the type graph's order (tgType.Fields), pointers,
// interfaces (oneof wrappers are ordinary struct types of the graph), slices, maps (sorted by key), event blobs decoded
// with the real serializer. The message is dumped BEFORE translation (the op line), the REAL translator runs, and the
// result is dumped again (the observation) together with the translator's `matched` return value. The Lean driver
// (lean/Driver/TranslateVal.lean) parses the op line, runs the value-level model (S2S/Model/TranslateVal.lean) and
// prints the same dump.
//
//	tree  ::= S<esc>                       Go string
//	        | T<esc>                       any other scalar (opaque canonical token); HistoryEvent.EventType is written as
//	                                        E<id of the event's attributes struct type> (En<number> if there is none)
//	        | P<esc>                       *common.Payload (opaque: hash of its deterministic encoding)
//	        | Np | Ni | Ns | Nm            nil pointer / interface / slice / map
//	        | M<type id>(tree,...)         non-nil pointer to a struct of the type graph
//	        | L(tree,...)                  non-nil slice
//	        | D(K<esc>=tree,...)           non-nil map, entries sorted by key token
//	        | B<0|1>(tree,...)             *DataBlob that decodes to history events; 1 = this blob object was REPLACED by the
//	                                        translator (a new *DataBlob was assigned at this position)
//	        | R<0|1><esc>                  *DataBlob that is empty (1) or does not decode as events (0)
//	esc   ::= bytes outside [A-Za-z0-9_.-] as %XX

import (
	"crypto/sha256"
	"encoding/hex"
	"fmt"
	"reflect"
	"sort"
	"strings"

	commonpb "go.temporal.io/api/common/v1"
	enumspb "go.temporal.io/api/enums/v1"
	failurepb "go.temporal.io/api/failure/v1"
	historypb "go.temporal.io/api/history/v1"
	namespacepb "go.temporal.io/api/namespace/v1"
	workflowpb "go.temporal.io/api/workflow/v1"
	workflowservice "go.temporal.io/api/workflowservice/v1"
	"go.temporal.io/server/api/adminservice/v1"
	persistencespb "go.temporal.io/server/api/persistence/v1"
	"go.temporal.io/server/common/log"
	"google.golang.org/protobuf/proto"
	"google.golang.org/protobuf/reflect/protoreflect"

	"github.com/temporalio/s2s-proxy/interceptor"
)

func vtEsc(s string) string {
	var sb strings.Builder
	for i := 0; i < len(s); i++ {
		c := s[i]
		if (c >= 'a' && c <= 'z') || (c >= 'A' && c <= 'Z') || (c >= '0' && c <= '9') || c == '_' || c == '.' || c == '-' {
			sb.WriteByte(c)
		} else {
			fmt.Fprintf(&sb, "%%%02X", c)
		}
	}
	return sb.String()
}

func vtEncMap(mp map[string]string) string {
	if len(mp) == 0 {
		return "-"
	}
	var l []string
	for _, k := range sortedKeys(mp) {
		l = append(l, vtEsc(k)+"="+vtEsc(mp[k]))
	}
	return strings.Join(l, ";")
}

func vtHash(b []byte) string {
	h := sha256.Sum256(b)
	return hex.EncodeToString(h[:8])
}

var (
	vtBlobType    = reflect.TypeOf(&commonpb.DataBlob{})
	vtPayloadType = reflect.TypeOf(&commonpb.Payload{})
	vtEventType   = reflect.TypeOf(historypb.HistoryEvent{})
)

type vtDumper struct {
	g       *typeGraph
	attrOf  map[enumspb.EventType]int
	before  map[string]*commonpb.DataBlob // blob objects by position, recorded on the first dump
	record  bool
	compare bool
	entries int // number of map entries seen
	nodes   int
	blobs   int
	events  int
}

func newVtDumper(g *typeGraph) *vtDumper {
	return &vtDumper{g: g, attrOf: g.eventAttrTypes(), before: map[string]*commonpb.DataBlob{}}
}

func (d *vtDumper) dumpMsg(m any, record, compare bool) string {
	d.record, d.compare = record, compare
	d.entries, d.nodes, d.blobs, d.events = 0, 0, 0, 0
	var sb strings.Builder
	d.dump(&sb, reflect.ValueOf(m), "", false)
	return sb.String()
}

func (d *vtDumper) scalarTok(rv reflect.Value) string {
	switch rv.Kind() {
	case reflect.Bool:
		return fmt.Sprintf("b%v", rv.Bool())
	case reflect.Int, reflect.Int8, reflect.Int16, reflect.Int32, reflect.Int64:
		return fmt.Sprintf("i%d", rv.Int())
	case reflect.Uint, reflect.Uint8, reflect.Uint16, reflect.Uint32, reflect.Uint64:
		return fmt.Sprintf("u%d", rv.Uint())
	case reflect.Float32, reflect.Float64:
		return vtEsc(fmt.Sprintf("f%v", rv.Float()))
	case reflect.String:
		return "s" + vtEsc(rv.String())
	}
	return vtEsc(fmt.Sprintf("x%v", rv.Interface()))
}

// dump writes the value; path identifies the position (for blob identity); inBlob = inside decoded events.
func (d *vtDumper) dump(sb *strings.Builder, rv reflect.Value, path string, inBlob bool) {
	d.nodes++
	switch rv.Kind() {
	case reflect.Ptr:
		if rv.IsNil() {
			sb.WriteString("Np")
			return
		}
		if rv.Type() == vtBlobType {
			d.dumpBlob(sb, rv.Interface().(*commonpb.DataBlob), path, inBlob)
			return
		}
		if rv.Type() == vtPayloadType {
			b, _ := (proto.MarshalOptions{Deterministic: true}).Marshal(rv.Interface().(*commonpb.Payload))
			sb.WriteString("P" + vtHash(b))
			return
		}
		if rv.Elem().Kind() != reflect.Struct {
			sb.WriteString("T" + d.scalarTok(rv.Elem()))
			return
		}
		d.dumpStruct(sb, rv.Elem(), path, inBlob)
	case reflect.Struct:
		d.dumpStruct(sb, rv, path, inBlob)
	case reflect.Interface:
		if rv.IsNil() {
			sb.WriteString("Ni")
			return
		}
		d.dump(sb, rv.Elem(), path, inBlob)
	case reflect.Slice:
		if rv.Type().Elem().Kind() == reflect.Uint8 {
			sb.WriteString("Ty" + vtHash(rv.Bytes()) + fmt.Sprintf(".%d", rv.Len()))
			return
		}
		if rv.IsNil() {
			sb.WriteString("Ns")
			return
		}
		sb.WriteString("L(")
		for i := 0; i < rv.Len(); i++ {
			if i > 0 {
				sb.WriteByte(',')
			}
			d.dump(sb, rv.Index(i), fmt.Sprintf("%s/%d", path, i), inBlob)
		}
		sb.WriteByte(')')
	case reflect.Map:
		if rv.IsNil() {
			sb.WriteString("Nm")
			return
		}
		type ent struct {
			k string
			v reflect.Value
		}
		var es []ent
		it := rv.MapRange()
		for it.Next() {
			k := it.Key()
			var ks string
			if k.Kind() == reflect.String {
				ks = vtEsc(k.String())
			} else {
				ks = d.scalarTok(k)
			}
			es = append(es, ent{ks, it.Value()})
		}
		sort.Slice(es, func(i, j int) bool { return es[i].k < es[j].k })
		sb.WriteString("D(")
		for i, e := range es {
			if i > 0 {
				sb.WriteByte(',')
			}
			d.entries++
			sb.WriteString("K" + e.k + "=")
			d.dump(sb, e.v, path+"/k"+e.k, inBlob)
		}
		sb.WriteByte(')')
	case reflect.String:
		if rv.Type().PkgPath() == "" {
			sb.WriteString("S" + vtEsc(rv.String()))
		} else {
			sb.WriteString("T" + d.scalarTok(rv))
		}
	default:
		sb.WriteString("T" + d.scalarTok(rv))
	}
}

func (d *vtDumper) dumpStruct(sb *strings.Builder, sv reflect.Value, path string, inBlob bool) {
	id, ok := d.g.byRT[sv.Type()]
	if !ok {
		panic("valtree: struct type not in the type graph: " + sv.Type().String())
	}
	ty := d.g.Types[id]
	fmt.Fprintf(sb, "M%d(", id)
	for i, f := range ty.Fields {
		if i > 0 {
			sb.WriteByte(',')
		}
		fv := sv.Field(f.Idx)
		if sv.Type() == vtEventType && f.Go == "EventType" {
			et := enumspb.EventType(fv.Int())
			if a, ok := d.attrOf[et]; ok {
				fmt.Fprintf(sb, "TE%d", a)
			} else {
				fmt.Fprintf(sb, "TEn%d", int(et))
			}
			d.nodes++
			continue
		}
		d.dump(sb, fv, fmt.Sprintf("%s.%d", path, i), inBlob)
	}
	sb.WriteByte(')')
}

func (d *vtDumper) dumpBlob(sb *strings.Builder, blob *commonpb.DataBlob, path string, inBlob bool) {
	d.blobs++
	if len(blob.Data) == 0 {
		sb.WriteString("R1e" + fmt.Sprint(int(blob.EncodingType)))
		return
	}
	evs, err := evSerializer.DeserializeEvents(blob)
	if err != nil {
		sb.WriteString("R0e" + fmt.Sprint(int(blob.EncodingType)) + "." + vtHash(blob.Data))
		return
	}
	flag := "0"
	if !inBlob {
		if d.record {
			d.before[path] = blob
		} else if d.compare {
			if prev, ok := d.before[path]; !ok || prev != blob {
				flag = "1"
			}
		}
	}
	sb.WriteString("B" + flag + "(")
	for i, ev := range evs {
		if i > 0 {
			sb.WriteByte(',')
		}
		d.events++
		d.dump(sb, reflect.ValueOf(ev), "", true)
	}
	sb.WriteByte(')')
}

// vtRun: dump, run the REAL translator, dump again, emit the op. kind = "valns" | "valsa".
func vtRun(e *Env, g *typeGraph, kind string, mp map[string]string, m any, label string) {
	d := newVtDumper(g)
	before := d.dumpMsg(m, true, false)
	entriesBefore := d.entries
	if len(before) > 400000 {
		e.Count("val_too_big_skipped")
		return
	}
	var matched bool
	var err error
	if kind == "valns" {
		matched, err = interceptor.NewNamespaceNameTranslator(log.NewNoopLogger(), mp, map[string]string{}).TranslateRequest(m)
	} else {
		matched, err = interceptor.NewSearchAttributeTranslator(log.NewNoopLogger(), map[string]map[string]string{"ns-id": mp}, nil).TranslateRequest(m)
	}
	lwer := g.typeID(&workflowservice.ListWorkflowExecutionsResponse{})
	op := fmt.Sprintf("%s lwer=%d %s %s", kind, lwer, vtEncMap(mp), before)
	var obs string
	if err != nil {
		obs = "error"
	} else {
		after := d.dumpMsg(m, false, true)
		if d.entries < entriesBefore {
			obs = "collision" // a rebuilt map lost an entry: two keys were renamed to the same key
		} else {
			obs = fmt.Sprintf("%d %s", map[bool]int{false: 0, true: 1}[matched], after)
		}
		if after != before {
			e.Count(kind + "_changed")
			e.Distinct(fnv(op))
		}
		if d.blobs > 0 {
			e.Count(kind + "_with_blobs")
		}
	}
	e.Emit(op, obs)
	e.Evals++
	e.Count(kind + "_" + label)
	e.Dist[kind+"_nodes_total"] += d.nodes
	switch {
	case err != nil:
		e.Count(kind + "_obs_error")
	case obs == "collision":
		e.Count(kind + "_obs_collision")
	case matched:
		e.Count(kind + "_obs_matched")
	default:
		e.Count(kind + "_obs_unmatched")
	}
}

func vtNewRoot(g *typeGraph, r int) proto.Message {
	return reflect.New(g.Types[r].rt).Interface().(proto.Message)
}

// vtRandom: (a) random filled messages of every root type (the same filler as the monitors use)
func vtRandom(e *Env, g *typeGraph, kind string, mp map[string]string, fl *filler, per int, adminOnly bool) {
	roots := append([]int{}, g.Roots...)
	sort.Ints(roots)
	for _, r := range roots {
		if adminOnly && g.RootSvc[r] == "workflow" {
			continue
		}
		for i := 0; i < per; i++ {
			m := vtNewRoot(g, r)
			fl.fill(m.ProtoReflect(), 4)
			vtRun(e, g, kind, mp, m, "random")
		}
	}
}

// vtPaths: (b) messages built along structural paths, blob paths with batch context
func vtPaths(e *Env, g *typeGraph, kind string, mp map[string]string, sel leafSel, setLeaf func(reflect.Value), pad func() (unset, set []*historypb.HistoryEvent), perRoot int, adminOnly bool) {
	roots := append([]int{}, g.Roots...)
	sort.Ints(roots)
	seen := map[string]bool{}
	for _, r := range roots {
		if adminOnly && g.RootSvc[r] == "workflow" {
			continue
		}
		paths := enumPaths(g, r, sel, 1, 50000)
		n := 0
		for _, p := range paths {
			k := fmt.Sprintf("%d.%d/%v", p.LeafTy, p.LeafPos, hasBlobStep(p))
			if seen[k] && (n >= perRoot || e.Rng.IntN(8) != 0) {
				continue
			}
			seen[k] = true
			n++
			m, err := buildAlong(g, p, setLeaf)
			if err != nil {
				continue
			}
			label := "path"
			if hasBlobStep(p) {
				unset, set := pad()
				pick := func(l []*historypb.HistoryEvent) *historypb.HistoryEvent {
					return proto.Clone(l[e.Rng.IntN(len(l))]).(*historypb.HistoryEvent)
				}
				mode := e.Rng.IntN(5)
				mapEventBlobs(m.ProtoReflect(), func(evs []*historypb.HistoryEvent) []*historypb.HistoryEvent {
					switch mode {
					case 0:
						return evs
					case 1:
						return append([]*historypb.HistoryEvent{plainPadEvent(90), pick(unset), pick(set)}, evs...)
					case 2:
						return append(append([]*historypb.HistoryEvent{}, evs...), pick(set), pick(unset), plainPadEvent(91))
					case 3:
						return append(append([]*historypb.HistoryEvent{pick(unset), plainPadEvent(90)}, evs...), plainPadEvent(91), pick(set))
					default:
						return append([]*historypb.HistoryEvent{plainPadEvent(90), plainPadEvent(91)}, evs...)
					}
				})
				label = fmt.Sprintf("path_batch%d", mode)
			}
			vtRun(e, g, kind, mp, m, label)
		}
	}
}

func vtNsPad(e *Env) func() (unset, set []*historypb.HistoryEvent) {
	return func() (unset, set []*historypb.HistoryEvent) {
		return padEvents(func(fd protoreflect.FieldDescriptor) bool {
			return fd.Kind() == protoreflect.StringKind && !fd.IsList() && (fd.Name() == "namespace" || strings.HasSuffix(string(fd.Name()), "_namespace"))
		}, func(attrs protoreflect.Message, fd protoreflect.FieldDescriptor) {
			attrs.Set(fd, protoreflect.ValueOfString([]string{"shared", "unmapped", "local-ns", "remote-ns", "a"}[e.Rng.IntN(5)]))
		})
	}
}

func vtSaPad(e *Env, keys []string) func() (unset, set []*historypb.HistoryEvent) {
	return func() (unset, set []*historypb.HistoryEvent) {
		return padEvents(func(fd protoreflect.FieldDescriptor) bool {
			return fd.Message() != nil && fd.Message().FullName() == "temporal.api.common.v1.SearchAttributes" && !fd.IsList()
		}, func(attrs protoreflect.Message, fd protoreflect.FieldDescriptor) {
			sa := &commonpb.SearchAttributes{}
			switch e.Rng.IntN(3) {
			case 1:
				sa.IndexedFields = map[string]*commonpb.Payload{"Other": {Data: []byte("v-Other")}}
			case 2:
				sa.IndexedFields = map[string]*commonpb.Payload{keys[e.Rng.IntN(len(keys))]: {Data: []byte("v-pad")}, "Other": {Data: []byte("o")}}
			}
			attrs.Set(fd, protoreflect.ValueOfMessage(sa.ProtoReflect()))
		})
	}
}

func vtBlob(evs ...*historypb.HistoryEvent) *commonpb.DataBlob {
	b, err := evSerializer.SerializeEvents(evs)
	if err != nil {
		panic(err)
	}
	return b
}

func vtStartedEvent(id int64, ns string, sa map[string]*commonpb.Payload) *historypb.HistoryEvent {
	at := &historypb.WorkflowExecutionStartedEventAttributes{ParentWorkflowNamespace: ns}
	if sa != nil {
		at.SearchAttributes = &commonpb.SearchAttributes{IndexedFields: sa}
	}
	return &historypb.HistoryEvent{EventId: id, EventType: enumspb.EVENT_TYPE_WORKFLOW_EXECUTION_STARTED,
		Attributes: &historypb.HistoryEvent_WorkflowExecutionStartedEventAttributes{WorkflowExecutionStartedEventAttributes: at}}
}

func vtLinkedEvent(id int64, et enumspb.EventType, linkNs string) *historypb.HistoryEvent {
	return &historypb.HistoryEvent{EventId: id, EventType: et,
		Links: []*commonpb.Link{{Variant: &commonpb.Link_BatchJob_{BatchJob: &commonpb.Link_BatchJob{JobId: "j"}}},
			{Variant: &commonpb.Link_WorkflowEvent_{WorkflowEvent: &commonpb.Link_WorkflowEvent{Namespace: linkNs, WorkflowId: "w"}}}},
		Attributes: &historypb.HistoryEvent_WorkflowExecutionSignaledEventAttributes{WorkflowExecutionSignaledEventAttributes: &historypb.WorkflowExecutionSignaledEventAttributes{SignalName: "local-ns", Identity: "a"}}}
}

func vtChildFailedEvent(id int64, et enumspb.EventType, ns string) *historypb.HistoryEvent {
	// a failure chain with a namespace inside an activity-failed event (not skippable since the C12 repair)
	return &historypb.HistoryEvent{EventId: id, EventType: et,
		Attributes: &historypb.HistoryEvent_ActivityTaskFailedEventAttributes{ActivityTaskFailedEventAttributes: &historypb.ActivityTaskFailedEventAttributes{
			Failure: &failurepb.Failure{Message: "m", Cause: &failurepb.Failure{FailureInfo: &failurepb.Failure_ChildWorkflowExecutionFailureInfo{
				ChildWorkflowExecutionFailureInfo: &failurepb.ChildWorkflowExecutionFailureInfo{Namespace: ns}}}}}}}
}

// vtNsCorners: (c) hand-made corner cases for the namespace translator
func vtNsCorners(e *Env, g *typeGraph) {
	maps := []map[string]string{
		{"local-ns": "remote-ns"},
		{"a": "b", "b": "c"},                          // chain
		{"a": "b", "b": "a"},                          // swap
		{"shared": "shared", "local-ns": "remote-ns"}, // identity entry
		{"": "empty-target", "a": ""},                 // the empty name as a source and as a target
		{},
	}
	names := []string{"local-ns", "a", "b", "c", "shared", "", "local-ns2", "xlocal-ns", "LOCAL-NS", "remote-ns", "local"}
	sig := enumspb.EVENT_TYPE_WORKFLOW_EXECUTION_SIGNALED
	for _, mp := range maps {
		for _, n := range names {
			cases := []func() proto.Message{
				func() proto.Message { return &workflowservice.DescribeNamespaceRequest{Namespace: n, Id: n} },
				func() proto.Message {
					return &workflowservice.DescribeNamespaceResponse{NamespaceInfo: &namespacepb.NamespaceInfo{Name: n, Description: n, OwnerEmail: "local-ns"}}
				},
				func() proto.Message {
					return &workflowservice.ListNamespacesResponse{Namespaces: []*workflowservice.DescribeNamespaceResponse{
						{NamespaceInfo: &namespacepb.NamespaceInfo{Name: n}}, {}, {NamespaceInfo: &namespacepb.NamespaceInfo{Name: "a"}}}}
				},
				// skipped by design: nothing inside may change
				func() proto.Message {
					return &workflowservice.ListWorkflowExecutionsResponse{Executions: []*workflowpb.WorkflowExecutionInfo{{ParentNamespaceId: n, TaskQueue: n}}}
				},
				// a blob holding two events; the second is skippable on its own
				func() proto.Message {
					return &adminservice.GetWorkflowExecutionRawHistoryV2Response{HistoryBatches: []*commonpb.DataBlob{
						vtBlob(vtStartedEvent(1, n, nil), plainPadEvent(2)), nil, {}, vtBlob(plainPadEvent(3), plainPadEvent(4)), vtBlob()}}
				},
				// skippable event types with links: the link namespace (non-empty) stops the shortcut
				func() proto.Message {
					return &adminservice.GetWorkflowExecutionRawHistoryV2Response{HistoryBatches: []*commonpb.DataBlob{
						vtBlob(vtLinkedEvent(1, sig, n)), vtBlob(plainPadEvent(5), vtLinkedEvent(6, sig, n), plainPadEvent(7)), vtBlob(vtLinkedEvent(8, sig, ""), vtLinkedEvent(9, sig, ""))}}
				},
				// History (not a blob): the shortcut is applied per event
				func() proto.Message {
					return &workflowservice.GetWorkflowExecutionHistoryResponse{History: &historypb.History{Events: []*historypb.HistoryEvent{
						vtLinkedEvent(1, sig, ""), vtLinkedEvent(2, sig, n), vtStartedEvent(3, n, nil), plainPadEvent(4),
						vtChildFailedEvent(5, enumspb.EVENT_TYPE_ACTIVITY_TASK_FAILED, n), vtChildFailedEvent(6, enumspb.EVENT_TYPE_ACTIVITY_TASK_COMPLETED, n)}},
						RawHistory: []*commonpb.DataBlob{vtBlob(vtChildFailedEvent(7, enumspb.EVENT_TYPE_ACTIVITY_TASK_COMPLETED, n)), vtBlob(vtChildFailedEvent(8, enumspb.EVENT_TYPE_ACTIVITY_TASK_COMPLETED, n), vtStartedEvent(9, "zzz", nil))}}
				},
				// look-alike field: a DataBlob in a field the code does not recognise stays untouched
				func() proto.Message {
					return &adminservice.DescribeMutableStateResponse{ShardId: n, HistoryAddr: n}
				},
			}
			for _, mk := range cases {
				vtRun(e, g, "valns", mp, mk(), "corner")
			}
		}
	}
	// a single event as the root object (translator used on one event)
	for _, n := range []string{"local-ns", ""} {
		vtRun(e, g, "valns", map[string]string{"local-ns": "remote-ns"}, vtLinkedEvent(1, sig, n), "corner")
		vtRun(e, g, "valns", map[string]string{"local-ns": "remote-ns"}, vtStartedEvent(1, n, nil), "corner")
	}
	// undecodable blob in a recognised field: the translator returns an error
	vtRun(e, g, "valns", map[string]string{"a": "b"}, &adminservice.GetWorkflowExecutionRawHistoryV2Response{HistoryBatches: []*commonpb.DataBlob{
		{EncodingType: enumspb.ENCODING_TYPE_PROTO3, Data: []byte{0xff, 0xff, 0xff}}}}, "corner")
}

// vtSaCorners: (c) hand-made corner cases for the search-attribute translator
func vtSaCorners(e *Env, g *typeGraph) {
	maps := []map[string]string{
		{"CustomKeywordField": "Keyword01", "x": "y"},
		{"a": "b", "b": "c", "x": "y", "y": "x"}, // chain + swap
		{"k": "k", "x": "y"},                     // identity entry
		{"a": "z", "b": "z"},                     // two sources, one target: collision when both present
		{"a": "Other"},                           // target equal to an unmapped key: collision when both present
		{},
	}
	keysets := [][]string{nil, {}, {"a"}, {"a", "b"}, {"x", "y", "Other"}, {"k", "Other"}, {"a", "Other"}, {"CustomKeywordField", "customkeywordfield", "CustomKeyword", ""}, {"c", "b"}}
	for _, mp := range maps {
		for _, ks := range keysets {
			mkKeys := func() map[string]*commonpb.Payload {
				if ks == nil {
					return nil
				}
				out := map[string]*commonpb.Payload{}
				for _, k := range ks {
					out[k] = &commonpb.Payload{Data: []byte("v-" + k), Metadata: map[string][]byte{"encoding": []byte("json/plain")}}
				}
				return out
			}
			cases := []func() proto.Message{
				func() proto.Message { // typed container
					return &workflowservice.StartWorkflowExecutionRequest{Namespace: "a", SearchAttributes: &commonpb.SearchAttributes{IndexedFields: mkKeys()}, Memo: &commonpb.Memo{Fields: mkKeys()}}
				},
				func() proto.Message { // typed container in a list element
					return &workflowservice.ListWorkflowExecutionsResponse{Executions: []*workflowpb.WorkflowExecutionInfo{{SearchAttributes: &commonpb.SearchAttributes{IndexedFields: mkKeys()}}, {}}}
				},
				func() proto.Message { // bare map form (nil / empty / populated)
					return &adminservice.DescribeMutableStateResponse{DatabaseMutableState: &persistencespb.WorkflowMutableState{
						ExecutionInfo: &persistencespb.WorkflowExecutionInfo{NamespaceId: "a", SearchAttributes: mkKeys(), Memo: mkKeys()}}}
				},
				func() proto.Message { // inside a blob with two SA-capable events, the first without attributes
					return &adminservice.GetWorkflowExecutionRawHistoryV2Response{HistoryBatches: []*commonpb.DataBlob{
						vtBlob(vtStartedEvent(1, "a", nil), vtStartedEvent(2, "a", mkKeys())), vtBlob(plainPadEvent(3)), nil, vtBlob()}}
				},
				func() proto.Message { // History, not a blob
					return &workflowservice.GetWorkflowExecutionHistoryResponse{History: &historypb.History{Events: []*historypb.HistoryEvent{vtStartedEvent(1, "a", mkKeys()), plainPadEvent(2)}}}
				},
			}
			for _, mk := range cases {
				vtRun(e, g, "valsa", mp, mk(), "corner")
			}
		}
		// nil *SearchAttributes
		vtRun(e, g, "valsa", mp, &workflowservice.StartWorkflowExecutionRequest{Namespace: "a"}, "corner")
	}
	// fields NAMED SearchAttributes of another type: "unhandled search attribute type"
	vtRun(e, g, "valsa", map[string]string{"a": "b"}, &adminservice.AddSearchAttributesRequest{SearchAttributes: map[string]enumspb.IndexedValueType{"a": enumspb.INDEXED_VALUE_TYPE_KEYWORD}}, "corner")
	vtRun(e, g, "valsa", map[string]string{"a": "b"}, &adminservice.AddSearchAttributesRequest{}, "corner")
	vtRun(e, g, "valsa", map[string]string{"a": "b"}, &adminservice.RemoveSearchAttributesRequest{SearchAttributes: []string{"a"}}, "corner")
	vtRun(e, g, "valsa", map[string]string{"a": "b"}, &adminservice.RemoveSearchAttributesRequest{}, "corner")
}

// ---- hooks called from TestC12 / TestC13 / TestC14 ----

func vtC12(e *Env, g *typeGraph) {
	per, perRoot := 1, 3
	if e.Thorough() {
		per, perRoot = 6, 40
	}
	fl := &filler{rng: e.Rng, names: c12Names(), keys: []string{"CustomKeywordField", "k1", "k2"}}
	vtRandom(e, g, "valns", c12Mapping, fl, per, false)
	vtPaths(e, g, "valns", c12Mapping, nsLeaf, func(f reflect.Value) { f.SetString("local-ns") }, vtNsPad(e), perRoot, false)
	vtNsCorners(e, g)
}

// vtEmptyTargetProbe: the corner that C13V's round-trip theorem excludes by hypothesis (Lean witness
// C13_round_trip_needs_nonempty), observed on the real code: with a mapping a -> "" the link namespace of a skippable event is
// translated to "" (the non-empty name stops the shortcut), but translating back with "" -> a skips the event (the Links rule
// sees an empty name) and the name is not restored. Counted, not a violation: the mapping involves the empty name.
func vtEmptyTargetProbe(e *Env) {
	mk := func() *adminservice.GetWorkflowExecutionRawHistoryV2Response {
		return &adminservice.GetWorkflowExecutionRawHistoryV2Response{HistoryBatches: []*commonpb.DataBlob{vtBlob(vtLinkedEvent(1, enumspb.EVENT_TYPE_WORKFLOW_EXECUTION_SIGNALED, "a"))}}
	}
	linkNs := func(m *adminservice.GetWorkflowExecutionRawHistoryV2Response) string {
		evs, err := evSerializer.DeserializeEvents(m.HistoryBatches[0])
		if err != nil || len(evs) != 1 {
			return "?"
		}
		return evs[0].Links[1].GetWorkflowEvent().GetNamespace()
	}
	m := mk()
	fwd := interceptor.NewNamespaceNameTranslator(log.NewNoopLogger(), map[string]string{"a": ""}, map[string]string{"": "a"})
	_, err1 := fwd.TranslateRequest(m)
	mid := linkNs(m)
	_, err2 := fwd.TranslateResponse(m)
	back := linkNs(m)
	e.Emit("# empty-target round trip probe", "#")
	e.Evals++
	if err1 == nil && err2 == nil && mid == "" && back == "a" {
		e.Count("empty_target_roundtrip_restored")
	} else {
		e.Count(fmt.Sprintf("empty_target_roundtrip_not_restored_mid=%q_back=%q", mid, back))
	}
}

func vtC13(e *Env, g *typeGraph) {
	vtEmptyTargetProbe(e)
	per := 1
	if e.Thorough() {
		per = 5
	}
	vtNsCorners(e, g)
	vtSaCorners(e, g)
	m1 := map[string]string{"local-ns": "remote-ns", "a": "b", "b": "a"}
	fl := &filler{rng: e.Rng, names: []string{"local-ns", "a", "b", "local", "xlocal-ns", "", "unmapped", "remote-ns"}, keys: []string{"k1", "k2"}}
	vtRandom(e, g, "valns", m1, fl, per, false)
	vtRandom(e, g, "valns", map[string]string{"zzz": "yyy"}, fl, per, false) // nothing to map
	saMap := map[string]string{"a": "b", "b": "c", "x": "y", "y": "x"}
	flSA := &filler{rng: e.Rng, names: []string{"n1", ""}, keys: []string{"a", "b", "x", "y", "Other"}}
	vtRandom(e, g, "valsa", saMap, flSA, per, false)
}

func vtC14(e *Env, g *typeGraph) {
	per, perRoot := 1, 3
	if e.Thorough() {
		per, perRoot = 6, 40
	}
	vtSaCorners(e, g)
	mp := map[string]string{"CustomKeywordField": "Keyword01", "CustomIntField": "Int01", "x": "y"}
	keyPool := []string{"CustomKeywordField", "CustomIntField", "x", "Other", "CustomKeyword", "customkeywordfield", "z", "w"}
	mpOv := map[string]string{"a": "b", "b": "c", "x": "y", "y": "x"}
	keyPoolOv := []string{"a", "b", "x", "y", "Other", "z"}
	for _, c := range []struct {
		mp   map[string]string
		pool []string
	}{{mp, keyPool}, {mpOv, keyPoolOv}} {
		fl := &filler{rng: e.Rng, names: []string{"n1", "n2", ""}, keys: c.pool}
		vtRandom(e, g, "valsa", c.mp, fl, per, true)
		pool := c.pool
		vtPaths(e, g, "valsa", c.mp, saLeaf, func(f reflect.Value) {
			keys := map[string]*commonpb.Payload{}
			for n := 1 + e.Rng.IntN(4); len(keys) < n; {
				kk := pool[e.Rng.IntN(len(pool))]
				keys[kk] = &commonpb.Payload{Data: []byte("v-" + kk)}
			}
			if f.Type() == payloadMapType {
				f.Set(reflect.ValueOf(keys))
			} else {
				f.Set(reflect.ValueOf(&commonpb.SearchAttributes{IndexedFields: keys}))
			}
		}, vtSaPad(e, pool), perRoot, true)
	}
}
