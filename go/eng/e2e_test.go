package eng

// End-to-end plumbing: a real proxy.ClusterConnection (TCP on loopback) between two generic
// recording gRPC backends that stand in for the local and the remote Temporal cluster.

import (
	"context"
	"fmt"
	"io"
	"net"
	"regexp"
	"strings"
	"sync"
	"testing"
	"time"

	"github.com/hashicorp/yamux"
	"go.temporal.io/server/common/log"
	"google.golang.org/grpc"
	"google.golang.org/grpc/codes"
	"google.golang.org/grpc/credentials/insecure"
	"google.golang.org/grpc/metadata"
	"google.golang.org/grpc/status"
	"google.golang.org/protobuf/proto"
	"google.golang.org/protobuf/reflect/protoreflect"
	"google.golang.org/protobuf/reflect/protoregistry"

	_ "go.temporal.io/api/workflowservice/v1"
	_ "go.temporal.io/server/api/adminservice/v1"

	"github.com/temporalio/s2s-proxy/config"
	"github.com/temporalio/s2s-proxy/logging"
	"github.com/temporalio/s2s-proxy/proxy"
	"github.com/temporalio/s2s-proxy/transport/mux"
)

type beCall struct {
	Method string
	MD     metadata.MD
	Req    proto.Message
}

// backend is a generic gRPC server recording every call it sees.
type backend struct {
	name  string
	srv   *grpc.Server
	lis   net.Listener
	mu    sync.Mutex
	calls []beCall
	// Respond builds the unary response; nil ⇒ empty response of the right type.
	Respond func(method string, req proto.Message, md metadata.MD) (proto.Message, error)
	// Stream handles streaming methods; nil ⇒ return immediately (EOF to the caller).
	Stream func(method string, md metadata.MD, s grpc.ServerStream) error
}

func methodDesc(fullMethod string) protoreflect.MethodDescriptor {
	// "/pkg.Service/Method"
	parts := strings.Split(strings.TrimPrefix(fullMethod, "/"), "/")
	if len(parts) != 2 {
		return nil
	}
	d, err := protoregistry.GlobalFiles.FindDescriptorByName(protoreflect.FullName(parts[0]))
	if err != nil {
		return nil
	}
	sd, ok := d.(protoreflect.ServiceDescriptor)
	if !ok {
		return nil
	}
	return sd.Methods().ByName(protoreflect.Name(parts[1]))
}

func newMsg(md protoreflect.MessageDescriptor) proto.Message {
	mt, err := protoregistry.GlobalTypes.FindMessageByName(md.FullName())
	if err != nil {
		panic(err)
	}
	return mt.New().Interface()
}

func newBackend(t *testing.T, name string) *backend {
	b := &backend{name: name}
	lis, err := net.Listen("tcp", "127.0.0.1:0")
	if err != nil {
		t.Fatal(err)
	}
	b.lis = lis
	b.srv = grpc.NewServer(grpc.UnknownServiceHandler(func(_ any, ss grpc.ServerStream) error {
		full, _ := grpc.MethodFromServerStream(ss)
		md, _ := metadata.FromIncomingContext(ss.Context())
		d := methodDesc(full)
		if d == nil {
			return status.Error(codes.Unimplemented, "unknown method "+full)
		}
		if d.IsStreamingClient() || d.IsStreamingServer() {
			b.mu.Lock()
			b.calls = append(b.calls, beCall{Method: full, MD: md.Copy()})
			h := b.Stream
			b.mu.Unlock()
			if h == nil {
				return nil
			}
			return h(full, md, ss)
		}
		req := newMsg(d.Input())
		if err := ss.RecvMsg(req); err != nil {
			return err
		}
		b.mu.Lock()
		b.calls = append(b.calls, beCall{Method: full, MD: md.Copy(), Req: proto.Clone(req)})
		r := b.Respond
		b.mu.Unlock()
		var resp proto.Message
		if r != nil {
			var err error
			resp, err = r(full, req, md)
			if err != nil {
				return err
			}
		}
		if resp == nil {
			resp = newMsg(d.Output())
		}
		return ss.SendMsg(resp)
	}))
	go func() { _ = b.srv.Serve(lis) }()
	return b
}

func (b *backend) Addr() string { return b.lis.Addr().String() }
func (b *backend) Stop()        { b.srv.Stop() }
func (b *backend) Calls() []beCall {
	b.mu.Lock()
	defer b.mu.Unlock()
	return append([]beCall(nil), b.calls...)
}
func (b *backend) Reset() {
	b.mu.Lock()
	b.calls = nil
	b.mu.Unlock()
}

// proxyPair is one running ClusterConnection with both backends and clients to both proxy servers.
type proxyPair struct {
	Local, Remote *backend // stand-ins for the local / remote Temporal cluster
	CC            *proxy.ClusterConnection
	Cancel        context.CancelFunc
	OutboundAddr  string           // where the local cluster connects (outbound server)
	InboundAddr   string           // where the remote cluster connects (inbound server)
	FromLocal     *grpc.ClientConn // a caller on the local side  -> outbound server -> Remote backend
	FromRemote    *grpc.ClientConn // a caller on the remote side -> inbound server  -> Local backend
}

var listenRe = regexp.MustCompile(`listening on ([0-9.:]+)\.`)

func noopLoggers() logging.LoggerProvider {
	return logging.NewLoggerProvider(log.NewNoopLogger(), config.NewMockConfigProvider(config.S2SProxyConfig{}))
}

// startProxyPair builds and starts a TCP ClusterConnection for cfg (addresses are filled in here).
func startProxyPair(t *testing.T, cfg config.ClusterConnConfig) (*proxyPair, error) {
	p := &proxyPair{Local: newBackend(t, "local"), Remote: newBackend(t, "remote")}
	cfg.Local.ConnectionType = config.ConnTypeTCP
	cfg.Remote.ConnectionType = config.ConnTypeTCP
	cfg.Local.TcpClient.ConnectionString = p.Local.Addr()
	if cfg.Remote.TcpClient.ConnectionString == "" { // a caller may point the outbound client at its own (e.g. TLS) server
		cfg.Remote.TcpClient.ConnectionString = p.Remote.Addr()
	}
	cfg.Local.TcpServer.ConnectionString = "127.0.0.1:0"
	cfg.Remote.TcpServer.ConnectionString = "127.0.0.1:0"
	if cfg.Name == "" {
		cfg.Name = "verif"
	}
	ctx, cancel := context.WithCancel(context.Background())
	p.Cancel = cancel
	cc, err := proxy.NewClusterConnection(ctx, cfg, noopLoggers())
	if err != nil {
		cancel()
		p.Local.Stop()
		p.Remote.Stop()
		return nil, err
	}
	p.CC = cc
	cc.Start()
	// "[ClusterConnection connects outbound server [simpleGRPCServer n listening on A. ...] to outbound client ..., inbound server [simpleGRPCServer n listening on B. ...] ..."
	m := listenRe.FindAllStringSubmatch(cc.Describe(), -1)
	if len(m) != 2 {
		t.Fatalf("cannot find listener addresses in %q", cc.Describe())
	}
	p.OutboundAddr, p.InboundAddr = m[0][1], m[1][1]
	dial := func(addr string) *grpc.ClientConn {
		c, err := grpc.NewClient(addr, grpc.WithTransportCredentials(insecure.NewCredentials()))
		if err != nil {
			t.Fatal(err)
		}
		return c
	}
	p.FromLocal = dial(p.OutboundAddr)
	p.FromRemote = dial(p.InboundAddr)
	return p, nil
}

func (p *proxyPair) Stop() {
	_ = p.FromLocal.Close()
	_ = p.FromRemote.Close()
	p.Cancel()
	p.Local.Stop()
	p.Remote.Stop()
	time.Sleep(10 * time.Millisecond)
}

// invoke performs a unary call of fullMethod through conn with a freshly constructed (or given) request.
func invoke(conn *grpc.ClientConn, fullMethod string, req proto.Message, md metadata.MD) (proto.Message, error) {
	d := methodDesc(fullMethod)
	if d == nil {
		return nil, fmt.Errorf("unknown method %s", fullMethod)
	}
	if req == nil {
		req = newMsg(d.Input())
	}
	resp := newMsg(d.Output())
	ctx, cancel := context.WithTimeout(context.Background(), 10*time.Second)
	defer cancel()
	if md != nil {
		ctx = metadata.NewOutgoingContext(ctx, md)
	}
	err := conn.Invoke(ctx, fullMethod, req, resp)
	return resp, err
}

// freePort returns a currently free loopback port.
func freePort(t *testing.T) int {
	l, err := net.Listen("tcp", "127.0.0.1:0")
	if err != nil {
		t.Fatal(err)
	}
	defer l.Close()
	return l.Addr().(*net.TCPAddr).Port
}

// startProxyPairMux is startProxyPair with the remote side on a mux transport: the proxy listens as
// mux-server; the harness plays the remote proxy: it dials, runs the yamux client session, serves the
// Remote backend on it (the proxy's outbound calls arrive there) and calls the proxy's inbound server
// through it (FromRemote).
func startProxyPairMux(t *testing.T, cfg config.ClusterConnConfig) (*proxyPair, error) {
	p := &proxyPair{Local: newBackend(t, "local"), Remote: newBackend(t, "remote")}
	port := freePort(t)
	cfg.Local.ConnectionType = config.ConnTypeTCP
	cfg.Local.TcpClient.ConnectionString = p.Local.Addr()
	cfg.Local.TcpServer.ConnectionString = "127.0.0.1:0"
	cfg.Remote.ConnectionType = config.ConnTypeMuxServer
	cfg.Remote.MuxCount = 1
	cfg.Remote.MuxAddressInfo.ConnectionString = fmt.Sprintf("127.0.0.1:%d", port)
	if cfg.Name == "" {
		cfg.Name = "verifmux"
	}
	ctx, cancel := context.WithCancel(context.Background())
	p.Cancel = cancel
	cc, err := proxy.NewClusterConnection(ctx, cfg, noopLoggers())
	if err != nil {
		cancel()
		p.Local.Stop()
		p.Remote.Stop()
		return nil, err
	}
	p.CC = cc
	cc.Start()
	m := listenRe.FindAllStringSubmatch(cc.Describe(), -1)
	if len(m) < 1 {
		t.Fatalf("cannot find outbound listener address in %q", cc.Describe())
	}
	p.OutboundAddr = m[0][1]
	var raw net.Conn
	for i := 0; i < 100; i++ {
		raw, err = net.Dial("tcp", cfg.Remote.MuxAddressInfo.ConnectionString)
		if err == nil {
			break
		}
		time.Sleep(20 * time.Millisecond)
	}
	if err != nil {
		t.Fatal(err)
	}
	ycfg := yamux.DefaultConfig()
	ycfg.LogOutput = io.Discard
	sess, err := yamux.Client(raw, ycfg)
	if err != nil {
		t.Fatal(err)
	}
	go func() { _ = p.Remote.srv.Serve(sess) }()
	p.FromRemote, err = grpc.NewClient("passthrough:///mux", grpc.WithTransportCredentials(insecure.NewCredentials()),
		grpc.WithContextDialer(func(context.Context, string) (net.Conn, error) { return sess.Open() }))
	if err != nil {
		t.Fatal(err)
	}
	p.FromLocal, err = grpc.NewClient(p.OutboundAddr, grpc.WithTransportCredentials(insecure.NewCredentials()))
	if err != nil {
		t.Fatal(err)
	}
	// wait until the proxy's outbound client has picked up the session
	for i := 0; i < 200 && !cc.AcceptingOutboundTraffic(); i++ {
		time.Sleep(10 * time.Millisecond)
	}
	return p, nil
}

func init() {
	// the manager sleeps this long in Start() "to give the provider time"; the repository's own tests zero it too
	mux.MuxManagerStartDelay = 0
}
