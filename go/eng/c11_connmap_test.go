package eng

// C11 — RPCs travel only over live mux sessions and fail over between them (engine "connmap").
//
// The real grpcutil.MultiClientConn (production dial options: round_robin, s2s-proxy codec) is the
// connection listener of the real multiMuxManager, which is fed by the C10 fakes: real yamux sessions
// over net.Pipe; on its end of every session the harness serves a tiny echo gRPC service that
// reports which session served the call.  Everything runs inside one testing/synctest bubble.
//
// Ops:  begin <N> [role] | add | add hiccup | remove <k> remote|local | rpc | inflight <k> | rapid | idle | cancel
// State observation: keys=<GetMuxConnections()> conn=<keys of MultiClientConn.connMap, parsed from Describe()>
// dialed=<sessions on which the client connection currently holds a transport (yamux stream)> can=<CanMakeCalls()>;
// rpc: ok | unavailable | blocked (no resolver state yet: deadline) | closed.

import (
	"context"
	"fmt"
	"runtime"
	"sort"
	"strconv"
	"strings"
	"testing"
	"testing/synctest"
	"time"

	"google.golang.org/grpc/codes"
	"google.golang.org/grpc/status"
	"google.golang.org/protobuf/types/known/emptypb"
	"google.golang.org/protobuf/types/known/wrapperspb"

	"github.com/temporalio/s2s-proxy/transport/mux/session"
)

func sortNumeric(ks []string) []string {
	sort.Slice(ks, func(i, j int) bool {
		a, _ := strconv.Atoi(ks[i])
		b, _ := strconv.Atoi(ks[j])
		return a < b
	})
	return ks
}

func showIDs(ks []string) string {
	if len(ks) == 0 {
		return "-"
	}
	return strings.Join(sortNumeric(ks), ",")
}

// c11ConnKeys parses "[MultiClientConn name, scheme=multiclient, conns={0=[connFn]1=[connFn]}"
func c11ConnKeys(desc string) []string {
	i := strings.Index(desc, "conns={")
	if i < 0 {
		return []string{"unparsable"}
	}
	body := strings.TrimSuffix(desc[i+len("conns={"):], "}")
	var ks []string
	for _, part := range strings.Split(body, "=[connFn]") {
		if part != "" {
			ks = append(ks, part)
		}
	}
	return ks
}

func c11Observe(w *muxWorld) string {
	conn := "nil"
	if ks := c11ConnKeys(w.mcc.Describe()); len(ks) > 0 {
		conn = showIDs(ks)
	}
	var dialed []string
	for _, m := range w.conns {
		if m.lis != nil && m.lis.live.Load() > 0 {
			dialed = append(dialed, m.muxID)
		}
	}
	can := "0"
	if w.mcc.CanMakeCalls() {
		can = "1"
	}
	return fmt.Sprintf("keys=%s conn=%s dialed=%s can=%s", showIDs(w.regIDs()), conn, showIDs(dialed), can)
}

type c11Call struct {
	obs      string // ok | unavailable | blocked | closed | error:<code>
	servedBy string // mux id
	elapsed  time.Duration
}

func c11Invoke(w *muxWorld) c11Call {
	ctx, cancel := context.WithTimeout(context.Background(), 2*time.Second)
	defer cancel()
	t0 := time.Now()
	var out wrapperspb.StringValue
	err := w.mcc.Invoke(ctx, "/verif.Echo/Who", &emptypb.Empty{}, &out)
	c := c11Call{elapsed: time.Since(t0)}
	switch status.Code(err) {
	case codes.OK:
		c.obs = "ok"
		cid, _ := strconv.Atoi(out.Value)
		if cid >= 0 && cid < len(w.conns) {
			c.servedBy = w.conns[cid].muxID
		}
	case codes.Unavailable:
		c.obs = "unavailable"
	case codes.DeadlineExceeded:
		c.obs = "blocked"
	case codes.Canceled:
		c.obs = "closed"
	default:
		c.obs = "error:" + status.Code(err).String()
	}
	return c
}

func contains(l []string, x string) bool {
	for _, y := range l {
		if y == x {
			return true
		}
	}
	return false
}

// c11Run executes one history. `next` produces further ops online ("" = stop).
func c11Run(t *testing.T, e *Env, body []string, next func(w *muxWorld, step int) string) {
	f := strings.Fields(body[0])
	n := 0
	if len(f) < 2 || f[0] != "begin" {
		t.Fatalf("history must start with begin: %q", body[0])
	}
	fmt.Sscan(f[1], &n)
	role := "establisher"
	if len(f) > 2 {
		role = f[2]
	}
	if n < 1 || (role != "establisher" && role != "receiver") {
		t.Fatalf("bad begin line %q", body[0])
	}
	w := newMuxWorld(t, n, role, false, true, true)
	w.settle(nil)
	var ops []string
	applied := false // at least one session-list update has reached the client connection
	updates := 0
	emit := func(op, obs string) {
		e.Emit(op, obs)
		ops = append(ops, op)
	}
	violation := func(what string) {
		e.Violation(map[string]any{"what": what, "ops": append([]string{}, ops...)})
	}
	checkSync := func(op string) {
		// monitor: once an update has been applied the client connection's keys are exactly the registered sessions
		keys, conn := showIDs(w.regIDs()), showIDs(c11ConnKeys(w.mcc.Describe()))
		if keys != conn {
			violation(fmt.Sprintf("after %q the client connection holds keys %s but the registered sessions are %s", op, conn, keys))
		}
	}
	emit(body[0], c11Observe(w))
	do := func(op string) {
		c11Progress.Step(ops, op)
		g := strings.Fields(op)
		e.Count("op_" + g[0])
		switch {
		case op == "add":
			if w.connecting() {
				w.connOK(false)
				w.peer("ping-ok")
				applied = true
				updates++
			}
			emit(op, c11Observe(w))
			checkSync(op)
		case op == "add hiccup":
			// a new session whose link stalls for 11 s right after it was registered (its first health-check ping times out,
			// the session itself survives and recovers): it is a registered, live session like any other
			if w.connecting() {
				w.connOK(false)
				w.peer("ping-hiccup")
				applied = true
				updates++
			}
			emit(op, c11Observe(w))
			checkSync(op)
		case g[0] == "remove" && len(g) == 3 && (g[2] == "remote" || g[2] == "local"):
			k, err := strconv.Atoi(g[1])
			if err != nil || k < 0 {
				t.Fatalf("bad op %q", op)
			}
			if len(w.regIDs()) > 0 {
				updates++
			}
			w.die(k, g[2])
			emit(op, c11Observe(w))
			checkSync(op)
		case op == "rpc":
			reg := w.regIDs()
			c := c11Invoke(w)
			emit(op, c.obs)
			switch {
			case w.cancelled:
				if c.obs == "ok" {
					violation("call served after the lifetime ended")
				}
			case c.obs == "ok" && !contains(reg, c.servedBy):
				violation(fmt.Sprintf("call served by session %q which is not registered (registered: %v)", c.servedBy, reg))
			case len(reg) > 0 && c.obs != "ok":
				violation(fmt.Sprintf("%d session(s) registered but the call ended %s", len(reg), c.obs))
			case len(reg) == 0 && applied && (c.obs != "unavailable" || c.elapsed > time.Second):
				violation(fmt.Sprintf("no session registered: the call ended %s after %v (want a prompt unavailable)", c.obs, c.elapsed))
			}
			if c.obs == "ok" {
				e.Count("rpc_served")
			} else {
				e.Count("rpc_" + c.obs)
			}
		case g[0] == "inflight":
			// a call is in flight on some session when that session dies: the call must end with an error
			// promptly, and the table/connection must be updated as for any removal
			reg := w.regIDs()
			if len(reg) == 0 {
				return
			}
			w.echoGate = make(chan struct{})
			w.echoSeen = make(chan string, 4)
			res := make(chan c11Call, 1)
			go func() { res <- c11Invoke(w) }()
			synctest.Wait()
			var serving string
			select {
			case serving = <-w.echoSeen:
			default:
				close(w.echoGate)
				w.echoGate = nil
				c := <-res
				violation(fmt.Sprintf("with %d session(s) registered a call reached no session (%s)", len(reg), c.obs))
				return
			}
			idx := -1
			for i, id := range reg {
				if id == serving {
					idx = i
				}
			}
			if idx < 0 {
				violation(fmt.Sprintf("call routed to session %q which is not registered (registered: %v)", serving, reg))
				idx = 0
			}
			w.die(idx, "remote")
			synctest.Wait()
			var c c11Call
			select {
			case c = <-res:
			default:
				close(w.echoGate)
				c = <-res
				violation("the call in flight on a session that died did not end until the dead peer was released")
			}
			if w.echoGate != nil {
				select {
				case <-w.echoGate:
				default:
					close(w.echoGate)
				}
			}
			w.echoGate = nil
			obs := "failed"
			if c.obs == "ok" {
				obs = "served-by-dead-session"
				violation("a call was answered by a session after that session had died")
			}
			updates++
			emit(fmt.Sprintf("inflight %d", idx), obs+" "+c11Observe(w))
			checkSync(op)
		case op == "idle":
			// a quiet period longer than the client connection's idle timeout (30 min by default), then a call: the channel
			// re-enters service with the LAST APPLIED session list, whatever happened to its internals while idle
			if applied && !w.cancelled {
				time.Sleep(31 * time.Minute)
				synctest.Wait()
			}
			reg := w.regIDs()
			c := c11Invoke(w)
			synctest.Wait()
			emit(op, c.obs+" "+c11Observe(w))
			switch {
			case w.cancelled:
			case c.obs == "ok" && !contains(reg, c.servedBy):
				violation(fmt.Sprintf("after a quiet period the call was served by session %q which is not registered (registered: %v)", c.servedBy, reg))
			case len(reg) > 0 && c.obs != "ok":
				violation(fmt.Sprintf("after a quiet period of 31 minutes %d session(s) are registered but the call ended %s", len(reg), c.obs))
			}
			if !w.cancelled {
				checkSync(op)
			}
		case op == "rapid":
			// rapid add/remove of the same slots and the empty set: a burst of session-list updates delivered to the client
			// connection without settling in between (the empty table, single slots, the full table, ...), the LAST one
			// being the manager's real table. "Once an update has been applied" the dial set must be that last table.
			if applied && !w.cancelled {
				cur := w.mgr.GetMuxConnections()
				var ids []string
				for k := range cur {
					ids = append(ids, k)
				}
				sortNumeric(ids)
				spin := func() {
					for i, n := 0, e.Rng.IntN(40); i < n; i++ {
						runtime.Gosched()
					}
				}
				for round := 0; round < 12; round++ {
					w.mcc.OnConnectionListUpdate(map[string]session.ManagedMuxSession{})
					spin()
					if len(ids) > 0 {
						one := ids[e.Rng.IntN(len(ids))]
						w.mcc.OnConnectionListUpdate(map[string]session.ManagedMuxSession{one: cur[one]})
						spin()
					}
					w.mcc.OnConnectionListUpdate(cur)
					spin()
				}
				synctest.Wait()
				updates++
			}
			emit(op, c11Observe(w))
			checkSync(op)
		case op == "cancel":
			w.cancel()
			emit(op, c11Observe(w))
		default:
			t.Fatalf("bad op %q", op)
		}
	}
	for _, op := range body[1:] {
		do(op)
	}
	for step := 0; next != nil; step++ {
		op := next(w, step)
		if op == "" {
			break
		}
		do(op)
	}
	if !w.cancelled {
		do("rpc")
		do("cancel")
		do("rpc")
	}
	w.teardown()
	e.Evals++
	if updates >= 2 {
		e.Distinct(fnv(strings.Join(ops, ";")))
	}
	e.Count(fmt.Sprintf("pool_size_%d", n))
	e.Count(fmt.Sprintf("updates_%d", min(updates, 7)))
}

var c11Progress = &Progress{}

func TestC11(t *testing.T) {
	e := NewEnv(t, "connmap")
	defer e.Close(t)
	// started outside the bubble: real time. An operation of these histories takes milliseconds of real time.
	defer e.StallWatchdog(150*time.Second, c11Progress, "the session pool / client connection stopped making progress on this history: the last operation never finished (dead-lock or goroutines spinning in the real code)")()
	replay := e.ReplayLines(t)
	onlyReplay := replay != nil
	cases := append(replay, e.CorpusCases(t)...)
	exhaustive := 0
	maxUpdates := 8
	synctest.Test(t, func(t *testing.T) {
		for _, c := range cases {
			if len(c) > 0 {
				c11Run(t, e, c, nil)
			}
		}
		if onlyReplay {
			return
		}
		// (0) sessions that suffer a latency spike right after registration, followed by other list changes
		for _, h := range [][]string{
			{"begin 2 establisher", "rpc", "add hiccup", "rpc", "add", "rpc", "rpc", "remove 1 remote", "rpc", "add", "rpc"},
			{"begin 2 receiver", "add", "rpc", "add hiccup", "rpc", "rpc", "remove 0 local", "rpc", "rapid", "rpc"},
			{"begin 3 establisher", "add hiccup", "add hiccup", "rpc", "add", "rpc", "rpc", "rpc", "remove 2 remote", "rpc", "remove 1 local", "rpc"},
			{"begin 1 receiver", "add hiccup", "rpc", "remove 0 remote", "rpc", "add hiccup", "rpc"},
			{"begin 2 establisher", "add", "add", "rpc", "idle", "rpc", "remove 0 remote", "rpc", "idle", "rpc", "add", "rpc"},
			{"begin 1 receiver", "idle", "add", "idle", "rpc", "remove 0 local", "idle", "add", "rpc"},
		} {
			c11Run(t, e, h, nil)
		}
		// (a) every add/remove history of up to `maxUpdates` effective updates, an rpc after every update
		sizes := []int{1, 2, 3}
		if e.Thorough() {
			maxUpdates = 10
			sizes = []int{1, 2, 3, 4}
		}
		for _, n := range sizes {
			var gen func(prefix []string, r, left int)
			gen = func(prefix []string, r, left int) {
				if len(prefix) > 0 {
					{
						role := []string{"establisher", "receiver"}[e.Rng.IntN(2)]
						h := []string{fmt.Sprintf("begin %d %s", n, role), "rpc"}
						for i, u := range prefix {
							h = append(h, u, "rpc")
							if i == len(prefix)-1 && e.Rng.IntN(3) == 0 {
								h = append(h, "rapid", "rpc")
							}
						}
						c11Run(t, e, h, nil)
						exhaustive++
					}
				}
				if left == 0 {
					return
				}
				if r < n {
					gen(append(append([]string{}, prefix...), "add"), r+1, left-1)
				}
				for k := 0; k < r; k++ {
					kind := []string{"remote", "local"}[e.Rng.IntN(2)]
					gen(append(append([]string{}, prefix...), fmt.Sprintf("remove %d %s", k, kind)), r-1, left-1)
				}
			}
			gen(nil, 0, maxUpdates)
		}
		// (b) random longer histories with calls in flight
		nRandom, maxLen, maxN := 300, 60, 6
		if e.Thorough() {
			nRandom, maxLen, maxN = 3000, 150, 8
		}
		for i := 0; i < nRandom; i++ {
			n := 1 + e.Rng.IntN(maxN)
			length := 6 + e.Rng.IntN(maxLen-5)
			role := []string{"establisher", "receiver"}[e.Rng.IntN(2)]
			c11Run(t, e, []string{fmt.Sprintf("begin %d %s", n, role)}, func(w *muxWorld, step int) string {
				if step >= length {
					return ""
				}
				r := len(w.regIDs())
				switch x := e.Rng.IntN(10); {
				case x < 3:
					return "add"
				case x < 5 && r > 0:
					return fmt.Sprintf("remove %d %s", e.Rng.IntN(r), []string{"remote", "local"}[e.Rng.IntN(2)])
				case x < 6 && r > 0:
					return "inflight 0"
				case x == 9:
					return "rapid"
				case x == 8 && r < n:
					return "add hiccup"
				case x < 7 && r == 0:
					return "add"
				default:
					return "rpc"
				}
			})
		}
	})
	e.Stats["exhaustive"] = !onlyReplay
	e.Stats["exhaustive_depth"] = maxUpdates
	e.Stats["exhaustive_histories"] = exhaustive
	e.Sample([]string{"begin 2", "rpc", "add", "rpc", "add", "rpc", "remove 0 remote", "rpc", "remove 0 local", "rpc", "add", "rpc", "cancel", "rpc"})
}
