package eng

import (
	"context"
	"fmt"
	"math/bits"
	"sort"
	"strings"
	"sync"
	"sync/atomic"
	"testing"
	"time"

	"go.temporal.io/server/api/adminservice/v1"
	"go.temporal.io/server/common/log"
	"google.golang.org/grpc/metadata"

	"github.com/temporalio/s2s-proxy/config"
	"github.com/temporalio/s2s-proxy/encryption"
	"github.com/temporalio/s2s-proxy/proxy"
)

// ---- C20: stream-open metadata vs the observer / handler prologue (engine "observer") --------

type c20World struct {
	obs     *proxy.ReplicationStreamObserver
	servers map[string]adminservice.AdminServiceServer
	client  *multiClient
	stop    context.CancelFunc
}

func newC20World(lcmL, lcmT int32) *c20World {
	w := &c20World{obs: proxy.NewReplicationStreamObserver(log.NewNoopLogger()), servers: map[string]adminservice.AdminServiceServer{}}
	w.client = newMultiClient()
	w.client.opened = make(chan *cliStream, 16)
	lifetime, stop := context.WithCancel(context.Background())
	w.stop = stop
	loggers := noopLoggers()
	mk := func(scc config.ShardCountConfig, lp proxy.LCMParameters, rp proxy.RoutingParameters, sm proxy.ShardManager) adminservice.AdminServiceServer {
		return proxy.NewAdminServiceProxyServer("c20", w.client, w.client, proxy.AdminServiceOverrides{}, []string{"inbound"},
			w.obs.ReportStreamValue, scc, lp, rp, loggers, sm, lifetime)
	}
	w.servers["default"] = mk(config.ShardCountConfig{}, proxy.LCMParameters{}, proxy.RoutingParameters{}, nil)
	w.servers["lcm"] = mk(config.ShardCountConfig{Mode: config.ShardCountLCM, LocalShardCount: lcmT, RemoteShardCount: lcmT},
		proxy.LCMParameters{LCM: lcmL, TargetShardCount: lcmT}, proxy.RoutingParameters{}, nil)
	scc := config.ShardCountConfig{Mode: config.ShardCountRouting, LocalShardCount: 2, RemoteShardCount: 3}
	sm := proxy.NewShardManager(nil, scc, encryption.TLSConfig{}, loggers)
	w.servers["routing"] = mk(scc, proxy.LCMParameters{}, proxy.RoutingParameters{RoutingLocalShardCount: 2, DirectionLabel: "inbound"}, sm)
	return w
}

func withTimeout[T any](d time.Duration, f func() T) (T, bool) {
	ch := make(chan T, 1)
	go func() { ch <- f() }()
	select {
	case v := <-ch:
		return v, true
	case <-time.After(d):
		var z T
		return z, false
	}
}

func encTok(s string) string {
	if s == "" {
		return "%e"
	}
	return strings.ReplaceAll(s, " ", "%20")
}

// open performs one stream open → (observe) → close; returns the canonical observation.
func (w *c20World) open(mode string, vals [4]string) string {
	srvKey := mode
	if strings.HasPrefix(mode, "lcm") {
		srvKey = "lcm"
	}
	md := mdPairs(vals[0], vals[1], vals[2], vals[3])
	ctx, cancel := context.WithCancel(metadata.NewIncomingContext(context.Background(), md))
	defer cancel()
	ss := newSrvStream(ctx)
	done := make(chan error, 1)
	for len(w.client.opened) > 0 {
		<-w.client.opened
	}
	go func() { done <- w.servers[srvKey].StreamWorkflowReplicationMessages(ss) }()
	result, during := "", "-"
	select {
	case err := <-done:
		switch {
		case err == nil:
			result = "returned-nil"
		case strings.Contains(err.Error(), "missing cluster & shard ID metadata"):
			result = "rejected missing"
		case strings.Contains(err.Error(), "unable to parse metadata key"):
			result = "rejected malformed"
		default:
			result = "rejected panic"
		}
	case <-w.client.opened:
		// handler body entered: the stream is being served
		if s, ok := withTimeout(2*time.Second, w.obs.PrintActiveStreams); ok {
			during = s
		} else {
			during = "blocked"
		}
		cancel()
		select {
		case err := <-done:
			if err == nil {
				result = "served"
			} else {
				result = "served-then-error"
			}
		case <-time.After(5 * time.Second):
			result = "wedged"
		}
	case <-time.After(3 * time.Second):
		result = "wedged"
	}
	after, ok := withTimeout(2*time.Second, w.obs.PrintActiveStreams)
	if !ok {
		after = "blocked"
	}
	ln, ok := withTimeout(2*time.Second, w.obs.VerifLen)
	lns := fmt.Sprint(ln)
	if !ok {
		lns = "blocked"
	}
	return fmt.Sprintf("%s during=%s after=%s len=%s", result, during, after, lns)
}

type c20ReplayHeld struct {
	id int64
	h  *c20Held
}

var c20Replayed []c20ReplayHeld

// c20Held: a well-formed stream (default mode) that is being served and kept open by the harness
type c20Held struct {
	cancel context.CancelFunc
	done   chan error
}

// hold opens a well-formed default-mode stream for server shard id and keeps it open; the observation is the observer's
// active list and counter length once the stream is being served
func (w *c20World) hold(id int64) (*c20Held, string) {
	md := mdPairs("1", "1", "2", fmt.Sprint(id))
	ctx, cancel := context.WithCancel(metadata.NewIncomingContext(context.Background(), md))
	ss := newSrvStream(ctx)
	h := &c20Held{cancel: cancel, done: make(chan error, 1)}
	for len(w.client.opened) > 0 {
		<-w.client.opened
	}
	go func() { h.done <- w.servers["default"].StreamWorkflowReplicationMessages(ss) }()
	select {
	case <-w.client.opened:
	case err := <-h.done:
		h.done <- err
		return h, "not-served"
	case <-time.After(3 * time.Second):
		return h, "wedged"
	}
	return h, w.activeAndLen()
}

func (w *c20World) release(h *c20Held) string {
	h.cancel()
	select {
	case <-h.done:
	case <-time.After(5 * time.Second):
		return "wedged"
	}
	return w.activeAndLen()
}

func (w *c20World) activeAndLen() string {
	act, ok := withTimeout(2*time.Second, w.obs.PrintActiveStreams)
	ln, ok2 := withTimeout(2*time.Second, w.obs.VerifLen)
	if !ok || !ok2 {
		return "blocked"
	}
	return fmt.Sprintf("%s len=%d", act, ln)
}

func TestC20(t *testing.T) {
	e := NewEnv(t, "observer")
	defer e.Close(t)
	rng := e.Rng
	weird := []string{"0", "-1", "1", "2", "1023", "1024", "1025", "65536", "1048576", "1048577", "238609293", "238609294", "238609295", "268435455",
		"477218588", "2147483647", "-2147483648", "2147483648", "4294967297", "4294968320", "9223372036854775807", "9223372036854775808", "-9223372036854775809",
		"abc", "1.5", "", "_", " 1", "+5", "0x10", "-", "1e3", "00000000000000000000000012"}
	modes := []string{"default", "lcm:6:3", "routing"}
	good := [4]string{"1", "1", "2", "1"}
	stopAll := false
	runCase := func(w *c20World, mode string, vals [4]string, followMode string) (wedged bool) {
		if stopAll {
			return true
		}
		op := fmt.Sprintf("open %s %s %s %s %s", mode, encTok(vals[0]), encTok(vals[1]), encTok(vals[2]), encTok(vals[3]))
		e.Emit("# next: "+op, "#")
		e.FlushNow() // an open can take the whole process down (a panic in a goroutine of the real code): keep the case readable
		obs := w.open(mode, vals)
		e.Emit(op, obs)
		e.Evals++
		e.Distinct(fnv(op))
		e.Count("result_" + strings.SplitN(obs, " during=", 2)[0])
		bad := strings.HasPrefix(obs, "wedged") || strings.Contains(obs, "blocked") || strings.HasPrefix(obs, "returned-nil") || strings.HasPrefix(obs, "served-then")
		if !strings.Contains(obs, "after=[]") {
			bad = true
		}
		// the follow-up well-formed open must be served
		op2 := fmt.Sprintf("open %s 1 1 2 1", followMode)
		obs2 := w.open(followMode, good)
		e.Emit(op2, obs2)
		if bad || !strings.HasPrefix(obs2, "served during=[1,] after=[]") {
			e.Violation(map[string]any{"ops": []string{"new", op, op2}, "what": fmt.Sprintf("open with metadata %q (mode %s) -> %q; following well-formed open -> %q", vals, mode, obs, obs2)})
			if len(e.Violations) >= 3 {
				stopAll = true // every later open on a wedged observer costs seconds; three witnesses are enough
			}
			return true
		}
		return false
	}
	newWorld := func() *c20World {
		e.Emit("new", "ok")
		return newC20World(6, 3)
	}
	replayCases := e.ReplayLines(t)
	onlyReplay := replayCases != nil
	replayCases = append(replayCases, e.CorpusCases(t)...)
	if len(replayCases) > 0 {
		for _, c := range replayCases {
			var w *c20World
			for _, op := range c {
				f := strings.Fields(op)
				switch f[0] {
				case "new":
					if w != nil {
						w.stop()
					}
					w = newWorld()
				case "hold", "release":
					// overlapping-stream histories replay through the same ops
					var id int64
					fmt.Sscan(f[1], &id)
					if w != nil {
						if f[0] == "hold" {
							h, obs := w.hold(id)
							c20Replayed = append(c20Replayed, c20ReplayHeld{id, h})
							e.Emit(op, obs)
						} else {
							for i, l := range c20Replayed {
								if l.id == id {
									e.Emit(op, w.release(l.h))
									c20Replayed = append(c20Replayed[:i], c20Replayed[i+1:]...)
									break
								}
							}
						}
						e.Evals++
					}
				case "open":
					dec := func(s string) string {
						if s == "%e" {
							return ""
						}
						return strings.ReplaceAll(s, "%20", " ")
					}
					runCase(w, f[1], [4]string{dec(f[2]), dec(f[3]), dec(f[4]), dec(f[5])}, "default")
				}
			}
			if w != nil {
				w.stop()
			}
		}
		if onlyReplay {
			return
		}
	}
	// boundary values x four keys x three modes; one observer per (mode,key) history
	for _, mode := range modes {
		for key := 0; key < 4; key++ {
			w := newWorld()
			for _, v := range weird {
				vals := good
				vals[key] = v
				if runCase(w, mode, vals, modes[rng.IntN(len(modes))]) && !stopAll {
					w.stop()
					w = newWorld() // a wedged/corrupted observer is abandoned so that later cases are judged on their own
				}
			}
			w.stop()
			e.Count("history_boundary")
		}
	}
	// random values, all keys at once
	n := 150
	if e.Thorough() {
		n = 3000
	}
	w := newWorld()
	for i := 0; i < n; i++ {
		var vals [4]string
		for k := range vals {
			switch rng.IntN(6) {
			case 0:
				vals[k] = fmt.Sprint(int32(rng.Uint32()))
			case 1:
				vals[k] = fmt.Sprint(int64(rng.Uint64()))
			case 2:
				vals[k] = weird[rng.IntN(len(weird))]
			case 3:
				vals[k] = fmt.Sprint(rng.IntN(1 << 21))
			default:
				vals[k] = fmt.Sprint(1 + rng.IntN(2000))
			}
		}
		if runCase(w, modes[rng.IntN(len(modes))], vals, modes[rng.IntN(len(modes))]) || i%50 == 49 {
			w.stop()
			w = newWorld()
		}
	}
	w.stop()
	// overlapping streams, deterministic: streams are opened and KEPT open, others open (growing the counters, or not) and
	// close around them in every order. After every step the observer's active list is exactly the set of streams being
	// served (monitor, independent of the model), and equals the model's counters (ops `hold` / `release`).
	if !stopAll {
		ids := []int64{1, 2, 5, 1023, 1024, 1025, 2048, 4096, 65536, 900000, 1048575, 1048576}
		nOv := 60
		if e.Thorough() {
			nOv = 1500
		}
		for i := 0; i < nOv && !stopAll; i++ {
			w := newWorld()
			var ops []string
			type live struct {
				id int64
				h  *c20Held
			}
			var held []live
			steps := 4 + rng.IntN(10)
			for st := 0; st < steps || len(held) > 0; st++ {
				var op, obs string
				if st < steps && (len(held) == 0 || (len(held) < 5 && rng.IntN(5) < 3)) {
					id := ids[rng.IntN(len(ids))]
					if rng.IntN(4) == 0 {
						id = int64(1 + rng.IntN(3000))
					}
					op = fmt.Sprintf("hold %d", id)
					e.Emit("# next: "+op, "#")
					e.FlushNow()
					h, o := w.hold(id)
					held, obs = append(held, live{id, h}), o
				} else {
					k := rng.IntN(len(held))
					op = fmt.Sprintf("release %d", held[k].id)
					obs = w.release(held[k].h)
					held = append(held[:k], held[k+1:]...)
				}
				ops = append(ops, op)
				e.Emit(op, obs)
				e.Evals++
				e.Count("overlap_" + strings.Fields(op)[0])
				// monitor: the active list is the sorted set of held ids
				want := map[int64]bool{}
				for _, l := range held {
					want[l.id] = true
				}
				var wl []int64
				for id := range want {
					wl = append(wl, id)
				}
				sort.Slice(wl, func(a, b int) bool { return wl[a] < wl[b] })
				ws := "["
				for _, id := range wl {
					ws += fmt.Sprintf("%d,", id)
				}
				ws += "]"
				if got := strings.SplitN(obs, " len=", 2)[0]; got != ws {
					e.Violation(map[string]any{"ops": append([]string{"new"}, ops...), "what": fmt.Sprintf("overlapping streams: after %q the observer reports active streams %s, the streams being served are %s (one stream's open or close changed another stream's bookkeeping)", op, got, ws)})
					stopAll = true
					break
				}
			}
			for _, l := range held {
				w.release(l.h)
			}
			w.stop()
			e.Count("history_overlapping")
		}
	}
	// concurrency: "bookkeeping for one stream never blocks or corrupts bookkeeping for others". Well-formed streams
	// open and close on small shard ids while other streams open with ever larger shard ids (each one makes the
	// counters grow); when everything has ended no stream may be counted as active. (Linearizable counters: the
	// sequential model's answer for any interleaving of balanced +1/-1 pairs is "[]".)
	if !stopAll {
		rounds := 40
		if e.Thorough() {
			rounds = 400
		}
		for r := 0; r < rounds && !stopAll; r++ {
			obs := proxy.NewReplicationStreamObserver(log.NewNoopLogger())
			var wg sync.WaitGroup
			var stop atomic.Bool
			var pairs atomic.Int64
			for k := int32(1); k <= 6; k++ {
				wg.Add(1)
				go func(k int32) {
					defer wg.Done()
					for i := 0; !stop.Load() || i < 2000; i++ { // keep opening/closing for as long as the counters keep growing
						obs.ReportStreamValue(k, 1)
						obs.ReportStreamValue(k, -1)
						pairs.Add(1)
					}
				}(k)
			}
			growDone := make(chan struct{})
			go func() {
				defer close(growDone)
				defer stop.Store(true)
				for idx := int32(60000 + rng.IntN(5000)); idx < 1<<20; idx = idx*9/8 + 1 { // every step re-allocates a large counter array
					obs.ReportStreamValue(idx, 1)
					obs.ReportStreamValue(idx, -1)
				}
			}()
			finished := make(chan struct{})
			go func() { <-growDone; wg.Wait(); close(finished) }()
			state := "[]"
			select {
			case <-finished:
				if s, ok := withTimeout(2*time.Second, obs.PrintActiveStreams); ok {
					state = s
				} else {
					state = "blocked"
				}
			case <-time.After(60 * time.Second):
				stop.Store(true)
				state = "wedged"
			}
			perWorker := pairs.Load() / 6
			op := fmt.Sprintf("# concurrent round %d: 6 streams opening and closing on shards 1..6 while other streams open with growing shard ids", r)
			e.Count("concurrent_pairs_per_stream_log2_" + fmt.Sprint(bits.Len64(uint64(perWorker))))
			e.Emit(op, "#")
			e.Evals++
			e.Count("concurrent_round")
			if state != "[]" {
				e.Violation(map[string]any{"ops": []string{op}, "what": fmt.Sprintf("after all concurrently opened and closed streams have ended the observer reports active streams %s (a stream's bookkeeping was corrupted by another stream's open)", state)})
				stopAll = true
			}
		}
	}
	e.Sample([]string{"new", "open default 1 1 2 238609294", "open default 1 1 2 1"})
	e.Sample([]string{"new", "open lcm:6:3 1 1 2 abc", "open routing 1 1 2 1"})
}
