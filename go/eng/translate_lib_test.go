package eng

// Shared machinery for C12 / C13 / C14 / C16: structural paths of the Go type graph, a reflective
// message builder along a path, an independent descriptor-driven reference translation, and a
// protoreflect-driven random filler.

import (
	"bytes"
	"fmt"
	"math/rand/v2"
	"reflect"
	"strings"

	commonpb "go.temporal.io/api/common/v1"
	enumspb "go.temporal.io/api/enums/v1"
	failurepb "go.temporal.io/api/failure/v1"
	historypb "go.temporal.io/api/history/v1"
	"go.temporal.io/server/api/adminservice/v1"
	"go.temporal.io/server/common/codec"
	"go.temporal.io/server/common/persistence/serialization"
	"google.golang.org/protobuf/proto"
	"google.golang.org/protobuf/reflect/protoreflect"

	"github.com/temporalio/s2s-proxy/interceptor"
)

var evSerializer = serialization.NewSerializer()

type tStep struct {
	Blob bool
	Ty   int // struct type id
	Pos  int // position in tgType.Fields
	Next int // next struct type (eventType after a blob)
}

type tPath struct {
	Root    int
	Steps   []tStep
	LeafTy  int
	LeafPos int
}

func (p tPath) opString() string {
	var sb strings.Builder
	fmt.Fprintf(&sb, "r%d", p.Root)
	for _, s := range p.Steps {
		if s.Blob {
			fmt.Fprintf(&sb, " b%d.%d", s.Ty, s.Pos)
		} else {
			fmt.Fprintf(&sb, " f%d.%d.%d", s.Ty, s.Pos, s.Next)
		}
	}
	fmt.Fprintf(&sb, " l%d.%d", p.LeafTy, p.LeafPos)
	return sb.String()
}

// leafKind selects which leaves a path enumeration collects.
type leafSel func(g *typeGraph, ty *tgType, f *tgField) bool

func nsLeaf(g *typeGraph, ty *tgType, f *tgField) bool {
	return f.OracleNs || (ty.Proto == "temporal.api.namespace.v1.NamespaceInfo" && f.Go == "Name")
}
func saLeaf(g *typeGraph, ty *tgType, f *tgField) bool { return f.SA }

// enumPaths lists the structural paths from root to selected leaves; a struct type occurs at most
// `maxOcc` times on one path (recursion bound); DataBlob fields are crossed into decoded events
// unless they are reviewed non-event blobs.
func enumPaths(g *typeGraph, root int, sel leafSel, maxOcc int, limit int) []tPath {
	var out []tPath
	evT := g.typeID(&historypb.HistoryEvent{})
	occ := map[int]int{}
	var steps []tStep
	var rec func(t int)
	rec = func(t int) {
		if len(out) >= limit || occ[t] >= maxOcc {
			return
		}
		occ[t]++
		defer func() { occ[t]-- }()
		ty := g.Types[t]
		for pos := range ty.Fields {
			f := &ty.Fields[pos]
			if sel(g, ty, f) {
				out = append(out, tPath{Root: root, Steps: append([]tStep{}, steps...), LeafTy: t, LeafPos: pos})
			}
			if f.Blob && !reviewedNonEventBlobs[ty.Go+"."+f.Go] {
				steps = append(steps, tStep{Blob: true, Ty: t, Pos: pos, Next: evT})
				rec(evT)
				steps = steps[:len(steps)-1]
				continue
			}
			for _, n := range f.Targets {
				steps = append(steps, tStep{Ty: t, Pos: pos, Next: n})
				rec(n)
				steps = steps[:len(steps)-1]
			}
		}
	}
	rec(root)
	return out
}

// attrEventType: attributes struct type id -> event type (to give built events a consistent EventType)
func (g *typeGraph) attrEventType() map[int]enumspb.EventType {
	out := map[int]enumspb.EventType{}
	for ev, at := range g.eventAttrTypes() {
		out[at] = ev
	}
	return out
}

// buildAlong builds a message of the path's root type populated exactly along the path, with `val` at the
// leaf; set writes the leaf: for string leaves the value, for others a caller-provided function.
func buildAlong(g *typeGraph, p tPath, setLeaf func(field reflect.Value)) (proto.Message, error) {
	attrEv := g.attrEventType()
	var build func(t int, steps []tStep) (reflect.Value, error)
	build = func(t int, steps []tStep) (reflect.Value, error) {
		rt := g.Types[t].rt
		v := reflect.New(rt)
		if len(steps) == 0 {
			setLeaf(v.Elem().Field(g.Types[p.LeafTy].Fields[p.LeafPos].Idx))
			return v, nil
		}
		s := steps[0]
		f := g.Types[t].Fields[s.Pos]
		fv := v.Elem().Field(f.Idx)
		if ev, ok := v.Interface().(*historypb.HistoryEvent); ok {
			ev.EventId = 1
			// give the event the type that matches the attributes we are about to populate
			if f.Go == "Attributes" && len(steps) > 1 {
				if et, ok := attrEv[steps[1].Next]; ok {
					ev.EventType = et
				}
			}
			if ev.EventType == 0 {
				ev.EventType = enumspb.EVENT_TYPE_WORKFLOW_EXECUTION_SIGNALED
			}
		}
		if s.Blob {
			child, err := build(s.Next, steps[1:])
			if err != nil {
				return v, err
			}
			blob, err := evSerializer.SerializeEvents([]*historypb.HistoryEvent{child.Interface().(*historypb.HistoryEvent)})
			if err != nil {
				return v, err
			}
			if fv.Kind() == reflect.Slice {
				fv.Set(reflect.ValueOf([]*commonpb.DataBlob{blob}))
			} else {
				fv.Set(reflect.ValueOf(blob))
			}
			return v, nil
		}
		child, err := build(s.Next, steps[1:])
		if err != nil {
			return v, err
		}
		if err := setChild(fv, child); err != nil {
			return v, fmt.Errorf("%s.%s: %w", g.Types[t].Go, f.Go, err)
		}
		return v, nil
	}
	v, err := build(p.Root, p.Steps)
	if err != nil {
		return nil, err
	}
	m, ok := v.Interface().(proto.Message)
	if !ok {
		return nil, fmt.Errorf("root %s is not a message", g.Types[p.Root].Go)
	}
	return m, nil
}

func setChild(fv reflect.Value, child reflect.Value) error {
	ft := fv.Type()
	switch ft.Kind() {
	case reflect.Ptr, reflect.Interface:
		if !child.Type().AssignableTo(ft) {
			return fmt.Errorf("cannot assign %s to %s", child.Type(), ft)
		}
		fv.Set(child)
	case reflect.Slice:
		sl := reflect.MakeSlice(ft, 1, 1)
		if err := setChild(sl.Index(0), child); err != nil {
			return err
		}
		fv.Set(sl)
	case reflect.Map:
		mp := reflect.MakeMap(ft)
		key := reflect.New(ft.Key()).Elem()
		switch key.Kind() {
		case reflect.String:
			key.SetString("k")
		case reflect.Int32, reflect.Int64, reflect.Int:
			key.SetInt(1)
		case reflect.Uint32, reflect.Uint64:
			key.SetUint(1)
		case reflect.Bool:
			key.SetBool(true)
		}
		el := reflect.New(ft.Elem()).Elem()
		if err := setChild(el, child); err != nil {
			return err
		}
		mp.SetMapIndex(key, el)
		fv.Set(mp)
	case reflect.Struct:
		fv.Set(child.Elem())
	default:
		return fmt.Errorf("unsupported container kind %s", ft.Kind())
	}
	return nil
}

// readLeaf walks the same path on a (translated) message and returns the leaf field value.
func readLeaf(g *typeGraph, p tPath, m proto.Message) (reflect.Value, error) {
	cur := reflect.ValueOf(m)
	for _, s := range p.Steps {
		for cur.Kind() == reflect.Ptr || cur.Kind() == reflect.Interface {
			if cur.IsNil() {
				return reflect.Value{}, fmt.Errorf("path not present: nil")
			}
			cur = cur.Elem()
		}
		if cur.Kind() != reflect.Struct || cur.Type() != g.Types[s.Ty].rt {
			return reflect.Value{}, fmt.Errorf("path not present: %s where %s was expected", cur.Type(), g.Types[s.Ty].Go)
		}
		f := g.Types[s.Ty].Fields[s.Pos]
		fv := cur.Field(f.Idx)
		if s.Blob {
			var blob *commonpb.DataBlob
			if fv.Kind() == reflect.Slice {
				blob = fv.Index(0).Interface().(*commonpb.DataBlob)
			} else {
				blob = fv.Interface().(*commonpb.DataBlob)
			}
			evs, err := evSerializer.DeserializeEvents(blob)
			if err != nil || len(evs) == 0 {
				return reflect.Value{}, fmt.Errorf("blob decode: %v (%d events)", err, len(evs))
			}
			pick := evs[0]
			for _, ev := range evs { // with pad events around it, the event built along the path has id 1
				if ev.EventId == 1 {
					pick = ev
				}
			}
			cur = reflect.ValueOf(pick)
			continue
		}
		switch fv.Kind() {
		case reflect.Slice:
			if fv.Len() == 0 {
				return reflect.Value{}, fmt.Errorf("path not present: empty %s", f.Go)
			}
			fv = fv.Index(0)
		case reflect.Map:
			if fv.Len() == 0 {
				return reflect.Value{}, fmt.Errorf("path not present: empty %s", f.Go)
			}
			fv = fv.MapIndex(fv.MapKeys()[0])
		}
		cur = fv
	}
	for cur.Kind() == reflect.Ptr || cur.Kind() == reflect.Interface {
		if cur.IsNil() {
			return reflect.Value{}, fmt.Errorf("path not present: nil")
		}
		cur = cur.Elem()
	}
	return cur.Field(g.Types[p.LeafTy].Fields[p.LeafPos].Idx), nil
}

// ---- independent reference: descriptor-driven translation (no Go field names, no code tables) ----

var nonEventBlobFields = map[string]bool{
	"temporal.server.api.adminservice.v1.AddTasksRequest.Task.blob":         true,
	"temporal.server.api.common.v1.HistoryTask.blob":                        true,
	"temporal.server.api.persistence.v1.ChasmComponentAttributes.Task.data": true,
	"temporal.server.api.persistence.v1.ChasmNode.data":                     true,
	"temporal.server.api.replication.v1.ReplicationTask.data":               true,
}

type refOpts struct {
	ns map[string]string // namespace name mapping (nil = none)
	sa map[string]string // search attribute key mapping (nil = none)
}

// refTranslate rewrites m in place by the property's definition, walking descriptors only.
func refTranslate(m protoreflect.Message, o refOpts) {
	md := m.Descriptor()
	m.Range(func(fd protoreflect.FieldDescriptor, v protoreflect.Value) bool {
		name := string(fd.Name())
		switch {
		case fd.Kind() == protoreflect.StringKind && !fd.IsList() && !fd.IsMap() &&
			(name == "namespace" || strings.HasSuffix(name, "_namespace") || (md.FullName() == "temporal.api.namespace.v1.NamespaceInfo" && name == "name")):
			if nv, ok := o.ns[v.String()]; ok {
				m.Set(fd, protoreflect.ValueOfString(nv))
			}
		case fd.IsMap():
			if o.sa != nil && name == "search_attributes" && fd.MapValue().Message() != nil && fd.MapValue().Message().FullName() == "temporal.api.common.v1.Payload" {
				renameKeys(v.Map(), o.sa)
			}
			if fd.MapValue().Message() != nil {
				v.Map().Range(func(_ protoreflect.MapKey, mv protoreflect.Value) bool {
					refTranslate(mv.Message(), o)
					return true
				})
			}
		case fd.Message() != nil && fd.Message().FullName() == "temporal.api.common.v1.DataBlob":
			if nonEventBlobFields[string(fd.FullName())] {
				return true
			}
			fix := func(bm protoreflect.Message) {
				blob := bm.Interface().(*commonpb.DataBlob)
				if len(blob.GetData()) == 0 {
					return
				}
				evs, err := evSerializer.DeserializeEvents(blob)
				if err != nil {
					return
				}
				for _, ev := range evs {
					refTranslate(ev.ProtoReflect(), o)
				}
				nb, err := evSerializer.SerializeEvents(evs)
				if err == nil {
					blob.Data, blob.EncodingType = nb.Data, nb.EncodingType
				}
			}
			if fd.IsList() {
				for i := 0; i < v.List().Len(); i++ {
					fix(v.List().Get(i).Message())
				}
			} else {
				fix(v.Message())
			}
		case fd.Message() != nil:
			if o.sa != nil && fd.Message().FullName() == "temporal.api.common.v1.SearchAttributes" && !fd.IsList() {
				sm := v.Message()
				ifd := sm.Descriptor().Fields().ByName("indexed_fields")
				if sm.Has(ifd) {
					renameKeys(sm.Mutable(ifd).Map(), o.sa)
				}
			}
			if fd.IsList() {
				for i := 0; i < v.List().Len(); i++ {
					refTranslate(v.List().Get(i).Message(), o)
				}
			} else {
				refTranslate(v.Message(), o)
			}
		}
		return true
	})
}

func renameKeys(mp protoreflect.Map, mapping map[string]string) {
	type kv struct {
		k string
		v protoreflect.Value
	}
	var all []kv
	mp.Range(func(k protoreflect.MapKey, v protoreflect.Value) bool {
		all = append(all, kv{k.String(), v})
		return true
	})
	for _, e := range all {
		mp.Clear(protoreflect.ValueOfString(e.k).MapKey())
	}
	for _, e := range all {
		nk := e.k
		if x, ok := mapping[e.k]; ok {
			nk = x
		}
		mp.Set(protoreflect.ValueOfString(nk).MapKey(), e.v)
	}
}

// canonBlobs re-serializes every event blob from its decoded events so that two messages can be compared
// with proto.Equal irrespective of encoding details. It returns false if some event blob does not decode.
func canonBlobs(m protoreflect.Message) bool {
	ok := true
	m.Range(func(fd protoreflect.FieldDescriptor, v protoreflect.Value) bool {
		switch {
		case fd.IsMap():
			if fd.MapValue().Message() != nil {
				v.Map().Range(func(_ protoreflect.MapKey, mv protoreflect.Value) bool {
					ok = canonBlobs(mv.Message()) && ok
					return true
				})
			}
		case fd.Message() != nil && fd.Message().FullName() == "temporal.api.common.v1.DataBlob":
			if nonEventBlobFields[string(fd.FullName())] {
				return true
			}
			fix := func(bm protoreflect.Message) {
				blob := bm.Interface().(*commonpb.DataBlob)
				if len(blob.GetData()) == 0 {
					return
				}
				evs, err := evSerializer.DeserializeEvents(blob)
				if err != nil {
					ok = false
					return
				}
				for _, ev := range evs {
					ok = canonBlobs(ev.ProtoReflect()) && ok
				}
				// deterministic bytes (protobuf map order is random): equal events <=> equal bytes
				if nb, err := (proto.MarshalOptions{Deterministic: true}).Marshal(&historypb.History{Events: evs}); err == nil {
					blob.Data = nb
					blob.EncodingType = enumspb.ENCODING_TYPE_PROTO3 // the comparison is on the decoded events, whatever the wire encoding was
				}
			}
			if fd.IsList() {
				for i := 0; i < v.List().Len(); i++ {
					fix(v.List().Get(i).Message())
				}
			} else {
				fix(v.Message())
			}
		case fd.Message() != nil:
			if fd.IsList() {
				for i := 0; i < v.List().Len(); i++ {
					ok = canonBlobs(v.List().Get(i).Message()) && ok
				}
			} else {
				ok = canonBlobs(v.Message()) && ok
			}
		}
		return true
	})
	return ok
}

// ---- random fully-populated messages (descriptor-driven) ----

type filler struct {
	rng   *rand.Rand
	names []string // strings used for every string field (mapped names, look-alikes, unmapped, empty)
	keys  []string // search-attribute keys
	depth int
}

func (fl *filler) str() string { return fl.names[fl.rng.IntN(len(fl.names))] }

func (fl *filler) fill(m protoreflect.Message, depth int) {
	md := m.Descriptor()
	oneofDone := map[string]bool{}
	for i := 0; i < md.Fields().Len(); i++ {
		fd := md.Fields().Get(i)
		if oo := fd.ContainingOneof(); oo != nil && !oo.IsSynthetic() {
			if oneofDone[string(oo.Name())] {
				continue
			}
			oneofDone[string(oo.Name())] = true
			fd = oo.Fields().Get(fl.rng.IntN(oo.Fields().Len()))
		}
		if fl.rng.IntN(5) == 0 {
			continue // leave some fields unset
		}
		if (fd.Message() != nil || (fd.IsMap() && fd.MapValue().Message() != nil)) && depth <= 0 {
			continue
		}
		switch {
		case fd.IsMap():
			mp := m.Mutable(fd).Map()
			n := 1 + fl.rng.IntN(2)
			for k := 0; k < n; k++ {
				var key protoreflect.MapKey
				switch fd.MapKey().Kind() {
				case protoreflect.StringKind:
					s := fmt.Sprintf("key%d", k)
					if fd.Name() == "search_attributes" || fd.Name() == "indexed_fields" {
						s = fl.keys[fl.rng.IntN(len(fl.keys))]
					}
					key = protoreflect.ValueOfString(s).MapKey()
				case protoreflect.BoolKind:
					key = protoreflect.ValueOfBool(k == 0).MapKey()
				case protoreflect.Int32Kind, protoreflect.Sint32Kind, protoreflect.Sfixed32Kind:
					key = protoreflect.ValueOfInt32(int32(k + 1)).MapKey()
				case protoreflect.Int64Kind, protoreflect.Sint64Kind, protoreflect.Sfixed64Kind:
					key = protoreflect.ValueOfInt64(int64(k + 1)).MapKey()
				case protoreflect.Uint32Kind, protoreflect.Fixed32Kind:
					key = protoreflect.ValueOfUint32(uint32(k + 1)).MapKey()
				default:
					key = protoreflect.ValueOfUint64(uint64(k + 1)).MapKey()
				}
				if fd.MapValue().Message() != nil {
					nv := mp.NewValue()
					fl.fill(nv.Message(), depth-1)
					mp.Set(key, nv)
				} else {
					mp.Set(key, fl.scalar(fd.MapValue()))
				}
			}
		case fd.IsList():
			l := m.Mutable(fd).List()
			n := fl.rng.IntN(3)
			for k := 0; k < n; k++ {
				if fd.Message() != nil {
					nv := l.NewElement()
					fl.fillMsgField(fd, nv.Message(), depth-1)
					l.Append(nv)
				} else {
					l.Append(fl.scalar(fd))
				}
			}
		case fd.Message() != nil:
			nv := m.NewField(fd)
			fl.fillMsgField(fd, nv.Message(), depth-1)
			m.Set(fd, nv)
		default:
			m.Set(fd, fl.scalar(fd))
		}
	}
}

// fillMsgField fills a message-typed field; event blobs get real serialized events.
func (fl *filler) fillMsgField(fd protoreflect.FieldDescriptor, sub protoreflect.Message, depth int) {
	if sub.Descriptor().FullName() == "temporal.api.common.v1.DataBlob" && !nonEventBlobFields[string(fd.FullName())] {
		n := 1 + fl.rng.IntN(3)
		var evs []*historypb.HistoryEvent
		for i := 0; i < n; i++ {
			ev := &historypb.HistoryEvent{}
			fl.fill(ev.ProtoReflect(), 3)
			ev.EventId = int64(i + 1)
			fixEventType(ev)
			evs = append(evs, ev)
		}
		if blob, err := evSerializer.SerializeEvents(evs); err == nil {
			proto.Merge(sub.Interface(), blob)
		}
		return
	}
	fl.fill(sub, depth)
	if ev, ok := sub.Interface().(*historypb.HistoryEvent); ok {
		fixEventType(ev)
	}
}

// fixEventType makes EventType agree with the populated attributes (as real histories do).
func fixEventType(ev *historypb.HistoryEvent) {
	m := ev.ProtoReflect()
	oo := m.Descriptor().Oneofs().ByName("attributes")
	fd := m.WhichOneof(oo)
	if fd == nil {
		ev.EventType = enumspb.EVENT_TYPE_WORKFLOW_EXECUTION_SIGNALED
		return
	}
	want := strings.ToLower(strings.ReplaceAll(strings.TrimSuffix(string(fd.Name()), "_event_attributes"), "_", ""))
	for num, name := range enumspb.EventType_name {
		if strings.ToLower(strings.ReplaceAll(strings.TrimPrefix(name, "EVENT_TYPE_"), "_", "")) == want {
			ev.EventType = enumspb.EventType(num)
			return
		}
	}
}

func (fl *filler) scalar(fd protoreflect.FieldDescriptor) protoreflect.Value {
	switch fd.Kind() {
	case protoreflect.StringKind:
		return protoreflect.ValueOfString(fl.str())
	case protoreflect.BytesKind:
		return protoreflect.ValueOfBytes([]byte{byte(fl.rng.IntN(256)), 1, 2})
	case protoreflect.BoolKind:
		return protoreflect.ValueOfBool(fl.rng.IntN(2) == 0)
	case protoreflect.EnumKind:
		vals := fd.Enum().Values()
		return protoreflect.ValueOfEnum(vals.Get(fl.rng.IntN(vals.Len())).Number())
	case protoreflect.Int32Kind, protoreflect.Sint32Kind, protoreflect.Sfixed32Kind:
		return protoreflect.ValueOfInt32(int32(fl.rng.IntN(100)))
	case protoreflect.Int64Kind, protoreflect.Sint64Kind, protoreflect.Sfixed64Kind:
		return protoreflect.ValueOfInt64(int64(fl.rng.IntN(100)))
	case protoreflect.Uint32Kind, protoreflect.Fixed32Kind:
		return protoreflect.ValueOfUint32(uint32(fl.rng.IntN(100)))
	case protoreflect.Uint64Kind, protoreflect.Fixed64Kind:
		return protoreflect.ValueOfUint64(uint64(fl.rng.IntN(100)))
	case protoreflect.FloatKind:
		return protoreflect.ValueOfFloat32(1.5)
	case protoreflect.DoubleKind:
		return protoreflect.ValueOfFloat64(2.5)
	}
	return fd.Default()
}

// listNsValues lists the value of every namespace-name field of every populated message inside m (set or
// not: an unset proto3 string is the empty name), by descriptors only, descending into event blobs.
func listNsValues(m protoreflect.Message, out *[]string) {
	md := m.Descriptor()
	for i := 0; i < md.Fields().Len(); i++ {
		fd := md.Fields().Get(i)
		name := string(fd.Name())
		if fd.Kind() == protoreflect.StringKind && !fd.IsList() && !fd.IsMap() && (fd.ContainingOneof() == nil || m.Has(fd)) &&
			(name == "namespace" || strings.HasSuffix(name, "_namespace") || (md.FullName() == "temporal.api.namespace.v1.NamespaceInfo" && name == "name")) {
			*out = append(*out, m.Get(fd).String())
		}
	}
	m.Range(func(fd protoreflect.FieldDescriptor, v protoreflect.Value) bool {
		switch {
		case fd.IsMap():
			if fd.MapValue().Message() != nil {
				v.Map().Range(func(_ protoreflect.MapKey, mv protoreflect.Value) bool {
					listNsValues(mv.Message(), out)
					return true
				})
			}
		case fd.Message() != nil && fd.Message().FullName() == "temporal.api.common.v1.DataBlob":
			if nonEventBlobFields[string(fd.FullName())] {
				return true
			}
			dec := func(bm protoreflect.Message) {
				blob := bm.Interface().(*commonpb.DataBlob)
				if len(blob.GetData()) == 0 {
					return
				}
				if evs, err := evSerializer.DeserializeEvents(blob); err == nil {
					for _, ev := range evs {
						listNsValues(ev.ProtoReflect(), out)
					}
				}
			}
			if fd.IsList() {
				for i := 0; i < v.List().Len(); i++ {
					dec(v.List().Get(i).Message())
				}
			} else {
				dec(v.Message())
			}
		case fd.Message() != nil:
			if fd.IsList() {
				for i := 0; i < v.List().Len(); i++ {
					listNsValues(v.List().Get(i).Message(), out)
				}
			} else {
				listNsValues(v.Message(), out)
			}
		}
		return true
	})
}

// ---- batch context: the same message with more events around the one a path leads to ----

// mapEventBlobs applies f to the decoded events of every event blob inside m (descriptor walk; blobs that do
// not decode are left alone) and re-serializes the result.
func mapEventBlobs(m protoreflect.Message, f func([]*historypb.HistoryEvent) []*historypb.HistoryEvent) {
	m.Range(func(fd protoreflect.FieldDescriptor, v protoreflect.Value) bool {
		switch {
		case fd.IsMap():
			if fd.MapValue().Message() != nil {
				v.Map().Range(func(_ protoreflect.MapKey, mv protoreflect.Value) bool {
					mapEventBlobs(mv.Message(), f)
					return true
				})
			}
		case fd.Message() != nil && fd.Message().FullName() == "temporal.api.common.v1.DataBlob":
			if nonEventBlobFields[string(fd.FullName())] {
				return true
			}
			fix := func(bm protoreflect.Message) {
				blob := bm.Interface().(*commonpb.DataBlob)
				if len(blob.GetData()) == 0 {
					return
				}
				evs, err := evSerializer.DeserializeEvents(blob)
				if err != nil {
					return
				}
				if nb, err := evSerializer.SerializeEvents(f(evs)); err == nil {
					blob.Data, blob.EncodingType = nb.Data, nb.EncodingType
				}
			}
			if fd.IsList() {
				for i := 0; i < v.List().Len(); i++ {
					fix(v.List().Get(i).Message())
				}
			} else {
				fix(v.Message())
			}
		case fd.Message() != nil:
			if fd.IsList() {
				for i := 0; i < v.List().Len(); i++ {
					mapEventBlobs(v.List().Get(i).Message(), f)
				}
			} else {
				mapEventBlobs(v.Message(), f)
			}
		}
		return true
	})
}

// padEvents: one event per attributes type that has a field selected by `want` (by descriptor), in the given
// shapes: the attributes present but the field unset ("unset"), and the field set by `fillField` ("set").
// Event ids start at 100 so that the event built along a path (id 1) stays recognisable.
func padEvents(want func(fd protoreflect.FieldDescriptor) bool, fillField func(attrs protoreflect.Message, fd protoreflect.FieldDescriptor)) (unset, set []*historypb.HistoryEvent) {
	evd := (&historypb.HistoryEvent{}).ProtoReflect().Descriptor()
	oo := evd.Oneofs().ByName("attributes")
	id := int64(100)
	for i := 0; i < oo.Fields().Len(); i++ {
		afd := oo.Fields().Get(i)
		var target protoreflect.FieldDescriptor
		for j := 0; j < afd.Message().Fields().Len(); j++ {
			if want(afd.Message().Fields().Get(j)) {
				target = afd.Message().Fields().Get(j)
				break
			}
		}
		if target == nil {
			continue
		}
		for _, withField := range []bool{false, true} {
			ev := &historypb.HistoryEvent{EventId: id}
			id++
			attrs := ev.ProtoReflect().Mutable(afd).Message()
			if withField {
				fillField(attrs, target)
			}
			fixEventType(ev)
			if withField {
				set = append(set, ev)
			} else {
				unset = append(unset, ev)
			}
		}
	}
	return
}

func plainPadEvent(id int64) *historypb.HistoryEvent {
	return &historypb.HistoryEvent{EventId: id, EventType: enumspb.EVENT_TYPE_WORKFLOW_TASK_COMPLETED,
		Attributes: &historypb.HistoryEvent_WorkflowTaskCompletedEventAttributes{WorkflowTaskCompletedEventAttributes: &historypb.WorkflowTaskCompletedEventAttributes{Identity: "worker"}}}
}

// badUTF8Marker is put into a failure message of a pad event; corruptBlobs then turns it into invalid UTF-8 of the
// same length inside the serialized blob bytes (the standard codec refuses to marshal invalid UTF-8 itself).
const badUTF8Marker = "bad~^~^utf8"

func failurePadEvent(id int64) *historypb.HistoryEvent {
	return &historypb.HistoryEvent{EventId: id, EventType: enumspb.EVENT_TYPE_ACTIVITY_TASK_FAILED,
		Attributes: &historypb.HistoryEvent_ActivityTaskFailedEventAttributes{ActivityTaskFailedEventAttributes: &historypb.ActivityTaskFailedEventAttributes{
			Identity: "worker", Failure: &failurepb.Failure{Message: badUTF8Marker, Source: "GoSDK"}}}}
}

// invalidIdentityMarker is put into a NON-failure string of a pad event: corrupted, the blob cannot be repaired.
const invalidIdentityMarker = "wrk~^~^id"

func corruptBytes(data []byte) []byte {
	return bytes.ReplaceAll(data, []byte("~^~^"), []byte("\xff\xfe\xff\xfe"))
}

// corruptBlobs rewrites the marker inside every DataBlob's bytes into invalid UTF-8; returns how many blobs changed.
func corruptBlobs(m protoreflect.Message) int {
	n := 0
	m.Range(func(fd protoreflect.FieldDescriptor, v protoreflect.Value) bool {
		switch {
		case fd.IsMap():
			if fd.MapValue().Message() != nil {
				v.Map().Range(func(_ protoreflect.MapKey, mv protoreflect.Value) bool {
					n += corruptBlobs(mv.Message())
					return true
				})
			}
		case fd.Message() != nil && fd.Message().FullName() == "temporal.api.common.v1.DataBlob":
			fix := func(bm protoreflect.Message) {
				blob := bm.Interface().(*commonpb.DataBlob)
				if nd := corruptBytes(blob.GetData()); !bytes.Equal(nd, blob.GetData()) {
					blob.Data = nd
					n++
				}
			}
			if fd.IsList() {
				for i := 0; i < v.List().Len(); i++ {
					fix(v.List().Get(i).Message())
				}
			} else {
				fix(v.Message())
			}
		case fd.Message() != nil:
			if fd.IsList() {
				for i := 0; i < v.List().Len(); i++ {
					n += corruptBlobs(v.List().Get(i).Message())
				}
			} else {
				n += corruptBlobs(v.Message())
			}
		}
		return true
	})
	return n
}

// jsonEncodeBlobs re-encodes every event blob inside m as JSON (the other encoding the history serializer reads).
func jsonEncodeBlobs(m protoreflect.Message) int {
	n := 0
	enc := codec.NewJSONPBEncoder()
	m.Range(func(fd protoreflect.FieldDescriptor, v protoreflect.Value) bool {
		switch {
		case fd.IsMap():
			if fd.MapValue().Message() != nil {
				v.Map().Range(func(_ protoreflect.MapKey, mv protoreflect.Value) bool {
					n += jsonEncodeBlobs(mv.Message())
					return true
				})
			}
		case fd.Message() != nil && fd.Message().FullName() == "temporal.api.common.v1.DataBlob":
			if nonEventBlobFields[string(fd.FullName())] {
				return true
			}
			fix := func(bm protoreflect.Message) {
				blob := bm.Interface().(*commonpb.DataBlob)
				if len(blob.GetData()) == 0 {
					return
				}
				evs, err := evSerializer.DeserializeEvents(blob)
				if err != nil {
					return
				}
				if b, err := enc.Encode(&historypb.History{Events: evs}); err == nil {
					blob.Data, blob.EncodingType = b, enumspb.ENCODING_TYPE_JSON
					n++
				}
			}
			if fd.IsList() {
				for i := 0; i < v.List().Len(); i++ {
					fix(v.List().Get(i).Message())
				}
			} else {
				fix(v.Message())
			}
		case fd.Message() != nil:
			if fd.IsList() {
				for i := 0; i < v.List().Len(); i++ {
					n += jsonEncodeBlobs(v.List().Get(i).Message())
				}
			} else {
				n += jsonEncodeBlobs(v.Message())
			}
		}
		return true
	})
	return n
}

// sparseWarm hands the translator, before anything else, an EMPTY and a scalars-only ("idle") instance of every root
// type: an idle stream message, an empty page, a request with nothing set. Translation of a message must not depend on
// what the process translated before; a shortcut that remembers "a message of this type had nothing to translate" is
// taught exactly that here, for every type, before the per-path checks run.
func sparseWarm(g *typeGraph, roots []int, fl *filler, trs ...interceptor.Translator) int {
	n := 0
	for _, r := range roots {
		for variant := 0; variant < 2; variant++ {
			pm, ok := reflect.New(g.Types[r].rt).Interface().(proto.Message)
			if !ok {
				continue
			}
			if variant == 1 {
				fl.fill(pm.ProtoReflect(), 0) // scalars of the root only
			}
			for _, tr := range trs {
				_, _ = tr.TranslateRequest(proto.Clone(pm))
				_, _ = tr.TranslateResponse(proto.Clone(pm))
			}
			n++
		}
	}
	return n
}

// bigBatches builds a raw-history response whose k history batches are each larger than `size` bytes (a padding event
// with a long identity) and hold the event mk(i); large batches are where buffer pooling / re-use optimisations live.
func bigBatches(k, size int, mk func(i int) *historypb.HistoryEvent) *adminservice.GetWorkflowExecutionRawHistoryV2Response {
	resp := &adminservice.GetWorkflowExecutionRawHistoryV2Response{}
	for i := 0; i < k; i++ {
		pad := plainPadEvent(int64(10*i + 1))
		pad.GetWorkflowTaskCompletedEventAttributes().Identity = strings.Repeat(fmt.Sprintf("worker-%d-", i), size/9+1)
		ev := mk(i)
		ev.EventId = int64(10*i + 2)
		blob, err := evSerializer.SerializeEvents([]*historypb.HistoryEvent{pad, ev})
		if err != nil {
			panic(err)
		}
		resp.HistoryBatches = append(resp.HistoryBatches, blob)
	}
	return resp
}

// translateSeveralBig: several large batches in one message, and several such messages translated one after the other
// while the earlier results are still referenced (in flight). Every blob that left the translator must STILL decode to the
// reference translation after all of them have been translated. Returns a description of the first discrepancy, or "".
func translateSeveralBig(tr interceptor.Translator, request bool, ro refOpts, mk func(msg, i int) *historypb.HistoryEvent) string {
	var msgs, refs []proto.Message
	for mi, k := range []int{3, 2, 1, 2} {
		m := bigBatches(k, 5000+1500*mi, func(i int) *historypb.HistoryEvent { return mk(mi, i) })
		ref := proto.Clone(m)
		refTranslate(ref.ProtoReflect(), ro)
		var err error
		if request {
			_, err = tr.TranslateRequest(m)
		} else {
			_, err = tr.TranslateResponse(m)
		}
		if err != nil {
			return fmt.Sprintf("message %d: %v", mi+1, err)
		}
		msgs, refs = append(msgs, m), append(refs, ref)
	}
	for mi := range msgs {
		a, b := proto.Clone(msgs[mi]), refs[mi]
		okA, okB := canonBlobs(a.ProtoReflect()), canonBlobs(b.ProtoReflect())
		if !okA || !okB {
			return fmt.Sprintf("message %d of %d (each with large history batches, translated one after the other): a batch that left the translator no longer decodes (result decodes=%v)", mi+1, len(msgs), okA)
		}
		if !proto.Equal(a, b) {
			return fmt.Sprintf("message %d of %d (each with large history batches, translated one after the other): what left the translator differs from the reference translation once the later messages have been translated", mi+1, len(msgs))
		}
	}
	return ""
}
