package eng

// C19, long-lived endpoints: a listener / dialer holds the TLS configuration it was built with for days, while time
// passes and the files it was built from are renewed on disk (certificate managers rewrite key pairs well before
// expiry). Whatever an endpoint does about that, it admits only peers authenticated by the configured CA — at every
// moment of its life. Runs in a synctest bubble (virtual clock: hours pass in no time; certificates are issued relative
// to the bubble's clock), handshakes over in-memory pipes, the configurations come from the real
// encryption.GetServerTLSConfig / GetClientTLSConfig and are used for every handshake of the scenario.

import (
	"crypto/ecdsa"
	"crypto/elliptic"
	"crypto/rand"
	"crypto/tls"
	"crypto/x509"
	"crypto/x509/pkix"
	"fmt"
	"math/big"
	"net"
	"os"
	"path/filepath"
	"testing"
	"testing/synctest"
	"time"

	"go.temporal.io/server/common/log"

	"github.com/temporalio/s2s-proxy/encryption"
)

func c19LongLived(t *testing.T, e *Env) {
	type line struct{ op, obs, viol string }
	var lines []line
	steps := 14
	if e.Thorough() {
		steps = 80
	}
	rng := e.Rng
	synctest.Test(t, func(t *testing.T) {
		dir := filepath.Join(e.Out, "certs-longlived")
		_ = os.MkdirAll(dir, 0o700)
		serial := int64(100)
		mk := func(cn string, ca *x509.Certificate, caKey *ecdsa.PrivateKey, isCA bool, notAfter time.Time, eku []x509.ExtKeyUsage) (*x509.Certificate, *ecdsa.PrivateKey, []byte) {
			key, _ := ecdsa.GenerateKey(elliptic.P256(), rand.Reader)
			serial++
			tmpl := &x509.Certificate{SerialNumber: big.NewInt(serial), Subject: pkix.Name{CommonName: cn}, DNSNames: []string{"proxy.test"}, NotBefore: time.Now().Add(-time.Hour), NotAfter: notAfter,
				KeyUsage: x509.KeyUsageDigitalSignature, ExtKeyUsage: eku}
			if isCA {
				tmpl.IsCA, tmpl.BasicConstraintsValid, tmpl.KeyUsage = true, true, x509.KeyUsageCertSign|x509.KeyUsageDigitalSignature
			}
			parent, signKey := ca, caKey
			if ca == nil {
				parent, signKey = tmpl, key
			}
			der, err := x509.CreateCertificate(rand.Reader, tmpl, parent, &key.PublicKey, signKey)
			if err != nil {
				t.Fatal(err)
			}
			c, _ := x509.ParseCertificate(der)
			return c, key, der
		}
		both := []x509.ExtKeyUsage{x509.ExtKeyUsageClientAuth, x509.ExtKeyUsageServerAuth}
		far := time.Now().Add(60 * 24 * time.Hour)
		ca1, ca1Key, ca1DER := mk("configured-ca", nil, nil, true, far, nil)
		ca2, ca2Key, _ := mk("foreign-ca", nil, nil, true, far, nil)
		caFile := filepath.Join(dir, "ca.pem")
		pemWrite(t, caFile, "CERTIFICATE", ca1DER)
		leaf := func(cn string, ca *x509.Certificate, caKey *ecdsa.PrivateKey, notAfter time.Time, eku []x509.ExtKeyUsage) *tls.Certificate {
			_, key, der := mk(cn, ca, caKey, false, notAfter, eku)
			return &tls.Certificate{Certificate: [][]byte{der}, PrivateKey: key}
		}
		peers := map[string]*tls.Certificate{
			"validChain": leaf("peer", ca1, ca1Key, far, both),
			"selfSigned": leaf("peer", nil, nil, far, both),
			"otherCA":    leaf("peer", ca2, ca2Key, far, both),
			"expired":    leaf("peer", ca1, ca1Key, time.Now().Add(-30*time.Minute), both),
		}
		peers["wrongUsage.client"] = leaf("peer", ca1, ca1Key, far, []x509.ExtKeyUsage{x509.ExtKeyUsageServerAuth})
		peers["wrongUsage.server"] = leaf("peer", ca1, ca1Key, far, []x509.ExtKeyUsage{x509.ExtKeyUsageClientAuth})
		ownCert, ownKey := filepath.Join(dir, "own.pem"), filepath.Join(dir, "own.key")
		var ownNotAfter time.Time
		writeOwn := func(notAfter time.Time) {
			c := leaf("proxy", ca1, ca1Key, notAfter, both)
			// written the way certificate managers do it: new files, renamed over the old ones
			pemWrite(t, ownCert+".new", "CERTIFICATE", c.Certificate[0])
			kb, _ := x509.MarshalECPrivateKey(c.PrivateKey.(*ecdsa.PrivateKey))
			pemWrite(t, ownKey+".new", "EC PRIVATE KEY", kb)
			_ = os.Rename(ownKey+".new", ownKey)
			_ = os.Rename(ownCert+".new", ownCert)
			ownNotAfter = notAfter
		}
		writeOwn(time.Now().Add(30 * time.Hour))
		cfg := encryption.TLSConfig{CertificatePath: ownCert, KeyPath: ownKey, RemoteCAPath: caFile, CAServerName: "proxy.test"}
		sc, err1 := encryption.GetServerTLSConfig(cfg, log.NewNoopLogger())
		cc, err2 := encryption.GetClientTLSConfig(cfg)
		if err1 != nil || err2 != nil || sc == nil || cc == nil {
			t.Fatalf("long-lived endpoints: building the TLS configuration failed: %v %v", err1, err2)
		}
		const caseStr = "1 1 good 0"
		credList := []string{"validChain", "selfSigned", "otherCA", "expired", "wrongUsage", "none"}
		history := []string{"# long-lived endpoints built (own certificate valid for 30 h)"}
		matrix := func() {
			for _, cred := range credList {
				// server role: the peer is a client that presents `cred` and does not judge the server (only the server's decision counts)
				pc := peers[cred]
				if cred == "wrongUsage" {
					pc = peers["wrongUsage.client"]
				}
				cli := &tls.Config{InsecureSkipVerify: true, MinVersion: tls.VersionTLS12, GetClientCertificate: func(*tls.CertificateRequestInfo) (*tls.Certificate, error) {
					if pc == nil {
						return &tls.Certificate{}, nil
					}
					return pc, nil
				}}
				p1, p2 := net.Pipe()
				got := handshakeOutcome(p1, p2, sc, cli)
				l := line{op: fmt.Sprintf("srvadmit %s %s", caseStr, cred), obs: got}
				if (cred == "validChain") != (got == "admit") {
					l.viol = fmt.Sprintf("long-lived server endpoint (CA verification configured), after [%s]: answered %q to a %s client", joinHist(history), got, cred)
				}
				lines = append(lines, l)
				// client role: the peer is a server presenting `cred`
				ps := peers[cred]
				if cred == "wrongUsage" {
					ps = peers["wrongUsage.server"]
				}
				srv := &tls.Config{MinVersion: tls.VersionTLS12}
				if ps != nil {
					srv.Certificates = []tls.Certificate{*ps}
				}
				p1, p2 = net.Pipe()
				got = handshakeOutcome(p1, p2, srv, cc)
				l = line{op: fmt.Sprintf("cliadmit %s %s", caseStr, cred), obs: got}
				if (cred == "validChain") != (got == "admit") {
					l.viol = fmt.Sprintf("long-lived client endpoint (CA verification configured), after [%s]: answered %q to a %s server", joinHist(history), got, cred)
				}
				lines = append(lines, l)
			}
		}
		matrix()
		elapsed := time.Duration(0)
		for i := 0; i < steps; i++ {
			switch k := rng.IntN(10); {
			case k < 5:
				d := []time.Duration{time.Second, 31 * time.Second, 10 * time.Minute, 3 * time.Hour, 7 * time.Hour, 26 * time.Hour}[rng.IntN(6)]
				if elapsed+d > 40*24*time.Hour {
					continue
				}
				time.Sleep(d)
				elapsed += d
				history = append(history, "wait "+d.String())
			case k < 8:
				writeOwn(maxTime(ownNotAfter, time.Now()).Add(time.Duration(6+rng.IntN(30)) * time.Hour))
				history = append(history, fmt.Sprintf("own key pair renewed on disk (valid for %s from now)", time.Until(ownNotAfter).Round(time.Hour)))
			case k < 9:
				writeOwn(time.Now().Add(2 * time.Hour)) // replaced by a SHORTER-lived pair
				history = append(history, "own key pair replaced on disk by one valid for 2h")
			default:
				pemWrite(t, caFile+".new", "CERTIFICATE", ca1DER) // the CA file rewritten with the same content
				_ = os.Rename(caFile+".new", caFile)
				history = append(history, "CA file rewritten (same CA)")
			}
			lines = append(lines, line{op: "# long-lived: " + history[len(history)-1], obs: "#"})
			matrix()
		}
	})
	for _, l := range lines {
		e.Emit(l.op, l.obs)
		e.Evals++
		if l.obs != "#" {
			e.Count("longlived_" + l.obs)
		}
		if l.viol != "" {
			e.Violation(map[string]any{"what": l.viol, "ops": []string{l.op}})
		}
	}
}

func maxTime(a, b time.Time) time.Time {
	if a.After(b) {
		return a
	}
	return b
}

func joinHist(h []string) string {
	s := ""
	for i, x := range h {
		if i > 0 {
			s += "; "
		}
		s += x
	}
	return s
}
