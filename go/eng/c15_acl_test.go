package eng

import (
	"context"
	"fmt"
	"io"
	"os"
	"sort"
	"strings"
	"testing"
	"time"

	"google.golang.org/grpc"
	"google.golang.org/grpc/codes"
	"google.golang.org/grpc/metadata"
	"google.golang.org/grpc/status"
	"google.golang.org/protobuf/reflect/protoreflect"
	"google.golang.org/protobuf/reflect/protoregistry"

	"github.com/temporalio/s2s-proxy/common"
	"github.com/temporalio/s2s-proxy/config"
)

// ---- C15: method allow-list on the inbound server (engine "acl") -----------------------------

type svcMethod struct {
	Full      string
	Name      string
	Streaming bool
}

func serviceMethods(service string) []svcMethod {
	d, err := protoregistry.GlobalFiles.FindDescriptorByName(protoreflect.FullName(service))
	if err != nil {
		panic(err)
	}
	sd := d.(protoreflect.ServiceDescriptor)
	var out []svcMethod
	for i := 0; i < sd.Methods().Len(); i++ {
		m := sd.Methods().Get(i)
		out = append(out, svcMethod{Full: "/" + service + "/" + string(m.Name()), Name: string(m.Name()), Streaming: m.IsStreamingClient() || m.IsStreamingServer()})
	}
	sort.Slice(out, func(i, j int) bool { return out[i].Name < out[j].Name })
	return out
}

const adminSvc = "temporal.server.api.adminservice.v1.AdminService"
const workflowSvc = "temporal.api.workflowservice.v1.WorkflowService"

// callThrough performs the call and classifies the outcome as the property sees it.
func callThrough(conn *grpc.ClientConn, be *backend, m svcMethod, md metadata.MD) (decision string, backendSaw bool, code codes.Code) {
	be.Reset()
	var err error
	if m.Streaming {
		ctx, cancel := context.WithTimeout(context.Background(), 5*time.Second)
		defer cancel()
		if md == nil {
			md = metadata.MD{}
		}
		md = metadata.Join(md, streamMD(2, 1, 1, 1))
		ctx = metadata.NewOutgoingContext(ctx, md)
		var st grpc.ClientStream
		st, err = conn.NewStream(ctx, &grpc.StreamDesc{ServerStreams: true, ClientStreams: true}, m.Full)
		if err == nil {
			resp := newMsg(methodDesc(m.Full).Output())
			err = st.RecvMsg(resp)
			if err == io.EOF {
				err = nil
			}
		}
	} else {
		_, err = invoke(conn, m.Full, nil, md)
	}
	code = status.Code(err)
	for _, c := range be.Calls() {
		if c.Method == m.Full {
			backendSaw = true
		}
	}
	if code == codes.PermissionDenied {
		return "denied", backendSaw, code
	}
	return "forward", backendSaw, code
}

func TestC15(t *testing.T) {
	e := NewEnv(t, "acl")
	defer e.Close(t)
	rng := e.Rng
	admin := serviceMethods(adminSvc)
	wf := serviceMethods(workflowSvc)
	e.Stats["extra"] = map[string]int{"admin_methods": len(admin), "workflow_methods": len(wf)}
	all := append(append([]svcMethod{}, admin...), wf...)
	// allow-lists: absent policy, empty (= unrestricted), singletons, random subsets, everything
	type pol struct {
		present    bool
		methods    []string
		namespaces []string // the policy's namespace allow-list (C16's clause); the METHOD verdict must not depend on it
	}
	pols := []pol{{present: false}, {present: true}}
	nSingle := 6
	if e.Thorough() {
		nSingle = len(admin)
	}
	perm := rng.Perm(len(admin))
	for i := 0; i < nSingle; i++ {
		pols = append(pols, pol{present: true, methods: []string{admin[perm[i]].Name}})
	}
	pols = append(pols, pol{present: true, methods: []string{"StreamWorkflowReplicationMessages"}}, pol{present: true, methods: []string{"RegisterNamespace"}}, pol{present: true, methods: []string{"NoSuchMethod"}})
	for i := 0; i < 3; i++ {
		var l []string
		for _, m := range admin {
			if rng.IntN(3) == 0 {
				l = append(l, m.Name)
			}
		}
		pols = append(pols, pol{present: true, methods: l})
	}
	// look-alike lists: a listed name that is a proper prefix / suffix / substring of an admin method that is NOT listed
	// (GetNamespace ~ GetNamespaceReplicationMessages, GetWorkflowExecutionRawHistory ~ ...V2, a WorkflowService name inside
	// an AdminService one), in first, middle and last position of a list of several entries; and entries that would mean
	// something to a pattern matcher ("Get", ".*", "Describe.*", "*") but are just strings that name no method
	{
		var pairs [][2]string
		for _, a := range all {
			for _, b := range admin {
				if a.Name != b.Name && strings.Contains(b.Name, a.Name) {
					pairs = append(pairs, [2]string{a.Name, b.Name})
				}
			}
		}
		e.Stats["extra"].(map[string]int)["lookalike_name_pairs"] = len(pairs)
		nLook := 5
		if e.Thorough() {
			nLook = len(pairs)
		}
		other := func(not ...string) string {
			for {
				c := admin[rng.IntN(len(admin))].Name
				ok := true
				for _, n := range not {
					ok = ok && c != n
				}
				if ok {
					return c
				}
			}
		}
		for i, pi := range rng.Perm(len(pairs)) {
			if i >= nLook {
				break
			}
			a, b := pairs[pi][0], pairs[pi][1]
			switch i % 3 {
			case 0:
				pols = append(pols, pol{present: true, methods: []string{a, other(b)}})
			case 1:
				pols = append(pols, pol{present: true, methods: []string{other(b), a, other(b)}})
			default:
				pols = append(pols, pol{present: true, methods: []string{other(b), a}})
			}
		}
		pols = append(pols, pol{present: true, methods: []string{"Get", "Describe.*", other()}}, pol{present: true, methods: []string{other(), ".*"}}, pol{present: true, methods: []string{"*", other(), "Namespace"}})
	}
	// policies that also carry a namespace allow-list: a call refused by the method rules stays refused whatever the
	// namespace rules say about its (here: empty) request
	{
		var l []string
		for _, m := range admin {
			if rng.IntN(3) == 0 {
				l = append(l, m.Name)
			}
		}
		pols = append(pols, pol{present: true, methods: []string{"DescribeCluster"}, namespaces: []string{"allowed-ns"}}, pol{present: true, methods: l, namespaces: []string{"allowed-ns", "also-ok"}}, pol{present: true, methods: []string{"NoSuchMethod"}, namespaces: []string{"allowed-ns"}})
	}
	nsNames := map[string]string{} // per method: the namespace names of its empty request, as the model is told them
	namesOf := func(full string) string {
		if v, ok := nsNames[full]; ok {
			return v
		}
		var all, enc []string
		listNsValues(newMsg(methodDesc(full).Input()).ProtoReflect(), &all)
		for _, n := range all {
			enc = append(enc, encName(n))
		}
		v := "."
		if len(enc) > 0 {
			v = strings.Join(enc, ",")
		}
		nsNames[full] = v
		return v
	}
	transports := []string{"tcp", "mux"}
	for pi, p := range pols {
		for _, tr := range transports {
			if tr == "mux" && !(pi < 4 || e.Thorough()) {
				continue
			}
			cfg := config.ClusterConnConfig{}
			pstr := "none"
			if p.present {
				cfg.ACLPolicy = &config.ACLPolicy{AllowedMethods: config.AllowedMethods{AdminService: p.methods}, AllowedNamespaces: p.namespaces}
				pstr = "p=" + strings.Join(p.methods, ",") + "|" + strings.Join(p.namespaces, ",")
			}
			var pp *proxyPair
			var err error
			tPair := time.Now()
			if tr == "tcp" {
				pp, err = startProxyPair(t, cfg)
			} else {
				pp, err = startProxyPairMux(t, cfg)
			}
			if err != nil {
				t.Fatal(err)
			}
			// the order of calls must not matter: half of the proxies see WorkflowService first, and every proxy sees
			// the whole method list twice (a decision must not depend on what was called before)
			order := append([]svcMethod{}, all...)
			if pi%2 == 1 {
				order = append(append([]svcMethod{}, wf...), admin...)
			}
			order = append(order, order...)
			for _, m := range order {
				for _, inbound := range []int{1, 0} {
					// caller-supplied headers the proxy knows about: none of them may influence the decision
					for hv := 0; hv < 4; hv++ {
						bypass, intra := hv&1 == 1, hv&2 == 2
						if hv != 0 && rng.IntN(4) != 0 {
							continue
						}
						conn, be := pp.FromRemote, pp.Local
						if inbound == 0 {
							conn, be = pp.FromLocal, pp.Remote
						}
						var md metadata.MD
						if bypass {
							md = metadata.Pairs(common.RequestTranslationHeaderName, "false")
						}
						if intra {
							md = metadata.Join(md, metadata.Pairs(common.IntraProxyHeaderKey, common.IntraProxyHeaderValue,
								common.IntraProxyOriginProxyIDHeader, "proxy-x", common.IntraProxyHopCountHeader, "1", common.IntraProxyTraceIDHeader, "t"))
							e.Count("calls_with_intra_proxy_headers")
						}
						t0 := time.Now()
						dec, saw, code := callThrough(conn, be, m, md)
						if d := time.Since(t0); d > 200*time.Millisecond {
							e.Count("slow_call_" + m.Name)
						}
						kind := "unary"
						if m.Streaming {
							kind = "stream"
						}
						names := "."
						if len(p.namespaces) > 0 {
							names = namesOf(m.Full)
						}
						op := fmt.Sprintf("%s %d %s %s %s", kind, inbound, pstr, m.Full, names)
						e.Emit(op, dec)
						e.Evals++
						e.Distinct(fnv(op + tr))
						e.Count(tr + "_" + dec)
						isAdmin := strings.HasPrefix(m.Full, "/"+adminSvc+"/")
						// the property, directly
						if dec == "denied" && saw {
							e.Violation(map[string]any{"what": fmt.Sprintf("%s over %s: refused with PermissionDenied but the local cluster saw the call", m.Full, tr), "ops": []string{op}})
						}
						if inbound == 1 && p.present {
							listed := len(p.methods) == 0
							for _, x := range p.methods {
								if x == m.Name {
									listed = true
								}
							}
							if isAdmin && !listed && (dec != "denied" || saw) {
								e.Violation(map[string]any{"what": fmt.Sprintf("admin method %s is not in allow-list %v but was not refused on the inbound %s server (code %v, backend saw it: %v)", m.Name, p.methods, tr, code, saw), "ops": []string{op}})
							}
							if !isAdmin && (m.Name == "RegisterNamespace" || m.Name == "DeprecateNamespace") && (dec != "denied" || saw) {
								e.Violation(map[string]any{"what": fmt.Sprintf("%s was not refused under a policy on the inbound %s server", m.Name, tr), "ops": []string{op}})
							}
							if isAdmin && listed && dec == "denied" && len(p.namespaces) == 0 {
								e.Violation(map[string]any{"what": fmt.Sprintf("allowed admin method %s was refused (allow-list %v)", m.Name, p.methods), "ops": []string{op}})
							}
						}
						if (inbound == 0 || !p.present) && dec == "denied" {
							e.Violation(map[string]any{"what": fmt.Sprintf("%s refused although no policy guards this server (inbound=%d, policy present=%v)", m.Full, inbound, p.present), "ops": []string{op}})
						}
					}
				}
			}
			tCalls := time.Since(tPair)
			pp.Stop()
			if os.Getenv("VERIF_DEBUG") != "" {
				fmt.Println("pair", pi, tr, "calls", tCalls, "total", time.Since(tPair))
			}
			e.Count("proxy_pairs_" + tr)
		}
	}
	e.Sample([]string{"unary 1 p=DescribeCluster| /temporal.server.api.adminservice.v1.AdminService/AddSearchAttributes -"})
}
