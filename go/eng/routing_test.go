package eng

import (
	"context"
	"fmt"
	"os"
	"sort"
	"strconv"
	"strings"
	"sync"
	"testing"
	"testing/synctest"
	"time"

	"go.temporal.io/server/api/adminservice/v1"
	persistencepb "go.temporal.io/server/api/persistence/v1"
	replicationpb "go.temporal.io/server/api/replication/v1"
	servercommon "go.temporal.io/server/common"
	"google.golang.org/grpc/metadata"
	"google.golang.org/protobuf/proto"

	"github.com/temporalio/s2s-proxy/config"
	"github.com/temporalio/s2s-proxy/encryption"
	"github.com/temporalio/s2s-proxy/proxy"
)

// ---- C01-C04: routing mode (engine "routing") -------------------------------------------------
//
// Cluster X (id 1) = sources, cluster Y (id 2) = targets.  Source s is X shard s+1, target t is Y
// shard t+1.  Each trace runs inside one synctest bubble; one op = one environment action followed
// by quiescence (synctest.Wait) and a 1.3 s virtual sleep so that every back-off retry loop gets
// its turn.  Keep-alive messages produced while sleeping are recognised and filtered.

// gatedSrv is a srvStream whose Send can be held by the harness (a slow target).
type gatedSrv struct {
	*srvStream
	gmu    sync.Mutex
	gate   chan struct{} // non-nil: Send blocks until closed
	inSend *repResp      // the message Send is being called with right now
}

func (g *gatedSrv) Send(r *repResp) error {
	g.gmu.Lock()
	gate := g.gate
	g.inSend = r
	g.gmu.Unlock()
	defer func() {
		g.gmu.Lock()
		g.inSend = nil
		g.gmu.Unlock()
	}()
	if gate != nil {
		select {
		case <-gate:
		case <-g.ctx.Done():
			return g.ctx.Err()
		}
	}
	return g.srvStream.Send(r)
}

// InSend: the message the sender is blocked on (already in its id table, not yet received by the target)
func (g *gatedSrv) InSend() *repResp {
	g.gmu.Lock()
	defer g.gmu.Unlock()
	return g.inSend
}
func (g *gatedSrv) Gated() bool {
	g.gmu.Lock()
	defer g.gmu.Unlock()
	return g.gate != nil
}
func (g *gatedSrv) SetGate(closed bool) {
	g.gmu.Lock()
	defer g.gmu.Unlock()
	if closed && g.gate == nil {
		g.gate = make(chan struct{})
	} else if !closed && g.gate != nil {
		close(g.gate)
		g.gate = nil
	}
}

type tgtInc struct {
	stream   *gatedSrv
	cancel   context.CancelFunc
	seen     int                // emitted messages already reported
	byProxy  map[int64][2]int64 // proxy id -> (source, original id)
	acked    int64              // highest inclusive-low watermark this incarnation sent
	lastHigh int64              // highest exclusive high received (for protocol-conform acks)
	broken   bool
	highs    []int64
	lastID   int64
	lastOrig map[int]int64 // per source: last original id delivered on this stream (source order check)
	brokenAt int           // op sequence number at which this incarnation broke
	srcBound map[int]int64 // per source: upper bound of the largest original id / watermark among the messages of that source this stream received
}

type rTask struct {
	id     int64
	owner  int
	pb     *replicationpb.ReplicationTask // pristine copy
	faulty bool                           // received in a trace prefix with faults
	srcInc int                            // incarnation of the source receiver that received it
	seq    int                            // op sequence number at which the proxy received it
}

type rWorld struct {
	t          *testing.T
	ns, nt     int
	sm         proxy.ShardManager
	toX, toY   *multiClient
	srvX, srvY adminservice.AdminServiceServer
	stopAll    context.CancelFunc
	lifetime   context.Context
	srcSrv     []*srvStream
	srcCancel  []context.CancelFunc
	srcCli     []*cliStream // current client stream towards X for source s
	srcSeen    []int
	srcInc     []int
	srcLastAck []int64
	srcHasAck  []bool
	incLastAck []int64 // last acknowledgement of the CURRENT incarnation of the source stream
	incHasAck  []bool
	tgt        []*tgtInc   // current incarnation per target (nil if never opened)
	tgtHist    [][]*tgtInc // all incarnations
	wf         []string    // workflow id owned by target t
	// monitor state
	received    [][]*rTask // per source
	lastHigh    []int64
	faults      bool
	emittedOnce map[string]int // "s:id" -> times emitted
	keepalives  int
	noSleep     bool
	viol        []map[string]any
	monitorOnly bool          // a trace outside the model's op language (timing bursts): monitors only, no correspondence
	holdClose   chan struct{} // non-nil: a sender that reaches the schedule point sender.afterClose (its channel is closed, not yet unregistered) waits here
	burst       bool          // burst trace: no virtual time passes after an op unless it is `nap <ms>`
	holdMu      sync.Mutex
	napFor      time.Duration // the next settle sleeps this long instead of 1.3 s
	seq         int           // op sequence number
	maxHigh     []int64       // per source: largest exclusive high of an EMPTY batch so far (only those travel on as watermark messages: broadcast or replay)
}

func wfFor(n int32, want int32) string {
	for i := 0; ; i++ {
		w := fmt.Sprintf("wf-%d", i)
		if servercommon.WorkflowIDToHistoryShard("ns", w, n) == want {
			return w
		}
	}
}

func newRWorld(t *testing.T, ns, nt int) *rWorld {
	w := &rWorld{t: t, ns: ns, nt: nt, emittedOnce: map[string]int{}}
	loggers := noopLoggers()
	scc := config.ShardCountConfig{Mode: config.ShardCountRouting, LocalShardCount: int32(ns), RemoteShardCount: int32(nt)}
	w.lifetime, w.stopAll = context.WithCancel(context.Background())
	w.sm = proxy.NewShardManager(nil, scc, encryption.TLSConfig{}, loggers)
	if err := w.sm.Start(w.lifetime); err != nil { // wires the local-shard-change callbacks (watermark replay)
		t.Fatal(err)
	}
	w.toX, w.toY = newMultiClient(), newMultiClient()
	w.srvX = proxy.NewAdminServiceProxyServer("x", w.toY, w.toX, proxy.AdminServiceOverrides{}, []string{"outbound"}, func(int32, int32) {}, scc,
		proxy.LCMParameters{}, proxy.RoutingParameters{RoutingLocalShardCount: int32(nt), DirectionLabel: "outbound"}, loggers, w.sm, w.lifetime)
	w.srvY = proxy.NewAdminServiceProxyServer("y", w.toX, w.toY, proxy.AdminServiceOverrides{}, []string{"inbound"}, func(int32, int32) {}, scc,
		proxy.LCMParameters{}, proxy.RoutingParameters{RoutingLocalShardCount: int32(ns), DirectionLabel: "inbound"}, loggers, w.sm, w.lifetime)
	w.srcSrv = make([]*srvStream, ns)
	w.srcCancel = make([]context.CancelFunc, ns)
	w.srcCli = make([]*cliStream, ns)
	w.srcSeen = make([]int, ns)
	w.srcInc = make([]int, ns)
	w.srcLastAck = make([]int64, ns)
	w.srcHasAck = make([]bool, ns)
	w.incLastAck = make([]int64, ns)
	w.incHasAck = make([]bool, ns)
	w.tgt = make([]*tgtInc, nt)
	w.tgtHist = make([][]*tgtInc, nt)
	w.received = make([][]*rTask, ns)
	w.lastHigh = make([]int64, ns)
	w.maxHigh = make([]int64, ns)
	for t := 0; t < nt; t++ {
		w.wf = append(w.wf, wfFor(int32(nt), int32(t+1)))
	}
	return w
}

func (w *rWorld) settle() {
	synctest.Wait()
	if w.noSleep {
		w.noSleep = false
		return // no virtual time passes: back-off sleepers stay asleep until the next op
	}
	// snapshot, then let every back-off / ticker run; empty messages that appear while sleeping are keep-alives
	pre := make([]int, w.nt)
	for t, ti := range w.tgt {
		if ti != nil {
			pre[t] = len(ti.stream.Sent())
		}
	}
	for _, ti := range w.tgt {
		if ti != nil && ti.stream.Gated() {
			return // a held Send would also hold the keep-alive ticker branch; time stands still while a gate is closed
		}
	}
	d := 1300 * time.Millisecond
	if w.napFor > 0 {
		d, w.napFor = w.napFor, 0
	}
	time.Sleep(d)
	synctest.Wait()
	for t, ti := range w.tgt {
		if ti == nil {
			continue
		}
		sent := ti.stream.Sent()
		if len(sent) > pre[t] {
			// filter keep-alives out of the stream record
			kept := sent[:pre[t]:pre[t]]
			for _, m := range sent[pre[t]:] {
				if len(m.GetMessages().GetReplicationTasks()) == 0 {
					w.keepalives++
					prevHigh := int64(0)
					if len(kept) > 0 {
						prevHigh = kept[len(kept)-1].GetMessages().GetExclusiveHighWatermark()
					}
					if prevHigh != m.GetMessages().GetExclusiveHighWatermark() {
						w.violation("C02", fmt.Sprintf("keep-alive on target %d carries high %d, last sent high was %d", t, m.GetMessages().GetExclusiveHighWatermark(), prevHigh), nil)
					}
					continue
				}
				kept = append(kept, m)
			}
			ti.stream.mu.Lock()
			ti.stream.sent = kept
			ti.stream.mu.Unlock()
		}
	}
}

// routingBatch: task-bearing batches of every source travel with the SAME (default) priority, as on a real replication
// lane — code that treats messages of one priority alike (merging, ordering) must meet batches of different sources it
// can treat alike; their source is recognised by the tasks' labels. Only watermark-only batches, which carry nothing
// else the harness could recognise them by, are tagged with their source in the Priority field.
func routingBatch(src int, high int64, tasks []*replicationpb.ReplicationTask) *repResp {
	if len(tasks) > 0 {
		return msgResp(high, tasks...)
	}
	return msgRespFrom(src, high)
}

// msgSource: the source stream a message delivered to a target came from (-1: unknown)
func msgSource(msgs *replicationpb.WorkflowReplicationMessages) int {
	if tks := msgs.GetReplicationTasks(); len(tks) > 0 {
		if tks[0].RawTaskInfo != nil {
			return int(tks[0].RawTaskInfo.Version % 1000)
		}
		return -1
	}
	return int(msgs.GetPriority()) - 100
}

func (w *rWorld) violation(prop, what string, extra map[string]any) {
	v := map[string]any{"prop": prop, "what": what}
	for k, x := range extra {
		v[k] = x
	}
	w.viol = append(w.viol, v)
}

func (w *rWorld) openSrc(s int) {
	if w.srcSrv[s] != nil {
		return
	}
	md := streamMD(1, int32(s+1), 2, int32(s+1))
	ctx, cancel := context.WithCancel(metadata.NewIncomingContext(w.lifetime, md))
	ss := newSrvStream(ctx)
	w.srcSrv[s], w.srcCancel[s] = ss, cancel
	go func() { _ = w.srvX.StreamWorkflowReplicationMessages(ss) }()
	synctest.Wait()
	w.srcCli[s] = w.toX.Stream(fmt.Sprintf("1:%d", s+1))
	w.srcSeen[s] = 0
	w.srcInc[s]++
	w.incHasAck[s] = false
}

func (w *rWorld) openTgt(t int) {
	if w.tgt[t] != nil && !w.tgt[t].broken {
		return
	}
	md := streamMD(2, int32(t+1), 1, int32(t+1))
	ctx, cancel := context.WithCancel(metadata.NewIncomingContext(w.lifetime, md))
	gs := &gatedSrv{srvStream: newSrvStream(ctx)}
	ti := &tgtInc{stream: gs, cancel: cancel, byProxy: map[int64][2]int64{}}
	w.tgt[t] = ti
	w.tgtHist[t] = append(w.tgtHist[t], ti)
	go func() { _ = w.srvY.StreamWorkflowReplicationMessages(gs) }()
}

func (w *rWorld) batch(s int, high int64, tasks [][2]int64) {
	cs := w.srcCli[s]
	if cs == nil {
		return
	}
	var pts []*replicationpb.ReplicationTask
	for _, tk := range tasks {
		id, owner := tk[0], int(tk[1])
		pt := &replicationpb.ReplicationTask{SourceTaskId: id, TaskType: 1,
			RawTaskInfo: &persistencepb.ReplicationTaskInfo{NamespaceId: "ns", WorkflowId: w.wf[owner], TaskId: id, Version: id*1000 + int64(s), RunId: fmt.Sprintf("run-%d-%d", s, id)}}
		w.received[s] = append(w.received[s], &rTask{id: id, owner: owner, pb: proto.Clone(pt).(*replicationpb.ReplicationTask), faulty: w.faults, srcInc: w.srcInc[s], seq: w.seq})
		pts = append(pts, pt)
	}
	synctest.Wait() // every goroutine is parked: a non-blocking send succeeds iff the receiver sits in Recv
	select {
	case cs.in <- ev[repResp]{v: routingBatch(s, high, pts)}:
		w.lastHigh[s] = high
		if len(tasks) == 0 && high > w.maxHigh[s] {
			w.maxHigh[s] = high
		}
	default:
		// receiver busy (blocked hand-off): the source cannot make progress either; the batch is not sent
		w.received[s] = w.received[s][:len(w.received[s])-len(tasks)]
	}
}

// observe builds the canonical observation line and runs the monitors on whatever is new.
func (w *rWorld) observe() (string, string) {
	var tparts, sparts, ch, ak, hint []string
	for t := 0; t < w.nt; t++ {
		ti := w.tgt[t]
		var items, srcs []string
		if ti != nil {
			sent := ti.stream.Sent()
			for _, m := range sent[ti.seen:] {
				msgs := m.GetMessages()
				var pairs []string
				for _, tk := range msgs.GetReplicationTasks() {
					orig := int64(-1)
					src := int64(-1)
					if tk.RawTaskInfo != nil {
						orig, src = tk.RawTaskInfo.Version/1000, tk.RawTaskInfo.Version%1000
					}
					pairs = append(pairs, fmt.Sprintf("%d:%d", tk.SourceTaskId, orig))
					w.monitorTask(t, ti, tk, orig, int(src))
				}
				h := msgs.GetExclusiveHighWatermark()
				kind := "w"
				if len(msgs.GetReplicationTasks()) > 0 {
					kind = "t"
				}
				srcs = append(srcs, fmt.Sprintf("%d%s", msgSource(msgs), kind))
				w.noteTaken(ti, msgs)
				w.monitorMsg(t, ti, msgs)
				items = append(items, strings.Join(pairs, ",")+fmt.Sprintf("/%d", h))
			}
			ti.seen = len(sent)
			if r := ti.stream.InSend(); r != nil && r.GetMessages() != nil {
				w.noteTaken(ti, r.GetMessages()) // held in Send: the sender has taken it (it is in its id table) although the target has not received it
			}
		}
		if len(srcs) > 0 {
			hint = append(hint, fmt.Sprintf("%d:%s", t, strings.Join(srcs, ",")))
		}
		tparts = append(tparts, fmt.Sprintf("T%d=[%s]", t, strings.Join(items, ";")))
	}
	for s := 0; s < w.ns; s++ {
		var items []string
		if cs := w.srcCli[s]; cs != nil {
			sent := cs.Sent()
			for _, m := range sent[w.srcSeen[s]:] {
				a := m.GetSyncReplicationState().GetInclusiveLowWatermark()
				if w.srcHasAck[s] && a == w.srcLastAck[s] {
					continue // idempotent re-send (keep-alive)
				}
				w.monitorAck(s, a)
				w.srcHasAck[s], w.srcLastAck[s] = true, a
				items = append(items, fmt.Sprint(a))
			}
			w.srcSeen[s] = len(sent)
		}
		sparts = append(sparts, fmt.Sprintf("S%d=[%s]", s, strings.Join(items, ",")))
	}
	info := w.sm.GetChannelInfo()
	for t := 0; t < w.nt; t++ {
		if n, ok := info.RemoteSendChannels[fmt.Sprintf("(id: 2, shard: %d)", t+1)]; ok {
			ch = append(ch, fmt.Sprintf("%d:%d", t, n))
		} else {
			ch = append(ch, fmt.Sprintf("%d:-", t))
		}
	}
	for s := 0; s < w.ns; s++ {
		if n, ok := info.LocalAckChannels[fmt.Sprintf("(id: 1, shard: %d)", s+1)]; ok {
			ak = append(ak, fmt.Sprintf("%d:%d", s, n))
		} else {
			ak = append(ak, fmt.Sprintf("%d:-", s))
		}
	}
	return strings.Join(tparts, " ") + " | " + strings.Join(sparts, " ") + " | ch " + strings.Join(ch, " ") + " | ak " + strings.Join(ak, " "), strings.Join(hint, " ")
}

// ---- monitors: direct statements of C01..C04 on the implementation's trace ----

func (w *rWorld) monitorTask(t int, ti *tgtInc, tk *replicationpb.ReplicationTask, orig int64, src int) {
	ti.byProxy[tk.SourceTaskId] = [2]int64{int64(src), orig}
	if src < 0 || src >= w.ns {
		w.violation("C02", fmt.Sprintf("target %d received a task with unknown origin", t), nil)
		return
	}
	var rt *rTask
	for _, x := range w.received[src] {
		if x.id == orig {
			rt = x
		}
	}
	if rt == nil {
		w.violation("C02", fmt.Sprintf("target %d received task %d of source %d that was never sent", t, orig, src), nil)
		return
	}
	if !w.faults {
		if ti.lastOrig == nil {
			ti.lastOrig = map[int]int64{}
		}
		if last, ok := ti.lastOrig[src]; ok && orig <= last {
			w.violation("C02", fmt.Sprintf("target %d: task %d of source %d delivered after task %d (source order violated)", t, orig, src, last), nil)
		}
		ti.lastOrig[src] = orig
		key := fmt.Sprintf("%d:%d", src, orig)
		w.emittedOnce[key]++
		if w.emittedOnce[key] > 1 {
			w.violation("C02", fmt.Sprintf("task %d of source %d delivered %d times", orig, src, w.emittedOnce[key]), nil)
		}
		if rt.owner != t {
			w.violation("C02", fmt.Sprintf("task %d of source %d (owner target %d) delivered on target %d", orig, src, rt.owner, t), nil)
		}
		// payload unchanged apart from the task-id fields
		c := proto.Clone(tk).(*replicationpb.ReplicationTask)
		c.SourceTaskId = rt.pb.SourceTaskId
		c.RawTaskInfo.TaskId = rt.pb.RawTaskInfo.TaskId
		if !proto.Equal(c, rt.pb) || tk.RawTaskInfo.TaskId != tk.SourceTaskId {
			w.violation("C02", fmt.Sprintf("task %d of source %d changed in transit", orig, src), nil)
		}
	}
}

func (w *rWorld) monitorMsg(t int, ti *tgtInc, m *replicationpb.WorkflowReplicationMessages) {
	h := m.GetExclusiveHighWatermark()
	tasks := m.GetReplicationTasks()
	perSrcLast := map[int64]int64{}
	for _, tk := range tasks {
		if tk.SourceTaskId <= ti.lastID {
			w.violation("C02", fmt.Sprintf("target %d: task id %d not above previous id %d", t, tk.SourceTaskId, ti.lastID), nil)
		}
		ti.lastID = tk.SourceTaskId
		_ = perSrcLast
	}
	if len(tasks) > 0 {
		if h <= ti.lastID {
			w.violation("C02", fmt.Sprintf("target %d: high %d not above last task id %d", t, h, ti.lastID), nil)
		}
		for _, ph := range ti.highs {
			if h <= ph {
				w.violation("C02", fmt.Sprintf("target %d: task-bearing message high %d not above earlier high %d (Temporal would drop it)", t, h, ph), nil)
				break
			}
		}
	}
	ti.highs = append(ti.highs, h)
	if h > ti.lastHigh {
		ti.lastHigh = h
	}
}

func (w *rWorld) confirmed(rt *rTask, src int) (bool, string) {
	// confirmed iff some incarnation of the owner target received it under proxy id p and acked w > p
	for _, ti := range w.tgtHist[rt.owner] {
		for p, so := range ti.byProxy {
			if int(so[0]) == src && so[1] == rt.id && ti.acked > p {
				if os.Getenv("VERIF_DEBUG_ACK") != "" {
					fmt.Fprintf(os.Stderr, "DEBUG confirmed: src %d task %d owner %d proxy %d acked %d\n", src, rt.id, rt.owner, p, ti.acked)
				}
				return true, ""
			}
		}
	}
	where := "never reached any stream of its target"
	for _, ti := range w.tgtHist[rt.owner] {
		if ti.broken {
			where = "never reached any stream of its target, which broke before confirming it (queued message died with the stream)"
		}
	}
	for i, ti := range w.tgtHist[rt.owner] {
		for _, so := range ti.byProxy {
			if int(so[0]) == src && so[1] == rt.id {
				if ti.broken {
					where = fmt.Sprintf("was sent on incarnation %d of target %d, which broke before confirming it", i+1, rt.owner)
				} else {
					where = fmt.Sprintf("is unconfirmed on live target %d", rt.owner)
				}
			}
		}
	}
	return false, where
}

// noteTaken records what a target stream's sender has taken of each source (Act.take of the model): a task message carries
// its last original id; the original watermark of a watermark message is rewritten in transit — it is at most the largest
// one an empty batch of that source has announced so far (only those travel on as watermark messages, broadcast or replayed).
func (w *rWorld) noteTaken(ti *tgtInc, msgs *replicationpb.WorkflowReplicationMessages) {
	src := msgSource(msgs)
	if src < 0 || src >= w.ns {
		return
	}
	bound := w.maxHigh[src]
	if tks := msgs.GetReplicationTasks(); len(tks) > 0 && tks[len(tks)-1].RawTaskInfo != nil {
		bound = tks[len(tks)-1].RawTaskInfo.Version / 1000
	}
	if ti.srcBound == nil {
		ti.srcBound = map[int]int64{}
	}
	if bound > ti.srcBound[src] {
		ti.srcBound[src] = bound
	}
}

// lostAndPassed: `ExcusedT` (a) of Spec/RoutingFaultsTight.lean on the implementation's trace. The recorded defect
// C04-target-break-loses-inflight acknowledges a task that was lost with a broken stream of its target BECAUSE a later
// stream of that target received something of the same source above the task (a replayed or new watermark, later tasks)
// and confirmed that. A lost task that is acknowledged although no later stream of its target has received anything of
// its source above it is a different defect and is not excused.
func (w *rWorld) lostAndPassed(s int, rt *rTask) bool {
	hist := w.tgtHist[rt.owner]
	for j, ti := range hist {
		if !ti.broken {
			continue
		}
		lostHere := rt.seq < ti.brokenAt // it may have been handed to (queued for) this stream
		for _, so := range ti.byProxy {
			if int(so[0]) == s && so[1] == rt.id {
				lostHere = true
			}
		}
		if !lostHere {
			continue
		}
		for _, later := range hist[j+1:] {
			if later.srcBound[s] > rt.id {
				return true
			}
		}
	}
	return false
}

// firstReceiptInc: the earliest incarnation of source stream s that received the task (same id, same owner)
func (w *rWorld) firstReceiptInc(s int, rt *rTask) int {
	first := rt.srcInc
	for _, o := range w.received[s] {
		if o.id == rt.id && o.owner == rt.owner && o.srcInc < first {
			first = o.srcInc
		}
	}
	return first
}

func (w *rWorld) monitorAck(s int, a int64) {
	// C03 safety: the acknowledgements on ONE source-shard stream (one incarnation of the receiver) never decrease — whatever
	// the target streams do meanwhile (C03F_incarnation_monotone); a restarted source stream starts a new sequence
	// (After a RESTART of the source stream the unchanged code can send a stale, too high acknowledgement first and a clamped
	// one afterwards — a consequence of the recorded finding C04-source-restart-forgets-targets, kernel-checked as
	// C03F_refuted_after_source_restart — so the check covers source streams that have never been broken.)
	if w.incHasAck[s] && a < w.incLastAck[s] && w.srcInc[s] == 1 {
		w.violation("C03", fmt.Sprintf("ack to source %d decreased: %d after %d (its stream has never been broken; target faults so far: %v)", s, a, w.incLastAck[s], w.faults), nil)
	}
	w.incHasAck[s], w.incLastAck[s] = true, a
	if a > w.lastHigh[s] && w.srcInc[s] == 1 {
		w.violation("C03", fmt.Sprintf("ack %d to source %d exceeds the last exclusive high %d it sent", a, s, w.lastHigh[s]), nil)
	}
	// C01 / C04: every received task below the ack must be confirmed. A violation that falls under a recorded finding is
	// attributed to it — but only if NO other task below the ack is unconfirmed for a reason outside the findings
	// (the scan does not stop at the first excused task: an excused task must not hide an unexcused one).
	var firstExcused func()
	for _, rt := range w.received[s] {
		if rt.id < a {
			if ok, where := w.confirmed(rt, s); !ok {
				if os.Getenv("VERIF_DEBUG_ACK") != "" {
					fmt.Fprintf(os.Stderr, "DEBUG ack %d src %d: task %d owner %d unconfirmed: %s (srcInc %d cur %d)\n", a, s, rt.id, rt.owner, where, rt.srcInc, w.srcInc[s])
				}
				prop := "C01"
				extra := map[string]any{}
				if w.faults {
					prop = "C04"
					if strings.Contains(where, "broke before confirming") && w.lostAndPassed(s, rt) {
						extra["finding"] = "C04-target-break-loses-inflight"
					} else if first := w.firstReceiptInc(s, rt); first < w.srcInc[s] {
						// as `Excused` of Spec/RoutingFaults.lean: the task (same id, same owner) was received by an earlier
						// incarnation of the source stream too (re-sent after the restart or not)
						extra["finding"] = "C04-source-restart-forgets-targets"
						where += fmt.Sprintf("; the task was received by incarnation %d of the source stream, the ack was sent by incarnation %d", first, w.srcInc[s])
					}
				}
				if _, excused := extra["finding"]; !excused && strings.Contains(where, "broke before confirming") {
					where += "; no later stream of that target has received anything of this source above the task, so this is not the recorded way of losing it"
				}
				what := fmt.Sprintf("source %d was sent ack %d but its task %d %s", s, a, rt.id, where)
				if _, excused := extra["finding"]; excused {
					if firstExcused == nil {
						firstExcused = func() { w.violation(prop, what, extra) }
					}
					continue
				}
				w.violation(prop, what, extra)
				return
			}
		}
	}
	if firstExcused != nil {
		firstExcused()
	}
}

// ---- op interpreter ----

func (w *rWorld) exec(op string) (string, string) {
	w.seq++
	if i := strings.Index(op, " ~ "); i >= 0 {
		op = op[:i]
	}
	f := strings.Fields(op)
	n := func(i int) int64 { v, _ := strconv.ParseInt(f[i], 10, 64); return v }
	switch f[0] {
	case "opensrc":
		w.openSrc(int(n(1)))
	case "opentgt":
		w.openTgt(int(n(1)))
		w.noSleep = len(f) > 2 && f[2] == "nosleep"
	case "batch":
		var tasks [][2]int64
		for _, x := range f[3:] {
			p := strings.Split(x, ":")
			a, _ := strconv.ParseInt(p[0], 10, 64)
			b, _ := strconv.ParseInt(p[1], 10, 64)
			tasks = append(tasks, [2]int64{a, b})
		}
		w.batch(int(n(1)), n(2), tasks)
	case "ack":
		t := int(n(1))
		if ti := w.tgt[t]; ti != nil && !ti.broken {
			wv := n(2)
			synctest.Wait()
			select {
			case ti.stream.in <- ev[repReq]{v: ackReq(wv)}:
				if wv > ti.acked {
					ti.acked = wv
				}
			default: // recvAck busy forwarding: the ack stays unsent
			}
		}
	case "gate":
		if ti := w.tgt[int(n(1))]; ti != nil {
			ti.stream.SetGate(f[2] == "1")
		}
	case "hold": // window traces: the next sender to close its channel stops right after closing it, before anything is unregistered
		w.holdMu.Lock()
		if w.holdClose == nil {
			w.holdClose = make(chan struct{})
		}
		w.holdMu.Unlock()
	case "release":
		w.holdMu.Lock()
		if w.holdClose != nil {
			close(w.holdClose)
			w.holdClose = nil
		}
		w.holdMu.Unlock()
	case "nap": // burst traces: this much virtual time passes (less than a ticker period, or more)
		w.napFor = time.Duration(n(1)) * time.Millisecond
	case "sgate": // the SOURCE cluster stops / resumes reading what the proxy sends it on stream s: the proxy's Send of an ack blocks
		if cs := w.srcCli[int(n(1))]; cs != nil {
			cs.SetGate(f[2] == "1")
		}
	case "breaktgt":
		t := int(n(1))
		if ti := w.tgt[t]; ti != nil && !ti.broken {
			w.faults = true
			ti.broken = true
			ti.brokenAt = w.seq
			ti.cancel() // a held Send fails with the context error: the message in hand dies with the stream
			synctest.Wait()
			ti.stream.SetGate(false)
		}
	case "breaksrc":
		s := int(n(1))
		if w.srcSrv[s] != nil {
			w.faults = true
			w.srcCancel[s]()
			w.srcSrv[s] = nil
			synctest.Wait()
			w.srcCli[s] = nil
			// consecutive-duplicate collapsing deliberately spans incarnations (matches the model driver)
		}
	default:
		w.t.Fatalf("bad routing op %q", op)
	}
	if w.burst && f[0] != "nap" {
		w.noSleep = true // operations of a burst follow each other within one instant
	}
	w.settle()
	return w.observe()
}

func (w *rWorld) close() {
	w.holdMu.Lock()
	if w.holdClose != nil {
		close(w.holdClose)
		w.holdClose = nil
	}
	w.holdMu.Unlock()
	for _, cs := range w.srcCli {
		if cs != nil {
			cs.SetGate(false)
		}
	}
	for _, ti := range w.tgt {
		if ti != nil {
			ti.stream.SetGate(false)
		}
	}
	w.stopAll()
	synctest.Wait()
	time.Sleep(3 * time.Second) // back-off sleepers notice the shutdown at their next iteration
	synctest.Wait()
}

var routingFocus string // the property the running engine checks (set by runRoutingFocus)

// runRoutingTrace executes one trace inside a bubble. `next` yields the next op given the world
// (nil ends the trace); the first op must be `begin ns nt cap seed`.
func runRoutingTrace(t *testing.T, e *Env, begin string, next func(w *rWorld, i int) string) (ops []string, viol []map[string]any) {
	// a trace settles in milliseconds; one that does not (goroutines of the real code spinning or blocked on a lock, which a
	// bubble cannot see as "durably blocked") is a hang of the stream machinery on this op list
	stopWatchdog := e.Watchdog(180*time.Second, func() map[string]any {
		return map[string]any{"what": "the routing trace did not settle: the receivers / senders are spinning or dead-locked while processing the last operation", "ops": append([]string{}, ops...)}
	})
	defer stopWatchdog()
	synctest.Test(t, func(t *testing.T) {
		f := strings.Fields(begin)
		ns, _ := strconv.Atoi(f[1])
		nt, _ := strconv.Atoi(f[2])
		w := newRWorld(t, ns, nt)
		w.monitorOnly = len(f) > 5 && (f[5] == "slowsrc" || f[5] == "burst" || f[5] == "window")
		if len(f) > 5 && f[5] == "window" {
			proxy.VerifSetPointHandler(func(name string) {
				if name != "sender.afterClose" {
					return
				}
				w.holdMu.Lock()
				ch := w.holdClose
				w.holdMu.Unlock()
				if ch != nil {
					<-ch
				}
			})
			defer proxy.VerifSetPointHandler(nil)
		}
		w.burst = len(f) > 5 && f[5] == "burst"
		if w.monitorOnly {
			e.Emit("# "+begin, "#")
		} else {
			e.Emit(begin, "ok")
		}
		ops = append(ops, begin)
		for i := 0; ; i++ {
			op := next(w, i)
			if op == "" {
				for _, v := range w.viol {
					v["ops"] = append([]string{}, ops...)
					viol = append(viol, v)
				}
				w.viol = nil
				break
			}
			ops = append(ops, op)
			obs, hint := w.exec(op)
			line := op
			if hint != "" {
				line = op + " ~ " + hint // the observed per-target enqueue order resolves the model's scheduling nondeterminism
			}
			if w.monitorOnly {
				e.Emit("# "+line, "#") // the model's acknowledgement step is atomic; a Send that blocks half-way is outside its op language
			} else {
				e.Emit(line, obs)
			}
			e.Count("op_" + strings.Fields(op)[0])
			for _, v := range w.viol {
				v["ops"] = append([]string{}, ops...)
				viol = append(viol, v)
			}
			w.viol = nil
			stop := false
			for _, v := range viol {
				// a violated trace is reported at its first violation OF THE PROPERTY BEING CHECKED; a violation of a neighbouring
				// property (reported by that property's own check) must not cut the trace short before this one's shows
				stop = stop || routingFocus == "" || v["prop"] == routingFocus
			}
			if stop {
				break
			}
		}
		e.Dist["keepalives_filtered"] += w.keepalives
		if w.monitorOnly {
			e.Count("trace_monitor_only")
		} else if w.faults {
			e.Count("trace_with_faults")
		} else {
			e.Count("trace_fault_free")
		}
		w.close()
	})
	return
}

func replayRouting(t *testing.T, e *Env, c []string) []map[string]any {
	_, v := runRoutingTrace(t, e, c[0], func(w *rWorld, i int) string {
		if i+1 < len(c) {
			return c[i+1]
		}
		return ""
	})
	return v
}

var _ = sort.Strings
var _ = os.Getenv
