package eng

import (
	"context"
	"crypto/ecdsa"
	"crypto/elliptic"
	"crypto/rand"
	"crypto/tls"
	"crypto/x509"
	"crypto/x509/pkix"
	"encoding/pem"
	"fmt"
	"google.golang.org/grpc"
	"google.golang.org/grpc/codes"
	"google.golang.org/grpc/credentials"
	"google.golang.org/grpc/status"
	"io"
	"math/big"
	"net"
	"os"
	"path/filepath"
	"strings"
	"sync/atomic"
	"testing"
	"time"

	"github.com/hashicorp/yamux"
	"go.temporal.io/server/common/log"

	"github.com/temporalio/s2s-proxy/config"
	"github.com/temporalio/s2s-proxy/encryption"
	"github.com/temporalio/s2s-proxy/transport/mux"
	"github.com/temporalio/s2s-proxy/transport/mux/session"
)

// ---- C19: TLS configuration and admission (engine "tls") -------------------------------------

type certKit struct {
	dir             string
	caPool          *x509.CertPool
	caFileGood      string
	caFileNoCA      string
	caFileMissing   string
	ownCert, ownKey string // the proxy's own certificate (valid chain, DNS proxy.test)
	creds           map[string]*tls.Certificate
	ca1DER, ca2DER  []byte
}

func pemWrite(t *testing.T, path, typ string, der []byte) {
	if err := os.WriteFile(path, pem.EncodeToMemory(&pem.Block{Type: typ, Bytes: der}), 0o600); err != nil {
		t.Fatal(err)
	}
}

func newCertKit(t *testing.T, dir string) *certKit {
	k := &certKit{dir: dir, creds: map[string]*tls.Certificate{}}
	serial := int64(1)
	mkCA := func(cn string) (*x509.Certificate, *ecdsa.PrivateKey, []byte) {
		key, _ := ecdsa.GenerateKey(elliptic.P256(), rand.Reader)
		serial++
		tmpl := &x509.Certificate{SerialNumber: big.NewInt(serial), Subject: pkix.Name{CommonName: cn}, NotBefore: time.Now().Add(-time.Hour), NotAfter: time.Now().Add(24 * time.Hour),
			IsCA: true, BasicConstraintsValid: true, KeyUsage: x509.KeyUsageCertSign | x509.KeyUsageDigitalSignature}
		der, err := x509.CreateCertificate(rand.Reader, tmpl, tmpl, &key.PublicKey, key)
		if err != nil {
			t.Fatal(err)
		}
		c, _ := x509.ParseCertificate(der)
		return c, key, der
	}
	mkLeaf := func(cn, dns string, ca *x509.Certificate, caKey *ecdsa.PrivateKey, notAfter time.Time, eku []x509.ExtKeyUsage) *tls.Certificate {
		key, _ := ecdsa.GenerateKey(elliptic.P256(), rand.Reader)
		serial++
		tmpl := &x509.Certificate{SerialNumber: big.NewInt(serial), Subject: pkix.Name{CommonName: cn}, DNSNames: []string{dns}, NotBefore: time.Now().Add(-2 * time.Hour), NotAfter: notAfter,
			KeyUsage: x509.KeyUsageDigitalSignature, ExtKeyUsage: eku}
		parent, signKey := ca, caKey
		if ca == nil { // self-signed
			parent, signKey = tmpl, key
		}
		der, err := x509.CreateCertificate(rand.Reader, tmpl, parent, &key.PublicKey, signKey)
		if err != nil {
			t.Fatal(err)
		}
		return &tls.Certificate{Certificate: [][]byte{der}, PrivateKey: key}
	}
	both := []x509.ExtKeyUsage{x509.ExtKeyUsageClientAuth, x509.ExtKeyUsageServerAuth}
	ca1, ca1Key, ca1DER := mkCA("configured-ca")
	ca2, ca2Key, ca2DER := mkCA("foreign-ca")
	// the HOST's trust store (what x509.SystemCertPool() returns in this process): one CA that is not the configured one.
	// Must be in place before anything asks for the system pool (it is loaded once per process).
	ca3, ca3Key, ca3DER := mkCA("host-trusted-ca")
	hostStore := filepath.Join(dir, "host-trust-store.pem")
	pemWrite(t, hostStore, "CERTIFICATE", ca3DER)
	emptyDir := filepath.Join(dir, "host-trust-dir")
	_ = os.MkdirAll(emptyDir, 0o700)
	os.Setenv("SSL_CERT_FILE", hostStore)
	os.Setenv("SSL_CERT_DIR", emptyDir)
	k.ca1DER, k.ca2DER = ca1DER, ca2DER
	future := time.Now().Add(12 * time.Hour)
	k.caPool = x509.NewCertPool()
	k.caPool.AddCert(ca1)
	k.creds["validChain"] = mkLeaf("peer", "proxy.test", ca1, ca1Key, future, both)
	k.creds["wrongName"] = mkLeaf("peer", "other.test", ca1, ca1Key, future, both)
	k.creds["selfSigned"] = mkLeaf("peer", "proxy.test", nil, nil, future, both)
	k.creds["otherCA"] = mkLeaf("peer", "proxy.test", ca2, ca2Key, future, both)
	k.creds["expired"] = mkLeaf("peer", "proxy.test", ca1, ca1Key, time.Now().Add(-time.Hour), both)
	k.creds["dialHost"] = mkLeaf("peer", "localhost", ca1, ca1Key, future, both)                                  // certified by the configured CA for the host name a client DIALS, not for the configured server name
	k.creds["hostTrusted"] = mkLeaf("peer", "proxy.test", ca3, ca3Key, future, both)                              // issued by a CA the host trusts, not by the configured CA
	k.creds["expiredRecently"] = mkLeaf("peer", "proxy.test", ca1, ca1Key, time.Now().Add(-90*time.Second), both) // inside any "clock skew tolerance"
	k.creds["wrongUsage.client"] = mkLeaf("peer", "proxy.test", ca1, ca1Key, future, []x509.ExtKeyUsage{x509.ExtKeyUsageServerAuth})
	k.creds["wrongUsage.server"] = mkLeaf("peer", "proxy.test", ca1, ca1Key, future, []x509.ExtKeyUsage{x509.ExtKeyUsageClientAuth})
	// multi-certificate presentations. TLS proves possession of the key of the FIRST certificate only: a peer may append
	// any public certificate it has seen on the wire.
	{
		key, _ := ecdsa.GenerateKey(elliptic.P256(), rand.Reader)
		serial++
		tmpl := &x509.Certificate{SerialNumber: big.NewInt(serial), Subject: pkix.Name{CommonName: "intruder"}, DNSNames: []string{"proxy.test"}, NotBefore: time.Now().Add(-time.Hour), NotAfter: future,
			IsCA: true, BasicConstraintsValid: true, KeyUsage: x509.KeyUsageCertSign | x509.KeyUsageDigitalSignature, ExtKeyUsage: both}
		der, err := x509.CreateCertificate(rand.Reader, tmpl, tmpl, &key.PublicKey, key)
		if err != nil {
			t.Fatal(err)
		}
		k.creds["borrowedChain"] = &tls.Certificate{Certificate: [][]byte{der, k.creds["validChain"].Certificate[0]}, PrivateKey: key}
		vc := k.creds["validChain"]
		k.creds["validPlusCA"] = &tls.Certificate{Certificate: [][]byte{vc.Certificate[0], ca1DER}, PrivateKey: vc.PrivateKey}
	}
	// files
	k.caFileGood = filepath.Join(dir, "ca.pem")
	pemWrite(t, k.caFileGood, "CERTIFICATE", ca1DER)
	k.caFileNoCA = filepath.Join(dir, "noca.pem")
	pemWrite(t, k.caFileNoCA, "CERTIFICATE", k.creds["validChain"].Certificate[0])
	k.caFileMissing = filepath.Join(dir, "does-not-exist.pem")
	own := mkLeaf("proxy", "proxy.test", ca1, ca1Key, future, both)
	k.ownCert, k.ownKey = filepath.Join(dir, "own.pem"), filepath.Join(dir, "own.key")
	pemWrite(t, k.ownCert, "CERTIFICATE", own.Certificate[0])
	kb, _ := x509.MarshalECPrivateKey(own.PrivateKey.(*ecdsa.PrivateKey))
	pemWrite(t, k.ownKey, "EC PRIVATE KEY", kb)
	return k
}

type tlsCase struct {
	hasCert, serverName bool
	caFile              string // good | noCACert | unreadable | unset
	skip                bool
}

func (c tlsCase) String() string {
	b := func(x bool) int {
		if x {
			return 1
		}
		return 0
	}
	return fmt.Sprintf("%d %d %s %d", b(c.hasCert), b(c.serverName), c.caFile, b(c.skip))
}

func (k *certKit) config(c tlsCase) encryption.TLSConfig {
	cfg := encryption.TLSConfig{SkipCAVerification: c.skip}
	if c.hasCert {
		cfg.CertificatePath, cfg.KeyPath = k.ownCert, k.ownKey
	}
	if c.serverName {
		cfg.CAServerName = "proxy.test"
	}
	switch c.caFile {
	case "good":
		cfg.RemoteCAPath = k.caFileGood
	case "noCACert":
		cfg.RemoteCAPath = k.caFileNoCA
	case "unreadable":
		cfg.RemoteCAPath = k.caFileMissing
	}
	return cfg
}

// peerCred returns the certificate a peer presents for a credential class and role ("client"/"server").
func (k *certKit) peerCred(cred, role string) *tls.Certificate {
	if cred == "none" {
		return nil
	}
	if cred == "wrongUsage" {
		return k.creds["wrongUsage."+role]
	}
	return k.creds[cred]
}

// handshake runs a TLS handshake between srv and cli configs over conns and reports whether an
// application byte made it in both directions.
func handshakeOutcome(sc, cc net.Conn, srvCfg, cliCfg *tls.Config) string {
	deadline := time.Now().Add(5 * time.Second)
	_ = sc.SetDeadline(deadline)
	_ = cc.SetDeadline(deadline)
	s, c := tls.Server(sc, srvCfg), tls.Client(cc, cliCfg)
	res := make(chan bool, 2)
	go func() {
		defer sc.Close()
		if err := s.Handshake(); err != nil {
			res <- false
			return
		}
		buf := make([]byte, 1)
		if _, err := s.Read(buf); err != nil {
			res <- false
			return
		}
		_, err := s.Write([]byte("y"))
		res <- err == nil
	}()
	go func() {
		defer cc.Close()
		if err := c.Handshake(); err != nil {
			res <- false
			return
		}
		if _, err := c.Write([]byte("x")); err != nil {
			res <- false
			return
		}
		buf := make([]byte, 1)
		_, err := c.Read(buf)
		res <- err == nil
	}()
	a, b := <-res, <-res
	if a && b {
		return "admit"
	}
	return "refuse"
}

// tcpPair returns two ends of a loopback TCP connection (buffered, unlike net.Pipe, so a failing side's alert never blocks).
func tcpPair(t *testing.T) (net.Conn, net.Conn) {
	l, err := net.Listen("tcp", "127.0.0.1:0")
	if err != nil {
		t.Fatal(err)
	}
	defer l.Close()
	ch := make(chan net.Conn, 1)
	go func() { c, _ := l.Accept(); ch <- c }()
	c2, err := net.Dial("tcp", l.Addr().String())
	if err != nil {
		t.Fatal(err)
	}
	return <-ch, c2
}

func (k *certKit) peerClientConfig(cred string) *tls.Config {
	pc := k.peerCred(cred, "client")
	return &tls.Config{RootCAs: k.caPool, ServerName: "proxy.test", MinVersion: tls.VersionTLS12,
		// a client that sends its certificate regardless of the CA hint
		GetClientCertificate: func(*tls.CertificateRequestInfo) (*tls.Certificate, error) {
			if pc == nil {
				return &tls.Certificate{}, nil
			}
			return pc, nil
		}}
}

func TestC19(t *testing.T) {
	e := NewEnv(t, "tls")
	defer e.Close(t)
	dir := filepath.Join(e.Out, "certs")
	_ = os.MkdirAll(dir, 0o700)
	k := newCertKit(t, dir)
	creds := []string{"validChain", "wrongName", "selfSigned", "otherCA", "expired", "expiredRecently", "hostTrusted", "wrongUsage", "borrowedChain", "validPlusCA", "none"}
	var cases []tlsCase
	for _, hc := range []bool{true, false} {
		for _, sn := range []bool{true, false} {
			for _, ca := range []string{"good", "noCACert", "unreadable", "unset"} {
				for _, sk := range []bool{false, true} {
					cases = append(cases, tlsCase{hc, sn, ca, sk})
				}
			}
		}
	}
	logger := log.NewNoopLogger()
	viol := func(what string, ops ...string) { e.Violation(map[string]any{"what": what, "ops": ops}) }
	for _, c := range cases {
		cfg := k.config(c)
		// --- server role: assembled config
		sc, err := encryption.GetServerTLSConfig(cfg, logger)
		obs := "error"
		if err == nil && sc == nil {
			obs = "disabled"
		} else if err == nil {
			ca := map[tls.ClientAuthType]string{tls.NoClientCert: "noClientCert", tls.RequireAnyClientCert: "requireAnyClientCert", tls.RequireAndVerifyClientCert: "requireAndVerifyClientCert",
				tls.RequestClientCert: "requestClientCert", tls.VerifyClientCertIfGiven: "verifyClientCertIfGiven"}[sc.ClientAuth]
			obs = fmt.Sprintf("ok %s %v %v", ca, sc.ClientCAs != nil, len(sc.Certificates) > 0)
		}
		e.Emit("srvcfg "+c.String(), obs)
		// --- client role: assembled config
		cc, err := encryption.GetClientTLSConfig(cfg)
		cobs := "error"
		if err == nil && cc == nil {
			cobs = "disabled"
		} else if err == nil {
			cobs = fmt.Sprintf("ok %v %v %v %v", cc.InsecureSkipVerify, cc.ServerName != "", cc.RootCAs != nil, len(cc.Certificates) > 0)
		}
		e.Emit("clicfg "+c.String(), cobs)
		e.Evals += 2
		// --- admission by real handshakes
		for _, cred := range creds {
			if sc != nil {
				p1, p2 := tcpPair(t)
				got := handshakeOutcome(p1, p2, sc, k.peerClientConfig(cred))
				op := fmt.Sprintf("srvadmit %s %s", c.String(), cred)
				e.Emit(op, got)
				e.Evals++
				e.Distinct(fnv(op))
				e.Count("server_" + cred + "_" + got)
				if !c.skip && got == "admit" && cred != "validChain" && cred != "wrongName" && cred != "validPlusCA" {
					viol(fmt.Sprintf("server with CA verification configured (%s) admitted a %s client", c.String(), cred), op)
				}
			}
			if cc != nil {
				pc := k.peerCred(cred, "server")
				srv := &tls.Config{MinVersion: tls.VersionTLS12}
				if pc != nil {
					srv.Certificates = []tls.Certificate{*pc}
				}
				p1, p2 := tcpPair(t)
				got := handshakeOutcome(p1, p2, srv, cc)
				op := fmt.Sprintf("cliadmit %s %s", c.String(), cred)
				e.Emit(op, got)
				e.Evals++
				e.Distinct(fnv(op))
				e.Count("client_" + cred + "_" + got)
				if !c.skip && got == "admit" && cred != "validChain" && cred != "validPlusCA" && !(cred == "hostTrusted" && c.caFile == "unset") {
					viol(fmt.Sprintf("client with CA verification configured (%s) accepted a %s server", c.String(), cred), op)
				}
			}
		}
	}
	// --- the CA file is replaced in place (rotation) with an older / equal / newer modification time: every endpoint built
	// afterwards from the same configuration trusts exactly the CA the file holds NOW ("CA from file")
	{
		rot := filepath.Join(dir, "rotating-ca.pem")
		pemWrite(t, rot, "CERTIFICATE", k.ca1DER)
		base := time.Now().Add(-48 * time.Hour).Truncate(time.Second)
		_ = os.Chtimes(rot, base, base)
		rcase := tlsCase{true, true, "good", false}
		rcfg := k.config(rcase)
		rcfg.RemoteCAPath = rot
		current := 1 // which CA the file holds
		check := func(step string) {
			sc, err1 := encryption.GetServerTLSConfig(rcfg, logger)
			cc, err2 := encryption.GetClientTLSConfig(rcfg)
			if err1 != nil || err2 != nil || sc == nil || cc == nil {
				viol(fmt.Sprintf("CA rotation (%s): building the TLS configuration failed: %v %v", step, err1, err2))
				return
			}
			// relative to the file's current content: the leaf issued by the current CA is the valid chain, the other one a foreign-CA peer
			rel := map[string]string{"validChain": "validChain", "otherCA": "otherCA"}
			if current == 2 {
				rel = map[string]string{"validChain": "otherCA", "otherCA": "validChain"}
			}
			for _, cred := range []string{"validChain", "otherCA"} {
				p1, p2 := tcpPair(t)
				got := handshakeOutcome(p1, p2, sc, k.peerClientConfig(cred))
				op := fmt.Sprintf("srvadmit %s %s", rcase.String(), rel[cred])
				e.Emit(op, got)
				e.Evals++
				e.Count("rotation_server_" + rel[cred] + "_" + got)
				if (rel[cred] == "validChain") != (got == "admit") {
					viol(fmt.Sprintf("CA rotation (%s): the server built from the CA file, which now holds CA %d, answered %q to a client certified by %s", step, current,
						got, map[bool]string{true: "that CA", false: "the CA the file held before"}[rel[cred] == "validChain"]), op)
				}
				srv := &tls.Config{MinVersion: tls.VersionTLS12, Certificates: []tls.Certificate{*k.peerCred(cred, "server")}}
				p1, p2 = tcpPair(t)
				got = handshakeOutcome(p1, p2, srv, cc)
				op = fmt.Sprintf("cliadmit %s %s", rcase.String(), rel[cred])
				e.Emit(op, got)
				e.Evals++
				e.Count("rotation_client_" + rel[cred] + "_" + got)
				if (rel[cred] == "validChain") != (got == "admit") {
					viol(fmt.Sprintf("CA rotation (%s): the client built from the CA file, which now holds CA %d, answered %q to a server certified by %s", step, current,
						got, map[bool]string{true: "that CA", false: "the CA the file held before"}[rel[cred] == "validChain"]), op)
				}
			}
		}
		check("initial")
		mt := base
		for i, how := range []string{"older", "same", "newer", "same", "older"} {
			current = 3 - current
			tmp := rot + ".new"
			pemWrite(t, tmp, "CERTIFICATE", map[int][]byte{1: k.ca1DER, 2: k.ca2DER}[current])
			switch how {
			case "older":
				mt = mt.Add(-time.Hour)
			case "newer":
				mt = mt.Add(time.Hour)
			}
			_ = os.Chtimes(tmp, mt, mt)
			if err := os.Rename(tmp, rot); err != nil {
				t.Fatal(err)
			}
			check(fmt.Sprintf("replacement %d, modification time %s than before", i+1, how))
		}
	}
	// --- long-lived endpoints: time passes, key pairs are renewed on disk (c19_longlived_test.go)
	c19LongLived(t, e)
	// --- real listeners: TCP (ClusterConnection inbound server) and mux receiver, verification on
	on := tlsCase{true, true, "good", false}
	pp, err := startProxyPair(t, config.ClusterConnConfig{Remote: config.ClusterDefinition{TcpServer: config.TCPTLSInfo{TLSConfig: k.config(on)}}})
	if err != nil {
		t.Fatal(err)
	}
	lifetime, cancel := context.WithCancel(context.Background())
	muxProv, err := mux.NewMuxReceiverProvider(lifetime, "c19", func(*yamux.Session, net.Conn) {}, 4,
		config.TCPTLSInfo{ConnectionString: "127.0.0.1:0", TLSConfig: k.config(on)}, []string{"127.0.0.1:0", "mux-server", "c19"}, logger)
	if err != nil {
		t.Fatal(err)
	}
	_ = session.MuxSessionInfo{}
	muxProv.Start()
	for _, cred := range creds {
		for _, lst := range []string{"tcp", "mux"} {
			addr := pp.InboundAddr
			if lst == "mux" {
				addr = muxProv.Address()
			}
			got := "refuse"
			raw, err := net.DialTimeout("tcp", addr, 3*time.Second)
			if err == nil {
				cfg := k.peerClientConfig(cred)
				cfg.NextProtos = []string{"h2"}
				c := tls.Client(raw, cfg)
				_ = c.SetDeadline(time.Now().Add(3 * time.Second))
				if err := c.Handshake(); err == nil {
					// the server speaks first on both listeners (HTTP/2 SETTINGS, yamux ping) iff it admitted us
					buf := make([]byte, 1)
					if _, err := c.Read(buf); err == nil {
						got = "admit"
					}
				}
				_ = raw.Close()
			}
			op := fmt.Sprintf("listener %s %s %s", lst, on.String(), cred)
			e.Emit(op, got)
			e.Evals++
			e.Distinct(fnv(op))
			e.Count("listener_" + lst + "_" + cred + "_" + got)
			if got == "admit" && cred != "validChain" && cred != "wrongName" && cred != "validPlusCA" {
				viol(fmt.Sprintf("%s listener with CA verification configured admitted a %s client", lst, cred), op)
			}
		}
	}
	cancel()
	pp.Stop()
	// --- real TCP listener for every server configuration in which TLS is switched on and verification is not switched off:
	// a peer that speaks no TLS at all (plaintext HTTP/2) is never served, whichever parts of the TLS block are missing
	for _, c := range cases {
		cfg := k.config(c)
		if c.skip || !cfg.IsEnabled() || c.caFile == "unreadable" || c.caFile == "noCACert" {
			continue
		}
		pp2, err := startProxyPair(t, config.ClusterConnConfig{Remote: config.ClusterDefinition{TcpServer: config.TCPTLSInfo{TLSConfig: cfg}}})
		op := fmt.Sprintf("# plaintext-peer %s", c.String())
		if err != nil {
			e.Emit(op+" (listener did not start)", "#")
			e.Count("plaintext_listener_not_started")
			continue
		}
		got := "refuse"
		if raw, derr := net.DialTimeout("tcp", pp2.InboundAddr, 3*time.Second); derr == nil {
			// HTTP/2 client preface + an empty SETTINGS frame; a server that serves plaintext answers with its own SETTINGS frame
			_ = raw.SetDeadline(time.Now().Add(2 * time.Second))
			_, _ = raw.Write([]byte("PRI * HTTP/2.0\r\n\r\nSM\r\n\r\n\x00\x00\x00\x04\x00\x00\x00\x00\x00"))
			buf := make([]byte, 9)
			if n, _ := io.ReadFull(raw, buf); n == 9 && buf[3] == 0x04 {
				got = "admit"
			}
			_ = raw.Close()
		}
		e.Emit(op, "#")
		e.Evals++
		e.Count("plaintext_peer_" + got)
		if got == "admit" {
			viol(fmt.Sprintf("TCP listener with TLS configured (%s: own certificate=%v, CA file=%s, verification not switched off) serves a peer that speaks plaintext HTTP/2: no TLS, no certificate", c.String(), c.hasCert, c.caFile), op)
		}
		pp2.Stop()
	}
	// --- the REAL outbound client of a cluster connection (gRPC dial options included), dialling a DNS NAME: the server
	// certificate is checked against the CONFIGURED server name, not against the name that happens to be dialled
	for _, cred := range []string{"validChain", "wrongName", "dialHost", "otherCA", "selfSigned", "expired"} {
		lis, lerr := net.Listen("tcp", "127.0.0.1:0")
		if lerr != nil {
			t.Fatal(lerr)
		}
		var served atomic.Int64
		srv := grpc.NewServer(grpc.Creds(credentials.NewTLS(&tls.Config{MinVersion: tls.VersionTLS12, Certificates: []tls.Certificate{*k.creds[cred]}})),
			grpc.UnknownServiceHandler(func(any, grpc.ServerStream) error {
				served.Add(1)
				return status.Error(codes.Unimplemented, "c19 tls backend")
			}))
		go func() { _ = srv.Serve(lis) }()
		_, port, _ := net.SplitHostPort(lis.Addr().String())
		ccfg := config.ClusterConnConfig{}
		ccfg.Remote.TcpClient = config.TCPTLSInfo{ConnectionString: "localhost:" + port, TLSConfig: k.config(on)}
		pp3, err := startProxyPair(t, ccfg)
		op := fmt.Sprintf("# outbound-client dialling localhost, server presents %s", cred)
		e.Emit(op, "#")
		e.Evals++
		if err != nil {
			e.Count("outbound_client_not_started")
			srv.Stop()
			continue
		}
		ctx, cancelCall := context.WithTimeout(context.Background(), 4*time.Second)
		_ = pp3.FromLocal.Invoke(ctx, adminDescribeMethod, newMsg(methodDesc(adminDescribeMethod).Input()), newMsg(methodDesc(adminDescribeMethod).Output()))
		cancelCall()
		got := "refuse"
		if served.Load() > 0 {
			got = "admit"
		}
		e.Count("outbound_client_" + cred + "_" + got)
		if (cred == "validChain") != (got == "admit") {
			viol(fmt.Sprintf("the cluster connection's outbound client (CA verification on, configured server name proxy.test, dialling localhost) answered %q to a server presenting a %s certificate", got, cred), op)
		}
		pp3.Stop()
		srv.Stop()
	}
	e.Stats["exhaustive"] = true
	e.Sample([]string{"srvadmit 1 1 good 0 selfSigned", "cliadmit 0 1 good 0 wrongName", "listener mux 1 1 good 0 otherCA"})
	_ = strings.Join
}
