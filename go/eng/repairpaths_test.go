package eng

// Shared machinery for C17/C18: the legacy (gogo, /repo/proto/1_22) struct graph, structural paths
// from a root type to failure.v1.Failure, values populated along paths, measurement of what the real
// compat.RepairInvalidUTF8 repairs, a capturing logger for the codec, and root discovery.
//
// Nothing here parses the generated visitor: oracle paths come from Go reflection over the legacy
// structs, measured paths from running the real code.

import (
	"fmt"
	"reflect"
	"sort"
	"strings"
	"sync"
	"time"
	"unicode/utf8"

	gogoproto "github.com/gogo/protobuf/proto"
	"go.temporal.io/server/common/log"
	"go.temporal.io/server/common/log/tag"
	"google.golang.org/grpc/mem"
	"google.golang.org/protobuf/encoding/protowire"
	"google.golang.org/protobuf/proto"
	"google.golang.org/protobuf/reflect/protoreflect"
	"google.golang.org/protobuf/reflect/protoregistry"

	s2scommon "github.com/temporalio/s2s-proxy/common"
	failure122 "github.com/temporalio/s2s-proxy/proto/1_22/api/failure/v1"
	_ "github.com/temporalio/s2s-proxy/proto/1_22/api/workflowservice/v1"
	_ "github.com/temporalio/s2s-proxy/proto/1_22/server/api/adminservice/v1"
	"github.com/temporalio/s2s-proxy/proto/compat"
)

// ---- capturing logger (the codec's Logger field is exported through CodecParams) ---------------

type capLog struct {
	mu      sync.Mutex
	entries []capEntry
}

type capEntry struct {
	level, msg, err string
}

func (c *capLog) add(level, msg string, tags []tag.Tag) {
	e := capEntry{level: level, msg: msg}
	for _, t := range tags {
		if t.Key() == "error" {
			e.err = fmt.Sprint(t.Value())
		}
	}
	c.mu.Lock()
	c.entries = append(c.entries, e)
	c.mu.Unlock()
}
func (c *capLog) Debug(msg string, tags ...tag.Tag)  { c.add("debug", msg, tags) }
func (c *capLog) Info(msg string, tags ...tag.Tag)   { c.add("info", msg, tags) }
func (c *capLog) Warn(msg string, tags ...tag.Tag)   { c.add("warn", msg, tags) }
func (c *capLog) Error(msg string, tags ...tag.Tag)  { c.add("error", msg, tags) }
func (c *capLog) DPanic(msg string, tags ...tag.Tag) { c.add("dpanic", msg, tags) }
func (c *capLog) Panic(msg string, tags ...tag.Tag)  { c.add("panic", msg, tags) }
func (c *capLog) Fatal(msg string, tags ...tag.Tag)  { c.add("fatal", msg, tags) }
func (c *capLog) take() []capEntry {
	c.mu.Lock()
	defer c.mu.Unlock()
	e := c.entries
	c.entries = nil
	return e
}

var _ log.Logger = (*capLog)(nil)

// codecOutcome is what one call of the real codec showed: the returned error and what the repair
// path logged (entered? at which stage did it stop?).
type codecOutcome struct {
	err     error
	entered bool   // the repair path ran (it logs exactly one line, error or debug)
	stage   string // "" (not entered) | repaired | not-marshaler | not-convertible | legacy-unmarshal | repair-error | nothing-repaired | remarshal | reunmarshal | unknown:<text>
}

var codecMu sync.Mutex

// runCodec calls the real registered codec with a capturing logger installed.
func runCodec(data []byte, v any) codecOutcome {
	codecMu.Lock()
	defer codecMu.Unlock()
	c := compat.GetCodec()
	old := c.CodecParams.Logger
	cl := &capLog{}
	c.CodecParams.Logger = cl
	defer func() { c.CodecParams.Logger = old }()
	out := codecOutcome{}
	out.err = c.Unmarshal(mem.BufferSlice{mem.SliceBuffer(data)}, v)
	for _, e := range cl.take() {
		switch {
		case e.level == "debug" && strings.HasPrefix(e.msg, "repaired invalid UTF-8"):
			out.entered, out.stage = true, "repaired"
		case e.level == "error" && e.msg == "during UTF-8 repair":
			out.entered, out.stage = true, classifyRepairErr(e.err)
		}
	}
	return out
}

func classifyRepairErr(s string) string {
	switch {
	case strings.HasPrefix(s, "could not cast"):
		return "not-marshaler"
	case strings.HasPrefix(s, "could not convert"):
		return "not-convertible"
	case strings.HasPrefix(s, "could not unmarshal data into"):
		return "legacy-unmarshal"
	case strings.HasPrefix(s, "reached maximum failure chain depth"):
		return "repair-error"
	case strings.HasPrefix(s, "nothing was repaired"):
		return "nothing-repaired"
	case strings.HasPrefix(s, "failed to re-marshal"):
		return "remarshal"
	case strings.HasPrefix(s, "failed to re-unmarshal"):
		return "reunmarshal"
	}
	return "unknown:" + s
}

func errKind(err error) string {
	switch {
	case err == nil:
		return "ok"
	case s2scommon.IsInvalidUTF8Error(err):
		return "invalidutf8"
	}
	return "other"
}

// ---- legacy struct graph ------------------------------------------------------------------------

var failureT = reflect.TypeOf(failure122.Failure{})

// legacyType returns the gogo struct type registered under a proto full name (nil if none).
func legacyType(fullName string) reflect.Type {
	t := gogoproto.MessageType(fullName)
	if t == nil {
		return nil
	}
	if t.Kind() == reflect.Ptr {
		t = t.Elem()
	}
	return t
}

func legacyName(t reflect.Type) string {
	if m, ok := reflect.New(t).Interface().(gogoproto.Message); ok {
		if n := gogoproto.MessageName(m); n != "" {
			return n
		}
	}
	return t.PkgPath() + "." + t.Name()
}

// pstep is one structural step of a path.
//
//	f  struct field holding a message (pointer or value)
//	l  struct field holding a repeated message: the step stands for ANY element
//	m  struct field holding a map with message values: ANY value
//	o  oneof interface field + one wrapper type + the wrapper's only field
type pstep struct {
	kind  byte
	field int          // index of the field in the enclosing struct
	name  string       // Go field name
	wrap  reflect.Type // 'o': wrapper struct type
	elem  reflect.Type // struct type the step lands on
	ptr   bool         // the message is held by pointer
}

func (s pstep) String() string {
	switch s.kind {
	case 'l':
		return s.name + "[]"
	case 'm':
		return s.name + "{}"
	case 'o':
		return s.name + "<" + s.wrap.Name() + ">"
	}
	return s.name
}

type opath struct {
	steps []pstep
}

func (p opath) String() string {
	parts := make([]string, len(p.steps))
	for i, s := range p.steps {
		parts[i] = s.String()
	}
	return strings.Join(parts, ".")
}

var timeT = reflect.TypeOf(time.Time{})

// msgElem classifies a field type: (kind, struct type, held by pointer).
func msgElem(ft reflect.Type) (byte, reflect.Type, bool) {
	isMsg := func(t reflect.Type) (reflect.Type, bool, bool) {
		ptr := false
		if t.Kind() == reflect.Ptr {
			t, ptr = t.Elem(), true
		}
		if t.Kind() == reflect.Struct && t != timeT {
			return t, ptr, true
		}
		return nil, false, false
	}
	switch ft.Kind() {
	case reflect.Ptr, reflect.Struct:
		if s, p, ok := isMsg(ft); ok {
			return 'f', s, p
		}
	case reflect.Slice:
		if s, p, ok := isMsg(ft.Elem()); ok {
			return 'l', s, p
		}
	case reflect.Map:
		if s, p, ok := isMsg(ft.Elem()); ok {
			return 'm', s, p
		}
	}
	return 0, nil, false
}

// oneofWrappers lists the wrapper struct types of one oneof interface field of struct type t.
func oneofWrappers(t reflect.Type, iface reflect.Type) []reflect.Type {
	m, ok := reflect.New(t).Interface().(interface{ XXX_OneofWrappers() []interface{} })
	if !ok {
		return nil
	}
	var out []reflect.Type
	for _, w := range m.XXX_OneofWrappers() {
		wt := reflect.TypeOf(w)
		if wt.Implements(iface) {
			out = append(out, wt.Elem())
		}
	}
	sort.Slice(out, func(i, j int) bool { return out[i].Name() < out[j].Name() })
	return out
}

// stepsOf lists every message-bearing step out of struct type t (Failure.Cause is cut: the chain is
// the business of repairInvalidUTF8InFailure, property C17(ii)).
func stepsOf(t reflect.Type) []pstep {
	var out []pstep
	for i := 0; i < t.NumField(); i++ {
		f := t.Field(i)
		if !f.IsExported() || strings.HasPrefix(f.Name, "XXX_") {
			continue
		}
		if t == failureT && f.Name == "Cause" {
			continue
		}
		if f.Type.Kind() == reflect.Interface {
			if _, ok := f.Tag.Lookup("protobuf_oneof"); !ok {
				continue
			}
			for _, w := range oneofWrappers(t, f.Type) {
				if w.NumField() != 1 {
					continue
				}
				k, s, p := msgElem(w.Field(0).Type)
				if k != 'f' {
					continue // scalar / bytes oneof member
				}
				out = append(out, pstep{kind: 'o', field: i, name: f.Name, wrap: w, elem: s, ptr: p})
			}
			continue
		}
		if k, s, p := msgElem(f.Type); k != 0 {
			out = append(out, pstep{kind: k, field: i, name: f.Name, elem: s, ptr: p})
		}
	}
	return out
}

var stepsCache = map[reflect.Type][]pstep{}

func stepsOfCached(t reflect.Type) []pstep {
	if s, ok := stepsCache[t]; ok {
		return s
	}
	s := stepsOf(t)
	stepsCache[t] = s
	return s
}

// reachesFailure: can struct type t reach a Failure at all (memoised closure; used to prune).
var reachMemo = map[reflect.Type]bool{}

func reachesFailure(t reflect.Type) bool {
	if t == failureT {
		return true
	}
	if v, ok := reachMemo[t]; ok {
		return v
	}
	// least fixed point by iteration over the reachable type set
	seen := map[reflect.Type]bool{}
	var order []reflect.Type
	var dfs func(reflect.Type)
	dfs = func(x reflect.Type) {
		if seen[x] {
			return
		}
		seen[x] = true
		order = append(order, x)
		for _, s := range stepsOfCached(x) {
			dfs(s.elem)
		}
	}
	dfs(t)
	reach := map[reflect.Type]bool{failureT: true}
	for changed := true; changed; {
		changed = false
		for _, x := range order {
			if reach[x] {
				continue
			}
			for _, s := range stepsOfCached(x) {
				if reach[s.elem] {
					reach[x] = true
					changed = true
					break
				}
			}
		}
	}
	for _, x := range order {
		reachMemo[x] = reach[x]
	}
	return reach[t]
}

var oracleCuts int

const maxUnroll = 2 // a struct type may occur at most this many times on one path (root included)

// oraclePaths enumerates all structural paths from root to a Failure.
func oraclePaths(root reflect.Type) []opath {
	var out []opath
	count := map[reflect.Type]int{}
	var cur []pstep
	var walk func(t reflect.Type)
	walk = func(t reflect.Type) {
		count[t]++
		defer func() { count[t]-- }()
		for _, s := range stepsOfCached(t) {
			if !reachesFailure(s.elem) {
				continue
			}
			cur = append(cur, s)
			if s.elem == failureT {
				out = append(out, opath{steps: append([]pstep(nil), cur...)})
			}
			// descend (a Failure is entered once, for its non-Cause members, in case it nests another one)
			limit := maxUnroll
			if s.elem == failureT {
				limit = 1
			}
			if count[s.elem] < limit {
				walk(s.elem)
			} else if s.elem != failureT {
				oracleCuts++ // genuine type recursion (other than Failure.Cause) cut after maxUnroll unrollings
			}
			cur = cur[:len(cur)-1]
		}
	}
	if root == failureT {
		return []opath{{}} // the root itself is the failure
	}
	walk(root)
	return out
}

// ---- values along paths -------------------------------------------------------------------------

// mkKey makes a map key of the given type.
func mkKey(t reflect.Type, i int) reflect.Value {
	k := reflect.New(t).Elem()
	switch t.Kind() {
	case reflect.String:
		k.SetString(fmt.Sprintf("k%d", i))
	case reflect.Int, reflect.Int32, reflect.Int64:
		k.SetInt(int64(i + 1))
	case reflect.Uint32, reflect.Uint64:
		k.SetUint(uint64(i + 1))
	case reflect.Bool:
		k.SetBool(i%2 == 1)
	}
	return k
}

// descend makes sure the message at step s below struct value sv exists and returns it (a settable
// struct value).  fanout>1 creates that many list elements / map entries and returns element `pick`.
func descend(sv reflect.Value, s pstep, fanout, pick int) reflect.Value {
	f := sv.Field(s.field)
	newElem := func() (holder reflect.Value, strct reflect.Value) {
		if s.ptr {
			p := reflect.New(s.elem)
			return p, p.Elem()
		}
		v := reflect.New(s.elem).Elem()
		return v, v
	}
	switch s.kind {
	case 'f':
		if s.ptr {
			if f.IsNil() {
				f.Set(reflect.New(s.elem))
			}
			return f.Elem()
		}
		return f
	case 'o':
		if f.IsNil() || f.Elem().Type() != reflect.PtrTo(s.wrap) {
			f.Set(reflect.New(s.wrap))
		}
		inner := f.Elem().Elem().Field(0)
		if s.ptr {
			if inner.IsNil() {
				inner.Set(reflect.New(s.elem))
			}
			return inner.Elem()
		}
		return inner
	case 'l':
		for f.Len() < fanout {
			h, _ := newElem()
			f.Set(reflect.Append(f, h))
		}
		e := f.Index(pick)
		if s.ptr {
			return e.Elem()
		}
		return e
	case 'm':
		if f.IsNil() {
			f.Set(reflect.MakeMap(f.Type()))
		}
		for i := f.Len(); i < fanout; i++ {
			h, _ := newElem()
			f.SetMapIndex(mkKey(f.Type().Key(), i), h)
		}
		e := f.MapIndex(mkKey(f.Type().Key(), pick))
		if s.ptr {
			return e.Elem()
		}
		// map of struct values is not addressable: not produced by the legacy schema
		panic("map with non-pointer message values")
	}
	panic("bad step")
}

// chainAt installs a failure chain with the given messages at struct value fv (a Failure struct).
func chainAt(fv reflect.Value, msgs []string) {
	f := fv.Addr().Interface().(*failure122.Failure)
	for i, m := range msgs {
		f.Message = m
		if i+1 < len(msgs) {
			if f.Cause == nil {
				f.Cause = &failure122.Failure{}
			}
			f = f.Cause
		}
	}
}

// buildAlong creates a root value populated along exactly one path and returns it with the Failure
// at the end of the path.
func rpBuildAlong(root reflect.Type, p opath) (reflect.Value, *failure122.Failure) {
	rv := reflect.New(root)
	cur := rv.Elem()
	for _, s := range p.steps {
		cur = descend(cur, s, 1, 0)
	}
	return rv, cur.Addr().Interface().(*failure122.Failure)
}

// invalidFailureMessages is the property monitor's walker: every Failure reachable in v by
// reflection (any field, list, map, oneof; causes down to `depth` links) whose Message is not valid
// UTF-8, as readable locations.
func invalidFailureMessages(v reflect.Value, depth int) []string {
	var out []string
	var walk func(v reflect.Value, loc string, budget int)
	walk = func(v reflect.Value, loc string, budget int) {
		if budget <= 0 {
			return
		}
		switch v.Kind() {
		case reflect.Ptr, reflect.Interface:
			if !v.IsNil() {
				walk(v.Elem(), loc, budget)
			}
		case reflect.Struct:
			if v.Type() == failureT {
				f := v
				for d := 0; d < depth; d++ {
					if !utf8.ValidString(f.FieldByName("Message").String()) {
						out = append(out, fmt.Sprintf("%s@cause%d", loc, d))
					}
					// other members of the failure (not the cause)
					for i := 0; i < f.NumField(); i++ {
						ft := f.Type().Field(i)
						if ft.Name == "Cause" || ft.Name == "Message" || !ft.IsExported() || strings.HasPrefix(ft.Name, "XXX_") {
							continue
						}
						walk(f.Field(i), loc+"."+ft.Name, budget-1)
					}
					c := f.FieldByName("Cause")
					if c.IsNil() {
						break
					}
					f = c.Elem()
				}
				return
			}
			if v.Type() == timeT {
				return
			}
			for i := 0; i < v.NumField(); i++ {
				ft := v.Type().Field(i)
				if !ft.IsExported() || strings.HasPrefix(ft.Name, "XXX_") {
					continue
				}
				walk(v.Field(i), loc+"."+ft.Name, budget-1)
			}
		case reflect.Slice:
			if v.Type().Elem().Kind() == reflect.Uint8 {
				return
			}
			for i := 0; i < v.Len(); i++ {
				walk(v.Index(i), fmt.Sprintf("%s[%d]", loc, i), budget-1)
			}
		case reflect.Map:
			keys := v.MapKeys()
			sort.Slice(keys, func(i, j int) bool { return fmt.Sprint(keys[i]) < fmt.Sprint(keys[j]) })
			for _, k := range keys {
				walk(v.MapIndex(k), fmt.Sprintf("%s{%v}", loc, k), budget-1)
			}
		}
	}
	walk(v, "", 64)
	return out
}

// ---- roots --------------------------------------------------------------------------------------

type rpRoot struct {
	Name        string       // proto full name
	Kind        string       // admin | frontend | event
	Legacy      reflect.Type // legacy struct type (nil when the gogo registry has none)
	Current     protoreflect.MessageType
	Convertible string // measured through the real codec: yes | no | unknown (no string field to provoke the delegate)
}

// stringFieldWire builds wire bytes for message descriptor md that carry the byte 0xFF in one string
// field (nested as deep as needed, each level a length-delimited field), or nil when md has no
// string field reachable without recursion.  The standard codec must reject them as invalid UTF-8.
func stringFieldWire(md protoreflect.MessageDescriptor) []byte {
	var rec func(md protoreflect.MessageDescriptor, seen map[protoreflect.FullName]bool) []byte
	rec = func(md protoreflect.MessageDescriptor, seen map[protoreflect.FullName]bool) []byte {
		if seen[md.FullName()] {
			return nil
		}
		seen[md.FullName()] = true
		defer delete(seen, md.FullName())
		fs := md.Fields()
		for i := 0; i < fs.Len(); i++ {
			f := fs.Get(i)
			if f.Kind() == protoreflect.StringKind && !f.IsMap() {
				b := protowire.AppendTag(nil, f.Number(), protowire.BytesType)
				return protowire.AppendBytes(b, []byte{0xff})
			}
		}
		for i := 0; i < fs.Len(); i++ {
			f := fs.Get(i)
			var inner []byte
			switch {
			case f.IsMap() && f.MapKey().Kind() == protoreflect.StringKind:
				inner = protowire.AppendBytes(protowire.AppendTag(nil, 1, protowire.BytesType), []byte{0xff})
			case f.IsMap() && f.MapValue().Kind() == protoreflect.StringKind:
				inner = protowire.AppendBytes(protowire.AppendTag(nil, 2, protowire.BytesType), []byte{0xff})
			case f.IsMap() && f.MapValue().Kind() == protoreflect.MessageKind:
				if v := rec(f.MapValue().Message(), seen); v != nil {
					inner = protowire.AppendBytes(protowire.AppendTag(nil, 2, protowire.BytesType), v)
				}
			case f.IsMap():
			case f.Kind() == protoreflect.MessageKind:
				inner = rec(f.Message(), seen)
			}
			if inner != nil {
				b := protowire.AppendTag(nil, f.Number(), protowire.BytesType)
				return protowire.AppendBytes(b, inner)
			}
		}
		return nil
	}
	return rec(md, map[protoreflect.FullName]bool{})
}

// measureConvertible asks the real codec whether the current type has a legacy counterpart in the
// conversion tables (adminConvertTo122 / frontendConvertTo122 are unexported).
func measureConvertible(mt protoreflect.MessageType) string {
	data := stringFieldWire(mt.Descriptor())
	if data == nil {
		return "unknown"
	}
	v := mt.New().Interface()
	if err := proto.Unmarshal(data, mt.New().Interface()); !s2scommon.IsInvalidUTF8Error(err) {
		return "unknown"
	}
	o := runCodec(data, v)
	if !o.entered {
		return "unknown"
	}
	if o.stage == "not-convertible" {
		return "no"
	}
	return "yes"
}

// serviceRoots: request and response types of every method of the two services the proxy serves.
func serviceRoots() []rpRoot {
	var out []rpRoot
	seen := map[string]bool{}
	for _, svc := range []struct{ name, kind string }{{adminSvc, "admin"}, {workflowSvc, "frontend"}} {
		d, err := protoregistry.GlobalFiles.FindDescriptorByName(protoreflect.FullName(svc.name))
		if err != nil {
			panic(err)
		}
		sd := d.(protoreflect.ServiceDescriptor)
		for i := 0; i < sd.Methods().Len(); i++ {
			m := sd.Methods().Get(i)
			for _, md := range []protoreflect.MessageDescriptor{m.Input(), m.Output()} {
				n := string(md.FullName())
				if seen[n] {
					continue
				}
				seen[n] = true
				mt, err := protoregistry.GlobalTypes.FindMessageByName(md.FullName())
				if err != nil {
					panic(err)
				}
				out = append(out, rpRoot{Name: n, Kind: svc.kind, Legacy: legacyType(n), Current: mt, Convertible: measureConvertible(mt)})
			}
		}
	}
	sort.Slice(out, func(i, j int) bool { return out[i].Name < out[j].Name })
	return out
}

// ---- the C18 universe: roots, oracle paths, ids (shared by the extractor and the engine) ----------

type rpPath struct {
	ID    int
	P     opath
	Str   string
	Steps []int // Lean encoding: 0 = any element / map value, n+1 = field number n (oneof: interface field, then 1000+wrapper ordinal)
}

type rpRootInfo struct {
	ID     int
	Name   string
	Class  string // service (convertible request/response type) | event (HistoryEvent, repaired inside history blobs) | switch (other type the visitor has a case for)
	Legacy reflect.Type
	Paths  []rpPath
}

func leanSteps(p opath) []int {
	var out []int
	for _, s := range p.steps {
		out = append(out, s.field+1)
		switch s.kind {
		case 'l', 'm':
			out = append(out, 0)
		case 'o':
			// ordinal of the wrapper among the wrappers of the owning struct: recover through the name order
			out = append(out, 1001+wrapperOrdinal(s))
		}
	}
	return out
}

var wrapperOrd = map[reflect.Type]int{}

func wrapperOrdinal(s pstep) int {
	if o, ok := wrapperOrd[s.wrap]; ok {
		return o
	}
	// the wrapper's only field carries the proto field number in its tag: protobuf:"bytes,6,opt,..."
	tag := s.wrap.Field(0).Tag.Get("protobuf")
	parts := strings.Split(tag, ",")
	n := 0
	if len(parts) > 1 {
		fmt.Sscanf(parts[1], "%d", &n)
	}
	wrapperOrd[s.wrap] = n
	return n
}

// measureRepaired: is invalid UTF-8 in the failure at exactly this path repaired by the real visitor?
func measureRepaired(root reflect.Type, p opath) (repaired bool, err error) {
	rv, f := rpBuildAlong(root, p)
	f.Message = "a\xffb"
	changed, err := compat.RepairInvalidUTF8(rv.Interface())
	return changed && err == nil && f.Message == "a�b", err
}

// repairUniverse builds the roots of the property with their oracle paths.
//   - service: request/response types of AdminService / WorkflowService that the real codec can
//     down-convert (measured through the codec) and that reach a failure;
//   - event: legacy HistoryEvent (validateAndRepairHistoryEvents calls the visitor on it);
//   - switch: every other legacy type in the struct graph of those roots for which the visitor
//     repairs at least one path, i.e. which has a case of its own in the generated type switch.
//
// auxNoCase lists graph types that reach a failure but have no case (informational).
func repairUniverse() (roots []rpRootInfo, auxNoCase []string, notes map[string]int) {
	notes = map[string]int{}
	type cand struct {
		name, class string
		lt          reflect.Type
	}
	var cands []cand
	inGraph := map[reflect.Type]bool{}
	var order []reflect.Type
	var dfs func(reflect.Type)
	dfs = func(x reflect.Type) {
		if inGraph[x] {
			return
		}
		inGraph[x] = true
		order = append(order, x)
		for _, s := range stepsOfCached(x) {
			dfs(s.elem)
		}
	}
	isRoot := map[reflect.Type]bool{}
	for _, r := range serviceRoots() {
		notes["service_types"]++
		notes["convertible_"+r.Convertible]++
		if r.Legacy == nil {
			if r.Convertible == "yes" {
				notes["convertible_without_registered_legacy_type"]++
			}
			continue
		}
		if r.Convertible == "no" {
			continue
		}
		// "unknown" = the type has no string field the delegate could reject: it cannot hold a failure either
		dfs(r.Legacy)
		if reachesFailure(r.Legacy) {
			if r.Convertible != "yes" {
				notes["reaches_failure_but_convertibility_unknown"]++
			}
			cands = append(cands, cand{r.Name, "service", r.Legacy})
			isRoot[r.Legacy] = true
		}
	}
	if he := legacyType("temporal.api.history.v1.HistoryEvent"); he != nil {
		dfs(he)
		if !isRoot[he] {
			cands = append(cands, cand{"temporal.api.history.v1.HistoryEvent", "event", he})
			isRoot[he] = true
		}
	}
	for _, x := range order {
		if isRoot[x] || !reachesFailure(x) {
			continue
		}
		any := false
		for _, p := range oraclePaths(x) {
			if ok, _ := measureRepaired(x, p); ok {
				any = true
				break
			}
		}
		if any {
			cands = append(cands, cand{legacyName(x), "switch", x})
		} else {
			auxNoCase = append(auxNoCase, legacyName(x))
		}
	}
	sort.Slice(cands, func(i, j int) bool { return cands[i].name < cands[j].name })
	sort.Strings(auxNoCase)
	for i, c := range cands {
		ri := rpRootInfo{ID: i, Name: c.name, Class: c.class, Legacy: c.lt}
		ps := oraclePaths(c.lt)
		sort.SliceStable(ps, func(a, b int) bool { return ps[a].String() < ps[b].String() })
		for j, p := range ps {
			ri.Paths = append(ri.Paths, rpPath{ID: j, P: p, Str: p.String(), Steps: leanSteps(p)})
		}
		roots = append(roots, ri)
	}
	return roots, auxNoCase, notes
}

func shortName(full string) string {
	if i := strings.LastIndex(full, "."); i >= 0 {
		return full[i+1:]
	}
	return full
}

// findingID names a missed (root, path) for known_findings.json
func findingID(root rpRootInfo, p rpPath) string {
	s := p.Str
	if s == "" {
		s = "(self)"
	}
	return "C18-missed-path-" + shortName(root.Name) + "-" + s
}
