package eng

import (
	"fmt"
	"math"
	"os"
	"path/filepath"
	"sort"
	"strconv"
	"strings"
	"testing"

	"go.temporal.io/server/client/history"

	"github.com/temporalio/s2s-proxy/proxy"
)

// ---- C05: proxyIDRingBuffer vs the Lean model (engine "ring") -------------------------------

type refEntry struct {
	id     int64
	cl, sh int32
	task   int64
}

// ringRef is the plain reference the property statement talks about: the outstanding entries
// (appended, not discarded) keyed by proxy id, defined from the history alone.
type ringRef struct {
	out    []refEntry
	lo, hi int64 // slots [lo,hi) are outstanding (holes included)
	valid  bool  // history so far satisfies the property's hypotheses
}

func ringChecksum(entries [][3]int64, head, size, capacity int) (int64, string) {
	const mod = 1000000007
	var sum int64
	var sb strings.Builder
	for i := 0; i < size; i++ {
		e := entries[(head+i)%capacity]
		v := ((e[0]%mod+mod)%mod*1000003 + (e[1]%mod+mod)%mod*10007 + (e[2]%mod+mod)%mod) % mod
		sum = (sum + int64(i+1)%mod*v) % mod
		if size <= 24 {
			if i > 0 {
				sb.WriteByte(';')
			}
			fmt.Fprintf(&sb, "%d,%d,%d", e[0], e[1], e[2])
		}
	}
	if size > 24 {
		sb.WriteString("-")
	}
	return sum, sb.String()
}

func ringView(r *proxy.VerifRing) string {
	head, size, maxSize, capacity, start, entries := r.View()
	sum, items := ringChecksum(entries, head, size, capacity)
	return fmt.Sprintf("v %d %d %d %d %d %d [%s]", head, size, maxSize, capacity, start, sum, items)
}

func aggString(m map[history.ClusterShardID]int64, count int) string {
	type kv struct {
		c, s int32
		v    int64
	}
	var l []kv
	for k, v := range m {
		l = append(l, kv{k.ClusterID, k.ShardID, v})
	}
	sort.Slice(l, func(i, j int) bool {
		if l[i].c != l[j].c {
			return l[i].c < l[j].c
		}
		return l[i].s < l[j].s
	})
	var sb strings.Builder
	fmt.Fprintf(&sb, "a %d", count)
	for _, x := range l {
		fmt.Fprintf(&sb, " %d,%d=%d", x.c, x.s, x.v)
	}
	return sb.String()
}

func atoi64(t *testing.T, s string) int64 {
	v, err := strconv.ParseInt(s, 10, 64)
	if err != nil {
		t.Fatalf("bad int %q", s)
	}
	return v
}

// runRingHistory executes one history on the real ring, emits protocol lines, and evaluates the
// property monitor.  Returns a violation description or nil.
func runRingHistory(t *testing.T, e *Env, ops []string) map[string]any {
	var r *proxy.VerifRing
	ref := ringRef{valid: true}
	nontrivial := false
	var viol map[string]any
	defer func() {
		if p := recover(); p != nil {
			// the real code panicked: observable, never expected
			e.Emit("# panic", fmt.Sprintf("PANIC %v", p))
			viol = map[string]any{"ops": ops, "what": fmt.Sprintf("panic: %v", p)}
		}
	}()
	for i, op := range ops {
		f := strings.Fields(op)
		switch f[0] {
		case "new":
			c := atoi64(t, f[1])
			r = proxy.VerifNewRing(int(c))
			e.Emit(op, ringView(r))
			e.Count("op_new")
		case "app":
			p, cl, sh, task := atoi64(t, f[1]), int32(atoi64(t, f[2])), int32(atoi64(t, f[3])), atoi64(t, f[4])
			r.Append(p, cl, sh, task)
			e.Emit(op, ringView(r))
			// reference
			if cl == 0 && sh == 0 {
				ref.valid = false
				e.Count("app_zero_shard")
			}
			if ref.hi > ref.lo && p < ref.hi {
				ref.valid = false
				e.Count("app_nonincreasing")
			} else if ref.hi > ref.lo && p > ref.hi {
				e.Count("app_gapped")
				nontrivial = true
			} else {
				e.Count("app_contiguous")
			}
			if ref.hi == ref.lo {
				ref.lo = p
			}
			ref.out = append(ref.out, refEntry{p, cl, sh, task})
			ref.hi = p + 1
		case "agg":
			w := atoi64(t, f[1])
			m, count := r.AggregateUpTo(w)
			e.Emit(op, aggString(m, count))
			e.Count("op_agg")
			if ref.valid && ref.lo >= 1 {
				// property statement: per shard the max original id among outstanding entries with id <= w
				want := map[history.ClusterShardID]int64{}
				for _, x := range ref.out {
					if x.id <= w {
						k := history.ClusterShardID{ClusterID: x.cl, ShardID: x.sh}
						if cur, ok := want[k]; !ok || x.task > cur {
							want[k] = x.task
						}
					}
				}
				wantCount := int64(0)
				if ref.hi > ref.lo && w >= ref.lo {
					wantCount = w - ref.lo + 1
					if wantCount > ref.hi-ref.lo {
						wantCount = ref.hi - ref.lo
					}
				}
				if aggString(want, int(wantCount)) != aggString(m, count) && viol == nil {
					viol = map[string]any{"ops": ops[:i+1], "what": fmt.Sprintf("aggregate(%d) returned %q, outstanding entries give %q", w, aggString(m, count), aggString(want, int(wantCount)))}
				}
				if len(want) > 0 {
					nontrivial = true
				}
			}
		case "dis":
			n := atoi64(t, f[1])
			r.Discard(int(n))
			e.Emit(op, ringView(r))
			e.Count("op_dis")
			if n > 0 {
				if n > ref.hi-ref.lo {
					n = ref.hi - ref.lo
				}
				ref.lo += n
				k := 0
				for _, x := range ref.out {
					if x.id >= ref.lo {
						ref.out[k] = x
						k++
					}
				}
				ref.out = ref.out[:k]
			}
		default:
			t.Fatalf("bad ring op %q", op)
		}
	}
	e.Evals++
	if nontrivial {
		e.Distinct(fnv(strings.Join(ops, "|")))
	}
	if !ref.valid {
		e.Count("history_outside_hypotheses")
	} else {
		e.Count("history_monitored")
	}
	_, _, _, capacity, _, _ := r.View()
	e.Count(fmt.Sprintf("final_cap_%d", bucket(capacity)))
	return viol
}

func bucket(n int) int {
	b := 1
	for b < n {
		b *= 2
	}
	return b
}

var ringShards = [][2]int32{{1, 1}, {1, 2}, {2, 1}, {2, 7}}

func genRingHistory(e *Env, maxOps int, big bool) []string {
	rng := e.Rng
	c := int64(rng.IntN(5)) // 0..4 (0 -> 1)
	if rng.IntN(20) == 0 {
		c = -int64(rng.IntN(3))
	}
	if big {
		c = []int64{1, 2, 3, 8, 1024}[rng.IntN(5)]
	}
	ops := []string{fmt.Sprintf("new %d", c)}
	start := int64(1 + rng.IntN(5))
	if rng.IntN(10) == 0 {
		start = []int64{0, -3, 1 << 40, math.MaxInt64 - 5000}[rng.IntN(4)]
	}
	next := start // next contiguous id
	lo := start
	size := int64(0)
	weird := rng.IntN(8) == 0 // allow hypothesis-violating ops in this history
	n := 1 + rng.IntN(maxOps)
	task := int64(100 + rng.IntN(50))
	for i := 0; i < n; i++ {
		x := rng.IntN(100)
		switch {
		case x < 55:
			p := next
			if rng.IntN(6) == 0 {
				p += int64(1 + rng.IntN(3)) // gap
			}
			if weird && rng.IntN(5) == 0 {
				p -= int64(1 + rng.IntN(3)) // non-increasing
			}
			sh := ringShards[rng.IntN(len(ringShards))]
			if weird && rng.IntN(6) == 0 {
				sh = [2]int32{0, 0}
			}
			if rng.IntN(4) > 0 {
				task += int64(rng.IntN(4))
			} else {
				task -= int64(rng.IntN(3))
			}
			ops = append(ops, fmt.Sprintf("app %d %d %d %d", p, sh[0], sh[1], task))
			if size == 0 {
				lo = p
				size = 1
			} else if p >= next {
				size += p - next + 1
			} else {
				size++
			}
			if p >= next {
				next = p + 1
			} else {
				next++
			}
		case x < 80:
			var w int64
			switch rng.IntN(10) {
			case 0:
				w = []int64{0, 1, -1, math.MinInt64, math.MaxInt64}[rng.IntN(5)]
			default:
				w = lo - 2 + int64(rng.IntN(int(size)+5))
			}
			ops = append(ops, fmt.Sprintf("agg %d", w))
		default:
			d := int64(rng.IntN(int(size)+3)) - 1
			if rng.IntN(3) == 0 && size > 0 {
				d = 1 + int64(rng.IntN(int(size)))
			}
			ops = append(ops, fmt.Sprintf("dis %d", d))
			if d > 0 {
				if d > size {
					d = size
				}
				size -= d
				lo += d
			}
		}
	}
	// always finish with aggregates over the whole stored range
	ops = append(ops, fmt.Sprintf("agg %d", lo+size/2), fmt.Sprintf("agg %d", lo+size+1))
	return ops
}

// exhaustive enumeration of short histories over a small alphabet (capacities 1..3)
func enumRing(e *Env, t *testing.T, depth int, run func([]string)) {
	type st struct {
		ops      []string
		next, lo int64
		size     int64
		task     int64
	}
	var rec func(s st, d int)
	rec = func(s st, d int) {
		if d == 0 {
			ops := append(append([]string{}, s.ops...), fmt.Sprintf("agg %d", s.lo+s.size+1))
			run(ops)
			return
		}
		// appends: contiguous / gap+1 / gap+2, two shards
		for gap := int64(0); gap <= 2; gap++ {
			for shi := 0; shi < 2; shi++ {
				p := s.next + gap
				n := s
				n.ops = append(append([]string{}, s.ops...), fmt.Sprintf("app %d %d %d %d", p, ringShards[shi][0], ringShards[shi][1], s.task))
				n.task = s.task + 1
				if s.size == 0 {
					n.lo, n.size = p, 1
				} else {
					n.size = s.size + gap + 1
				}
				n.next = p + 1
				rec(n, d-1)
			}
		}
		// aggregate in the middle
		{
			n := s
			n.ops = append(append([]string{}, s.ops...), fmt.Sprintf("agg %d", s.lo+s.size/2))
			rec(n, d-1)
		}
		// discards 1, size-1, size
		seen := map[int64]bool{}
		for _, dd := range []int64{1, s.size - 1, s.size} {
			if dd <= 0 || seen[dd] {
				continue
			}
			seen[dd] = true
			n := s
			n.ops = append(append([]string{}, s.ops...), fmt.Sprintf("dis %d", dd))
			c := dd
			if c > s.size {
				c = s.size
			}
			n.size -= c
			n.lo += c
			rec(n, d-1)
		}
	}
	for c := int64(1); c <= 3; c++ {
		rec(st{ops: []string{fmt.Sprintf("new %d", c)}, next: 1, lo: 1, task: 10}, depth)
	}
}

func TestC05(t *testing.T) {
	e := NewEnv(t, "ring")
	defer e.Close(t)
	report := func(v map[string]any) {
		if v != nil {
			e.Violation(v)
		}
	}
	// 1. corpus / replay first
	if cases := e.ReplayLines(t); cases != nil {
		for _, c := range cases {
			report(runRingHistory(t, e, c))
		}
		return
	}
	if dir := os.Getenv("VERIF_CORPUS"); dir != "" {
		files, _ := filepath.Glob(filepath.Join(dir, "*.json"))
		sort.Strings(files)
		for _, f := range files {
			e.Replay = f
			for _, c := range e.ReplayLines(t) {
				report(runRingHistory(t, e, c))
				e.Count("corpus_case")
			}
		}
		e.Replay = ""
	}
	// 2. bounded-exhaustive part
	depth := 4
	if e.Thorough() {
		depth = 6
	}
	nEnum := 0
	enumRing(e, t, depth, func(ops []string) {
		nEnum++
		if nEnum == 1 || nEnum == 1000 {
			e.Sample(ops)
		}
		report(runRingHistory(t, e, ops))
	})
	e.Stats["exhaustive_histories"] = nEnum
	e.Stats["exhaustive_depth"] = depth
	// 3. random part
	n := 4000
	maxOps := 40
	if e.Thorough() {
		n = 60000
		maxOps = 120
	}
	for i := 0; i < n; i++ {
		big := i%10 == 0
		mo := maxOps
		if big {
			mo = maxOps * 10
		}
		ops := genRingHistory(e, mo, big)
		if i < 3 {
			e.Sample(ops)
		}
		report(runRingHistory(t, e, ops))
	}
}
