package eng

import (
	"fmt"
	"math/rand/v2"
)

// Trace generation for C08.

// points of the quick exhaustive family: the four verifPoint hooks and the log points around the clean-up steps
var c08QuickPoints = []string{"", "RegisterShard.afterAdd", "replay.afterLookup", "sender.beforeClose", "sender.afterClose", "UnregisterShard.afterUnlock", "s.rmChan", "r.rmAck", "r.rmCancel",
	"s.start", "s.set", "r.start", "r.term", "r.termRm", "r.termAck", "r.open", "r.setAck", "r.setCancel"}

// event orders of two incarnations A (older) and B: O=open, X=break, R=resume of the pause.  Constraints: OA<OB, Ox<Xx, Ox<Rx.
func c08Orders() [][]string {
	events := []string{"OA", "XA", "RA", "OB", "XB", "RB"}
	var out [][]string
	var rec func(cur []string, used map[string]bool)
	rec = func(cur []string, used map[string]bool) {
		// any prefix that contains both opens is a trace (breaks and resumes are optional)
		if used["OA"] && used["OB"] {
			out = append(out, append([]string{}, cur...))
		}
		for _, ev := range events {
			if used[ev] {
				continue
			}
			who := ev[1:]
			if ev[0] != 'O' && !used["O"+who] {
				continue
			}
			if ev == "OB" && !used["OA"] {
				continue
			}
			used[ev] = true
			rec(append(cur, ev), used)
			used[ev] = false
		}
	}
	rec(nil, map[string]bool{})
	return out
}

// c08TwoIncarnations: one source stream with a watermark (incarnation 0 on shard 101), then incarnations 1 and 2 of shard 201,
// each paused at one point (or none), for every order of open / break / resume.
func c08TwoIncarnations(points []string, withSource bool) [][]string {
	var cases [][]string
	base := 0
	var prefix []string
	if withSource {
		prefix = []string{"open 101", "wm 0 7"}
		base = 1
	}
	a, b := base, base+1
	for _, pa := range points {
		for _, pb := range points {
			for _, ord := range c08Orders() {
				usesRA, usesRB := false, false
				for _, ev := range ord {
					usesRA = usesRA || ev == "RA"
					usesRB = usesRB || ev == "RB"
				}
				if usesRA && pa == "" || usesRB && pb == "" {
					continue // a resume without a pause
				}
				ops := append([]string{}, prefix...)
				if pa != "" {
					ops = append(ops, fmt.Sprintf("pause %s %d", pa, a))
				}
				if pb != "" {
					ops = append(ops, fmt.Sprintf("pause %s %d", pb, b))
				}
				for _, ev := range ord {
					who, p := a, pa
					if ev[1] == 'B' {
						who, p = b, pb
					}
					switch ev[0] {
					case 'O':
						ops = append(ops, "open 201")
					case 'X':
						ops = append(ops, fmt.Sprintf("break %d", who))
					case 'R':
						ops = append(ops, fmt.Sprintf("resume %s %d", p, who))
					}
				}
				ops = append(ops, "end")
				cases = append(cases, ops)
			}
		}
	}
	return cases
}

// c08Random: 3-4 incarnations over two shards (201, 202) plus source streams with watermarks, up to two pauses per
// incarnation, occasional open failures, `settle`s, random order.
func c08Random(rng *rand.Rand) []string {
	var ops []string
	n := 0
	nsrc := 1 + rng.IntN(2)
	for s := 0; s < nsrc; s++ {
		ops = append(ops, fmt.Sprintf("open %d", 101+s))
		if rng.IntN(4) > 0 {
			ops = append(ops, fmt.Sprintf("wm %d %d", n, 5+rng.IntN(20)))
		}
		n++
	}
	total := n + 3 + rng.IntN(2)
	type pend struct {
		point string
		inc   int
	}
	var paused []pend
	var opened []int
	shardOf := map[int]int{}
	pickPoint := func() string {
		if rng.IntN(3) == 0 {
			return c08AllPoints[rng.IntN(len(c08AllPoints))]
		}
		hot := []string{"RegisterShard.afterAdd", "replay.afterLookup", "replay.afterLookup", "sender.beforeClose", "sender.afterClose", "UnregisterShard.afterUnlock", "s.rmChan", "r.rmAck", "r.rmCancel"}
		return hot[rng.IntN(len(hot))]
	}
	steps := 6 + rng.IntN(14)
	for i := 0; i < steps; i++ {
		x := rng.IntN(100)
		switch {
		case x < 30 && n < total:
			np := rng.IntN(3)
			seen := map[string]bool{}
			for j := 0; j < np; j++ {
				p := pickPoint()
				if !seen[p] {
					seen[p] = true
					ops = append(ops, fmt.Sprintf("pause %s %d", p, n))
					paused = append(paused, pend{p, n})
				}
			}
			c := 201 + rng.IntN(2)
			if rng.IntN(3) > 0 {
				c = 201
			}
			op := fmt.Sprintf("open %d", c)
			if rng.IntN(12) == 0 {
				op += " fail"
			}
			ops = append(ops, op)
			shardOf[n] = c
			opened = append(opened, n)
			n++
		case x < 55 && len(opened) > 0:
			ops = append(ops, fmt.Sprintf("break %d", opened[rng.IntN(len(opened))]))
		case x < 90 && len(paused) > 0:
			j := rng.IntN(len(paused))
			ops = append(ops, fmt.Sprintf("resume %s %d", paused[j].point, paused[j].inc))
			paused = append(paused[:j], paused[j+1:]...)
		case x < 94:
			ops = append(ops, "settle")
		}
	}
	return append(ops, "end")
}

// c08ReplayGap: the look-up-to-send gap of the watermark replay.  A receiver (incarnation 0, shard 101) holds a watermark;
// incarnation A of shard 201 is held inside RegisterShard (at p1), incarnation B replaces the shard's channel, A's
// replay looks B's channel up and is held at replay.afterLookup, B shuts down (held at one of its close / remove
// points, or not), A sends.  Every order of the events open A < open B, resume p1 < resume look-up, break B, resume B,
// and optionally break A.
func c08ReplayGap() [][]string {
	var cases [][]string
	a, b := 1, 2
	for _, p1 := range []string{"s.set", "RegisterShard.afterAdd", "s.replay"} {
		for _, pb := range []string{"", "sender.beforeClose", "sender.afterClose", "UnregisterShard.afterUnlock", "s.rmChan"} {
			for _, withXA := range []bool{false, true} {
				events := []string{"OA", "OB", "R1", "R2", "XB"}
				if pb != "" {
					events = append(events, "RB")
				}
				if withXA {
					events = append(events, "XA")
				}
				before := map[string][]string{"OB": {"OA"}, "R1": {"OA"}, "R2": {"R1"}, "XB": {"OB"}, "RB": {"OB"}, "XA": {"OA"}}
				var rec func(cur []string, used map[string]bool)
				rec = func(cur []string, used map[string]bool) {
					if len(cur) == len(events) {
						ops := []string{"open 101", "wm 0 7", fmt.Sprintf("pause %s %d", p1, a), fmt.Sprintf("pause replay.afterLookup %d", a)}
						if pb != "" {
							ops = append(ops, fmt.Sprintf("pause %s %d", pb, b))
						}
						for _, ev := range cur {
							switch ev {
							case "OA", "OB":
								ops = append(ops, "open 201")
							case "R1":
								ops = append(ops, fmt.Sprintf("resume %s %d", p1, a))
							case "R2":
								ops = append(ops, fmt.Sprintf("resume replay.afterLookup %d", a))
							case "XB":
								ops = append(ops, fmt.Sprintf("break %d", b))
							case "RB":
								ops = append(ops, fmt.Sprintf("resume %s %d", pb, b))
							case "XA":
								ops = append(ops, fmt.Sprintf("break %d", a))
							}
						}
						cases = append(cases, append(ops, "end"))
						return
					}
				next:
					for _, ev := range events {
						if used[ev] {
							continue
						}
						for _, pre := range before[ev] {
							if !used[pre] {
								continue next
							}
						}
						used[ev] = true
						rec(append(cur, ev), used)
						used[ev] = false
					}
				}
				rec(nil, map[string]bool{})
			}
		}
	}
	return cases
}

// c08SendFail: a receiver whose upstream Send fails (the source cluster went away without resetting the stream): an
// acknowledgement routed to it, or its keep-alive, hits the failure; the receiver ends on its own — with or without a
// successor, before or after the acknowledgement, one or two shards. Outside the registry model's op language (monitor only).
func c08SendFail() [][]string {
	var cases [][]string
	for _, ackFirst := range []bool{true, false} {
		for _, succ := range []string{"", "open 101", "open 101 fail"} {
			for _, two := range []bool{false, true} {
				ops := []string{"open 101", "open 201"}
				if two {
					ops = append(ops, "open 102")
				}
				ops = append(ops, "wm 0 10")
				if ackFirst {
					ops = append(ops, "ack 1", "settle", "sendfail 0", "settle", "settle") // the keep-alive hits the failure
				} else {
					ops = append(ops, "sendfail 0", "ack 1", "settle") // the aggregated acknowledgement hits it
				}
				if succ != "" {
					ops = append(ops, succ, "settle")
				}
				ops = append(ops, "wm 0 12", "open 202", "settle", "end")
				cases = append(cases, ops)
			}
		}
	}
	return cases
}

// c08SelfEnd: the receiver of one incarnation ends on its own (op `selfend`, model action `selfEnd`) while another
// incarnation of the same shard is held at one of the schedule points or starts afterwards, in every order
func c08SelfEnd(points []string) [][]string {
	var cases [][]string
	for _, pt := range points {
		for _, victim := range []int{0, 1} {
			for _, late := range []bool{false, true} {
				ops := []string{"open 101", "wm 0 7"}
				if pt != "" {
					ops = append(ops, fmt.Sprintf("pause %s 1", pt))
				}
				ops = append(ops, "open 101")
				if late {
					ops = append(ops, "settle")
				}
				ops = append(ops, fmt.Sprintf("selfend %d", victim))
				if pt != "" {
					ops = append(ops, fmt.Sprintf("resume %s 1", pt))
				}
				ops = append(ops, "settle", "open 201", fmt.Sprintf("selfend %d", 1-victim), "settle", "end")
				cases = append(cases, ops)
			}
		}
	}
	cases = append(cases, []string{"open 101", "selfend 0", "settle", "open 101", "selfend 1", "selfend 1", "end"},
		[]string{"open 101", "open 201", "wm 0 10", "selfend 0", "settle", "wm 1 12", "selfend 1", "end"})
	return cases
}

// c08BlockedDeliverer: the cluster behind a target stream stops reading, its sender's queue fills up, a receiver's hand-off
// blocks on the full channel; the target stream reconnects (overlap) and the old incarnation ends, closing the channel the
// hand-off is blocked on. Whatever the blocked hand-off does about the closed channel, the successor stays registered and
// reachable. (Task batches and stalls are outside the registry model's op language: monitor only.)
func c08BlockedDeliverer() [][]string {
	var cases [][]string
	for _, n := range []int{90, 104, 130} {
		for _, order := range []int{0, 1, 2} {
			ops := []string{"open 101", "open 201", "stall 1", fmt.Sprintf("flood 0 %d", n)}
			switch order {
			case 0: // successor first, then the old stream ends
				ops = append(ops, "open 201", "settle", "break 1", "settle")
			case 1: // the old stream ends first
				ops = append(ops, "break 1", "settle", "open 201", "settle")
			default: // no successor: control
				ops = append(ops, "break 1", "settle")
			}
			ops = append(ops, "unstall 1", "flood 0 3", "settle", "wm 0 9000", "settle", "end")
			cases = append(cases, ops)
		}
	}
	return cases
}

func genC08(e *Env) [][]string {
	var cases [][]string
	cases = append(cases, c08SendFail()...)
	cases = append(cases, c08BlockedDeliverer()...)
	cases = append(cases, c08SelfEnd(c08QuickPoints)...)
	pts := c08QuickPoints
	gap := c08ReplayGap()
	e.Stats["replay_gap_family"] = len(gap)
	cases = append(cases, gap...)
	cases = append(cases, c08TwoIncarnations(pts, true)...)
	if e.Thorough() {
		cases = append(cases, c08TwoIncarnations(pts, false)...) // the same family without a watermark-holding receiver
	}
	e.Stats["exhaustive_histories"] = len(cases)
	e.Stats["exhaustive_depth"] = fmt.Sprintf("two incarnations of one shard, each paused at one of %d schedule points or none, every order of open/break/resume (%d orders)", len(pts)-1, len(c08Orders()))
	nrand := 1500
	if e.Thorough() {
		nrand = 120000
	}
	for i := 0; i < nrand; i++ {
		cases = append(cases, c08Random(e.Rng))
	}
	return cases
}
