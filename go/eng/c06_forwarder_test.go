package eng

import (
	"context"
	"fmt"
	enumsspb "go.temporal.io/server/api/enums/v1"
	"google.golang.org/grpc/credentials/insecure"
	"io"
	"os"
	"runtime"
	"sort"
	"strconv"
	"strings"
	"sync"
	"testing"
	"testing/synctest"
	"time"

	"go.temporal.io/server/api/adminservice/v1"
	persistencepb "go.temporal.io/server/api/persistence/v1"
	replicationpb "go.temporal.io/server/api/replication/v1"
	"go.temporal.io/server/client/history"
	"google.golang.org/grpc"
	"google.golang.org/grpc/codes"
	"google.golang.org/grpc/metadata"
	"google.golang.org/grpc/status"
	"google.golang.org/protobuf/proto"
	"google.golang.org/protobuf/types/known/timestamppb"

	"github.com/temporalio/s2s-proxy/config"
	"github.com/temporalio/s2s-proxy/proxy"
)

// ---- C06: pass-through streams (engine "forwarder") -------------------------------------------
//
// The real adminServiceProxyServer.StreamWorkflowReplicationMessages (default and LCM mode, i.e.
// handleStream -> StreamForwarder.Run) is driven inside a testing/synctest bubble with a fake
// AdminServiceClient / client stream (the source cluster) and a fake server stream (the stream
// initiator).  The fakes are queue based ("what the peer's stream will deliver next"), like the
// model: a peer can put several things on its stream while the proxy is busy.
//
// One op line = a burst of environment events applied ATOMICALLY (a gate holds every fake Recv
// while the burst is applied), then quiescence (synctest.Wait); `tick` additionally sleeps 1.1 s
// of virtual time (the 1 s CloseSend guard).  The goroutines of the proxy run truly concurrently
// inside the bubble, so a burst explores the Go scheduler's / select's choices; the number of
// messages relayed in each direction during the op is passed to the model as the hint `~ k j`.
//
// Observation: ids newly received by the initiator (I) and by the source (S), closeSend attempted,
// the client stream's context cancelled, handler returned, and WHICH of the handler's goroutines
// are still alive (runtime.Stack filtered to s2s-proxy/proxy frames):
//   H handler, FA forwardAcks, FR forwardReplicationMessages, LS/LT the startListener goroutines
//   (source / target), CS the CloseSend goroutine.

type c06Env struct {
	answers  bool // the source answers the half-close with EOF
	hang     bool // CloseSend blocks until the stream context is cancelled
	noE1     bool // the client stream's Recv ignores context cancellation
	noE2     bool // nobody cancels the server stream when the handler returns
	noClose  bool // proxy shutdown does not close the client connection
	openFail bool // adminClient.StreamWorkflowReplicationMessages fails
}

func (e c06Env) grpcStreamEnv() bool { return !e.hang && !e.noE1 && !e.noE2 }

type c06Item[T any] struct {
	v      *T
	err    error
	sticky bool
}

type c06World struct {
	stallS, stallI bool // the initiator / the source is not reading: the Send of the s / i relay loop blocks (flow control)
	iniCancelled   bool // the initiator's context has been cancelled
	t              *testing.T
	mu             sync.Mutex
	cond           *sync.Cond
	gateOpen       bool
	force          bool // end of trace: every fake call returns at once
	env            c06Env
	lifetime       context.Context
	stop           context.CancelFunc
	srvCancel      context.CancelFunc
	srv            *c06Srv
	cli            *c06Cli
	returned       bool
	retErr         error
	seenI          int
	seenS          int
	openMD         string
	// monitor state
	srcPushed   []*repResp
	iniPushed   []*repReq
	ending      bool // an ending event was injected (or a Send failed)
	switchSet   bool // a send-failure switch is on
	sendFailed  bool // a Send really failed
	everStalled bool // a peer has been stalled at some point of the trace
	endedBefore bool // an ending had happened before the current op
	retSeen     bool // the handler had returned before the current op
	viol        []map[string]any
}

var errInjected = status.Error(codes.Unavailable, "injected stream error")
var errSendBroken = status.Error(codes.Unavailable, "injected send failure")
var errConnClosing = status.Error(codes.Canceled, "grpc: the client connection is closing")

// c06Srv: the stream the initiator opened to the proxy.
type c06Srv struct {
	grpc.ServerStream
	w        *c06World
	ctx      context.Context
	q        []c06Item[repReq]
	sent     []*repResp
	sendFail bool
}

func (s *c06Srv) Context() context.Context { return s.ctx }
func (s *c06Srv) Recv() (*repReq, error) {
	w := s.w
	w.mu.Lock()
	defer w.mu.Unlock()
	for {
		if w.force {
			return nil, errInjected
		}
		if w.gateOpen {
			if s.ctx.Err() != nil {
				return nil, status.FromContextError(s.ctx.Err()).Err()
			}
			if len(s.q) > 0 {
				it := s.q[0]
				if !it.sticky {
					s.q = s.q[1:]
				}
				return it.v, it.err
			}
		}
		w.cond.Wait()
	}
}
func (s *c06Srv) Send(r *repResp) error {
	w := s.w
	w.mu.Lock()
	defer w.mu.Unlock()
	// gRPC: Send blocks while the peer does not read, until the stream is done or breaks
	for w.stallS && !(s.sendFail || s.ctx.Err() != nil || w.force) {
		w.cond.Wait()
	}
	if s.sendFail || s.ctx.Err() != nil || w.force {
		w.sendFailed = true
		return errSendBroken
	}
	s.sent = append(s.sent, r)
	return nil
}

// the rest of grpc.ServerStream, with gRPC's semantics (headers can be set until the first message is sent)
func (s *c06Srv) SetHeader(metadata.MD) error  { return nil }
func (s *c06Srv) SendHeader(metadata.MD) error { return nil }
func (s *c06Srv) SetTrailer(metadata.MD)       {}

// c06Cli: the stream the proxy opens to the source cluster.
type c06Cli struct {
	grpc.ClientStream
	w              *c06World
	ctx            context.Context
	md             metadata.MD
	headerReady    bool // the source has answered at least once (or the stream has ended): response headers are known
	q              []c06Item[repResp]
	sent           []*repReq
	sendFail       bool
	closeAttempted bool
}

func (c *c06Cli) Context() context.Context { return c.ctx }
func (c *c06Cli) connClosed() bool         { return c.w.lifetime.Err() != nil && !c.w.env.noClose }

// Header has gRPC's semantics: it BLOCKS until the source's response headers have arrived — i.e. until the source has
// sent its first message or the stream has ended (context cancelled, connection closing) — and is not interrupted by
// anything else.
func (c *c06Cli) Header() (metadata.MD, error) {
	w := c.w
	w.mu.Lock()
	defer w.mu.Unlock()
	for {
		if w.force || c.connClosed() {
			return nil, errConnClosing
		}
		if c.ctx.Err() != nil && !w.env.noE1 {
			return nil, status.FromContextError(c.ctx.Err()).Err()
		}
		if c.headerReady || (w.gateOpen && len(c.q) > 0) {
			return metadata.MD{}, nil
		}
		w.cond.Wait()
	}
}
func (c *c06Cli) Trailer() metadata.MD { return metadata.MD{} }
func (c *c06Cli) Recv() (*repResp, error) {
	w := c.w
	w.mu.Lock()
	defer w.mu.Unlock()
	for {
		if w.force {
			return nil, errInjected
		}
		if w.gateOpen {
			if c.connClosed() {
				return nil, errConnClosing
			}
			if c.ctx.Err() != nil && !w.env.noE1 {
				return nil, status.FromContextError(c.ctx.Err()).Err()
			}
			if len(c.q) > 0 {
				it := c.q[0]
				if !it.sticky {
					c.q = c.q[1:]
				}
				c.headerReady = true
				return it.v, it.err
			}
		}
		w.cond.Wait()
	}
}
func (c *c06Cli) Send(r *repReq) error {
	w := c.w
	w.mu.Lock()
	defer w.mu.Unlock()
	for w.stallI && !(c.sendFail || c.ctx.Err() != nil || c.connClosed() || w.force) {
		w.cond.Wait()
	}
	if c.sendFail || c.ctx.Err() != nil || c.connClosed() || w.force {
		w.sendFailed = true
		return errSendBroken
	}
	c.sent = append(c.sent, r)
	return nil
}
func (c *c06Cli) CloseSend() error {
	w := c.w
	w.mu.Lock()
	defer w.mu.Unlock()
	c.closeAttempted = true
	if w.env.hang {
		for !(w.force || (w.gateOpen && c.ctx.Err() != nil)) {
			w.cond.Wait()
		}
		return status.FromContextError(context.Canceled).Err()
	}
	if w.env.answers {
		hasSticky := false
		for _, it := range c.q {
			hasSticky = hasSticky || it.sticky
		}
		if !hasSticky {
			c.q = append(c.q, c06Item[repResp]{err: io.EOF, sticky: true})
			w.cond.Broadcast()
		}
	}
	return nil
}

type c06Client struct {
	adminservice.AdminServiceClient
	w *c06World
}

func (f *c06Client) StreamWorkflowReplicationMessages(ctx context.Context, opts ...grpc.CallOption) (adminservice.AdminService_StreamWorkflowReplicationMessagesClient, error) {
	w := f.w
	w.mu.Lock()
	defer w.mu.Unlock()
	md, _ := metadata.FromOutgoingContext(ctx)
	get := func(k string) string {
		if v := md.Get(k); len(v) > 0 {
			return v[0]
		}
		return "_"
	}
	w.openMD = get(history.MetadataKeyClientClusterID) + "/" + get(history.MetadataKeyClientShardID) + "/" +
		get(history.MetadataKeyServerClusterID) + "/" + get(history.MetadataKeyServerShardID)
	if w.env.openFail {
		return nil, status.Error(codes.Unavailable, "injected open failure")
	}
	c := &c06Cli{w: w, ctx: ctx, md: md}
	w.cli = c
	context.AfterFunc(ctx, w.wake)
	return c, nil
}

func (w *c06World) wake() {
	w.mu.Lock()
	w.cond.Broadcast()
	w.mu.Unlock()
}

// payload markers: the monitor compares what arrives with pristine clones, byte for byte
func c06Msg(id int64) *repResp {
	mk := func(tid int64) *replicationpb.ReplicationTask {
		return &replicationpb.ReplicationTask{SourceTaskId: tid, TaskType: 1,
			RawTaskInfo: &persistencepb.ReplicationTaskInfo{NamespaceId: "ns-c06", WorkflowId: fmt.Sprintf("wf-%d", id), RunId: fmt.Sprintf("marker-%d-\x00ü", id), TaskId: tid, Version: id * 7}}
	}
	if id%3 == 0 {
		// a batch of several tasks whose ids are NOT ascending (a pass-through relay has no business with their order),
		// one of them repeated
		return msgResp(id, mk(id+5), mk(id-1), mk(id+2), mk(id-1))
	}
	return msgResp(id, mk(id-1))
}

// sync-state message number id. The (deprecated) top-level watermark REPEATS for consecutive messages — a receiver
// that is stuck re-announces its state, with flow control switching between PAUSE and RESUME — so a relay must not
// treat "same top-level watermark" as "same message"; the identity is in the high-priority lane (id*3).
func c06Ack(id int64) *repReq {
	r := ackReq((id + 1) / 2)
	r.GetSyncReplicationState().InclusiveLowWatermarkTime = timestamppb.New(time.Unix(1700000000+id, int64(id)%1000))
	fc := enumsspb.REPLICATION_FLOW_CONTROL_COMMAND_RESUME
	if id%2 == 0 {
		fc = enumsspb.REPLICATION_FLOW_CONTROL_COMMAND_PAUSE
	}
	r.GetSyncReplicationState().HighPriorityState = &replicationpb.ReplicationState{InclusiveLowWatermark: id * 3, FlowControlCommand: fc}
	return r
}

func c06AckID(r *repReq) int64 {
	return r.GetSyncReplicationState().GetHighPriorityState().GetInclusiveLowWatermark() / 3
}

func newC06World(t *testing.T, begin string) (*c06World, string) {
	f := strings.Fields(begin) // begin <mode> <cc> <cs> <sc> <ss> <env...>
	w := &c06World{t: t}
	w.cond = sync.NewCond(&w.mu)
	for _, tok := range f[6:] {
		switch tok {
		case "answers":
			w.env.answers = true
		case "ignores":
			w.env.answers = false
		case "hang":
			w.env.hang = true
		case "noe1":
			w.env.noE1 = true
		case "noe2":
			w.env.noE2 = true
		case "noclose":
			w.env.noClose = true
		case "openfail":
			w.env.openFail = true
		default:
			t.Fatalf("bad env token %q", tok)
		}
	}
	w.lifetime, w.stop = context.WithCancel(context.Background())
	context.AfterFunc(w.lifetime, w.wake)
	scc := config.ShardCountConfig{}
	lp := proxy.LCMParameters{}
	if strings.HasPrefix(f[1], "lcm:") {
		p := strings.Split(f[1], ":")
		l, _ := strconv.Atoi(p[1])
		tg, _ := strconv.Atoi(p[2])
		scc = config.ShardCountConfig{Mode: config.ShardCountLCM, LocalShardCount: int32(tg), RemoteShardCount: int32(tg)}
		lp = proxy.LCMParameters{LCM: int32(l), TargetShardCount: int32(tg)}
	}
	client := &c06Client{w: w}
	server := proxy.NewAdminServiceProxyServer("c06", client, client, proxy.AdminServiceOverrides{}, []string{"inbound"},
		func(int32, int32) {}, scc, lp, proxy.RoutingParameters{}, noopLoggers(), nil, w.lifetime)
	md := mdPairs(f[2], f[3], f[4], f[5])
	ctx, cancel := context.WithCancel(metadata.NewIncomingContext(context.Background(), md))
	w.srvCancel = cancel
	context.AfterFunc(ctx, w.wake)
	w.srv = &c06Srv{w: w, ctx: ctx}
	w.gateOpen = true
	go func() {
		err := server.StreamWorkflowReplicationMessages(w.srv)
		w.mu.Lock()
		w.returned, w.retErr = true, err
		w.mu.Unlock()
		if !w.env.noE2 {
			cancel() // gRPC cancels the server stream's context when the handler returns
		}
	}()
	synctest.Wait()
	if w.env.openFail {
		ret := w.returned
		return w, fmt.Sprintf("openfail md=%s ret=%v alive=%s", w.openMD, ret, c06Roles())
	}
	obs, _ := w.observe(nil)
	return w, fmt.Sprintf("open md=%s | %s", w.openMD, obs)
}

// c06Roles lists the handler's goroutines that are still alive.
func c06Roles() string {
	buf := make([]byte, 1<<20)
	n := runtime.Stack(buf, true)
	count := map[string]int{}
	// only goroutines of the calling bubble count: a goroutine leaked for good by an earlier trace
	// (excluded environment `hang`) stays in the process; headers read "goroutine 12 [chan send (durable), synctest bubble 7]:"
	bubble := ""
	// a listener that is not inside Recv (it holds a value for a relay loop that is busy) is told apart by its creator:
	// startListener is called by the relay loop's goroutine ("created by …startListener[...] in goroutine N")
	creatorRole := map[string]string{}
	for _, g := range strings.Split(string(buf[:n]), "\n\n") {
		head, _, _ := strings.Cut(g, "\n")
		f := strings.Fields(head)
		if len(f) < 2 {
			continue
		}
		switch {
		case strings.Contains(g, "proxy.(*StreamForwarder).forwardAcks.func1.1("):
		case strings.Contains(g, "proxy.(*StreamForwarder).forwardAcks(") && !strings.Contains(g, "proxy.startListener["):
			creatorRole[f[1]] = "LT"
		case strings.Contains(g, "proxy.(*StreamForwarder).forwardReplicationMessages(") && !strings.Contains(g, "proxy.startListener["):
			creatorRole[f[1]] = "LS"
		}
	}
	for gi, g := range strings.Split(string(buf[:n]), "\n\n") {
		head, _, _ := strings.Cut(g, "\n")
		tag := ""
		if i := strings.Index(head, "synctest bubble "); i >= 0 {
			tag = strings.TrimRight(head[i:], "]:")
		}
		if gi == 0 {
			bubble = tag // the caller
		}
		if tag != bubble {
			continue
		}
		var fns []string
		for _, line := range strings.Split(g, "\n") {
			if strings.HasPrefix(line, "\t") || strings.HasPrefix(line, "goroutine ") || strings.HasPrefix(line, "created by ") {
				continue
			}
			fns = append(fns, line)
		}
		j := strings.Join(fns, "\n")
		switch {
		case !strings.Contains(j, "s2s-proxy/proxy."):
		case strings.Contains(j, "proxy.(*StreamForwarder).forwardAcks.func1.1("):
			count["CS"]++
		case strings.Contains(j, "proxy.(*StreamForwarder).forwardAcks("):
			count["FA"]++
		case strings.Contains(j, "proxy.(*StreamForwarder).forwardReplicationMessages("):
			count["FR"]++
		case strings.Contains(j, "proxy.startListener["):
			switch {
			case strings.Contains(j, "(*c06Cli).Recv("):
				count["LS"]++
			case strings.Contains(j, "(*c06Srv).Recv("):
				count["LT"]++
			default:
				role := "L?" // a listener that is not inside Recv at quiescence
				if i := strings.LastIndex(g, " in goroutine "); i >= 0 {
					id := strings.TrimSpace(strings.SplitN(g[i+len(" in goroutine "):], "\n", 2)[0])
					if r, ok := creatorRole[id]; ok {
						role = r
					}
				}
				count[role]++
			}
		case strings.Contains(j, "proxy.(*adminServiceProxyServer).StreamWorkflowReplicationMessages("):
			count["H"]++
		default:
			count["?"]++
		}
	}
	var out []string
	for _, r := range []string{"H", "FA", "FR", "LS", "LT", "CS", "L?", "?"} {
		for i := 0; i < count[r]; i++ {
			out = append(out, r)
		}
	}
	if len(out) == 0 {
		return "-"
	}
	return strings.Join(out, ",")
}

func (w *c06World) violation(what string) {
	w.viol = append(w.viol, map[string]any{"what": what})
}

// apply one environment event (gate closed)
func (w *c06World) apply(ev []string) {
	n := func(i int) int64 { v, _ := strconv.ParseInt(ev[i], 10, 64); return v }
	key := strings.Join(ev, " ")
	w.mu.Lock()
	defer w.mu.Unlock()
	switch {
	case len(ev) == 3 && ev[0] == "src" && ev[1] == "msg":
		m := c06Msg(n(2))
		w.srcPushed = append(w.srcPushed, proto.Clone(m).(*repResp))
		w.cli.q = append(w.cli.q, c06Item[repResp]{v: m})
	case key == "src eof":
		w.cli.q = append(w.cli.q, c06Item[repResp]{err: io.EOF, sticky: true})
		w.ending = true
	case key == "src err":
		w.cli.q = append(w.cli.q, c06Item[repResp]{err: errInjected, sticky: true})
		w.ending = true
	case key == "src unknown":
		w.cli.q = append(w.cli.q, c06Item[repResp]{v: &repResp{}})
		w.ending = true
	case len(ev) == 3 && ev[0] == "ini" && ev[1] == "ack":
		m := c06Ack(n(2))
		w.iniPushed = append(w.iniPushed, proto.Clone(m).(*repReq))
		w.srv.q = append(w.srv.q, c06Item[repReq]{v: m})
	case key == "ini eof":
		w.srv.q = append(w.srv.q, c06Item[repReq]{err: io.EOF, sticky: true})
		w.ending = true
	case key == "ini err":
		w.srv.q = append(w.srv.q, c06Item[repReq]{err: errInjected, sticky: true})
		w.ending = true
	case key == "ini unknown":
		w.srv.q = append(w.srv.q, c06Item[repReq]{v: &repReq{}})
		w.ending = true
	case key == "ini cancel":
		w.srvCancel()
		w.ending = true
		w.iniCancelled = true
	case key == "stall s": // the initiator stops reading: the s relay loop's Send blocks
		w.stallS = true
	case key == "unstall s":
		w.stallS = false
	case key == "stall i": // the source stops reading
		w.stallI = true
	case key == "unstall i":
		w.stallI = false
	case key == "srcsendfail":
		w.cli.sendFail = true
		w.switchSet = true
	case key == "inisendfail":
		w.srv.sendFail = true
		w.switchSet = true
	case key == "shutdown":
		w.stop()
		if !w.env.noClose {
			w.ending = true
		}
	default:
		w.t.Fatalf("bad forwarder event %q", key)
	}
}

func c06SplitEvents(op string) [][]string {
	var out [][]string
	for _, part := range strings.Split(op, ";") {
		if f := strings.Fields(part); len(f) > 0 {
			out = append(out, f)
		}
	}
	return out
}

// exec runs one op line (a burst) to quiescence and returns the observation and the hint.
func (w *c06World) exec(op string) (string, string) {
	if w.env.openFail {
		return "closed", ""
	}
	evs := c06SplitEvents(op)
	if len(evs) == 1 && evs[0][0] == "tick" {
		time.Sleep(1100 * time.Millisecond)
		synctest.Wait()
		return w.observe(evs)
	}
	w.mu.Lock()
	w.gateOpen = false
	w.mu.Unlock()
	for _, ev := range evs {
		w.apply(ev)
	}
	synctest.Wait() // AfterFunc wake-ups settle against the closed gate
	w.mu.Lock()
	w.gateOpen = true
	w.cond.Broadcast()
	w.mu.Unlock()
	synctest.Wait()
	return w.observe(evs)
}

// observe builds the canonical observation and runs the property monitor.
func (w *c06World) observe(evs [][]string) (string, string) {
	w.mu.Lock()
	gotI := append([]*repResp(nil), w.srv.sent...)
	var gotS []*repReq
	closeSend, ctxc := false, false
	if w.cli != nil {
		gotS = append(gotS, w.cli.sent...)
		closeSend = w.cli.closeAttempted
		ctxc = w.cli.ctx.Err() != nil
	}
	ret := w.returned
	if w.sendFailed {
		w.ending = true
	}
	ending := w.ending
	switchSet := w.switchSet
	w.mu.Unlock()
	alive := c06Roles()

	var ids, sds []string
	for _, m := range gotI[w.seenI:] {
		ids = append(ids, fmt.Sprint(m.GetMessages().GetExclusiveHighWatermark()))
	}
	for _, m := range gotS[w.seenS:] {
		sds = append(sds, fmt.Sprint(c06AckID(m)))
	}
	hint := fmt.Sprintf("%d %d", len(gotI)-w.seenI, len(gotS)-w.seenS)
	newI, newS := len(gotI)-w.seenI, len(gotS)-w.seenS
	w.seenI, w.seenS = len(gotI), len(gotS)
	obs := fmt.Sprintf("I=[%s] S=[%s] closeSend=%v ctx=%v ret=%v alive=%s", strings.Join(ids, ","), strings.Join(sds, ","), closeSend, ctxc, ret, alive)

	// ---- property monitor (independent of the model) ----
	// (a) relayed sequences are prefixes of what was sent, payloads equal
	if len(gotI) > len(w.srcPushed) {
		w.violation(fmt.Sprintf("initiator received %d messages, source sent %d", len(gotI), len(w.srcPushed)))
	} else {
		for i, m := range gotI {
			if !proto.Equal(m, w.srcPushed[i]) {
				w.violation(fmt.Sprintf("replication message #%d arrived modified or out of order: got high %d want %d", i, m.GetMessages().GetExclusiveHighWatermark(), w.srcPushed[i].GetMessages().GetExclusiveHighWatermark()))
				break
			}
		}
	}
	if len(gotS) > len(w.iniPushed) {
		w.violation(fmt.Sprintf("source received %d sync-states, initiator sent %d", len(gotS), len(w.iniPushed)))
	} else {
		for i, m := range gotS {
			if !proto.Equal(m, w.iniPushed[i]) {
				w.violation(fmt.Sprintf("sync-state #%d arrived modified or out of order", i))
				break
			}
		}
	}
	w.mu.Lock()
	stalled := w.stallS || w.stallI
	stallS, stallI := w.stallS, w.stallI
	w.mu.Unlock()
	if stalled {
		w.everStalled = true
	}
	// (b) while nothing has ended, everything sent has arrived by quiescence (unless a peer is not reading)
	if !ending && !switchSet && !stalled && (len(gotI) != len(w.srcPushed) || len(gotS) != len(w.iniPushed)) {
		w.violation(fmt.Sprintf("nothing has ended, yet at quiescence %d/%d replication messages and %d/%d sync-states have arrived", len(gotI), len(w.srcPushed), len(gotS), len(w.iniPushed)))
	}
	// (b') a burst on ONE direction that ends with that peer's own ending: every message queued before the ending arrives
	if evs != nil && !w.endedBefore && !w.everStalled {
		w.monitorOneSided(evs, newI, newS)
	}
	w.endedBefore = ending
	// (c) after any ending: handler returned, CloseSend attempted, client context cancelled, no worker left
	if ending && w.env.grpcStreamEnv() {
		if !ret || !closeSend || !ctxc || alive != "-" {
			what := fmt.Sprintf("a side has ended but the stream did not end together: handlerReturned=%v closeSend=%v ctxCancelled=%v alive=%s", ret, closeSend, ctxc, alive)
			// recorded finding: the relay loop of the OTHER direction is blocked in Send to a peer that is not reading (it can see
			// neither its listener nor the latch), and nobody has cancelled a context that would make that Send return
			blockedS := stallS && strings.Contains(alive, "FR")
			blockedI := stallI && strings.Contains(alive, "FA")
			if (blockedS || blockedI) && !w.iniCancelled && !ret {
				w.viol = append(w.viol, map[string]any{"what": what + " (a relay loop is blocked in Send to a peer that is not reading)", "finding": "C06-blocked-send-hides-ending"})
			} else {
				w.violation(what)
			}
		}
	}
	// (c') the initiator's context was cancelled: the stream towards the source lives in a context derived from it, so it is
	// cancelled too and every blocked call on it returns — also when the source's CloseSend blocks until then (`hang`)
	if w.iniCancelled && w.env.hang && !w.env.noE1 && !w.env.noE2 {
		if !ret || !ctxc || alive != "-" {
			w.violation(fmt.Sprintf("the initiator's context was cancelled but the stream did not end together (the source side blocks until ITS context is cancelled): handlerReturned=%v ctxCancelled=%v alive=%s", ret, ctxc, alive))
		}
	}
	// (d) nothing is relayed once the handler has returned
	if w.retSeen && (newI > 0 || newS > 0) {
		w.violation("messages were relayed after the handler returned")
	}
	if ret {
		w.retSeen = true
	}
	return obs, hint
}

// monitorOneSided: the burst touches one direction only, nothing ended before, no send switch:
// then the messages in front of the burst's ending must all arrive.
func (w *c06World) monitorOneSided(evs [][]string, newI, newS int) {
	if w.switchSet {
		return
	}
	side := evs[0][0]
	data, endingSeen := 0, false
	for _, ev := range evs {
		if (ev[0] != "src" && ev[0] != "ini") || ev[0] != side {
			return
		}
		if ev[1] == "cancel" {
			return // a cancelled context overtakes queued messages (gRPC)
		}
		if ev[1] == "msg" || ev[1] == "ack" {
			if !endingSeen {
				data++
			}
		} else {
			endingSeen = true // what follows the first ending need not arrive
		}
	}
	got := newI
	if side == "ini" {
		got = newS
	}
	if got < data {
		w.violation(fmt.Sprintf("%s put %d messages on the stream before ending it, only %d were relayed", side, data, got))
	}
}

func (w *c06World) close() {
	w.mu.Lock()
	w.force = true
	w.gateOpen = true
	w.cond.Broadcast()
	w.mu.Unlock()
	w.srvCancel()
	w.stop()
	synctest.Wait()
	time.Sleep(2 * time.Second)
	synctest.Wait()
}

// runC06Trace executes one trace (first line `begin ...`) in its own bubble.
func runC06Trace(t *testing.T, e *Env, ops []string) (viol []map[string]any, leaked bool) {
	defer func() {
		// a goroutine leaked for good (excluded environment `hang`) keeps the bubble from finishing:
		// synctest reports it as a deadlock panic, which is exactly the observation we are after.
		if p := recover(); p != nil {
			if strings.Contains(fmt.Sprint(p), "deadlock") {
				leaked = true
				return
			}
			panic(p)
		}
	}()
	synctest.Test(t, func(t *testing.T) {
		w, obs := newC06World(t, ops[0])
		e.Emit(ops[0], obs)
		var hist []string
		hist = append(hist, ops[0])
		flush := func() {
			for _, v := range w.viol {
				v["ops"] = append([]string{}, hist...)
				viol = append(viol, v)
			}
			w.viol = nil
		}
		flush()
		for _, op := range ops[1:] {
			if i := strings.Index(op, " ~ "); i >= 0 {
				op = op[:i]
			}
			hist = append(hist, op)
			obs, hint := w.exec(op)
			line := op
			if hint != "" {
				line = op + " ~ " + hint
			}
			e.Emit(line, obs)
			for _, ev := range c06SplitEvents(op) {
				e.Count("ev_" + strings.Join(ev[:min(2, len(ev))], "_"))
			}
			if !w.env.grpcStreamEnv() && strings.Contains(obs, "ret=true") && !strings.HasSuffix(obs, "alive=-") {
				e.Count("excluded_env_stuck_worker_reproduced")
			}
			flush()
			if len(viol) > 0 {
				break
			}
		}
		w.close()
	})
	return
}

// ---- end-to-end over real gRPC: validates GrpcStreamEnv itself ---------------------------------
//
// The bubbles above EMULATE gRPC (context cancellation unblocks Recv, handler return cancels the
// server stream, CloseSend returns, shutdown closes the client connection).  Here the same handler
// runs inside a real proxy.ClusterConnection (TCP, and a yamux transport towards the source) between
// a real gRPC initiator and a real gRPC source: two messages are relayed each way, then one ending,
// and within a (generous, 20 s) deadline the initiator's stream must end, the source's stream must end and no
// forwarder goroutine may be left.  Op `e2e <ending> <answers|ignores>`; the model runs the same
// scenario on the machine (the transport does not exist in the model).

type c06E2E struct {
	mu       sync.Mutex
	srcGot   []int64
	iniGot   []int64
	srcEnded bool
	iniEnded bool
	cmd      chan string
	ready    chan struct{}
}

func runC06E2E(t *testing.T, e *Env, transport, ending string, answers bool) (string, bool) {
	start := startProxyPair
	if transport == "mux" {
		start = startProxyPairMux
	}
	p, err := start(t, config.ClusterConnConfig{})
	if err != nil {
		t.Fatalf("startProxyPair: %v", err)
	}
	defer p.Stop()
	x := &c06E2E{cmd: make(chan string, 8), ready: make(chan struct{}, 1)}
	p.Remote.Stream = func(method string, md metadata.MD, ss grpc.ServerStream) error {
		halfClosed := make(chan struct{})
		go func() { // the source reads sync-states
			for {
				r := &repReq{}
				if err := ss.RecvMsg(r); err != nil {
					if err == io.EOF {
						close(halfClosed)
					}
					return
				}
				x.mu.Lock()
				x.srcGot = append(x.srcGot, c06AckID(r))
				x.mu.Unlock()
			}
		}()
		x.ready <- struct{}{}
		defer func() { x.mu.Lock(); x.srcEnded = true; x.mu.Unlock() }()
		hc := halfClosed
		if !answers {
			hc = nil // a source that never reacts to the proxy's half-close
		}
		for {
			select {
			case c := <-x.cmd:
				switch {
				case strings.HasPrefix(c, "msg "):
					id, _ := strconv.ParseInt(c[4:], 10, 64)
					if err := ss.SendMsg(c06Msg(id)); err != nil {
						return err
					}
				case c == "unknown":
					if err := ss.SendMsg(&repResp{}); err != nil {
						return err
					}
				case c == "eof":
					return nil
				case c == "err":
					return status.Error(codes.Unavailable, "source fails")
				}
			case <-hc:
				return nil
			case <-ss.Context().Done():
				return ss.Context().Err()
			}
		}
	}
	ctx, cancel := context.WithCancel(metadata.NewOutgoingContext(context.Background(), streamMD(1, 1, 2, 1)))
	defer cancel()
	st, err := p.FromLocal.NewStream(ctx, &grpc.StreamDesc{ServerStreams: true, ClientStreams: true}, adminStreamMethod)
	if err != nil {
		t.Fatalf("open stream through the proxy: %v", err)
	}
	go func() { // the initiator reads replication messages
		for {
			r := &repResp{}
			if err := st.RecvMsg(r); err != nil {
				x.mu.Lock()
				x.iniEnded = true
				x.mu.Unlock()
				return
			}
			x.mu.Lock()
			x.iniGot = append(x.iniGot, r.GetMessages().GetExclusiveHighWatermark())
			x.mu.Unlock()
		}
	}()
	waitFor := func(d time.Duration, f func() bool) bool {
		for end := time.Now().Add(d); time.Now().Before(end); time.Sleep(2 * time.Millisecond) {
			x.mu.Lock()
			ok := f()
			x.mu.Unlock()
			if ok {
				return true
			}
		}
		return false
	}
	select {
	case <-x.ready:
	case <-time.After(20 * time.Second):
		t.Fatalf("the proxy never opened the stream to the source")
	}
	for i := int64(1); i <= 2; i++ {
		x.cmd <- fmt.Sprintf("msg %d", i)
		if err := st.SendMsg(c06Ack(i)); err != nil {
			t.Fatalf("initiator send: %v", err)
		}
		waitFor(20*time.Second, func() bool { return len(x.iniGot) == int(i) && len(x.srcGot) == int(i) })
	}
	// the goroutine detector must see the running stream (otherwise "alive=-" below would mean nothing)
	if r := c06Roles(); !(strings.Contains(r, "H") && strings.Contains(r, "FA") && strings.Contains(r, "FR") && strings.Count(r, "L?")+strings.Count(r, "LS")+strings.Count(r, "LT") == 2) {
		t.Fatalf("goroutine detector does not see the running forwarder: %s", r)
	}
	switch ending {
	case "src_eof":
		x.cmd <- "eof"
	case "src_err":
		x.cmd <- "err"
	case "src_unknown":
		x.cmd <- "unknown"
	case "ini_eof":
		_ = st.CloseSend()
	case "ini_unknown":
		_ = st.SendMsg(&repReq{})
	case "ini_cancel":
		cancel()
	case "shutdown":
		p.Cancel()
	}
	ok := waitFor(20*time.Second, func() bool { return x.iniEnded && x.srcEnded })
	alive := "-"
	for end := time.Now().Add(20 * time.Second); ; time.Sleep(5 * time.Millisecond) {
		// outside a bubble the ClusterConnection's own goroutines ("?") are alive too; only the stream's count
		var roles []string
		for _, r := range strings.Split(c06Roles(), ",") {
			if r != "?" && r != "-" {
				roles = append(roles, r)
			}
		}
		alive = "-"
		if len(roles) > 0 {
			alive = strings.Join(roles, ",")
		}
		if alive == "-" || time.Now().After(end) {
			break
		}
	}
	x.mu.Lock()
	defer x.mu.Unlock()
	ji := func(v []int64) string {
		var o []string
		for _, n := range v {
			o = append(o, fmt.Sprint(n))
		}
		return strings.Join(o, ",")
	}
	obs := fmt.Sprintf("I=[%s] S=[%s] iniEnded=%v srcEnded=%v alive=%s", ji(x.iniGot), ji(x.srcGot), x.iniEnded, x.srcEnded, alive)
	return obs, ok && alive == "-" && len(x.iniGot) == 2 && len(x.srcGot) == 2
}

// runC06StalledReal: real gRPC on loopback. The initiator opens the stream with a small flow-control window and does NOT
// read; the source sends large messages until the proxy's Send towards the initiator blocks; then the source ends (EOF).
// Phase 1 (3 s): has the stream ended together although the initiator is not reading? Phase 2: the initiator reads again —
// now everything must end. Returns (observation, stuckWhileStalled, endedAfterResume).
func runC06StalledReal(t *testing.T) (string, bool, bool) {
	p, err := startProxyPair(t, config.ClusterConnConfig{})
	if err != nil {
		t.Fatalf("startProxyPair: %v", err)
	}
	defer p.Stop()
	var mu sync.Mutex
	srcEnded, iniEnded := false, false
	srcSent := 0
	ready, goOn := make(chan struct{}, 1), make(chan struct{})
	p.Remote.Stream = func(method string, md metadata.MD, ss grpc.ServerStream) error {
		defer func() { mu.Lock(); srcEnded = true; mu.Unlock() }()
		go func() {
			for {
				if err := ss.RecvMsg(&repReq{}); err != nil {
					return
				}
			}
		}()
		ready <- struct{}{}
		<-goOn
		for i := int64(1); i <= 400; i++ { // up to 400 x 64 KiB: far beyond every window on the way
			m := c06Msg(i)
			m.GetMessages().ReplicationTasks[0].RawTaskInfo.WorkflowId = strings.Repeat("x", 64<<10)
			sent := make(chan error, 1)
			go func() { sent <- ss.SendMsg(m) }()
			select {
			case err := <-sent:
				if err != nil {
					return err
				}
				mu.Lock()
				srcSent++
				mu.Unlock()
			case <-time.After(1500 * time.Millisecond):
				return nil // the pipe is full (our own Send blocks): the source ends its side — EOF behind what is in flight
			}
		}
		return nil
	}
	conn, err := grpc.NewClient(p.OutboundAddr, grpc.WithTransportCredentials(insecure.NewCredentials()),
		grpc.WithInitialWindowSize(64<<10), grpc.WithInitialConnWindowSize(64<<10)) // fixed windows: no dynamic growth
	if err != nil {
		t.Fatal(err)
	}
	defer conn.Close()
	ctx, cancel := context.WithCancel(metadata.NewOutgoingContext(context.Background(), streamMD(1, 1, 2, 1)))
	defer cancel()
	st, err := conn.NewStream(ctx, &grpc.StreamDesc{ServerStreams: true, ClientStreams: true}, adminStreamMethod)
	if err != nil {
		t.Fatalf("open stream through the proxy: %v", err)
	}
	if err := st.SendMsg(c06Ack(1)); err != nil {
		t.Fatalf("initiator send: %v", err)
	}
	select {
	case <-ready:
	case <-time.After(20 * time.Second):
		t.Fatalf("the proxy never opened the stream to the source")
	}
	close(goOn) // the source starts sending; the initiator does not read
	streamRoles := func() string {
		var roles []string
		for _, r := range strings.Split(c06Roles(), ",") {
			if r != "?" && r != "-" {
				roles = append(roles, r)
			}
		}
		if len(roles) == 0 {
			return "-"
		}
		return strings.Join(roles, ",")
	}
	// wait until the source has ended its side
	for end := time.Now().Add(60 * time.Second); time.Now().Before(end); time.Sleep(20 * time.Millisecond) {
		mu.Lock()
		done := srcEnded
		mu.Unlock()
		if done {
			break
		}
	}
	time.Sleep(3 * time.Second)
	aliveStalled := streamRoles()
	mu.Lock()
	sentN, srcDone := srcSent, srcEnded
	mu.Unlock()
	// phase 2: the initiator reads again
	got := 0
	go func() {
		for {
			if err := st.RecvMsg(&repResp{}); err != nil {
				mu.Lock()
				iniEnded = true
				mu.Unlock()
				return
			}
			mu.Lock()
			got++
			mu.Unlock()
		}
	}()
	aliveAfter := "?"
	for end := time.Now().Add(30 * time.Second); time.Now().Before(end); time.Sleep(20 * time.Millisecond) {
		aliveAfter = streamRoles()
		mu.Lock()
		ie := iniEnded
		mu.Unlock()
		if aliveAfter == "-" && ie {
			break
		}
	}
	mu.Lock()
	defer mu.Unlock()
	obs := fmt.Sprintf("source sent %d x 64 KiB and ended=%v; while the initiator was not reading: alive=%s; after it read again (%d messages): iniEnded=%v alive=%s", sentN, srcDone, aliveStalled, got, iniEnded, aliveAfter)
	return obs, srcDone && aliveStalled != "-", iniEnded && aliveAfter == "-"
}

func TestC06(t *testing.T) {
	e := NewEnv(t, "forwarder")
	defer e.Close(t)
	rng := e.Rng
	run := func(ops []string) {
		viol, leaked := runC06Trace(t, e, ops)
		e.Evals++
		e.Distinct(fnv(strings.Join(ops, "|")))
		if leaked {
			e.Count("bubble_could_not_finish_goroutine_leaked_for_good")
		}
		for _, v := range viol {
			e.Violation(v)
		}
	}
	runE2E := func(transport, ending, a string) {
		obs, ok := runC06E2E(t, e, transport, ending, a == "answers")
		op := fmt.Sprintf("e2e %s %s", ending, a)
		e.Emit(op, obs)
		e.Evals++
		e.Distinct(fnv(op + transport))
		e.Count("e2e_real_grpc_" + transport)
		if !ok {
			e.Violation(map[string]any{"what": fmt.Sprintf("real gRPC through a %s ClusterConnection: after %s (%s) the stream did not end together within 20 s: %s", transport, ending, a, obs), "ops": []string{op}})
		}
	}
	replayCases := e.ReplayLines(t)
	onlyReplay := replayCases != nil
	replayCases = append(replayCases, e.CorpusCases(t)...)
	for _, c := range replayCases {
		if len(c) > 0 && strings.HasPrefix(c[0], "e2e ") {
			for _, op := range c {
				if f := strings.Fields(op); len(f) == 3 {
					runE2E("tcp", f[1], f[2])
					runE2E("mux", f[1], f[2])
				}
			}
			continue
		}
		run(c)
	}
	if onlyReplay {
		return
	}

	// ---- real gRPC end to end (validates the GrpcStreamEnv assumptions the bubbles emulate)
	for _, transport := range []string{"tcp", "mux"} {
		for _, ending := range []string{"src_eof", "src_err", "src_unknown", "ini_eof", "ini_unknown", "ini_cancel", "shutdown"} {
			for _, a := range []string{"answers", "ignores"} {
				runE2E(transport, ending, a)
			}
		}
	}

	// ---- real gRPC, an initiator that stops reading (flow control) while the source ends: the demonstration of finding
	// C06-blocked-send-hides-ending on the real transport, and the check that everything ends once the initiator reads again
	{
		obs, stuck, ended := runC06StalledReal(t)
		op := "# e2e-stalled-initiator tcp"
		e.Emit(op+"  => "+obs, "#")
		e.Evals++
		e.Count(fmt.Sprintf("e2e_stalled_initiator_stuck_%v", stuck))
		if stuck {
			e.Violation(map[string]any{"what": "real gRPC: the source ended while the proxy's Send towards an initiator that is not reading was blocked; the stream did not end together: " + obs,
				"finding": "C06-blocked-send-hides-ending", "ops": []string{op}})
		}
		if !ended {
			e.Violation(map[string]any{"what": "real gRPC: the initiator reads again after a stall during which the source ended, and the stream still does not end together: " + obs, "ops": []string{op}})
		}
	}

	kinds := [][]string{{"src eof"}, {"src err"}, {"src unknown"}, {"ini eof"}, {"ini err"}, {"ini cancel"}, {"ini unknown"},
		{"srcsendfail", "ini ack %d"}, {"inisendfail", "src msg %d"}, {"shutdown"}}
	begins := []string{"begin default 1 1 2 1 answers", "begin default 2 7 1 3 ignores", "begin lcm:6:3 1 2 2 5 answers", "begin lcm:12:4 2 3 1 11 ignores"}
	nmax := 3
	bursts := 2
	if e.Thorough() {
		nmax = 4
		bursts = 4
	}
	// pre-ending traffic: i replication messages and j sync-states, interleaved in one of two orders
	pre := func(i, j, order int) []string {
		var evs []string
		a, b := 0, 0
		for a < i || b < j {
			srcTurn := (a+b+order)%2 == 0
			if (srcTurn && a < i) || b >= j {
				a++
				evs = append(evs, fmt.Sprintf("src msg %d", 10+a))
			} else {
				b++
				evs = append(evs, fmt.Sprintf("ini ack %d", 100+b))
			}
		}
		return evs
	}
	// ---- exhaustive: every ending kind x every position (i, j) x both progress orders x stepwise / burst
	for _, begin := range begins {
		for _, kind := range kinds {
			for i := 0; i <= nmax; i++ {
				for j := 0; j <= nmax; j++ {
					for order := 0; order < 2; order++ {
						var ending []string
						for _, k := range kind {
							if strings.Contains(k, "%d") {
								k = fmt.Sprintf(k, 900)
							}
							ending = append(ending, k)
						}
						post := []string{"src msg 950", "ini ack 960", "tick", "src msg 951"}
						// stepwise
						ops := append([]string{begin}, pre(i, j, order)...)
						ops = append(ops, ending...)
						ops = append(ops, post...)
						run(ops)
						e.Count("trace_exhaustive_stepwise")
						// as one burst (repeated: the outcome depends on the scheduler)
						for r := 0; r < bursts; r++ {
							all := append(pre(i, j, order), ending...)
							ops := []string{begin, strings.Join(all, " ; ")}
							ops = append(ops, post...)
							run(ops)
							e.Count("trace_exhaustive_burst")
						}
					}
				}
			}
		}
	}
	// ---- a peer that stops reading (flow control): the relay loop towards it blocks in Send with a message in hand, then
	// either side ends in every way, then the peer reads again. While the Send is blocked the loop sees neither its listener
	// nor the latch (recorded finding C06-blocked-send-hides-ending); a cancelled context makes the Send return; once the
	// peer reads again everything must end together.
	for _, begin := range begins[:2] {
		for _, d := range []string{"s", "i"} {
			for _, kind := range kinds {
				for n := 0; n <= 1; n++ {
					for _, stallFirst := range []bool{true, false} {
						var ending []string
						for _, k := range kind {
							if strings.Contains(k, "%d") {
								k = fmt.Sprintf(k, 900)
							}
							ending = append(ending, k)
						}
						fill := "src msg 800"
						if d == "i" {
							fill = "ini ack 801"
						}
						ops := append([]string{begin}, pre(n, n, 0)...)
						if stallFirst {
							ops = append(ops, "stall "+d, fill)
						} else {
							ops = append(ops, fill, "stall "+d, fill[:len(fill)-1]+"2")
						}
						ops = append(ops, ending...)
						ops = append(ops, "tick", "src msg 950", "ini ack 960", "unstall "+d, "tick", "src msg 951")
						run(ops)
						e.Count("trace_stalled_peer")
					}
				}
			}
		}
	}
	e.Stats["exhaustive"] = true
	e.Stats["exhaustive_depth"] = fmt.Sprintf("%d+%d messages x 10 ending kinds x all positions x 2 orders x stepwise/burst x 4 stream configurations", nmax, nmax)
	// ---- random: longer sequences, random bursts, endings in the middle of a burst
	ntr, maxMsgs := 250, 40
	if e.Thorough() {
		ntr, maxMsgs = 4000, 200
	}
	for tr := 0; tr < ntr; tr++ {
		begin := begins[rng.IntN(len(begins))]
		msgs := 1 + rng.IntN(maxMsgs)
		ops := []string{begin}
		ns, ni := 0, 0
		ended := false
		for sent := 0; sent < msgs; {
			var burst []string
			for n := 1 + rng.IntN(1+rng.IntN(6)); n > 0; n-- {
				switch x := rng.IntN(100); {
				case x < 46:
					ns++
					sent++
					burst = append(burst, fmt.Sprintf("src msg %d", ns))
				case x < 92:
					ni++
					sent++
					burst = append(burst, fmt.Sprintf("ini ack %d", 1000+ni))
				case x < 94:
					burst = append(burst, []string{"srcsendfail", "inisendfail"}[rng.IntN(2)])
				default:
					if sent*3 > msgs*2 || rng.IntN(10) == 0 {
						burst = append(burst, kinds[rng.IntN(7)][0])
						if rng.IntN(4) == 0 {
							burst = append(burst, "shutdown")
						}
						ended = true
					}
				}
			}
			if len(burst) > 0 {
				ops = append(ops, strings.Join(burst, " ; "))
			}
			if ended && rng.IntN(2) == 0 {
				break
			}
		}
		if !ended {
			ops = append(ops, kinds[rng.IntN(len(kinds))][0])
			if strings.HasSuffix(ops[len(ops)-1], "sendfail") {
				ops = append(ops, "src msg 7777 ; ini ack 8888")
			}
		}
		ops = append(ops, "tick", "src msg 9990 ; ini ack 9991")
		run(ops)
		e.Count("trace_random")
	}
	e.Sample([]string{"begin default 1 1 2 1 answers", "src msg 11 ; ini ack 101 ; src msg 12 ; ini eof", "src msg 950", "tick"})
	e.Sample([]string{"begin lcm:6:3 1 2 2 5 answers", "src msg 11", "ini ack 101", "srcsendfail", "ini ack 900", "tick"})
}

var _ = sort.Strings
var _ = os.Getenv
