package eng

import (
	"context"
	"fmt"
	"reflect"
	"sort"
	"strconv"
	"strings"
	"sync"
	"testing"

	commonpb "go.temporal.io/api/common/v1"
	enumspb "go.temporal.io/api/enums/v1"
	historypb "go.temporal.io/api/history/v1"
	namespacepb "go.temporal.io/api/namespace/v1"
	workflowservice "go.temporal.io/api/workflowservice/v1"
	"go.temporal.io/server/api/adminservice/v1"
	"go.temporal.io/server/common/log"
	"google.golang.org/grpc"
	"google.golang.org/grpc/codes"
	"google.golang.org/grpc/metadata"
	"google.golang.org/grpc/status"
	"google.golang.org/protobuf/proto"
	"google.golang.org/protobuf/reflect/protoreflect"

	"github.com/temporalio/s2s-proxy/auth"
	"github.com/temporalio/s2s-proxy/collect"
	"github.com/temporalio/s2s-proxy/common"
	"github.com/temporalio/s2s-proxy/config"
	"github.com/temporalio/s2s-proxy/interceptor"
	"github.com/temporalio/s2s-proxy/proxy"
)

// ---- shared encoders: a mapping "a:b,c:d", names with "-" for the empty string ----

func encName(s string) string {
	if s == "" {
		return "-"
	}
	return s
}
func encMap(pairs [][2]string) string {
	var l []string
	for _, p := range pairs {
		l = append(l, encName(p[0])+":"+encName(p[1]))
	}
	if len(l) == 0 {
		return "-"
	}
	return strings.Join(l, ",")
}
func toGoMap(pairs [][2]string) map[string]string {
	m := map[string]string{}
	for _, p := range pairs {
		m[p[0]] = p[1]
	}
	return m
}
func invPairs(pairs [][2]string) [][2]string {
	var o [][2]string
	for _, p := range pairs {
		o = append(o, [2]string{p[1], p[0]})
	}
	return o
}

// ---- C13 (engine "namemap") -------------------------------------------------------------------

func TestC13(t *testing.T) {
	e := NewEnv(t, "namemap")
	defer e.Close(t)
	rng := e.Rng
	alpha := []string{"a", "b", "c", "d"}
	// (1) NewStaticBiMap over every pair list up to a length bound (all non-injective lists included)
	var allPairs [][2]string
	for _, k := range alpha {
		for _, v := range alpha {
			allPairs = append(allPairs, [2]string{k, v})
		}
	}
	maxLen := 3
	if e.Thorough() {
		maxLen = 4
	}
	var rec func(cur [][2]string)
	nLists := 0
	rec = func(cur [][2]string) {
		if len(cur) > 0 || true {
			_, err := collect.NewStaticBiMap(func(yield func(string, string) bool) {
				for _, p := range cur {
					if !yield(p[0], p[1]) {
						return
					}
				}
			}, len(cur))
			obs := "ok"
			if err != nil {
				obs = "conflict"
			}
			op := "bimap " + encMap(cur)
			e.Emit(op, obs)
			e.Evals++
			nLists++
			keys, vals := map[string]bool{}, map[string]bool{}
			inj := true
			for _, p := range cur {
				if keys[p[0]] || vals[p[1]] {
					inj = false
				}
				keys[p[0]], vals[p[1]] = true, true
			}
			if inj != (err == nil) {
				e.Violation(map[string]any{"what": fmt.Sprintf("NewStaticBiMap(%v): one-to-one=%v but error=%v", cur, inj, err), "ops": []string{op}})
			}
			if !inj {
				e.Distinct(fnv(op))
			}
		}
		if len(cur) == maxLen {
			return
		}
		for _, p := range allPairs {
			rec(append(append([][2]string{}, cur...), p))
		}
	}
	rec(nil)
	e.Stats["extra"] = map[string]any{"bimap_lists_exhaustive": nLists, "max_len": maxLen}
	// start-up: a cluster connection with a non-injective mapping must not start
	for _, c := range []struct {
		pairs [][2]string
	}{{[][2]string{{"a", "x"}, {"b", "x"}}}, {[][2]string{{"a", "x"}, {"a", "y"}}}, {[][2]string{{"a", "x"}, {"b", "y"}}}} {
		cfg := config.ClusterConnConfig{}
		for _, p := range c.pairs {
			cfg.NamespaceTranslation.Mappings = append(cfg.NamespaceTranslation.Mappings, config.StringMapping{Local: p[0], Remote: p[1]})
		}
		pp, err := startProxyPair(t, cfg)
		obs := "ok"
		if err != nil {
			obs = "conflict"
		} else {
			pp.Stop()
		}
		e.Emit("bimap "+encMap(c.pairs), obs)
		e.Evals++
		e.Count("startup_" + obs)
	}
	// start-up, what a cluster connection accepts: one-to-one lists without an empty name — every list of up to two pairs
	// over three names (identity entries, chains, swaps, reused keys and values in either position) plus lists with an
	// empty name; and the same lists as search-attribute mappings (duplicates must be refused there too)
	startupLists := [][][2]string{{{"a", ""}}, {{"", "x"}}, {{"a", "x"}, {"b", ""}}, {{"a", "b"}, {"b", "c"}}, {}}
	{
		names3 := []string{"a", "b", "x"}
		var all2 [][2]string
		for _, l := range names3 {
			for _, r := range names3 {
				all2 = append(all2, [2]string{l, r})
			}
		}
		for _, p := range all2 {
			startupLists = append(startupLists, [][2]string{p})
			for _, q := range all2 {
				startupLists = append(startupLists, [][2]string{p, q})
			}
		}
	}
	for _, pairs := range startupLists {
		// search-attribute mappings go through their own constructor
		hasEmpty := false
		for _, p := range pairs {
			hasEmpty = hasEmpty || p[0] == "" || p[1] == ""
		}
		if !hasEmpty && len(pairs) > 0 {
			sacfg := config.ClusterConnConfig{}
			nm := config.SANamespaceMapping{Name: "n", NamespaceId: "ns-id"}
			for _, p := range pairs {
				nm.Mappings = append(nm.Mappings, config.SAMapping{LocalName: p[0], RemoteName: p[1]})
			}
			sacfg.SearchAttributeTranslation.NamespaceMappings = []config.SANamespaceMapping{nm}
			ppSA, errSA := startProxyPair(t, sacfg)
			if errSA == nil {
				ppSA.Stop()
			}
			keys, vals, oneToOne := map[string]bool{}, map[string]bool{}, true
			for _, p := range pairs {
				if keys[p[0]] || vals[p[1]] {
					oneToOne = false
				}
				keys[p[0]], vals[p[1]] = true, true
			}
			opSA := "# startup-sa " + encMap(pairs)
			e.Emit(opSA, "#")
			e.Evals++
			e.Count(fmt.Sprintf("startup_sa_accepted_%v", errSA == nil))
			if !oneToOne && errSA == nil {
				e.Violation(map[string]any{"what": fmt.Sprintf("cluster connection with search-attribute mapping %v, which is not one-to-one, started", pairs), "ops": []string{opSA}})
			}
		}
		cfg := config.ClusterConnConfig{}
		for _, p := range pairs {
			cfg.NamespaceTranslation.Mappings = append(cfg.NamespaceTranslation.Mappings, config.StringMapping{Local: p[0], Remote: p[1]})
		}
		pp, err := startProxyPair(t, cfg)
		obs := "ok"
		if err != nil {
			obs = "rejected"
		} else {
			pp.Stop()
		}
		op := "startup " + encMap(pairs)
		e.Emit(op, obs)
		e.Evals++
		e.Count("startup_" + obs)
		keys, vals := map[string]bool{}, map[string]bool{}
		good := true
		for _, p := range pairs {
			if keys[p[0]] || vals[p[1]] || p[0] == "" || p[1] == "" {
				good = false
			}
			keys[p[0]], vals[p[1]] = true, true
		}
		if good != (err == nil) {
			e.Violation(map[string]any{"what": fmt.Sprintf("cluster connection with namespace mapping %v: one-to-one without empty names=%v but start-up error=%v", pairs, good, err), "ops": []string{op}})
		}
	}
	// (2) exact-match lookup through the real translator, and round trips
	maps := [][][2]string{
		{{"local-ns", "remote-ns"}},
		{{"a", "b"}, {"b", "c"}},
		{{"a", "b"}, {"b", "a"}},
		{{"ns1", "r1"}, {"ns2", "r2"}, {"ns3", "r3"}},
		{},
	}
	names := []string{"local-ns", "remote-ns", "a", "b", "c", "local", "local-ns2", "xlocal-ns", "LOCAL-NS", "", "ns1", "r1", "zzz"}
	for _, mp := range maps {
		tr := interceptor.NewNamespaceNameTranslator(log.NewNoopLogger(), toGoMap(mp), toGoMap(invPairs(mp)))
		for _, n := range names {
			req := &workflowservice.DescribeNamespaceRequest{Namespace: n}
			_, _ = tr.TranslateRequest(req)
			op := fmt.Sprintf("tr %s %s", encMap(mp), encName(n))
			e.Emit(op, encName(req.Namespace))
			e.Evals++
			e.Distinct(fnv(op))
			// round trip: response direction applies the inverse
			resp := &workflowservice.DescribeNamespaceResponse{NamespaceInfo: &namespacepb.NamespaceInfo{Name: req.Namespace}}
			_, _ = tr.TranslateResponse(resp)
			e.Emit(fmt.Sprintf("rt %s %s", encMap(mp), encName(n)), encName(resp.NamespaceInfo.Name))
			mapped, isImage := false, false
			for _, p := range mp {
				mapped = mapped || p[0] == n
				isImage = isImage || p[1] == n
			}
			if (mapped || !isImage) && resp.NamespaceInfo.Name != n {
				e.Violation(map[string]any{"what": fmt.Sprintf("round trip with mapping %v changed %q into %q", mp, n, resp.NamespaceInfo.Name), "ops": []string{op}})
			}
		}
	}
	// (3) direction, end to end through a running proxy pair: names seen by the backend (requests) and by the caller (responses)
	dmap := [][2]string{{"local-ns", "remote-ns"}, {"l2", "r2"}}
	cfg := config.ClusterConnConfig{}
	for _, p := range dmap {
		cfg.NamespaceTranslation.Mappings = append(cfg.NamespaceTranslation.Mappings, config.StringMapping{Local: p[0], Remote: p[1]})
	}
	pp, err := startProxyPair(t, cfg)
	if err != nil {
		t.Fatal(err)
	}
	const describeNs = "/temporal.api.workflowservice.v1.WorkflowService/DescribeNamespace"
	for _, inbound := range []int{0, 1} {
		conn, be := pp.FromLocal, pp.Remote
		if inbound == 1 {
			conn, be = pp.FromRemote, pp.Local
		}
		for _, n := range []string{"local-ns", "remote-ns", "l2", "r2", "other", ""} {
			for _, bypass := range []bool{false, true} {
				be.Reset()
				be.Respond = func(m string, req proto.Message, md metadata.MD) (proto.Message, error) {
					return &workflowservice.DescribeNamespaceResponse{NamespaceInfo: &namespacepb.NamespaceInfo{Name: n}}, nil
				}
				var md metadata.MD
				if bypass {
					md = metadata.Pairs(common.RequestTranslationHeaderName, "false")
				}
				resp, err := invoke(conn, describeNs, &workflowservice.DescribeNamespaceRequest{Namespace: n}, md)
				if err != nil {
					t.Fatalf("DescribeNamespace through proxy: %v", err)
				}
				seenReq := "?"
				for _, c := range be.Calls() {
					seenReq = c.Req.(*workflowservice.DescribeNamespaceRequest).Namespace
				}
				seenResp := resp.(*workflowservice.DescribeNamespaceResponse).GetNamespaceInfo().GetName()
				mstr := encMap(dmap)
				if bypass {
					mstr = "-" // translation switched off by the header
				}
				e.Emit(fmt.Sprintf("dir %d %s %s req", inbound, mstr, encName(n)), encName(seenReq))
				e.Emit(fmt.Sprintf("dir %d %s %s resp", inbound, mstr, encName(n)), encName(seenResp))
				e.Evals += 2
				e.Count(fmt.Sprintf("direction_inbound%d", inbound))
			}
		}
	}
	pp.Stop()
	// (3b) the same with a mapping whose remote names are local names too (a chain), and an upstream that answers the first
	// attempt with Unavailable: whatever the proxy does about the failure (give up, try again), EVERY attempt that reaches the
	// upstream carries the name mapped exactly once, and so does the answer the caller gets
	{
		cmap := [][2]string{{"orders", "orders-eu"}, {"orders-eu", "orders-archive"}}
		ccfg := config.ClusterConnConfig{}
		for _, p := range cmap {
			ccfg.NamespaceTranslation.Mappings = append(ccfg.NamespaceTranslation.Mappings, config.StringMapping{Local: p[0], Remote: p[1]})
		}
		pp2, err := startProxyPair(t, ccfg)
		if err != nil {
			t.Fatal(err)
		}
		once := func(n string, inbound int) string { // the mapping applied exactly once in the direction of the request
			for _, p := range cmap {
				if inbound == 0 && p[0] == n {
					return p[1]
				}
				if inbound == 1 && p[1] == n {
					return p[0]
				}
			}
			return n
		}
		for _, inbound := range []int{0, 1} {
			conn, be := pp2.FromLocal, pp2.Remote
			if inbound == 1 {
				conn, be = pp2.FromRemote, pp2.Local
			}
			for _, n := range []string{"orders", "orders-eu", "orders-archive", "other"} {
				for _, failures := range []int{0, 1, 2} {
					be.Reset()
					left := failures
					var mu sync.Mutex
					be.Respond = func(m string, req proto.Message, md metadata.MD) (proto.Message, error) {
						mu.Lock()
						defer mu.Unlock()
						if left > 0 {
							left--
							return nil, status.Error(codes.Unavailable, "upstream restarting")
						}
						return &workflowservice.DescribeNamespaceResponse{NamespaceInfo: &namespacepb.NamespaceInfo{Name: req.(*workflowservice.DescribeNamespaceRequest).Namespace}}, nil
					}
					resp, err := invoke(conn, describeNs, &workflowservice.DescribeNamespaceRequest{Namespace: n}, nil)
					op := fmt.Sprintf("dir %d %s %s req", inbound, encMap(cmap), encName(n))
					for k, c := range be.Calls() {
						seen := c.Req.(*workflowservice.DescribeNamespaceRequest).Namespace
						e.Emit(op, encName(seen))
						e.Evals++
						e.Count("direction_with_upstream_failures")
						if seen != once(n, inbound) {
							e.Violation(map[string]any{"what": fmt.Sprintf("chain mapping %v, upstream answers Unavailable %d time(s) first: attempt %d of the %s call for %q reached the upstream as %q, mapped exactly once it is %q", cmap, failures, k+1, map[int]string{0: "outbound", 1: "inbound"}[inbound], n, seen, once(n, inbound)), "ops": []string{op}})
						}
					}
					mapped, isImage := false, false
					for _, p := range cmap {
						mapped = mapped || p[inbound] == n
						isImage = isImage || p[1-inbound] == n
					}
					if err == nil && (mapped || !isImage) {
						// the upstream echoes the name it was asked about: the caller must get its own spelling back (names that
						// are images of the mapping without being mapped themselves do not round-trip, by design)
						if got := resp.(*workflowservice.DescribeNamespaceResponse).GetNamespaceInfo().GetName(); got != n {
							e.Violation(map[string]any{"what": fmt.Sprintf("chain mapping %v, upstream answers Unavailable %d time(s) first: the caller asked about %q and the answer it got names %q (request and response translation are not inverse on this call)", cmap, failures, n, got), "ops": []string{op}})
						}
					}
				}
			}
		}
		pp2.Stop()
	}
	// (4) whole random messages: translate, then translate back with the inverse: identical (names avoid unmapped images)
	te := newTgEmit()
	g := te.g
	m1 := [][2]string{{"local-ns", "remote-ns"}, {"a", "b"}, {"b", "a"}}
	fwd := interceptor.NewNamespaceNameTranslator(log.NewNoopLogger(), toGoMap(m1), map[string]string{})
	back := interceptor.NewNamespaceNameTranslator(log.NewNoopLogger(), toGoMap(invPairs(m1)), map[string]string{})
	fl := &filler{rng: rng, names: []string{"local-ns", "a", "b", "local", "xlocal-ns", "", "unmapped"}, keys: []string{"k1", "k2"}}
	e.Stats["sparse_warmup_messages"] = sparseWarm(g, g.Roots, fl, fwd, back)
	per := 1
	if e.Thorough() {
		per = 20
	}
	for _, r := range g.Roots {
		for i := 0; i < per; i++ {
			m := reflect.New(g.Types[r].rt).Interface().(proto.Message)
			fl.fill(m.ProtoReflect(), 4)
			if rng.IntN(3) == 0 {
				e.Dist["roundtrip_json_blobs"] += jsonEncodeBlobs(m.ProtoReflect()) // history blobs in the other wire encoding
			}
			orig := proto.Clone(m)
			_, err1 := fwd.TranslateRequest(m)
			_, err2 := back.TranslateRequest(m)
			a, b := proto.Clone(m), proto.Clone(orig)
			canonBlobs(a.ProtoReflect())
			canonBlobs(b.ProtoReflect())
			e.Emit(fmt.Sprintf("# roundtrip %d %d", r, i), "#")
			e.Evals++
			if err1 != nil || err2 != nil || !proto.Equal(a, b) {
				e.Violation(map[string]any{"what": fmt.Sprintf("translate then inverse-translate changed a random %s (%v %v)", g.Types[r].Go, err1, err2), "ops": []string{fmt.Sprintf("# roundtrip %d %d seed %d", r, i, e.Seed)}})
			}
		}
	}
	// (4b) history blobs in either wire encoding (PROTO3, JSON) holding mapped names: translated, still decodable under the
	// encoding the blob is labelled with, and restored by the inverse translation
	for _, asJSON := range []bool{false, true} {
		for _, name := range []string{"local-ns", "a", "b", "unmapped"} {
			blob, _ := evSerializer.SerializeEvents([]*historypb.HistoryEvent{plainPadEvent(1), {EventId: 2, EventType: enumspb.EVENT_TYPE_WORKFLOW_EXECUTION_STARTED,
				Attributes: &historypb.HistoryEvent_WorkflowExecutionStartedEventAttributes{WorkflowExecutionStartedEventAttributes: &historypb.WorkflowExecutionStartedEventAttributes{ParentWorkflowNamespace: name, Identity: "local-ns"}}}})
			m := proto.Message(&adminservice.GetWorkflowExecutionRawHistoryV2Response{HistoryBatches: []*commonpb.DataBlob{blob}})
			if asJSON {
				jsonEncodeBlobs(m.ProtoReflect())
			}
			orig := proto.Clone(m)
			_, err1 := fwd.TranslateResponse(m) // the response direction of this translator is empty: nothing may change
			same := proto.Equal(m, orig)
			_, err2 := fwd.TranslateRequest(m)
			mid := proto.Clone(m)
			midOK := canonBlobs(mid.ProtoReflect())
			ref := proto.Clone(orig)
			refTranslate(ref.ProtoReflect(), refOpts{ns: toGoMap(m1)})
			canonBlobs(ref.ProtoReflect())
			_, err3 := back.TranslateRequest(m)
			a, b := proto.Clone(m), proto.Clone(orig)
			okA := canonBlobs(a.ProtoReflect())
			canonBlobs(b.ProtoReflect())
			op := fmt.Sprintf("# blobroundtrip json=%v %s", asJSON, name)
			e.Emit(op, "#")
			e.Evals++
			if err1 != nil || err2 != nil || err3 != nil || !same || !midOK || !okA || !proto.Equal(mid, ref) || !proto.Equal(a, b) {
				e.Violation(map[string]any{"what": fmt.Sprintf("history blob (JSON-encoded: %v) holding namespace %q: untouched by the empty direction=%v, translated blob decodes=%v and equals the reference=%v, round trip decodes=%v and restores the original=%v (%v %v %v)",
					asJSON, name, same, midOK, proto.Equal(mid, ref), okA, proto.Equal(a, b), err1, err2, err3), "ops": []string{op}})
			}
		}
	}
	// (4c) a history blob that holds a mapped name AND needs the UTF-8 repair (invalid bytes in a failure message of another
	// event of the same batch): what leaves the translator is the repaired batch with the name mapped in the right
	// direction and nothing else changed; the inverse translation restores the (repaired) original
	for _, name := range []string{"local-ns", "a", "b", "unmapped"} {
		for _, failFirst := range []bool{false, true} {
			started := &historypb.HistoryEvent{EventId: 2, EventType: enumspb.EVENT_TYPE_WORKFLOW_EXECUTION_STARTED,
				Attributes: &historypb.HistoryEvent_WorkflowExecutionStartedEventAttributes{WorkflowExecutionStartedEventAttributes: &historypb.WorkflowExecutionStartedEventAttributes{ParentWorkflowNamespace: name, Identity: "local-ns"}}}
			evs := []*historypb.HistoryEvent{plainPadEvent(1), started, failurePadEvent(3)}
			if failFirst {
				evs = []*historypb.HistoryEvent{failurePadEvent(1), started, plainPadEvent(3)}
			}
			blob, _ := evSerializer.SerializeEvents(evs)
			m := proto.Message(&adminservice.GetWorkflowExecutionRawHistoryV2Response{HistoryBatches: []*commonpb.DataBlob{blob}})
			repaired := proto.Clone(m) // what the repair alone makes of the batch
			legacyRoundTripBlobs(repaired.ProtoReflect())
			mapEventBlobs(repaired.ProtoReflect(), func(evs []*historypb.HistoryEvent) []*historypb.HistoryEvent {
				for _, ev := range evs {
					if f := ev.GetActivityTaskFailedEventAttributes().GetFailure(); f != nil && f.Message == badUTF8Marker {
						f.Message = strings.Replace(badUTF8Marker, "~^~^", "\uFFFD", 1)
					}
				}
				return evs
			})
			ref := proto.Clone(repaired)
			refTranslate(ref.ProtoReflect(), refOpts{ns: toGoMap(m1)})
			if corruptBlobs(m.ProtoReflect()) == 0 {
				continue
			}
			_, err1 := fwd.TranslateRequest(m)
			mid := proto.Clone(m)
			_, err2 := back.TranslateRequest(m)
			a := proto.Clone(m)
			okMid, okA := canonBlobs(mid.ProtoReflect()), canonBlobs(a.ProtoReflect())
			canonBlobs(ref.ProtoReflect())
			canonBlobs(repaired.ProtoReflect())
			op := fmt.Sprintf("# repairedblobroundtrip failFirst=%v %s", failFirst, name)
			e.Emit(op, "#")
			e.Evals++
			e.Count("repaired_blob_roundtrip")
			if err1 != nil || err2 != nil || !okMid || !okA || !proto.Equal(mid, ref) || !proto.Equal(a, repaired) {
				e.Violation(map[string]any{"what": fmt.Sprintf("history blob holding namespace %q in a batch that also needs the UTF-8 repair: translated blob decodes=%v and equals the repaired batch with the name mapped forward=%v; after the inverse translation decodes=%v and equals the repaired original=%v (%v %v)",
					name, okMid, proto.Equal(mid, ref), okA, proto.Equal(a, repaired), err1, err2), "ops": []string{op}})
			}
		}
	}
	// (5) the same for search-attribute keys, with a mapping whose targets are sources too (chain, swap) and key sets
	// holding several overlapping keys at once (only "c", a target that is not renamed itself, is avoided)
	saMap := [][2]string{{"a", "b"}, {"b", "c"}, {"x", "y"}, {"y", "x"}}
	saFwd := interceptor.NewSearchAttributeTranslator(log.NewNoopLogger(), map[string]map[string]string{"ns-id": toGoMap(saMap)}, nil)
	saBack := interceptor.NewSearchAttributeTranslator(log.NewNoopLogger(), map[string]map[string]string{"ns-id": toGoMap(invPairs(saMap))}, nil)
	flSA := &filler{rng: rng, names: []string{"n1", ""}, keys: []string{"a", "b", "x", "y", "Other"}}
	saTouched := 0
	for _, r := range g.Roots {
		for i := 0; i < per; i++ {
			m := reflect.New(g.Types[r].rt).Interface().(proto.Message)
			flSA.fill(m.ProtoReflect(), 4)
			orig := proto.Clone(m)
			_, err1 := saFwd.TranslateRequest(m)
			mid := proto.Clone(m)
			_, err2 := saBack.TranslateRequest(m)
			if err1 != nil && strings.Contains(err1.Error(), "unhandled search attribute type") {
				e.Count("unhandled_sa_type_error")
				continue
			}
			a, b, c := proto.Clone(m), proto.Clone(orig), mid
			canonBlobs(a.ProtoReflect())
			canonBlobs(b.ProtoReflect())
			canonBlobs(c.ProtoReflect())
			ref := proto.Clone(orig)
			refTranslate(ref.ProtoReflect(), refOpts{sa: toGoMap(saMap)})
			canonBlobs(ref.ProtoReflect())
			if !proto.Equal(c, b) {
				saTouched++
			}
			e.Emit(fmt.Sprintf("# saroundtrip %d %d", r, i), "#")
			e.Evals++
			if err1 != nil || err2 != nil || !proto.Equal(a, b) || !proto.Equal(c, ref) {
				e.Violation(map[string]any{"what": fmt.Sprintf("search-attribute keys: translate then inverse-translate changed a random %s, or the forward result differs from the simultaneous renaming (%v %v; round trip equal %v, forward equals reference %v)", g.Types[r].Go, err1, err2, proto.Equal(a, b), proto.Equal(c, ref)), "ops": []string{fmt.Sprintf("# saroundtrip %d %d seed %d", r, i, e.Seed)}})
			}
		}
	}
	// deterministic carriers for the overlapping keys: typed container, bare map, history blob
	for ci, mk := range []func(map[string]*commonpb.Payload) proto.Message{
		func(k map[string]*commonpb.Payload) proto.Message {
			return &workflowservice.StartWorkflowExecutionRequest{SearchAttributes: &commonpb.SearchAttributes{IndexedFields: k}}
		},
		func(k map[string]*commonpb.Payload) proto.Message {
			return &historypb.History{Events: []*historypb.HistoryEvent{{EventId: 1, EventType: enumspb.EVENT_TYPE_UPSERT_WORKFLOW_SEARCH_ATTRIBUTES,
				Attributes: &historypb.HistoryEvent_UpsertWorkflowSearchAttributesEventAttributes{UpsertWorkflowSearchAttributesEventAttributes: &historypb.UpsertWorkflowSearchAttributesEventAttributes{SearchAttributes: &commonpb.SearchAttributes{IndexedFields: k}}}}}}
		},
		func(k map[string]*commonpb.Payload) proto.Message {
			blob, _ := evSerializer.SerializeEvents([]*historypb.HistoryEvent{{EventId: 1, EventType: enumspb.EVENT_TYPE_UPSERT_WORKFLOW_SEARCH_ATTRIBUTES,
				Attributes: &historypb.HistoryEvent_UpsertWorkflowSearchAttributesEventAttributes{UpsertWorkflowSearchAttributesEventAttributes: &historypb.UpsertWorkflowSearchAttributesEventAttributes{SearchAttributes: &commonpb.SearchAttributes{IndexedFields: k}}}}})
			return &adminservice.GetWorkflowExecutionRawHistoryV2Response{HistoryBatches: []*commonpb.DataBlob{blob}}
		},
	} {
		for _, ks := range [][]string{{"a", "b"}, {"x", "y"}, {"a", "b", "x", "y", "Other"}, {"b"}, {"a"}} {
			for rep := 0; rep < 8; rep++ { // Go map order is random: repeat
				keys := map[string]*commonpb.Payload{}
				for _, k := range ks {
					keys[k] = &commonpb.Payload{Data: []byte("v-" + k)}
				}
				m := mk(keys)
				orig := proto.Clone(m)
				_, err1 := saFwd.TranslateRequest(m)
				ref := proto.Clone(orig)
				refTranslate(ref.ProtoReflect(), refOpts{sa: toGoMap(saMap)})
				mid := proto.Clone(m)
				_, err2 := saBack.TranslateRequest(m)
				a, b := proto.Clone(m), proto.Clone(orig)
				for _, x := range []proto.Message{a, b, mid, ref} {
					canonBlobs(x.ProtoReflect())
				}
				op := fmt.Sprintf("keys %s %s", encMap(saMap), strings.Join(ks, ","))
				e.Emit(fmt.Sprintf("# sacarrier %d %v", ci, ks), "#")
				e.Evals++
				if err1 != nil || err2 != nil || !proto.Equal(mid, ref) || !proto.Equal(a, b) {
					e.Violation(map[string]any{"what": fmt.Sprintf("search-attribute keys %v with mapping %s in carrier %d: forward equals simultaneous renaming=%v, round trip restores=%v (%v %v)", ks, encMap(saMap), ci, proto.Equal(mid, ref), proto.Equal(a, b), err1, err2), "ops": []string{op}})
				}
			}
		}
	}
	e.Stats["extra"].(map[string]any)["sa_roundtrips_that_renamed_something"] = saTouched
	e.Sample([]string{"bimap a:b,c:b", "tr a:b,b:c a", "dir 1 local-ns:remote-ns,l2:r2 remote-ns req"})
	e2eBothTranslations(t, e)
	vtC13(e, g) // value-level correspondence (valtree_test.go): ops `valns` / `valsa`
}

// ---- C14 (engine "namemap" + "translate" path ops) --------------------------------------------

func TestC14(t *testing.T) {
	e := NewEnv(t, "namemap")
	defer e.Close(t)
	rng := e.Rng
	te := newTgEmit()
	g := te.g
	mp := [][2]string{{"CustomKeywordField", "Keyword01"}, {"CustomIntField", "Int01"}, {"x", "y"}}
	tr := interceptor.NewSearchAttributeTranslator(log.NewNoopLogger(), map[string]map[string]string{"ns-id": toGoMap(mp)}, map[string]map[string]string{"ns-id": toGoMap(invPairs(mp))})
	keyPool := []string{"CustomKeywordField", "CustomIntField", "x", "Other", "CustomKeyword", "customkeywordfield", "z", "w"}
	// a one-to-one mapping whose targets are sources too (chain a->b->c, swap x<->y). Key sets may hold several of the
	// overlapping keys at once; they avoid only a target that is not itself renamed ("c"): the simultaneous renaming is
	// then collision free, and anything but a simultaneous renaming loses or misplaces a key
	mpOv := [][2]string{{"a", "b"}, {"b", "c"}, {"x", "y"}, {"y", "x"}}
	trOv := interceptor.NewSearchAttributeTranslator(log.NewNoopLogger(), map[string]map[string]string{"ns-id": toGoMap(mpOv)}, map[string]map[string]string{"ns-id": toGoMap(invPairs(mpOv))})
	keyPoolOv := []string{"a", "b", "x", "y", "Other", "z"}
	isSAField := func(fd protoreflect.FieldDescriptor) bool {
		return fd.Message() != nil && fd.Message().FullName() == "temporal.api.common.v1.SearchAttributes" && !fd.IsList()
	}
	// (1) every structural path to a search-attributes container, on real messages
	roots := append([]int{}, g.Roots...)
	sort.Ints(roots)
	e.Stats["sparse_warmup_messages"] = sparseWarm(g, roots, &filler{rng: rng, names: []string{"ns-a", ""}, keys: []string{"k1"}}, tr, trOv)
	seen := map[string]bool{}
	doPath := func(p tPath, mp [][2]string, tr interceptor.Translator, keyPool []string, padMode int) {
		nk := 1 + rng.IntN(4)
		keys := map[string]*commonpb.Payload{}
		var klist []string
		for len(keys) < nk {
			kk := keyPool[rng.IntN(len(keyPool))]
			if _, ok := keys[kk]; !ok {
				keys[kk] = &commonpb.Payload{Data: []byte("v-" + kk), Metadata: map[string][]byte{"encoding": []byte("json/plain")}}
				klist = append(klist, kk)
			}
		}
		sort.Strings(klist)
		m, err := buildAlong(g, p, func(f reflect.Value) {
			if f.Type() == payloadMapType {
				f.Set(reflect.ValueOf(keys))
			} else {
				f.Set(reflect.ValueOf(&commonpb.SearchAttributes{IndexedFields: keys}))
			}
		})
		if err != nil {
			e.Count("unbuildable_path")
			return
		}
		if padMode > 0 {
			// batch context: the event the path leads to sits among other events of the same blob, including events
			// of the types that can carry search attributes but carry none (or an empty / unmapped / mapped set)
			unset, set := padEvents(isSAField, func(attrs protoreflect.Message, fd protoreflect.FieldDescriptor) {
				sa := &commonpb.SearchAttributes{}
				switch rng.IntN(3) {
				case 1:
					sa.IndexedFields = map[string]*commonpb.Payload{"Other": {Data: []byte("v-Other")}}
				case 2:
					sa.IndexedFields = map[string]*commonpb.Payload{keyPool[0]: {Data: []byte("v-pad")}}
				}
				attrs.Set(fd, protoreflect.ValueOfMessage(sa.ProtoReflect()))
			})
			mapEventBlobs(m.ProtoReflect(), func(evs []*historypb.HistoryEvent) []*historypb.HistoryEvent {
				pick := func(l []*historypb.HistoryEvent) *historypb.HistoryEvent { return l[rng.IntN(len(l))] }
				switch padMode {
				case 1: // an SA-capable event WITHOUT search attributes first
					return append([]*historypb.HistoryEvent{plainPadEvent(90), pick(unset)}, evs...)
				case 2: // ... last
					return append(append([]*historypb.HistoryEvent{}, evs...), pick(unset), plainPadEvent(91))
				case 3: // several, with and without, around it
					return append(append([]*historypb.HistoryEvent{pick(unset), pick(set)}, evs...), pick(set), pick(unset))
				default: // only plain events before
					return append([]*historypb.HistoryEvent{plainPadEvent(90), plainPadEvent(91)}, evs...)
				}
			})
			e.Count(fmt.Sprintf("batch_context_%d", padMode))
		}
		ref := proto.Clone(m)
		_, terr := tr.TranslateRequest(m)
		leaf, lerr := readLeaf(g, p, m)
		var got map[string]*commonpb.Payload
		if lerr == nil {
			if leaf.Type() == payloadMapType {
				got = leaf.Interface().(map[string]*commonpb.Payload)
			} else if sa, ok := leaf.Interface().(*commonpb.SearchAttributes); ok && sa != nil {
				got = sa.IndexedFields
			}
		}
		var gk []string
		valuesOK := true
		for k2, v := range got {
			gk = append(gk, k2)
			orig := k2
			for _, pr := range mp {
				if pr[1] == k2 {
					orig = pr[0]
				}
			}
			if string(v.GetData()) != "v-"+orig {
				valuesOK = false
			}
		}
		sort.Strings(gk)
		op := fmt.Sprintf("keys %s %s", encMap(mp), strings.Join(klist, ","))
		e.Emit(op, strings.Join(gk, ","))
		e.Emit("sapath "+p.opString(), map[bool]string{true: "found", false: "missed"}[terr == nil && lerr == nil && renamed(klist, gk, mp)])
		e.Evals++
		e.Distinct(fnv(p.opString() + op))
		refTranslate(ref.ProtoReflect(), refOpts{sa: toGoMap(mp)})
		a, b := proto.Clone(m), ref
		canonBlobs(a.ProtoReflect())
		canonBlobs(b.ProtoReflect())
		if terr != nil || !valuesOK || len(gk) != len(klist) || !proto.Equal(a, b) {
			e.Violation(map[string]any{"what": fmt.Sprintf("search attributes at %s (root %s, mapping %s, batch context %d): keys %v -> %v, values untouched=%v, err=%v, equals reference=%v", describePath(g, p), g.Types[p.Root].Go, encMap(mp), padMode, klist, gk, valuesOK, terr, proto.Equal(a, b)), "ops": []string{op, "sapath " + p.opString()}})
		}
	}
	// several LARGE history batches per message, several messages in flight: keys renamed, values and the other keys
	// untouched in every one of them, also after the later ones have been translated
	for rep := 0; rep < 3; rep++ {
		what := translateSeveralBig(tr, true, refOpts{sa: toGoMap(mp)}, func(mi, i int) *historypb.HistoryEvent {
			return &historypb.HistoryEvent{EventType: enumspb.EVENT_TYPE_UPSERT_WORKFLOW_SEARCH_ATTRIBUTES,
				Attributes: &historypb.HistoryEvent_UpsertWorkflowSearchAttributesEventAttributes{UpsertWorkflowSearchAttributesEventAttributes: &historypb.UpsertWorkflowSearchAttributesEventAttributes{
					SearchAttributes: &commonpb.SearchAttributes{IndexedFields: map[string]*commonpb.Payload{
						"CustomKeywordField": {Data: []byte(fmt.Sprintf("kw-%d-%d-%d", rep, mi, i))}, "Other": {Data: []byte(fmt.Sprintf("other-%d-%d", mi, i))}, "x": {Data: []byte("x")}}}}}}
		})
		op := fmt.Sprintf("# several-big-batches %d", rep)
		e.Emit(op, "#")
		e.Evals++
		e.Count("several_big_batches")
		if what != "" {
			e.Violation(map[string]any{"what": "search attributes in large history batches: " + what, "ops": []string{op}})
		}
	}
	for _, r := range roots {
		if g.RootSvc[r] == "workflow" {
			continue // the translator is not applied to WorkflowService traffic
		}
		for _, p := range enumPaths(g, r, saLeaf, 1, 100000) {
			k := fmt.Sprintf("%d.%d/%d", p.LeafTy, p.LeafPos, len(p.Steps))
			if seen[k] && rng.IntN(4) != 0 {
				continue
			}
			seen[k] = true
			doPath(p, mp, tr, keyPool, 0)
			doPath(p, mpOv, trOv, keyPoolOv, 0)
			// the batch ALSO needs the UTF-8 repair (invalid bytes in a failure message of another event), and the
			// search-attribute translator is the first to meet it: what leaves it must be repaired AND renamed
			if hasBlobStep(p) && (e.Thorough() || rng.IntN(2) == 0) {
				keys := map[string]*commonpb.Payload{"CustomKeywordField": {Data: []byte("v-CustomKeywordField")}, "Other": {Data: []byte("v-Other")}}
				m, err := buildAlong(g, p, func(f reflect.Value) {
					if f.Type() == payloadMapType {
						f.Set(reflect.ValueOf(keys))
					} else {
						f.Set(reflect.ValueOf(&commonpb.SearchAttributes{IndexedFields: keys}))
					}
				})
				if err == nil {
					mapEventBlobs(m.ProtoReflect(), func(evs []*historypb.HistoryEvent) []*historypb.HistoryEvent {
						return append(append([]*historypb.HistoryEvent{}, evs...), failurePadEvent(91))
					})
					ref := proto.Clone(m)
					legacyRoundTripBlobs(ref.ProtoReflect())
					mapEventBlobs(ref.ProtoReflect(), func(evs []*historypb.HistoryEvent) []*historypb.HistoryEvent {
						for _, ev := range evs {
							if f := ev.GetActivityTaskFailedEventAttributes().GetFailure(); f != nil && f.Message == badUTF8Marker {
								f.Message = strings.Replace(badUTF8Marker, "~^~^", "\uFFFD", 1)
							}
						}
						return evs
					})
					refTranslate(ref.ProtoReflect(), refOpts{sa: toGoMap(mp)})
					_, rerr := readLeaf(g, p, ref)
					if corruptBlobs(m.ProtoReflect()) > 0 {
						_, terr := tr.TranslateRequest(m)
						a, b := proto.Clone(m), proto.Clone(ref)
						okA, okB := canonBlobs(a.ProtoReflect()), canonBlobs(b.ProtoReflect())
						e.Emit("# sa-repaired-context "+p.opString(), "#")
						e.Evals++
						switch {
						case rerr != nil:
							e.Count("sa_repair_context_container_not_in_v1_22_schema")
						case terr != nil || !okA || !okB || !proto.Equal(a, b):
							e.Violation(map[string]any{"what": fmt.Sprintf("search attributes at %s (root %s) in a history batch that also needed the UTF-8 repair: the blob leaving the translator decodes=%v, equals the repaired+renamed reference=%v, err=%v",
								describePath(g, p), g.Types[p.Root].Go, okA, okA && okB && proto.Equal(a, b), terr), "ops": []string{"sapath " + p.opString(), "# sa-repaired-context"}})
						default:
							e.Count("sa_repair_context_ok")
						}
					}
				}
			}
			if hasBlobStep(p) {
				for pm := 1; pm <= 4; pm++ {
					if pm == 1 || e.Thorough() || rng.IntN(2) == 0 {
						if rng.IntN(2) == 0 {
							doPath(p, mp, tr, keyPool, pm)
						} else {
							doPath(p, mpOv, trOv, keyPoolOv, pm)
						}
					}
				}
			}
		}
	}
	// (2) method filter over every method of both services
	for _, m := range append(serviceMethods(adminSvc), serviceMethods(workflowSvc)...) {
		e.Emit("saapplies "+m.Full, fmt.Sprint(tr.MatchMethod(m.Full)))
		e.Evals++
		if strings.Contains(m.Full, "WorkflowService") == tr.MatchMethod(m.Full) {
			e.Violation(map[string]any{"what": "search-attribute translator method filter wrong for " + m.Full, "ops": []string{"saapplies " + m.Full}})
		}
	}
	// (3) random AdminService messages vs the reference
	fl := &filler{rng: rng, names: []string{"n1", "n2", ""}, keys: []string{"CustomKeywordField", "CustomIntField", "Other", "z"}}
	per := 2
	if e.Thorough() {
		per = 40
	}
	for _, r := range roots {
		if g.RootSvc[r] == "workflow" {
			continue
		}
		for i := 0; i < per; i++ {
			m := reflect.New(g.Types[r].rt).Interface().(proto.Message)
			fl.fill(m.ProtoReflect(), 4)
			ref := proto.Clone(m)
			_, terr := tr.TranslateResponse(m)
			refTranslate(ref.ProtoReflect(), refOpts{sa: toGoMap(invPairs(mp))})
			a := proto.Clone(m)
			canonBlobs(a.ProtoReflect())
			canonBlobs(ref.ProtoReflect())
			e.Emit(fmt.Sprintf("# sarand %d %d", r, i), "#")
			e.Evals++
			if terr != nil && strings.Contains(terr.Error(), "unhandled search attribute type") {
				e.Count("unhandled_sa_type_error") // AddSearchAttributesRequest / RemoveSearchAttributesRequest: other types named SearchAttributes
				continue
			}
			if terr != nil || !proto.Equal(a, ref) {
				e.Violation(map[string]any{"what": fmt.Sprintf("random %s: search-attribute translation differs from the reference (%v)", g.Types[r].Go, terr), "ops": []string{fmt.Sprintf("# sarand %d %d seed %d", r, i, e.Seed)}})
			}
		}
	}
	e2eBothTranslations(t, e)
	e.Sample([]string{"keys CustomKeywordField:Keyword01,x:y CustomKeywordField,Other"})
	vtC14(e, g) // value-level correspondence (valtree_test.go): ops `valsa`
}

func renamed(in, out []string, mp [][2]string) bool {
	want := map[string]bool{}
	for _, k := range in {
		nk := k
		for _, p := range mp {
			if p[0] == k {
				nk = p[1]
			}
		}
		want[nk] = true
	}
	if len(out) != len(want) {
		return false
	}
	for _, k := range out {
		if !want[k] {
			return false
		}
	}
	return true
}

// ---- C16 (engine "acl" + path ops) ---------------------------------------------------------------

type fakeWfClient struct {
	workflowservice.WorkflowServiceClient
	names []string
}

func (f *fakeWfClient) ListNamespaces(ctx context.Context, in *workflowservice.ListNamespacesRequest, opts ...grpc.CallOption) (*workflowservice.ListNamespacesResponse, error) {
	resp := &workflowservice.ListNamespacesResponse{Namespaces: []*workflowservice.DescribeNamespaceResponse{}}
	if in.GetPageSize() > 0 { // a paged listing: the token is the index of the next entry
		from := 0
		if tok := in.GetNextPageToken(); len(tok) > 0 {
			from, _ = strconv.Atoi(string(tok))
		}
		to := min(len(f.names), from+int(in.GetPageSize()))
		for _, n := range f.names[min(from, len(f.names)):to] {
			resp.Namespaces = append(resp.Namespaces, &workflowservice.DescribeNamespaceResponse{NamespaceInfo: &namespacepb.NamespaceInfo{Name: n}})
		}
		if to < len(f.names) {
			resp.NextPageToken = []byte(strconv.Itoa(to))
		}
		return resp, nil
	}
	for _, n := range f.names {
		resp.Namespaces = append(resp.Namespaces, &workflowservice.DescribeNamespaceResponse{NamespaceInfo: &namespacepb.NamespaceInfo{Name: n}})
	}
	return resp, nil
}

func TestC16(t *testing.T) {
	e := NewEnv(t, "acl")
	defer e.Close(t)
	rng := e.Rng
	te := newTgEmit()
	g := te.g
	allowed := []string{"allowed-ns", "also-ok"}
	ic := interceptor.NewAccessControlInterceptor(log.NewNoopLogger(), nil, allowed)
	pstr := "p=|" + strings.Join(allowed, ",")
	// the method a root REQUEST type really travels under (X for XRequest): a per-method shortcut in the check must not
	// exempt any of them; response types are given a generic method of their service
	fullFor := func(r int) string {
		name := g.Types[r].Go
		if i := strings.LastIndex(name, "."); i >= 0 {
			name = name[i+1:]
		}
		svc, generic := workflowSvc, "DescribeWorkflowExecution"
		if g.RootSvc[r] == "admin" {
			svc, generic = adminSvc, "DescribeMutableState"
		}
		if strings.HasSuffix(name, "Request") {
			return "/" + svc + "/" + strings.TrimSuffix(name, "Request")
		}
		return "/" + svc + "/" + generic
	}
	denyListed := func(full string) bool { // refused whatever they name (C15)
		return strings.HasSuffix(full, "/RegisterNamespace") || strings.HasSuffix(full, "/DeprecateNamespace")
	}
	var forwarded proto.Message // what the handler (the local cluster) received
	run := func(m proto.Message, full string) (string, bool) {
		called := false
		forwarded = nil
		_, err := ic.Intercept(context.Background(), m, &grpc.UnaryServerInfo{FullMethod: full}, func(ctx context.Context, req any) (any, error) {
			called = true
			forwarded, _ = req.(proto.Message)
			return nil, nil
		})
		if status.Code(err) == codes.PermissionDenied {
			return "denied", called
		}
		return "forward", called
	}
	roots := append([]int{}, g.Roots...)
	sort.Ints(roots)
	seen := map[string]bool{}
	maxOcc := 1
	if e.Thorough() {
		maxOcc = 2
	}
	for _, r := range roots {
		paths := enumPaths(g, r, nsLeaf, maxOcc, 50000)
		for pi, p := range paths {
			k := fmt.Sprintf("%d.%d/%d", p.LeafTy, p.LeafPos, len(p.Steps))
			if seen[k] && rng.IntN(10) != 0 && !e.Thorough() {
				continue
			}
			seen[k] = true
			names := []string{"allowed-ns", "forbidden-ns", ""}
			if e.Thorough() || rng.IntN(3) == 0 {
				// look-alikes of an allowed name are different namespaces (names are case-sensitive)
				names = append(names, []string{"Allowed-NS", "ALLOWED-NS", "Also-Ok", "allowed-n", "allowed-nss"}[rng.IntN(5)])
			}
			for _, name := range names {
				if name == "" && viaEventLinks(g, p) {
					// an EMPTY link namespace does not stop the skip shortcut, so whether the (empty) name is offered to the
					// matcher depends on the event type; empty is not "a different namespace": outside the property, not compared
					e.Count("skipped_empty_link_namespace")
					continue
				}
				m, err := buildAlong(g, p, func(f reflect.Value) { f.SetString(name) })
				if err != nil {
					continue
				}
				dec, called := run(m, fullFor(r))
				// every namespace-name field of every populated message is offered to the access matcher, unset ones as ""
				var all []string
				listNsValues(m.ProtoReflect(), &all)
				var enc []string
				allAllowed := true
				for _, n := range all {
					enc = append(enc, encName(n))
					allAllowed = allAllowed && (n == "allowed-ns" || n == "also-ok")
				}
				if len(enc) == 0 {
					enc = []string{"."}
				}
				op := fmt.Sprintf("unary 1 %s %s %s", pstr, fullFor(r), strings.Join(enc, ","))
				e.Emit(op, dec)
				if name != "allowed-ns" && name != "" {
					// path level: the forbidden name at the end of this path is seen iff the visitor reaches it
					e.Emit(fmt.Sprintf("aclpath %s %s %s %s", pstr, fullFor(r), encName(name), p.opString()), dec)
				}
				e.Evals++
				e.Distinct(fnv(op + p.opString()))
				e.Count("path_" + encName(name) + "_" + dec)
				if name != "allowed-ns" && name != "" && (dec != "denied" || called) {
					e.Violation(map[string]any{"what": fmt.Sprintf("request naming forbidden namespace at %s (root %s) was not refused (decision %s, handler called %v)", describePath(g, p), g.Types[r].Go, dec, called), "ops": []string{op}})
				}
				if allAllowed && dec != "forward" && !denyListed(fullFor(r)) {
					e.Violation(map[string]any{"what": fmt.Sprintf("request naming only allowed namespaces %v (path %s) was refused", all, describePath(g, p)), "ops": []string{op}})
				}
				if dec == "denied" && called {
					e.Violation(map[string]any{"what": "refused request reached the handler", "ops": []string{op}})
				}
			}
			// batch context and damaged blobs: the event the path leads to sits among other events of its blob; one of them
			// may carry invalid UTF-8 that the blob repair fixes (failure message: the names must still be checked) or
			// cannot fix (any other string: the request must be refused, not passed on unchecked)
			if hasBlobStep(p) {
				for _, name := range []string{"allowed-ns", "forbidden-ns"} {
					for variant := 0; variant < 4; variant++ { // 3 = all valid, the blob in the serializer's other wire encoding (JSON)
						if !e.Thorough() && variant > 0 && name == "allowed-ns" && rng.IntN(3) != 0 {
							continue
						}
						m, err := buildAlong(g, p, func(f reflect.Value) { f.SetString(name) })
						if err != nil {
							continue
						}
						mapEventBlobs(m.ProtoReflect(), func(evs []*historypb.HistoryEvent) []*historypb.HistoryEvent {
							var extra *historypb.HistoryEvent
							switch variant {
							case 0, 3:
								extra = plainPadEvent(91)
							case 1:
								extra = failurePadEvent(91)
							default:
								extra = plainPadEvent(91)
								extra.GetWorkflowTaskCompletedEventAttributes().Identity = invalidIdentityMarker
							}
							if rng.IntN(2) == 0 {
								return append([]*historypb.HistoryEvent{plainPadEvent(90), extra}, evs...)
							}
							return append(append([]*historypb.HistoryEvent{plainPadEvent(90)}, evs...), extra)
						})
						// the names the visitor can see: for a repaired blob, those that survive the repair's passage through the
						// v1.22 schema (fields unknown to that schema are DROPPED from the repaired blob, names in them included)
						seenSrc := m
						if variant == 1 {
							seenSrc = proto.Clone(m)
							legacyRoundTripBlobs(seenSrc.ProtoReflect())
						}
						var all, orig []string
						listNsValues(seenSrc.ProtoReflect(), &all)
						listNsValues(m.ProtoReflect(), &orig)
						if len(all) != len(orig) {
							e.Count("repair_drops_fields_unknown_to_v1_22")
						}
						var enc []string
						allAllowed := true
						for _, n := range all {
							enc = append(enc, encName(n))
							allAllowed = allAllowed && (n == "allowed-ns" || n == "also-ok")
						}
						if len(enc) == 0 {
							enc = []string{"."}
						}
						if variant == 3 {
							if jsonEncodeBlobs(m.ProtoReflect()) == 0 {
								continue
							}
						} else if variant > 0 && corruptBlobs(m.ProtoReflect()) == 0 {
							e.Count("blob_not_corrupted")
							continue
						}
						dec, called := run(m, fullFor(r))
						seenByModel := strings.Join(enc, ",")
						if variant == 2 {
							seenByModel = "!" // the visitor fails on the blob
						}
						op := fmt.Sprintf("unary 1 %s %s %s", pstr, fullFor(r), seenByModel)
						e.Emit(op, dec)
						e.Evals++
						e.Distinct(fnv(op + p.opString() + fmt.Sprint(variant)))
						e.Count(fmt.Sprintf("blob_variant%d_%s_%s", variant, name, dec))
						// what reached the local cluster must not name a namespace outside the allow-list
						reached := ""
						if called && forwarded != nil {
							var got []string
							listNsValues(forwarded.ProtoReflect(), &got)
							for _, n := range got {
								if n != "allowed-ns" && n != "also-ok" {
									reached = n
								}
							}
							if !canonBlobs(proto.Clone(forwarded).ProtoReflect()) {
								reached = "<a history blob that does not decode>"
							}
						}
						what := ""
						switch {
						case reached != "":
							what = fmt.Sprintf("reached the local cluster naming %q", reached)
						case dec == "denied" && called:
							what = "was refused and still reached the handler"
						case variant == 2 && dec != "denied":
							what = "holds a blob that can neither be decoded nor repaired, and was passed on unchecked"
						case variant != 2 && allAllowed && dec != "forward" && !denyListed(fullFor(r)):
							what = "names only allowed namespaces and was refused"
						case (variant == 0 || variant == 3) && name == "forbidden-ns" && dec != "denied":
							what = "was not refused"
						}
						if what != "" {
							e.Violation(map[string]any{"what": fmt.Sprintf("request naming %q at %s (root %s) inside a history batch of several events (%s) %s (decision %s, handler called %v)", name, describePath(g, p), g.Types[r].Go,
								[]string{"all valid", "one failure message with invalid UTF-8", "one non-failure string with invalid UTF-8", "all valid, JSON-encoded blob"}[variant], what, dec, called), "ops": []string{op}})
						}
					}
				}
			}
			// combination: an allowed name on this path and a forbidden one on another path of the same root
			if len(paths) > 1 {
				q := paths[(pi+1+rng.IntN(len(paths)-1))%len(paths)]
				m1, err1 := buildAlong(g, p, func(f reflect.Value) { f.SetString("allowed-ns") })
				m2, err2 := buildAlong(g, q, func(f reflect.Value) { f.SetString("forbidden-ns") })
				if err1 == nil && err2 == nil && !hasBlobStep(p) && !hasBlobStep(q) {
					proto.Merge(m1, m2)
					dec, called := run(m1, fullFor(r))
					e.Emit(fmt.Sprintf("# combo %s + %s", p.opString(), q.opString()), "#")
					e.Evals++
					if dec != "denied" || called {
						e.Violation(map[string]any{"what": fmt.Sprintf("combination allowed@%s + forbidden@%s (root %s) not refused", describePath(g, p), describePath(g, q), g.Types[r].Go), "ops": []string{"# combo"}})
					}
				}
			}
		}
	}
	// ListNamespaces filter through the real workflow-service proxy server
	for i := 0; i < 40; i++ {
		pool := []string{"allowed-ns", "also-ok", "forbidden-ns", "x", "", "allowed-ns2", "Allowed-NS", "ALSO-OK"}
		var names []string
		for k := 0; k < rng.IntN(6); k++ {
			names = append(names, pool[rng.IntN(len(pool))])
		}
		for _, pol := range []struct {
			str string
			ac  *auth.AccessControl
		}{{pstr, auth.NewAccesControl(allowed)}, {"none", nil}, {"p=|", auth.NewAccesControl(nil)}} {
			srv := proxy.NewWorkflowServiceProxyServer("t", &fakeWfClient{names: names}, pol.ac, noopLoggers())
			resp, err := srv.ListNamespaces(context.Background(), &workflowservice.ListNamespacesRequest{})
			if err != nil {
				t.Fatal(err)
			}
			var got []string
			for _, n := range resp.Namespaces {
				got = append(got, encName(n.NamespaceInfo.Name))
			}
			var enc []string
			for _, n := range names {
				enc = append(enc, encName(n))
			}
			op := strings.TrimSpace(fmt.Sprintf("listns %s %s", pol.str, strings.Join(enc, " ")))
			e.Emit(op, strings.Join(got, ","))
			e.Evals++
			if pol.ac != nil && pol.str != "p=|" {
				for _, n := range resp.Namespaces {
					if n.NamespaceInfo.Name != "allowed-ns" && n.NamespaceInfo.Name != "also-ok" {
						e.Violation(map[string]any{"what": "ListNamespaces returned a namespace outside the allow-list: " + n.NamespaceInfo.Name, "ops": []string{op}})
					}
				}
			}
		}
	}
	// ... and a listing that spans several pages, read the way a client reads it (page size 1..4, following the token the
	// proxy returns): runs of forbidden namespaces filling whole pages, at the start, in the middle, at the end
	nPaged := 60
	if e.Thorough() {
		nPaged = 1500
	}
	for i := 0; i < nPaged; i++ {
		poolOK, poolBad := []string{"allowed-ns", "also-ok"}, []string{"forbidden-ns", "x", "allowed-ns2", "Allowed-NS", "secret-1", "secret-2", "secret-3"}
		var names []string
		for len(names) < 2+rng.IntN(12) {
			run := 1 + rng.IntN(5) // runs of one kind: a whole page of forbidden names is likely
			bad := rng.IntN(2) == 0
			for k := 0; k < run; k++ {
				if bad {
					names = append(names, poolBad[rng.IntN(len(poolBad))])
				} else {
					names = append(names, poolOK[rng.IntN(len(poolOK))])
				}
			}
		}
		pageSize := int32(1 + rng.IntN(4))
		srv := proxy.NewWorkflowServiceProxyServer("t", &fakeWfClient{names: names}, auth.NewAccesControl(allowed), noopLoggers())
		var tok []byte
		var got, wantOK []string
		for _, n := range names {
			if n == "allowed-ns" || n == "also-ok" {
				wantOK = append(wantOK, n)
			}
		}
		op := fmt.Sprintf("# listns-paged %s pagesize=%d %s", pstr, pageSize, strings.Join(names, " "))
		bad := ""
		for page := 0; page < len(names)+2; page++ {
			resp, err := srv.ListNamespaces(context.Background(), &workflowservice.ListNamespacesRequest{PageSize: pageSize, NextPageToken: tok})
			if err != nil {
				t.Fatal(err)
			}
			for _, n := range resp.Namespaces {
				got = append(got, n.NamespaceInfo.Name)
				if n.NamespaceInfo.Name != "allowed-ns" && n.NamespaceInfo.Name != "also-ok" && bad == "" {
					bad = fmt.Sprintf("page %d of the listing returned %q, a namespace outside the allow-list", page+1, n.NamespaceInfo.Name)
				}
			}
			tok = resp.NextPageToken
			if len(tok) == 0 {
				break
			}
		}
		e.Emit(op, "#")
		e.Evals++
		e.Count("listns_paged")
		if bad != "" {
			e.Violation(map[string]any{"what": "ListNamespaces, paged: " + bad, "ops": []string{op}})
		} else if strings.Join(got, ",") != strings.Join(wantOK, ",") {
			e.Count("listns_paged_not_every_allowed_name_returned") // not part of the property (it says "only"), recorded for the evidence
		}
	}
	// end to end: translation runs before the check; the bypass header switches translation off, not the check
	cfg := config.ClusterConnConfig{ACLPolicy: &config.ACLPolicy{AllowedNamespaces: []string{"local-ok"}}}
	cfg.NamespaceTranslation.Mappings = []config.StringMapping{{Local: "local-ok", Remote: "remote-ok"}, {Local: "local-bad", Remote: "remote-bad"}}
	pp, err := startProxyPair(t, cfg)
	if err != nil {
		t.Fatal(err)
	}
	const describeWf = "/temporal.api.workflowservice.v1.WorkflowService/DescribeWorkflowExecution"
	for _, c := range []struct {
		name   string
		bypass bool
		want   string
	}{{"remote-ok", false, "forward"}, {"remote-bad", false, "denied"}, {"local-ok", false, "forward"}, {"other", false, "denied"},
		{"remote-ok", true, "denied"}, {"local-ok", true, "forward"}, {"remote-bad", true, "denied"}} {
		pp.Local.Reset()
		var md metadata.MD
		if c.bypass {
			md = metadata.Pairs(common.RequestTranslationHeaderName, "false")
		}
		_, err := invoke(pp.FromRemote, describeWf, &workflowservice.DescribeWorkflowExecutionRequest{Namespace: c.name}, md)
		dec := "forward"
		if status.Code(err) == codes.PermissionDenied {
			dec = "denied"
		}
		saw := len(pp.Local.Calls()) > 0
		// the model sees the name after (possibly skipped) translation remote->local
		after := c.name
		if !c.bypass {
			for _, mpp := range cfg.NamespaceTranslation.Mappings {
				if mpp.Remote == c.name {
					after = mpp.Local
				}
			}
		}
		op := fmt.Sprintf("unary 1 p=|local-ok %s %s", describeWf, after)
		e.Emit(op, dec)
		e.Evals++
		e.Count("e2e_" + dec)
		if dec != c.want || (dec == "denied" && saw) {
			e.Violation(map[string]any{"what": fmt.Sprintf("end to end: request naming %q (bypass=%v) -> %s (local cluster saw it: %v), expected %s", c.name, c.bypass, dec, saw, c.want), "ops": []string{op}})
		}
	}
	// the SAME history-blob bytes passing through this one proxy again and again in different roles — in a response on its
	// way to the remote side, in an ordinary request, in a request with the bypass header — in every order: each request is
	// judged on what ITS bytes name (after translation, unless switched off), whatever passed before
	{
		const importWf = "/temporal.server.api.adminservice.v1.AdminService/ImportWorkflowExecution"
		const rawHist = "/temporal.server.api.adminservice.v1.AdminService/GetWorkflowExecutionRawHistoryV2"
		mkBlob := func(name string) *commonpb.DataBlob {
			pad := plainPadEvent(1)
			pad.GetWorkflowTaskCompletedEventAttributes().Identity = strings.Repeat("worker-", 40)
			b, _ := evSerializer.SerializeEvents([]*historypb.HistoryEvent{pad, {EventId: 2, EventType: enumspb.EVENT_TYPE_CHILD_WORKFLOW_EXECUTION_STARTED,
				Attributes: &historypb.HistoryEvent_ChildWorkflowExecutionStartedEventAttributes{ChildWorkflowExecutionStartedEventAttributes: &historypb.ChildWorkflowExecutionStartedEventAttributes{Namespace: name}}}})
			return b
		}
		nSeq := 12
		if e.Thorough() {
			nSeq = 200
		}
		for i := 0; i < nSeq; i++ {
			name := []string{"remote-ok", "local-ok", "remote-bad", "local-bad"}[rng.IntN(4)]
			blob := mkBlob(name)
			var hist []string
			for step := 0; step < 5+rng.IntN(4); step++ {
				role := []string{"response", "request", "request-bypass"}[rng.IntN(3)]
				hist = append(hist, role)
				op := fmt.Sprintf("# same-blob %q roles=%s", name, strings.Join(hist, ","))
				e.Emit(op, "#")
				e.Evals++
				e.Count("same_blob_" + role)
				pp.Local.Reset()
				if role == "response" {
					pp.Local.Respond = func(m string, req proto.Message, md metadata.MD) (proto.Message, error) {
						return &adminservice.GetWorkflowExecutionRawHistoryV2Response{HistoryBatches: []*commonpb.DataBlob{proto.Clone(blob).(*commonpb.DataBlob)}}, nil
					}
					_, _ = invoke(pp.FromRemote, rawHist, &adminservice.GetWorkflowExecutionRawHistoryV2Request{NamespaceId: "ns-id"}, nil)
					pp.Local.Respond = nil
					continue
				}
				var md metadata.MD
				req := &adminservice.ImportWorkflowExecutionRequest{Namespace: name, HistoryBatches: []*commonpb.DataBlob{proto.Clone(blob).(*commonpb.DataBlob)}}
				// what the check has to judge: every namespace-name field of the request as it stands after translation (unset
				// ones count as the empty name, which is not on the list)
				exp := proto.Clone(req)
				if role == "request-bypass" {
					md = metadata.Pairs(common.RequestTranslationHeaderName, "false")
				} else {
					refTranslate(exp.ProtoReflect(), refOpts{ns: map[string]string{"remote-ok": "local-ok", "remote-bad": "local-bad"}})
				}
				var expNames []string
				listNsValues(exp.ProtoReflect(), &expNames)
				after := "local-ok"
				for _, n := range expNames {
					if n != "local-ok" {
						after = n
					}
				}
				_, err := invoke(pp.FromRemote, importWf, req, md)
				denied := status.Code(err) == codes.PermissionDenied
				e.Count(fmt.Sprintf("same_blob_request_denied_%v", denied))
				reached := ""
				for _, c := range pp.Local.Calls() {
					var got []string
					listNsValues(c.Req.ProtoReflect(), &got)
					for _, n := range got {
						if n != "" && n != "local-ok" {
							reached = n
						}
					}
				}
				switch {
				case reached != "":
					e.Violation(map[string]any{"what": fmt.Sprintf("the same history-blob bytes (naming %q) passed through the proxy as %s: the last request reached the local cluster naming %q, which is outside the allow-list [local-ok]", name, strings.Join(hist, ", "), reached), "ops": []string{op}})
				case after != "local-ok" && !denied:
					e.Violation(map[string]any{"what": fmt.Sprintf("the same history-blob bytes (naming %q) passed through the proxy as %s: the last request names %q after translation and was not refused (%v)", name, strings.Join(hist, ", "), after, err), "ops": []string{op}})
				case after == "local-ok" && denied:
					e.Violation(map[string]any{"what": fmt.Sprintf("the same history-blob bytes (naming %q) passed through the proxy as %s: the last request names only the allowed namespace after translation and was refused (%v)", name, strings.Join(hist, ", "), err), "ops": []string{op}})
				}
			}
		}
	}
	pp.Stop()
	e.Sample([]string{"aclpath p=|allowed-ns,also-ok /temporal.api.workflowservice.v1.WorkflowService/DescribeWorkflowExecution forbidden-ns r7 l7.0"})
}

func hasBlobStep(p tPath) bool {
	for _, s := range p.Steps {
		if s.Blob {
			return true
		}
	}
	return false
}

func viaEventLinks(g *typeGraph, p tPath) bool {
	for _, st := range p.Steps {
		if !st.Blob && g.Types[st.Ty].Proto == "temporal.api.history.v1.HistoryEvent" && g.Types[st.Ty].Fields[st.Pos].Go == "Links" {
			return true
		}
	}
	return false
}

// e2eBothTranslations (C13 direction / single step, C14 keys): end to end through a running cluster connection with BOTH translations configured (namespace chain a->b->c,
// one search-attribute mapping), calls of the two services interleaved: what one call does must not change how the
// next one is translated (each message exactly one step, search-attribute keys every time)
func e2eBothTranslations(t *testing.T, e *Env) {
	{
		cfg := config.ClusterConnConfig{}
		cfg.NamespaceTranslation.Mappings = []config.StringMapping{{Local: "a", Remote: "b"}, {Local: "b", Remote: "c"}}
		cfg.SearchAttributeTranslation.NamespaceMappings = []config.SANamespaceMapping{{Name: "a", NamespaceId: "ns-id",
			Mappings: []config.SAMapping{{LocalName: "CustomKeywordField", RemoteName: "Keyword01"}}}}
		pp, err := startProxyPair(t, cfg)
		if err != nil {
			t.Fatal(err)
		}
		const rawHistory = "/temporal.server.api.adminservice.v1.AdminService/GetWorkflowExecutionRawHistoryV2"
		const describeMS = "/temporal.server.api.adminservice.v1.AdminService/DescribeMutableState"
		const describeNs = "/temporal.api.workflowservice.v1.WorkflowService/DescribeNamespace"
		for _, dir := range []string{"out", "in"} {
			conn, be := pp.FromLocal, pp.Remote
			reqNs, reqWant := "a", "b" // outbound: requests local -> remote
			respKey, respKeyWant, respNs, respNsWant := "Keyword01", "CustomKeywordField", "c", "b"
			if dir == "in" {
				conn, be = pp.FromRemote, pp.Local
				reqNs, reqWant = "c", "b" // inbound: requests remote -> local
				respKey, respKeyWant, respNs, respNsWant = "CustomKeywordField", "Keyword01", "a", "b"
			}
			be.Respond = func(m string, req proto.Message, md metadata.MD) (proto.Message, error) {
				switch {
				case strings.HasSuffix(m, "GetWorkflowExecutionRawHistoryV2"):
					blob, _ := evSerializer.SerializeEvents([]*historypb.HistoryEvent{{EventId: 1, EventType: enumspb.EVENT_TYPE_WORKFLOW_EXECUTION_STARTED,
						Attributes: &historypb.HistoryEvent_WorkflowExecutionStartedEventAttributes{WorkflowExecutionStartedEventAttributes: &historypb.WorkflowExecutionStartedEventAttributes{
							ParentWorkflowNamespace: respNs, SearchAttributes: &commonpb.SearchAttributes{IndexedFields: map[string]*commonpb.Payload{respKey: {Data: []byte("v")}, "Other": {Data: []byte("o")}}}}}}})
					return &adminservice.GetWorkflowExecutionRawHistoryV2Response{HistoryBatches: []*commonpb.DataBlob{blob}}, nil
				case strings.HasSuffix(m, "DescribeNamespace"):
					return &workflowservice.DescribeNamespaceResponse{NamespaceInfo: &namespacepb.NamespaceInfo{Name: respNs}}, nil
				}
				return nil, nil
			}
			for step, call := range []string{"admin", "workflow", "admin", "workflow", "admin"} {
				be.Reset()
				op := fmt.Sprintf("# e2e-both dir=%s step=%d %s", dir, step, call)
				e.Emit(op, "#")
				e.Evals++
				if call == "workflow" {
					resp, err := invoke(conn, describeNs, &workflowservice.DescribeNamespaceRequest{Namespace: reqNs}, nil)
					got := "?"
					if err == nil {
						got = resp.(*workflowservice.DescribeNamespaceResponse).GetNamespaceInfo().GetName()
					}
					if err != nil || got != respNsWant {
						e.Violation(map[string]any{"what": fmt.Sprintf("both translations configured, %sbound server, call %d (DescribeNamespace): the response names %q, want %q (%v)", dir, step, got, respNsWant, err), "ops": []string{op}})
					}
					continue
				}
				_, err1 := invoke(conn, describeMS, &adminservice.DescribeMutableStateRequest{Namespace: reqNs}, nil)
				seen := "?"
				for _, c := range be.Calls() {
					if r, ok := c.Req.(*adminservice.DescribeMutableStateRequest); ok {
						seen = r.Namespace
					}
				}
				resp, err2 := invoke(conn, rawHistory, &adminservice.GetWorkflowExecutionRawHistoryV2Request{NamespaceId: "ns-id"}, nil)
				var keys []string
				parent := "?"
				if err2 == nil {
					for _, b := range resp.(*adminservice.GetWorkflowExecutionRawHistoryV2Response).HistoryBatches {
						if evs, derr := evSerializer.DeserializeEvents(b); derr == nil {
							for _, ev := range evs {
								parent = ev.GetWorkflowExecutionStartedEventAttributes().GetParentWorkflowNamespace()
								for k := range ev.GetWorkflowExecutionStartedEventAttributes().GetSearchAttributes().GetIndexedFields() {
									keys = append(keys, k)
								}
							}
						}
					}
				}
				sort.Strings(keys)
				wantKeys := []string{"Other", respKeyWant}
				sort.Strings(wantKeys)
				e.Count("e2e_both_" + dir)
				if err1 != nil || err2 != nil || seen != reqWant || parent != respNsWant || strings.Join(keys, ",") != strings.Join(wantKeys, ",") {
					e.Violation(map[string]any{"what": fmt.Sprintf("both translations configured, %sbound server, call %d after %d call(s) of either service: request namespace %q reached the cluster as %q (want %q); response: parent namespace %q (want %q), search-attribute keys %v (want %v) (%v %v)",
						dir, step, step, reqNs, seen, reqWant, parent, respNsWant, keys, wantKeys, err1, err2), "ops": []string{op}})
				}
			}
		}
		pp.Stop()
	}
}
