package eng

import (
	"fmt"
	"math/rand/v2"
	"os"
	"strings"
	"testing"
)

// Trace generators for C01..C04 (all drive the same engine with a different emphasis).

func routingSeedFlag() string {
	if v := os.Getenv("VERIF_ROUTING_SEED"); v != "" {
		return v
	}
	return "1"
}

type rGen struct {
	rng         *rand.Rand
	focus       string
	ns, nt      int
	nextID      []int64
	high        []int64
	steps       int
	drain       []string // queued drain ops
	drained     bool
	final       []int64
	gated       []bool
	lateTgt     []bool // targets opened late
	queue       []string
	faultsLeft  int
	pendingViol bool
	hist        [][][2]int64 // per source: every (id, owner) ever sent
	resend      [][][2]int64 // per source: tasks to re-send after a source-stream restart (same ids, same owners)
	noSrcFaults bool         // faults are target-stream breaks only
	burstGen    bool         // burst trace: naps between operations
	slowSrc     bool         // the sources are at times slow to read their acknowledgements (`sgate`)
	sgated      []bool
}

func newRGenSlowSrc(rng *rand.Rand, focus string) (*rGen, string) {
	g, begin := newRGen(rng, focus)
	g.slowSrc = true
	g.sgated = make([]bool, g.ns)
	g.faultsLeft = 0
	return g, begin
}

// fan-in under backlog (directed family, inside the op language): several sources feed one target while that target is
// held (its queue fills with sub-batches of all of them), the target then confirms exactly what it got, the sources send
// more for it, and ANOTHER target's progress makes every source re-evaluate its minimum — acknowledgements of one
// source must never be credited with another source's ids, whatever the sender did with the backlog.
func newRGenFanIn(rng *rand.Rand, focus string) (*rGen, string) {
	g, begin := newRGen(rng, focus)
	if g.ns < 2 {
		g.ns = 2 + rng.IntN(2)
		g.nextID = make([]int64, g.ns)
		g.high = make([]int64, g.ns)
		g.hist = make([][][2]int64, g.ns)
		g.resend = make([][][2]int64, g.ns)
		begin = fmt.Sprintf("begin %d %d 100 %s", g.ns, g.nt, routingSeedFlag())
	}
	if g.nt < 2 {
		g.nt = 2
		g.gated = make([]bool, g.nt)
		g.lateTgt = make([]bool, g.nt)
		begin = fmt.Sprintf("begin %d %d 100 %s", g.ns, g.nt, routingSeedFlag())
	}
	// sources far apart in id space (a later source's ids lie above an earlier source's)
	for s := range g.nextID {
		g.nextID[s] = int64(5 + 200*s + rng.IntN(20))
	}
	g.faultsLeft = 0
	g.steps = 0
	var q []string
	for s := 0; s < g.ns; s++ {
		q = append(q, fmt.Sprintf("opensrc %d", s))
	}
	for t := 0; t < g.nt; t++ {
		g.lateTgt[t] = false
		q = append(q, fmt.Sprintf("opentgt %d", t))
	}
	a, b := rng.IntN(g.nt), 0
	for b = rng.IntN(g.nt); b == a; b = rng.IntN(g.nt) {
	}
	for s := 0; s < g.ns; s++ { // everybody has acknowledged something: no first-ack hold-back in play
		q = append(q, g.genBatchFor(s, a), g.genBatchFor(s, b))
	}
	q = append(q, fmt.Sprintf("ackall %d", a), fmt.Sprintf("ackall %d", b), fmt.Sprintf("gate %d 1", a))
	for r := 0; r < 1+rng.IntN(3); r++ {
		order := rng.Perm(g.ns)
		for _, s := range order {
			q = append(q, g.genBatchFor(s, a))
			if rng.IntN(2) == 0 {
				q = append(q, g.genBatchFor(s, b))
			}
		}
	}
	q = append(q, fmt.Sprintf("gate %d 0", a), fmt.Sprintf("ackall %d", a))
	for _, s := range rng.Perm(g.ns) {
		q = append(q, g.genBatchFor(s, a)) // more for the first target, which stays silent about them
		if rng.IntN(2) == 0 {
			q = append(q, g.genBatchFor(s, b))
		}
	}
	q = append(q, fmt.Sprintf("ackall %d", b))
	for s := 0; s < g.ns; s++ {
		g.high[s] = g.nextID[s] + int64(rng.IntN(3))
		g.nextID[s] = g.high[s]
		q = append(q, fmt.Sprintf("batch %d %d", s, g.high[s]))
	}
	q = append(q, fmt.Sprintf("ackall %d", b))
	g.queue = q
	return g, begin
}

// window traces (monitors only; C04): a target stream breaks and its sender is held at the schedule point right after it
// closed its hand-off channel — closed, but still in the registry. Batches routed meanwhile meet a closed channel. Then
// the sender goes on, the target reconnects, later traffic is confirmed. Whatever happened to the hand-offs that met the
// closed channel, no acknowledgement may cover a task that never reached a target stream. (Outside the model's op
// language: its `breakTgt` is atomic.)
func newRGenWindow(rng *rand.Rand, focus string) (*rGen, string) {
	g, begin := newRGen(rng, focus)
	g.faultsLeft = 0
	g.steps = 0
	var q []string
	for s := 0; s < g.ns; s++ {
		q = append(q, fmt.Sprintf("opensrc %d", s))
	}
	for t := 0; t < g.nt; t++ {
		g.lateTgt[t] = false
		q = append(q, fmt.Sprintf("opentgt %d", t))
	}
	a := rng.IntN(g.nt)
	for s := 0; s < g.ns; s++ {
		q = append(q, g.genBatchFor(s, a))
	}
	q = append(q, fmt.Sprintf("ackall %d", a), "hold", fmt.Sprintf("breaktgt %d", a))
	for r := 0; r < 1+rng.IntN(2); r++ {
		for _, s := range rng.Perm(g.ns) {
			q = append(q, g.genBatchFor(s, a)) // meets the closed channel
		}
	}
	q = append(q, "release", fmt.Sprintf("opentgt %d", a))
	for _, s := range rng.Perm(g.ns) {
		q = append(q, g.genBatchFor(s, a))
	}
	q = append(q, fmt.Sprintf("ackall %d", a))
	for s := 0; s < g.ns; s++ {
		g.high[s] = g.nextID[s] + int64(rng.IntN(3))
		g.nextID[s] = g.high[s]
		q = append(q, fmt.Sprintf("batch %d %d", s, g.high[s]))
	}
	for t := 0; t < g.nt; t++ {
		q = append(q, fmt.Sprintf("ackall %d", t))
	}
	g.queue = q
	g.drained = true // no drain phase: the trace has had a fault
	return g, begin + " window"
}

// burst traces (monitors only): the same operations, but they follow each other within one instant unless a `nap` of
// 30 ms … 1.2 s lies between them — acknowledgements a few milliseconds apart, inside one ticker period, across it. Timing
// inside a second is outside the model's op language (its settle is "until nothing moves"), so only the monitors judge.
func newRGenBurst(rng *rand.Rand, focus string) (*rGen, string) {
	g, begin := newRGen(rng, focus)
	g.burstGen = true
	g.faultsLeft = 0
	for t := range g.lateTgt { // late targets need retry sleepers to wake up: keep to targets that are there from the start
		if g.lateTgt[t] {
			g.lateTgt[t] = false
			g.queue = append(g.queue, fmt.Sprintf("opentgt %d", t))
		}
	}
	g.queue = append(g.queue, "nap 1300")
	return g, begin + " burst"
}

func newRGen(rng *rand.Rand, focus string) (*rGen, string) {
	g := &rGen{rng: rng, focus: focus}
	g.ns, g.nt = 1+rng.IntN(3), 1+rng.IntN(4)
	if focus == "C01" && rng.IntN(2) == 0 {
		g.nt = 2 + rng.IntN(3)
	}
	g.nextID = make([]int64, g.ns)
	g.high = make([]int64, g.ns)
	g.hist = make([][][2]int64, g.ns)
	g.resend = make([][][2]int64, g.ns)
	for s := range g.nextID {
		g.nextID[s] = int64(5 + rng.IntN(20))
	}
	g.gated = make([]bool, g.nt)
	g.lateTgt = make([]bool, g.nt)
	g.steps = 8 + rng.IntN(40)
	if focus == "C04" {
		g.faultsLeft = 1 + rng.IntN(4)
	}
	// opening order
	var opens []string
	for s := 0; s < g.ns; s++ {
		opens = append(opens, fmt.Sprintf("opensrc %d", s))
	}
	for t := 0; t < g.nt; t++ {
		if (focus == "C02" || focus == "C03" || focus == "C01" || focus == "C04") && rng.IntN(3) == 0 {
			g.lateTgt[t] = true
			continue
		}
		opens = append(opens, fmt.Sprintf("opentgt %d", t))
	}
	rng.Shuffle(len(opens), func(i, j int) { opens[i], opens[j] = opens[j], opens[i] })
	g.queue = opens
	return g, fmt.Sprintf("begin %d %d 100 %s", g.ns, g.nt, routingSeedFlag())
}

func (g *rGen) anyGated() bool {
	for _, b := range g.gated {
		if b {
			return true
		}
	}
	return false
}

func (g *rGen) genBatch(w *rWorld, s int) string {
	rng := g.rng
	kind := rng.IntN(10)
	var tasks []string
	n := 0
	switch {
	case kind < 3:
		n = 0
	case kind < 6:
		n = 1
	default:
		n = 2 + rng.IntN(3)
	}
	if g.anyGated() && n > 1 {
		n = 1 // a blocked hand-off makes multi-target delivery order (Go map order) observable; see DESIGN
	}
	if len(g.resend[s]) > 0 {
		// after a restart the source re-sends exactly the tasks it had sent before, from its acknowledged level
		if n == 0 {
			n = 1
		}
		if n > len(g.resend[s]) {
			n = len(g.resend[s])
		}
		for _, tk := range g.resend[s][:n] {
			tasks = append(tasks, fmt.Sprintf("%d:%d", tk[0], tk[1]))
		}
		last := g.resend[s][n-1][0]
		g.resend[s] = g.resend[s][n:]
		h := last + 1
		if len(g.resend[s]) > 0 {
			h = g.resend[s][0][0]
		} else if g.nextID[s] > h {
			h = g.nextID[s]
		}
		g.high[s] = h
		return strings.TrimSpace(fmt.Sprintf("batch %d %d %s", s, h, strings.Join(tasks, " ")))
	}
	for i := 0; i < n; i++ {
		id := g.nextID[s]
		g.nextID[s] += 1 + int64(rng.IntN(3))
		owner := rng.IntN(g.nt)
		g.hist[s] = append(g.hist[s], [2]int64{id, int64(owner)})
		tasks = append(tasks, fmt.Sprintf("%d:%d", id, owner))
	}
	h := g.nextID[s]
	if n > 0 && rng.IntN(2) == 0 {
		h = g.nextID[s] - int64(rng.IntN(1)) // exactly last+gap; Temporal: high > last id
	}
	if h < g.high[s] {
		h = g.high[s]
	}
	if n == 0 && rng.IntN(3) == 0 {
		h = g.high[s] // repeated watermark (periodic sync)
		if h == 0 {
			h = g.nextID[s]
		}
	}
	g.high[s] = h
	if g.nextID[s] < h {
		g.nextID[s] = h
	}
	return strings.TrimSpace(fmt.Sprintf("batch %d %d %s", s, h, strings.Join(tasks, " ")))
}

// genBatchFor: a single-task batch for a given owner
func (g *rGen) genBatchFor(s, owner int) string {
	if len(g.resend[s]) > 0 {
		return g.genBatch(nil, s)
	}
	id := g.nextID[s]
	g.nextID[s] += 1 + int64(g.rng.IntN(2))
	g.hist[s] = append(g.hist[s], [2]int64{id, int64(owner)})
	h := g.nextID[s]
	g.high[s] = h
	return fmt.Sprintf("batch %d %d %d:%d", s, h, id, owner)
}

func (g *rGen) genAck(w *rWorld, t int) string {
	ti := w.tgt[t]
	if ti == nil || ti.broken {
		return ""
	}
	rng := g.rng
	if ti.lastHigh == 0 {
		// nothing received yet (possibly the first Send is being held): a target cluster reports its level from the moment
		// the stream is up — 0 or 1 in this stream's id space, which confirms nothing
		if rng.IntN(3) == 0 {
			return fmt.Sprintf("ack %d %d", t, rng.IntN(2))
		}
		return ""
	}
	wv := ti.lastHigh // everything received is processed
	switch rng.IntN(6) {
	case 0: // first pending task: an id inside what was received
		if ti.lastID > 0 {
			wv = 1 + rng.Int64N(ti.lastID)
		}
	case 1:
		if len(ti.highs) > 0 {
			wv = ti.highs[rng.IntN(len(ti.highs))]
		}
	}
	if wv < ti.acked && rng.IntN(4) > 0 {
		wv = ti.acked // targets normally do not go backwards (they may repeat)
	}
	return fmt.Sprintf("ack %d %d", t, wv)
}

// next yields the next op for the live world.
func (g *rGen) next(w *rWorld, i int) string {
	rng := g.rng
	for len(g.queue) > 0 {
		op := g.queue[0]
		g.queue = g.queue[1:]
		if strings.HasPrefix(op, "ackall ") {
			var t int
			fmt.Sscanf(op, "ackall %d", &t)
			ti := w.tgt[t]
			if ti == nil || ti.broken || ti.lastHigh == 0 {
				continue
			}
			return fmt.Sprintf("ack %d %d", t, ti.lastHigh)
		}
		if op == "checkdrain" {
			// C03 liveness: after two fair rounds every source has been acked its final high watermark
			for s := 0; s < g.ns; s++ {
				if w.srcCli[s] == nil {
					continue
				}
				if !w.srcHasAck[s] || w.srcLastAck[s] != g.high[s] {
					w.violation("C03", fmt.Sprintf("after two fair rounds source %d has last ack %d (has=%v), final high watermark %d", s, w.srcLastAck[s], w.srcHasAck[s], g.high[s]), nil)
				}
			}
			g.pendingViol = true
			return ""
		}
		return op
	}
	if g.steps <= 0 {
		if g.drained || w.faults {
			return ""
		}
		// drain: open gates, open every target, then two fair rounds
		g.drained = true
		for s := range g.sgated {
			if g.sgated[s] {
				g.queue = append(g.queue, fmt.Sprintf("sgate %d 0", s))
				g.sgated[s] = false
			}
		}
		for t := 0; t < g.nt; t++ {
			if g.gated[t] {
				g.queue = append(g.queue, fmt.Sprintf("gate %d 0", t))
				g.gated[t] = false
			}
		}
		for t := 0; t < g.nt; t++ {
			g.queue = append(g.queue, fmt.Sprintf("opentgt %d", t))
		}
		if g.burstGen {
			g.queue = append(g.queue, "nap 1300")
		}
		for round := 0; round < 2; round++ {
			for s := 0; s < g.ns; s++ {
				if g.high[s] == 0 {
					g.high[s] = g.nextID[s]
				}
				g.queue = append(g.queue, fmt.Sprintf("batch %d %d", s, g.high[s]))
			}
			if g.burstGen {
				g.queue = append(g.queue, "nap 1300")
			}
			for t := 0; t < g.nt; t++ {
				g.queue = append(g.queue, fmt.Sprintf("ackall %d", t))
			}
			if g.burstGen {
				g.queue = append(g.queue, "nap 1300")
			}
		}
		g.queue = append(g.queue, "checkdrain")
		return g.next(w, i)
	}
	g.steps--
	openGates := func() bool {
		// structural ops (open/break) need virtual time to pass for the retry loops; time stands still while a gate is closed
		any := false
		for t := 0; t < g.nt; t++ {
			if g.gated[t] {
				g.gated[t] = false
				g.queue = append(g.queue, fmt.Sprintf("gate %d 0", t))
				any = true
			}
		}
		return any
	}
	if g.burstGen && rng.IntN(3) == 0 {
		return fmt.Sprintf("nap %d", []int{30, 120, 260, 400, 700, 1100, 1300}[rng.IntN(7)])
	}
	if g.slowSrc {
		// a source that is slow to read: close / open its gate; while it is closed, idle watermarks of that source and
		// (repeated) acks of the targets pile up behind the blocked Send
		switch y := rng.IntN(100); {
		case y < 12:
			s := rng.IntN(g.ns)
			if w.srcCli[s] != nil {
				g.sgated[s] = !g.sgated[s]
				b := 0
				if g.sgated[s] {
					b = 1
				}
				return fmt.Sprintf("sgate %d %d", s, b)
			}
		case y < 40:
			for s := range g.sgated {
				if g.sgated[s] && rng.IntN(2) == 0 {
					if rng.IntN(2) == 0 { // an idle watermark: empty batch with a new high
						if g.high[s] < g.nextID[s] {
							g.high[s] = g.nextID[s]
						}
						g.high[s] += int64(1 + rng.IntN(3))
						g.nextID[s] = g.high[s]
						return fmt.Sprintf("batch %d %d", s, g.high[s])
					}
					t := rng.IntN(g.nt)
					if ti := w.tgt[t]; ti != nil && !ti.broken && ti.acked > 0 {
						return fmt.Sprintf("ack %d %d", t, ti.acked) // the target repeats its last acknowledgement
					}
				}
			}
		}
	}
	for tries := 0; tries < 20; tries++ {
		x := rng.IntN(100)
		switch {
		case x < 45:
			return g.genBatch(w, rng.IntN(g.ns))
		case x < 75:
			if op := g.genAck(w, rng.IntN(g.nt)); op != "" {
				return op
			}
		case x < 82:
			t := rng.IntN(g.nt)
			if g.lateTgt[t] {
				g.lateTgt[t] = false
				if openGates() {
					g.queue = append(g.queue, fmt.Sprintf("opentgt %d", t))
					return g.next(w, i)
				}
				if rng.IntN(2) == 0 {
					// the target connects and, before any back-off sleeper wakes up, the sources send again
					for k := 0; k < 1+rng.IntN(2); k++ {
						g.queue = append(g.queue, g.genBatchFor(rng.IntN(g.ns), t))
					}
					return fmt.Sprintf("opentgt %d nosleep", t)
				}
				return fmt.Sprintf("opentgt %d", t)
			}
		case x < 90:
			if g.focus == "C03" || g.focus == "C04" || rng.IntN(4) == 0 {
				t := rng.IntN(g.nt)
				if w.tgt[t] != nil && !w.tgt[t].broken {
					g.gated[t] = !g.gated[t]
					b := 0
					if g.gated[t] {
						b = 1
					}
					return fmt.Sprintf("gate %d %d", t, b)
				}
			}
		case x < 94:
			if g.focus == "C03" && g.anyGated() {
				// flood a gated target with watermarks so that its 100-slot queue fills and broadcasts get dropped
				s := rng.IntN(g.ns)
				for k := 0; k < 105; k++ {
					g.high[s]++
					if g.nextID[s] < g.high[s] {
						g.nextID[s] = g.high[s]
					}
					g.queue = append(g.queue, fmt.Sprintf("batch %d %d", s, g.high[s]))
				}
				return g.next(w, i)
			}
		default:
			if g.faultsLeft > 0 {
				g.faultsLeft--
				if openGates() {
					return g.next(w, i)
				}
				if rng.IntN(3) > 0 || g.noSrcFaults {
					t := rng.IntN(g.nt)
					if w.tgt[t] != nil && !w.tgt[t].broken {
						g.gated[t] = false
						if rng.IntN(4) > 0 {
							g.queue = append(g.queue, fmt.Sprintf("opentgt %d", t))
						} else {
							g.lateTgt[t] = true
						}
						return fmt.Sprintf("breaktgt %d", t)
					}
				} else {
					s := rng.IntN(g.ns)
					if w.srcSrv[s] != nil {
						g.queue = append(g.queue, fmt.Sprintf("opensrc %d", s))
						// the source resumes from the level it was last acked: same tasks, same ids
						level := int64(0)
						if w.srcHasAck[s] {
							level = w.srcLastAck[s]
						}
						g.resend[s] = nil
						seenID := map[int64]bool{}
						for _, rt := range w.received[s] { // only tasks the source really sent (a batch offered to a busy receiver was never sent)
							if rt.id >= level && !seenID[rt.id] {
								seenID[rt.id] = true
								g.resend[s] = append(g.resend[s], [2]int64{rt.id, int64(rt.owner)})
							}
						}
						if n := len(w.received[s]); n > 0 && g.nextID[s] <= w.received[s][n-1].id {
							g.nextID[s] = w.received[s][n-1].id + 1
						}
						g.high[s] = level
						return fmt.Sprintf("breaksrc %d", s)
					}
				}
			}
		}
	}
	return g.genBatch(w, rng.IntN(g.ns))
}

func runRoutingFocus(t *testing.T, focus string) {
	routingFocus = focus
	e := NewEnv(t, "routing")
	defer e.Close(t)
	report := func(vs []map[string]any) {
		for _, v := range vs {
			if v["prop"] == focus {
				e.Violation(v)
			} else {
				e.Count("other_property_violation_" + fmt.Sprint(v["prop"]))
				if os.Getenv("VERIF_DEBUG") != "" {
					fmt.Println("OTHER", v["prop"], v["what"], v["ops"])
				}
			}
		}
	}
	if cases := e.ReplayLines(t); cases != nil {
		for _, c := range cases {
			report(replayRouting(t, e, c))
			e.Evals++
		}
		return
	}
	for _, c := range e.CorpusCases(t) {
		report(replayRouting(t, e, c))
		e.Evals++
		e.Count("corpus_case")
	}
	n := 600
	if e.Thorough() {
		n = 15000
	}
	// slow sources (monitors only): the source cluster is at times slow to read its acknowledgements, so a Send of the
	// receiver blocks half-way through an acknowledgement step — the one piece of the ack path the model treats as atomic
	nSlow := 0
	if focus == "C03" || focus == "C01" {
		nSlow = n / 4
	}
	for i := 0; i < nSlow; i++ {
		g, begin := newRGenSlowSrc(e.Rng, focus)
		ops, viol := runRoutingTrace(t, e, begin, g.next)
		e.Evals++
		if len(ops) > 6 {
			e.Distinct(fnv(strings.Join(ops, "|")))
		}
		report(viol)
	}
	// C03 also on traces WITH stream failures (target breaks, source restarts): monotone and bounded on every single
	// source-shard stream (C03F); no drain phase (the liveness half is stated for fault-free runs)
	nFaultyC03 := 0
	if focus == "C03" {
		nFaultyC03 = n / 5
	}
	for i := 0; i < nFaultyC03; i++ {
		g, begin := newRGen(e.Rng, "C04")
		g.focus = "C03"
		g.noSrcFaults = true // target streams break and reconnect; the source streams stay up (see monitorAck)
		ops, viol := runRoutingTrace(t, e, begin, g.next)
		e.Evals++
		e.Count("trace_c03_with_stream_failures")
		if len(ops) > 6 {
			e.Distinct(fnv(strings.Join(ops, "|")))
		}
		report(viol)
	}
	nWin := 0
	if focus == "C04" {
		nWin = n / 10
	}
	for i := 0; i < nWin; i++ {
		g, begin := newRGenWindow(e.Rng, focus)
		ops, viol := runRoutingTrace(t, e, begin, g.next)
		e.Evals++
		e.Count("trace_closed_channel_window")
		if len(ops) > 6 {
			e.Distinct(fnv(strings.Join(ops, "|")))
		}
		report(viol)
	}
	nFan := 0
	if focus == "C01" {
		nFan = n / 6
	}
	for i := 0; i < nFan; i++ {
		g, begin := newRGenFanIn(e.Rng, focus)
		ops, viol := runRoutingTrace(t, e, begin, g.next)
		e.Evals++
		e.Count("trace_fan_in_under_backlog")
		if len(ops) > 6 {
			e.Distinct(fnv(strings.Join(ops, "|")))
		}
		report(viol)
	}
	nBurst := 0
	if focus == "C03" || focus == "C01" {
		nBurst = n / 4
	}
	for i := 0; i < nBurst; i++ {
		g, begin := newRGenBurst(e.Rng, focus)
		ops, viol := runRoutingTrace(t, e, begin, g.next)
		e.Evals++
		if len(ops) > 6 {
			e.Distinct(fnv(strings.Join(ops, "|")))
		}
		report(viol)
	}
	for i := 0; i < n; i++ {
		g, begin := newRGen(e.Rng, focus)
		ops, viol := runRoutingTrace(t, e, begin, g.next)
		e.Evals++
		if len(ops) > 6 {
			e.Distinct(fnv(strings.Join(ops, "|")))
		}
		if i < 2 {
			e.Sample(ops)
		}
		report(viol)
	}
}

func TestC01(t *testing.T) { runRoutingFocus(t, "C01") }
func TestC02(t *testing.T) { runRoutingFocus(t, "C02") }
func TestC03(t *testing.T) { runRoutingFocus(t, "C03") }
func TestC04(t *testing.T) { runRoutingFocus(t, "C04") }
