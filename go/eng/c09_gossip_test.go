package eng

// ---- C09: proxy instances converge on one owner per shard and route to it (engine "gossip") ----
//
// 2-3 REAL shardManagerImpls live in one process inside a testing/synctest bubble.  The memberlist
// transport is replaced by the `verif` broadcast tap: the harness owns the network (a list of
// in-flight announcements and snapshots) and decides what is delivered when, how often, and what is
// kept for later.  Virtual time stands still except for the op `tick` (1 ms), so every time.Now()
// of the real code returns base + k ms and k is the model's clock.  RegisterShard is split at the
// schedule point "RegisterShard.afterAdd" (op `add` runs it up to the point, op `announce` releases it).
//
// One op line = one action of the Lean machine S2S.Gossip.step; the observation after each op is
// every live node's local shard table, remoteNodeStates, pending registrations, live local
// streams, the in-flight list and the clock.

import (
	"context"
	"encoding/json"
	"fmt"
	"os"
	"sort"
	"strconv"
	"strings"
	"sync"
	"testing"
	"testing/synctest"
	"time"

	"go.temporal.io/server/api/adminservice/v1"
	"go.temporal.io/server/client/history"
	"go.temporal.io/server/common/channel"
	"go.temporal.io/server/common/log"
	"google.golang.org/grpc/metadata"

	"github.com/temporalio/s2s-proxy/config"
	"github.com/temporalio/s2s-proxy/encryption"
	"github.com/temporalio/s2s-proxy/proxy"
)

const (
	gClaimCluster  = 2 // claimed (target) shards are (2, s)
	gSourceCluster = 1 // routed messages originate from source shard (1, 1)
	gMaxShard      = 3
)

const (
	findOverlap = "C09-overlapping-claims-evict-both"
	findStale   = "C09-stale-merge-resurrects-departed"
)

func gShard(s int) history.ClusterShardID {
	return history.ClusterShardID{ClusterID: gClaimCluster, ShardID: int32(s)}
}

var gSrcShard = history.ClusterShardID{ClusterID: gSourceCluster, ShardID: 1}

type gItem struct {
	kind               string // reg | unreg | snap
	from, to           int
	shard              int
	stamp              int64
	table              string // canonical content of a snapshot
	data               []byte
	deliveredN         int
	claim              *gReg // for reg items
	sentAfterDeparture bool
}

func (it *gItem) String() string {
	if it.kind == "snap" {
		return fmt.Sprintf("snap:%d>%d:%s", it.from, it.to, it.table)
	}
	return fmt.Sprintf("%s:%d>%d:%d@%d", it.kind, it.from, it.to, it.shard, it.stamp)
}

// gReg is one RegisterShard call (a claim) and the fake local stream that made it.
type gReg struct {
	node, shard int
	created     int64
	stamp       int64
	regAt       time.Time
	ch          chan proxy.RoutedMessage
	rel         chan struct{}
	done        chan time.Time
	announced   bool
	ended       bool
	dsts        []int
	evictedBy   *gReg              // the claim whose announcement removed this registration's entry
	cancel      context.CancelFunc // viaStreams: the context of the cluster's stream
	returned    chan struct{}      // viaStreams: closed when the stream handler returned
	stream      *srvStream         // viaStreams: the cluster's side of the stream
}

type gWorld struct {
	t          *testing.T
	n          int
	sms        []proxy.ShardManager
	base       time.Time
	net        []*gItem
	all        []*gItem // every item ever emitted
	departed   []bool
	leftAt     [][]bool // leftAt[m][n]: m processed NotifyLeave(n)
	staleMerge [][]bool // staleMerge[m][n]: m merged an in-flight snapshot of n after processing its leave
	regs       []*gReg
	mu         sync.Mutex
	curAdd     *gReg
	intra      map[[3]int]*srvStream // (node, peer, shard) -> fake intra-proxy server stream
	viol       []map[string]any
	ended      map[int]bool // shards for which a stream end removed an entry
	routeN     int
	// viaStreams: registrations are made by REAL proxyStreamSender streams opened on a real admin service handler
	viaStreams bool
	srv        []adminservice.AdminServiceServer
	lifetime   context.Context
	stop       context.CancelFunc
}

var gCur *gWorld

func gName(i int) string { return fmt.Sprintf("n%d", i) }
func gIndex(name string) int {
	if len(name) < 2 || name[0] != 'n' {
		return -1
	}
	v, err := strconv.Atoi(name[1:])
	if err != nil {
		return -1
	}
	return v
}

func newGWorld(t *testing.T, n int, viaStreams bool) *gWorld {
	w := &gWorld{t: t, n: n, base: time.Now(), intra: map[[3]int]*srvStream{}, ended: map[int]bool{}, viaStreams: viaStreams}
	w.lifetime, w.stop = context.WithCancel(context.Background())
	addrs := map[string]string{}
	for i := 0; i < n; i++ {
		addrs[gName(i)] = "127.0.0.1:1"
	}
	scc := config.ShardCountConfig{Mode: config.ShardCountRouting, LocalShardCount: 4, RemoteShardCount: 4}
	for i := 0; i < n; i++ {
		ml := &config.MemberlistConfig{Enabled: true, NodeName: gName(i), ProxyAddresses: addrs}
		sm := proxy.NewShardManager(ml, scc, encryption.TLSConfig{}, noopLoggers())
		proxy.VerifSetupCallbacks(sm)
		w.sms = append(w.sms, sm)
		if viaStreams {
			// the inbound admin service of instance i: the target cluster (id 2) opens its streams here
			w.srv = append(w.srv, proxy.NewAdminServiceProxyServer("y", newMultiClient(), newMultiClient(), proxy.AdminServiceOverrides{}, []string{"inbound"},
				func(int32, int32) {}, scc, proxy.LCMParameters{}, proxy.RoutingParameters{RoutingLocalShardCount: 4, DirectionLabel: "inbound"}, noopLoggers(), sm, w.lifetime))
		}
	}
	w.departed = make([]bool, n)
	w.leftAt = make([][]bool, n)
	w.staleMerge = make([][]bool, n)
	for i := range w.leftAt {
		w.leftAt[i] = make([]bool, n)
		w.staleMerge[i] = make([]bool, n)
	}
	// a registered intra-proxy sender towards every peer for every shard: a forward always finds its stream
	for i := 0; i < n; i++ {
		for p := 0; p < n; p++ {
			if p == i {
				continue
			}
			for s := 1; s <= gMaxShard; s++ {
				ss := newSrvStream(t.Context())
				w.intra[[3]int{i, p, s}] = ss
				proxy.VerifRegisterIntraSender(w.sms[i], gName(p), gShard(s), gSrcShard, ss)
			}
		}
	}
	gCur = w
	proxy.VerifSetBroadcastTap(func(node string, data []byte) { gCur.tap(node, data) })
	proxy.VerifSetPointHandler(func(name string) {
		if name != "RegisterShard.afterAdd" {
			return
		}
		w := gCur
		w.mu.Lock()
		r := w.curAdd
		w.curAdd = nil
		w.mu.Unlock()
		if r != nil {
			<-r.rel
		}
	})
	return w
}

func (w *gWorld) close() {
	for _, r := range w.regs {
		if !r.announced {
			r.announced = true
			close(r.rel)
		}
	}
	synctest.Wait()
	w.stop()
	if w.viaStreams {
		synctest.Wait()
		time.Sleep(3 * time.Second) // back-off sleepers and CloseSend guards of the real stream workers run out
		synctest.Wait()
	}
	proxy.VerifSetBroadcastTap(nil)
	proxy.VerifSetPointHandler(nil)
	gCur = nil
}

func (w *gWorld) logical(t time.Time) int64 { return int64(t.Sub(w.base) / time.Millisecond) }
func (w *gWorld) now() int64                { return w.logical(time.Now()) }

func parseShardKey(k string) int {
	p := strings.Split(k, ":")
	v, _ := strconv.Atoi(p[len(p)-1])
	return v
}

// tap: what broadcastShardChange would send, to every node currently in the sender's remoteNodeStates.
func (w *gWorld) tap(node string, data []byte) {
	var m proxy.ShardMessage
	if err := json.Unmarshal(data, &m); err != nil {
		w.t.Fatalf("tap: %v", err)
	}
	from := gIndex(node)
	kind := "reg"
	if m.Type == "unregister" {
		kind = "unreg"
	}
	var dsts []int
	for name := range proxy.VerifRemoteNodeStates(w.sms[from]) {
		if i := gIndex(name); i >= 0 && i != from {
			dsts = append(dsts, i)
		}
	}
	sort.Ints(dsts)
	var claim *gReg
	if kind == "reg" {
		for _, r := range w.regs {
			if r.node == from && r.shard == int(m.ClientShard.ShardID) && !r.announced {
				claim = r
				break
			}
		}
		if claim != nil {
			claim.stamp = w.logical(m.Timestamp)
			claim.dsts = dsts
		}
	}
	for _, d := range dsts {
		it := &gItem{kind: kind, from: from, to: d, shard: int(m.ClientShard.ShardID), stamp: w.logical(m.Timestamp), data: data, claim: claim}
		w.net = append(w.net, it)
		w.all = append(w.all, it)
	}
}

func (w *gWorld) tableOf(m map[string]time.Time) string {
	type e struct {
		s int
		c int64
	}
	var l []e
	for k, v := range m {
		l = append(l, e{parseShardKey(k), w.logical(v)})
	}
	sort.Slice(l, func(i, j int) bool { return l[i].s < l[j].s })
	var parts []string
	for _, x := range l {
		parts = append(parts, fmt.Sprintf("%d@%d", x.s, x.c))
	}
	return "[" + strings.Join(parts, ",") + "]"
}

func (w *gWorld) localTable(i int) map[string]time.Time {
	return proxy.VerifLocalShardCreated(w.sms[i])
}

func (w *gWorld) observe() string {
	var L, R, P, S, F []string
	for i := 0; i < w.n; i++ {
		if w.departed[i] {
			continue
		}
		sm := w.sms[i]
		L = append(L, fmt.Sprintf("n%d:%s", i, w.tableOf(w.localTable(i))))
		keys := proxy.VerifRemoteNodeStates(sm)
		states, _ := sm.GetRemoteShardsForPeer("")
		var ks []int
		for k := range keys {
			ks = append(ks, gIndex(k))
		}
		sort.Ints(ks)
		var rp []string
		for _, k := range ks {
			tbl := map[string]time.Time{}
			if st, ok := states[gName(k)]; ok {
				for sk, info := range st.Shards {
					tbl[sk] = info.Created
				}
			}
			rp = append(rp, fmt.Sprintf("%d:%s", k, w.tableOf(tbl)))
		}
		R = append(R, fmt.Sprintf("n%d:{%s}", i, strings.Join(rp, ",")))
		var pend, str []string
		var pr []*gReg
		for _, r := range w.regs {
			if r.node == i && !r.announced {
				pr = append(pr, r)
			}
		}
		sort.SliceStable(pr, func(a, b int) bool { return pr[a].shard < pr[b].shard })
		for _, r := range pr {
			pend = append(pend, fmt.Sprintf("%d@%d", r.shard, r.created))
		}
		P = append(P, fmt.Sprintf("n%d:[%s]", i, strings.Join(pend, ",")))
		for s := 1; s <= gMaxShard; s++ {
			if ch, ok := sm.GetRemoteSendChan(gShard(s)); ok {
				id := -1
				for k, r := range w.regs {
					if r.node == i && r.ch == ch {
						id = k // the channel's identity: the sequence number of the registration that created it
					}
				}
				str = append(str, fmt.Sprintf("%d#%d", s, id))
			}
		}
		S = append(S, fmt.Sprintf("n%d:[%s]", i, strings.Join(str, ",")))
	}
	for _, it := range w.net {
		F = append(F, it.String())
	}
	sort.Strings(F)
	return "L " + strings.Join(L, " ") + " | R " + strings.Join(R, " ") + " | P " + strings.Join(P, " ") + " | S " + strings.Join(S, " ") +
		" | F " + strings.Join(F, ",") + fmt.Sprintf(" | T %d", w.now())
}

func (w *gWorld) violation(what string, extra map[string]any) {
	v := map[string]any{"what": what}
	for k, x := range extra {
		v[k] = x
	}
	w.viol = append(w.viol, v)
}

func (w *gWorld) snapTable(data []byte) string {
	var st proxy.NodeShardState
	if err := json.Unmarshal(data, &st); err != nil {
		return "!" // not a snapshot (LocalState fell back to the bare node name)
	}
	tbl := map[string]time.Time{}
	for k, v := range st.Shards {
		tbl[k] = v.Created
	}
	return w.tableOf(tbl)
}

// exec runs one op line on the real code and returns the observation.
func (w *gWorld) exec(op string) string {
	f := strings.Fields(op)
	n := func(i int) int { v, _ := strconv.Atoi(f[i]); return v }
	switch f[0] {
	case "tick":
		time.Sleep(time.Millisecond)
	case "add":
		i, s := n(1), n(2)
		r := &gReg{node: i, shard: s, ch: make(chan proxy.RoutedMessage, 100), rel: make(chan struct{}), done: make(chan time.Time, 1)}
		w.regs = append(w.regs, r)
		sm := w.sms[i]
		w.mu.Lock()
		w.curAdd = r
		w.mu.Unlock()
		if w.viaStreams {
			// the target cluster opens a replication stream for its shard (2,s) on instance i: the REAL handler runs
			// streamRouting -> proxyStreamSender.Run -> SetRemoteSendChan, RegisterShard (parked at the schedule point)
			ctx, cancel := context.WithCancel(metadata.NewIncomingContext(w.lifetime, streamMD(gClaimCluster, int32(s), gSourceCluster, int32(s))))
			r.cancel, r.returned = cancel, make(chan struct{})
			ss := newSrvStream(ctx)
			r.stream = ss
			go func() { _ = w.srv[i].StreamWorkflowReplicationMessages(ss); close(r.returned) }()
			synctest.Wait()
			r.ch, _ = sm.GetRemoteSendChan(gShard(s))
		} else {
			sm.SetRemoteSendChan(gShard(s), r.ch) // what proxyStreamSender.Run does before RegisterShard
			go func() { r.done <- sm.RegisterShard(gShard(s)) }()
			synctest.Wait() // parked at the schedule point, after addLocalShard
		}
		r.created = w.logical(w.localTable(i)[proxy.ClusterShardIDtoShortString(gShard(s))])
	case "announce":
		i, s := n(1), n(2)
		for _, r := range w.regs {
			if r.node == i && r.shard == s && !r.announced {
				close(r.rel)
				synctest.Wait()
				r.announced = true // after the tap ran (the tap looks for the un-announced claim)
				if !w.viaStreams {
					r.regAt = <-r.done
				}
				break
			}
		}
	case "end":
		i, s, c, id := n(1), n(2), int64(n(3)), n(4)
		for k, r := range w.regs {
			if k == id && r.node == i && r.shard == s && r.created == c && r.announced && !r.ended {
				r.ended = true
				before := len(w.localTable(i))
				if w.viaStreams {
					r.cancel() // the cluster drops its stream: recvAck fails, the sender shuts down and runs its deferred calls
					synctest.Wait()
				} else {
					w.sms[i].UnregisterShard(gShard(s), r.regAt) // deferred calls of proxyStreamSender.Run, in their order
					w.sms[i].RemoveRemoteSendChan(gShard(s), r.ch)
				}
				if len(w.localTable(i)) < before {
					w.ended[s] = true
				}
				break
			}
		}
	case "deliver", "dsnap":
		var it *gItem
		idx := -1
		dup := f[len(f)-1] == "dup"
		for k, x := range w.net {
			if f[0] == "deliver" && x.kind == f[1] && x.from == n(2) && x.to == n(3) && x.shard == n(4) && x.stamp == int64(n(5)) {
				it, idx = x, k
				break
			}
			if f[0] == "dsnap" && x.kind == "snap" && x.from == n(1) && x.to == n(2) && strings.Trim(x.table, "[]") == strings.TrimPrefix(f[3], "-") {
				it, idx = x, k
				break
			}
		}
		if it == nil {
			return "not-in-flight"
		}
		if !dup {
			w.net = append(w.net[:idx:idx], w.net[idx+1:]...)
		}
		it.deliveredN++
		if it.kind == "snap" {
			proxy.VerifMergeRemoteState(w.sms[it.to], it.data)
			if w.leftAt[it.to][it.from] {
				w.staleMerge[it.to][it.from] = true
			}
		} else {
			key := proxy.ClusterShardIDtoShortString(gShard(it.shard))
			before, had := w.localTable(it.to)[key]
			proxy.VerifNotifyMsg(w.sms[it.to], it.data)
			if _, has := w.localTable(it.to)[key]; had && !has {
				for _, r := range w.regs {
					if r.node == it.to && r.shard == it.shard && r.created == w.logical(before) {
						r.evictedBy = it.claim
					}
				}
			}
		}
	case "snapshot":
		proxy.VerifMergeRemoteState(w.sms[n(2)], proxy.VerifLocalState(w.sms[n(1)]))
		if w.leftAt[n(2)][n(1)] {
			w.leftAt[n(2)][n(1)] = false // a snapshot taken after the leave was processed: the node is back
		}
	case "snapsend":
		data := proxy.VerifLocalState(w.sms[n(1)])
		it := &gItem{kind: "snap", from: n(1), to: n(2), data: data, table: w.snapTable(data)}
		w.net = append(w.net, it)
		w.all = append(w.all, it)
	case "nleave":
		proxy.VerifNotifyLeave(w.sms[n(1)], gName(n(2)))
		w.leftAt[n(1)][n(2)] = true
		w.staleMerge[n(1)][n(2)] = false
	case "depart":
		w.departed[n(1)] = true
	case "route":
		return w.route(n(2), n(3))
	default:
		w.t.Fatalf("bad gossip op %q", op)
	}
	return w.observe()
}

// route msg n s: DeliverMessagesToShardOwner on node n for shard (2,s); who got the message?
func (w *gWorld) route(i, s int) string {
	sm := w.sms[i]
	w.routeN++
	var local []chan proxy.RoutedMessage
	var localStreams []*srvStream
	for _, r := range w.regs {
		if r.node == i && r.shard == s {
			local = append(local, r.ch)
			if r.stream != nil {
				localStreams = append(localStreams, r.stream)
			}
		}
	}
	count := func() (int, map[int]int) {
		synctest.Wait() // a real sender forwards what it was handed to its cluster's stream
		l := 0
		for _, ch := range local {
			l += len(ch)
		}
		for _, ss := range localStreams {
			l += len(ss.Sent())
		}
		rem := map[int]int{}
		for p := 0; p < w.n; p++ {
			if ss := w.intra[[3]int{i, p, s}]; ss != nil {
				rem[p] = len(ss.Sent())
			}
		}
		return l, rem
	}
	l0, r0 := count()
	_, hadLocalChan := sm.GetRemoteSendChan(gShard(s)) // a local stream's channel is registered on this node right now
	msg := &proxy.RoutedMessage{SourceShard: gSrcShard, Resp: msgResp(int64(100 + w.routeN))}
	ok := sm.DeliverMessagesToShardOwner(gShard(s), msg, channel.NewShutdownOnce(), log.NewNoopLogger())
	l1, r1 := count()
	recipients := l1 - l0
	who := "none"
	if l1 > l0 {
		who = "local"
	}
	var owners []int
	if st, err := sm.GetRemoteShardsForPeer(""); err == nil {
		for name, x := range st {
			if _, has := x.Shards[proxy.ClusterShardIDtoShortString(gShard(s))]; has {
				owners = append(owners, gIndex(name))
			}
		}
	}
	for p, c := range r1 {
		if c > r0[p] {
			recipients += c - r0[p]
			if len(owners) == 1 {
				who = fmt.Sprintf("remote:%d", p)
			} else {
				who = "remote:any"
			}
			// monitor: the recipient is a node this instance knows as an owner
			known := false
			for _, o := range owners {
				known = known || o == p
			}
			if !known {
				w.violation(fmt.Sprintf("node %d forwarded a message for shard %d to node %d, which it does not know as an owner", i, s, p), nil)
			}
		}
	}
	for _, ch := range local { // the fake stream consumes what it was given
		for len(ch) > 0 {
			<-ch
		}
	}
	// monitor (routing clause): "handed to its local stream if one exists, otherwise to the known remote owner" — a local
	// stream for the shard is open on this node (its channel is in the registry), so the message belongs to it whoever the
	// ownership tables name
	if hadLocalChan && who != "local" {
		w.violation(fmt.Sprintf("node %d has an open local stream for shard %d, yet the message was %s (delivery returned %v): a message is handed to the local stream if one exists", i, s,
			map[bool]string{true: "sent to " + who, false: "handed to nobody"}[who != "none"], ok), nil)
	}
	// monitor (routing clause): true iff exactly one recipient, false iff none
	if ok && recipients != 1 {
		w.violation(fmt.Sprintf("delivery on node %d for shard %d returned true with %d recipients", i, s, recipients), nil)
	}
	if !ok && recipients != 0 {
		w.violation(fmt.Sprintf("delivery on node %d for shard %d returned false although %d recipient(s) got the message", i, s, recipients), nil)
	}
	return fmt.Sprintf("route %v %s", ok, who)
}

// ---- end-of-schedule monitor: a direct statement of the ownership clauses on the real tables ----

// complete: every emitted register announcement addressed to a live node was delivered at least once,
// no registration is parked at the schedule point, and every live node processed the leave of every departed one.
func (w *gWorld) complete() bool {
	for _, r := range w.regs {
		if !r.announced && !w.departed[r.node] {
			return false
		}
	}
	for _, it := range w.all {
		if it.kind == "reg" && !w.departed[it.to] && it.deliveredN == 0 {
			return false
		}
	}
	for d := 0; d < w.n; d++ {
		if !w.departed[d] {
			continue
		}
		for m := 0; m < w.n; m++ {
			if !w.departed[m] && !w.leftAt[m][d] {
				return false
			}
		}
	}
	return true
}

func (w *gWorld) finalMonitor(e *Env) {
	if !w.complete() {
		e.Count("end_incomplete")
		return
	}
	e.Count("end_complete")
	// (1) no node other than a newest claimant holds the shard: a holder's Created is >= the Created (and the
	//     stamp) of every claim of another node that was announced to it
	for m := 0; m < w.n; m++ {
		if w.departed[m] {
			continue
		}
		for key, created := range w.localTable(m) {
			s, c := parseShardKey(key), w.logical(created)
			for _, it := range w.all {
				if it.kind == "reg" && it.to == m && it.shard == s && it.deliveredN > 0 && it.claim != nil && it.claim.created > c {
					w.violation(fmt.Sprintf("node %d still holds shard %d registered at %d although the newer claim of node %d (registered at %d, announced at %d) reached it",
						m, s, c, it.from, it.claim.created, it.stamp), nil)
				}
			}
		}
	}
	// (2) departed nodes own nothing: absent from every live node's remoteNodeStates
	for m := 0; m < w.n; m++ {
		if w.departed[m] {
			continue
		}
		for name, shards := range proxy.VerifRemoteNodeStates(w.sms[m]) {
			d := gIndex(name)
			if d >= 0 && w.departed[d] {
				extra := map[string]any{}
				what := fmt.Sprintf("node %d has processed the leave of node %d but still lists it in remoteNodeStates (shards %v)", m, d, shards)
				if w.staleMerge[m][d] {
					extra["finding"] = findStale
					what += ": a full-state snapshot taken before the departure was merged after NotifyLeave"
				}
				w.violation(what, extra)
			}
		}
	}
	// (3) exactly one owner, at full strength: where every claimant of a shard is alive, knew the other claimants when it
	//     announced, all announcements arrived, no stream ended and the Created stamps are distinct, exactly the newest
	//     claimant holds the shard
	for s := 1; s <= gMaxShard; s++ {
		var claims []*gReg
		for _, r := range w.regs {
			if r.shard == s {
				claims = append(claims, r)
			}
		}
		if len(claims) == 0 || w.ended[s] {
			continue
		}
		ok := true
		var newest *gReg
		for _, k := range claims {
			if w.departed[k.node] {
				ok = false
			}
			for _, k2 := range claims {
				if k2.node == k.node {
					continue
				}
				if k.created == k2.created {
					ok = false // no unique newest claim
				}
				reached := false
				for _, it := range w.all {
					if it.claim == k && it.to == k2.node && it.deliveredN > 0 {
						reached = true
					}
				}
				if !reached {
					ok = false
				}
			}
			if newest == nil || k.created > newest.created || (k.created == newest.created && k.node == newest.node) {
				newest = k
			}
		}
		if !ok {
			e.Count("exactly_one_not_applicable")
			continue
		}
		var holders []int
		for m := 0; m < w.n; m++ {
			if _, has := w.localTable(m)[proxy.ClusterShardIDtoShortString(gShard(s))]; has && !w.departed[m] {
				holders = append(holders, m)
			}
		}
		disjoint := true
		for _, k := range claims {
			for _, k2 := range claims {
				if k.node != k2.node && !(k.stamp < k2.created || k2.stamp < k.created) {
					disjoint = false
				}
			}
		}
		if len(holders) == 1 && holders[0] == newest.node {
			e.Count("exactly_one_owner_holds")
			if !disjoint {
				e.Count("exactly_one_owner_holds_despite_overlap")
			}
			continue
		}
		extra := map[string]any{}
		what := fmt.Sprintf("shard %d: every announcement arrived, yet the holders are %v; the newest claim is node %d's (registered at %d, announced at %d)",
			s, holders, newest.node, newest.created, newest.stamp)
		if len(holders) == 0 && newest.evictedBy != nil && newest.evictedBy.created < newest.created {
			// the defect: an OLDER claim evicted the newest one, because its announcement carries the time of the broadcast
			streams := 0
			for _, k := range claims {
				if ch, has := w.sms[k.node].GetRemoteSendChan(gShard(s)); has && ch == k.ch {
					streams++
				}
			}
			extra["finding"] = findOverlap
			what += fmt.Sprintf("; it was evicted by the announcement (stamp %d) of node %d's OLDER claim (registered at %d); %d live local stream(s), no owner",
				newest.evictedBy.stamp, newest.evictedBy.node, newest.evictedBy.created, streams)
			if disjoint {
				delete(extra, "finding") // cannot happen with disjoint windows: not the documented situation
			}
		}
		w.violation(what, extra)
	}
}

// ---- running schedules ----

type gChooser func(w *gWorld, step int) string // next op ("" ends the schedule)

func runGossip(t *testing.T, e *Env, begin string, next gChooser) (ops []string, viol []map[string]any) {
	// a schedule takes milliseconds; one that does not finish means the real code is spinning or blocked on it
	stopWatchdog := e.Watchdog(90*time.Second, func() map[string]any {
		return map[string]any{"what": "the schedule did not finish: the shard managers are spinning or blocked while processing the last operation (no convergence)", "ops": append([]string{}, ops...)}
	})
	defer stopWatchdog()
	synctest.Test(t, func(t *testing.T) {
		if os.Getenv("VERIF_C09_MODEL") == "asis" && !strings.Contains(begin, " asis") {
			begin += " asis" // compare with the model of the tree before the C09 repair (used to re-confirm the old finding)
		}
		f := strings.Fields(begin)
		n, _ := strconv.Atoi(f[1])
		w := newGWorld(t, n, len(f) > 2 && f[2] == "streams")
		defer w.close()
		e.Emit(begin, "ok")
		ops = append(ops, begin)
		for i := 0; ; i++ {
			op := next(w, i)
			if op == "" {
				break
			}
			if i > 3000 {
				// every schedule of the generators ends after a few dozen operations once everything in flight was delivered
				w.violation(fmt.Sprintf("no convergence: after %d operations announcements are still being produced / in flight (the shard managers keep answering each other)", i), nil)
				break
			}
			ops = append(ops, op)
			obs := w.exec(op)
			e.Emit(op, obs)
			e.Count("op_" + strings.Fields(op)[0])
		}
		w.finalMonitor(e)
		for _, v := range w.viol {
			v["ops"] = append([]string{}, ops...)
			viol = append(viol, v)
		}
	})
	return
}

func replayGossip(t *testing.T, e *Env, c []string) []map[string]any {
	_, v := runGossip(t, e, c[0], func(w *gWorld, i int) string {
		if i+1 < len(c) {
			return c[i+1]
		}
		return ""
	})
	return v
}

var _ = os.Getenv

// ---- generators ----

type gClaimSpec struct{ node, shard int }

// canonical claim patterns: node and shard sequences up to renaming (first-appearance order)
func gPatterns(maxNodes, maxShards, length int) [][]gClaimSpec {
	var seqs func(k, limit int) [][]int
	seqs = func(k, limit int) [][]int {
		if k == 0 {
			return [][]int{{}}
		}
		var out [][]int
		for _, p := range seqs(k-1, limit) {
			mx := -1
			for _, v := range p {
				if v > mx {
					mx = v
				}
			}
			for v := 0; v <= mx+1 && v < limit; v++ {
				out = append(out, append(append([]int{}, p...), v))
			}
		}
		return out
	}
	var out [][]gClaimSpec
	for _, ns := range seqs(length, maxNodes) {
		for _, ss := range seqs(length, maxShards) {
			var c []gClaimSpec
			for i := range ns {
				c = append(c, gClaimSpec{ns[i], ss[i] + 1})
			}
			out = append(out, c)
		}
	}
	return out
}

// gExplorer is a stateless depth-first search over the interleavings of one claim pattern: at every
// step the enabled events are the next `add`, the `announce` of any parked registration and the
// delivery of any in-flight register announcement not delivered yet.
type gExplorer struct {
	n      int
	claims []gClaimSpec
	ticks  bool
	dup    bool
	path   []int
	branch []int
	random func(int) int // non-nil: random walk instead of DFS
	queue  []string
	added  int
	phase  int
	shards map[int]bool
}

func (x *gExplorer) next(w *gWorld, _ int) string {
	for {
		if len(x.queue) > 0 {
			op := x.queue[0]
			x.queue = x.queue[1:]
			return op
		}
		switch x.phase {
		case 0: // join: everybody knows everybody
			for a := 0; a < x.n; a++ {
				for b := 0; b < x.n; b++ {
					if a != b {
						x.queue = append(x.queue, fmt.Sprintf("snapshot %d %d", a, b))
					}
				}
			}
			x.phase = 1
		case 1:
			type evt struct{ ops []string }
			var en []evt
			tick := func(ops ...string) []string {
				if x.ticks {
					return append([]string{"tick"}, ops...)
				}
				return ops
			}
			if x.added < len(x.claims) {
				c := x.claims[x.added]
				en = append(en, evt{tick(fmt.Sprintf("add %d %d", c.node, c.shard))})
			}
			seen := map[string]bool{}
			for _, r := range w.regs {
				k := fmt.Sprintf("announce %d %d", r.node, r.shard)
				if !r.announced && !seen[k] {
					seen[k] = true
					en = append(en, evt{tick(k)})
				}
			}
			var items []string
			for _, it := range w.net {
				if it.kind == "reg" && it.deliveredN == 0 {
					s := fmt.Sprintf("deliver reg %d %d %d %d", it.from, it.to, it.shard, it.stamp)
					if !seen[s] {
						seen[s] = true
						items = append(items, s)
					}
				}
			}
			sort.Strings(items)
			for _, s := range items {
				if x.dup {
					s += " dup"
				}
				en = append(en, evt{[]string{s}})
			}
			if len(en) == 0 {
				x.phase = 2
				continue
			}
			step := len(x.branch)
			choice := 0
			if x.random != nil {
				choice = x.random(len(en))
			} else if step < len(x.path) {
				choice = x.path[step]
			}
			x.branch = append(x.branch, len(en))
			if step >= len(x.path) {
				x.path = append(x.path, choice)
			}
			if len(en[choice].ops) > 0 && strings.HasPrefix(en[choice].ops[len(en[choice].ops)-1], "add ") {
				x.added++
			}
			x.queue = append(x.queue, en[choice].ops...)
		case 2: // the kept copies arrive a second time (latest first), then every unregister announcement
			var again, unregs []string
			for i := len(w.net) - 1; i >= 0; i-- {
				it := w.net[i]
				if it.kind == "reg" {
					again = append(again, fmt.Sprintf("deliver reg %d %d %d %d", it.from, it.to, it.shard, it.stamp))
				}
			}
			x.queue = append(x.queue, again...)
			x.phase = 3
			_ = unregs
		case 3:
			var unregs []string
			for _, it := range w.net {
				if it.kind == "unreg" {
					unregs = append(unregs, fmt.Sprintf("deliver unreg %d %d %d %d", it.from, it.to, it.shard, it.stamp))
				}
			}
			sort.Strings(unregs)
			x.queue = append(x.queue, unregs...)
			// fresh push/pull everywhere, then one routed message per node and shard
			for a := 0; a < x.n; a++ {
				for b := 0; b < x.n; b++ {
					if a != b {
						x.queue = append(x.queue, fmt.Sprintf("snapshot %d %d", a, b))
					}
				}
			}
			var ss []int
			for _, c := range x.claims {
				if !x.shards[c.shard] {
					x.shards[c.shard] = true
					ss = append(ss, c.shard)
				}
			}
			sort.Ints(ss)
			for a := 0; a < x.n; a++ {
				for _, s := range ss {
					x.queue = append(x.queue, fmt.Sprintf("route msg %d %d", a, s))
				}
			}
			x.phase = 4
		default:
			return ""
		}
	}
}

// advance moves to the next DFS path; false when the tree is exhausted.
func (x *gExplorer) advance() bool {
	for i := len(x.branch) - 1; i >= 0; i-- {
		if x.path[i]+1 < x.branch[i] {
			x.path = append(x.path[:i:i], x.path[i]+1)
			return true
		}
	}
	return false
}

func (x *gExplorer) reset() {
	x.branch, x.queue, x.added, x.phase, x.shards = nil, nil, 0, 0, map[int]bool{}
}

func patternString(n int, c []gClaimSpec) string {
	var p []string
	for _, k := range c {
		p = append(p, fmt.Sprintf("n%d:s%d", k.node, k.shard))
	}
	return fmt.Sprintf("%dnodes[%s]", n, strings.Join(p, ","))
}

// gRandom generates one random schedule online.
type gRandom struct {
	e        *Env
	n        int
	steps    int
	queue    []string
	phase    int
	maxClaim int
	shards   int
}

func (g *gRandom) next(w *gWorld, _ int) string {
	rng := g.e.Rng
	for {
		if len(g.queue) > 0 {
			op := g.queue[0]
			g.queue = g.queue[1:]
			return op
		}
		live := []int{}
		for i := 0; i < g.n; i++ {
			if !w.departed[i] {
				live = append(live, i)
			}
		}
		pick := func(l []int) int { return l[rng.IntN(len(l))] }
		switch g.phase {
		case 0: // joins: usually everybody, sometimes a partial mesh
			full := rng.IntN(5) != 0
			for a := 0; a < g.n; a++ {
				for b := 0; b < g.n; b++ {
					if a != b && (full || rng.IntN(2) == 0) {
						g.queue = append(g.queue, fmt.Sprintf("snapshot %d %d", a, b))
					}
				}
			}
			g.phase = 1
		case 1:
			if g.steps <= 0 {
				g.phase = 2
				continue
			}
			g.steps--
			switch r := rng.IntN(100); {
			case r < 12:
				g.queue = append(g.queue, "tick")
			case r < 28:
				if len(w.regs) < g.maxClaim {
					op := fmt.Sprintf("add %d %d", pick(live), 1+rng.IntN(g.shards))
					if rng.IntN(8) != 0 {
						g.queue = append(g.queue, "tick")
					}
					g.queue = append(g.queue, op)
				}
			case r < 44:
				for _, r := range w.regs {
					if !r.announced && !w.departed[r.node] {
						if rng.IntN(8) != 0 {
							g.queue = append(g.queue, "tick")
						}
						g.queue = append(g.queue, fmt.Sprintf("announce %d %d", r.node, r.shard))
						break
					}
				}
			case r < 66:
				if len(w.net) > 0 {
					it := w.net[rng.IntN(len(w.net))]
					if w.departed[it.to] {
						continue
					}
					dup := ""
					if rng.IntN(4) == 0 {
						dup = " dup"
					}
					if it.kind == "snap" {
						tbl := strings.Trim(it.table, "[]")
						if tbl == "" {
							tbl = "-"
						}
						g.queue = append(g.queue, fmt.Sprintf("dsnap %d %d %s%s", it.from, it.to, tbl, dup))
					} else {
						g.queue = append(g.queue, fmt.Sprintf("deliver %s %d %d %d %d%s", it.kind, it.from, it.to, it.shard, it.stamp, dup))
					}
				}
			case r < 71:
				var cands []*gReg
				for _, r := range w.regs {
					if r.announced && !r.ended && !w.departed[r.node] {
						cands = append(cands, r)
					}
				}
				if len(cands) > 0 {
					r := cands[rng.IntN(len(cands))]
					for k, x := range w.regs {
						if x == r {
							g.queue = append(g.queue, fmt.Sprintf("end %d %d %d %d", r.node, r.shard, r.created, k))
						}
					}
				}
			case r < 80:
				if len(live) >= 2 {
					a, b := pick(live), pick(live)
					if a != b {
						g.queue = append(g.queue, fmt.Sprintf("snapshot %d %d", a, b))
					}
				}
			case r < 87:
				if len(live) >= 2 {
					a, b := pick(live), pick(live)
					if a != b {
						g.queue = append(g.queue, fmt.Sprintf("snapsend %d %d", a, b))
					}
				}
			case r < 90:
				if len(live) >= 2 {
					g.queue = append(g.queue, fmt.Sprintf("depart %d", pick(live)))
				}
			case r < 95:
				for d := 0; d < g.n; d++ {
					if w.departed[d] {
						m := pick(live)
						if !w.leftAt[m][d] {
							g.queue = append(g.queue, fmt.Sprintf("nleave %d %d", m, d))
							break
						}
					}
				}
			default:
				g.queue = append(g.queue, fmt.Sprintf("route msg %d %d", pick(live), 1+rng.IntN(g.shards)))
			}
		case 2: // completion: everything parked is announced, everything in flight towards a live node arrives, leaves are processed
			progress := false
			for _, r := range w.regs {
				if !r.announced && !w.departed[r.node] {
					g.queue = append(g.queue, "tick", fmt.Sprintf("announce %d %d", r.node, r.shard))
					progress = true
					break
				}
			}
			if progress {
				continue
			}
			for _, it := range w.net {
				if it.kind != "snap" && !w.departed[it.to] {
					g.queue = append(g.queue, fmt.Sprintf("deliver %s %d %d %d %d", it.kind, it.from, it.to, it.shard, it.stamp))
					progress = true
					break
				}
			}
			if progress {
				continue
			}
			// leaves; a snapshot of a departed node still in flight arrives before or after the leave
			for d := 0; d < g.n && !progress; d++ {
				if !w.departed[d] {
					continue
				}
				for _, m := range live {
					if !w.leftAt[m][d] {
						g.queue = append(g.queue, fmt.Sprintf("nleave %d %d", m, d))
						progress = true
						break
					}
				}
			}
			if progress {
				continue
			}
			for _, it := range w.net {
				if it.kind == "snap" && !w.departed[it.to] && rng.IntN(3) != 0 {
					tbl := strings.Trim(it.table, "[]")
					if tbl == "" {
						tbl = "-"
					}
					g.queue = append(g.queue, fmt.Sprintf("dsnap %d %d %s", it.from, it.to, tbl))
				}
			}
			for _, m := range live {
				for s := 1; s <= g.shards; s++ {
					g.queue = append(g.queue, fmt.Sprintf("route msg %d %d", m, s))
				}
			}
			g.phase = 3
		default:
			return ""
		}
	}
}

func TestC09(t *testing.T) {
	e := NewEnv(t, "gossip")
	defer e.Close(t)
	report := func(vs []map[string]any) {
		for _, v := range vs {
			e.Violation(v)
		}
	}
	if cases := e.ReplayLines(t); cases != nil {
		for _, c := range cases {
			report(replayGossip(t, e, c))
			e.Evals++
		}
		return
	}
	for _, c := range e.CorpusCases(t) {
		report(replayGossip(t, e, c))
		e.Evals++
		e.Count("corpus_case")
	}
	nontrivial := func(ops []string) bool {
		adds, other := 0, false
		for _, o := range ops {
			if strings.HasPrefix(o, "add ") {
				adds++
			}
			if strings.HasPrefix(o, "nleave") || strings.HasPrefix(o, "route") {
				other = true
			}
		}
		return adds >= 2 || other
	}
	record := func(ops []string) {
		e.Evals++
		if nontrivial(ops) {
			e.Distinct(fnv(strings.Join(ops, "|")))
		}
	}

	// (1) every interleaving of every small claim pattern
	capPer, sample := 800, 120
	if e.Thorough() {
		capPer, sample = 4000, 1500
	}
	if v, err := strconv.Atoi(os.Getenv("VERIF_C09_CAP")); err == nil && v > 0 {
		capPer = v
	}
	completeAll := true
	exhaustive := map[string]any{}
	for _, n := range []int{2, 3} {
		for length := 1; length <= 3; length++ {
			for _, pat := range gPatterns(n, 2, length) {
				for _, mode := range []struct{ ticks, dup bool }{{true, false}, {true, true}, {false, false}} {
					if !mode.ticks && length > 2 {
						continue // equal-stamp variants for up to two claims
					}
					x := &gExplorer{n: n, claims: pat, ticks: mode.ticks, dup: mode.dup}
					runs, complete := 0, false
					for {
						x.reset()
						ops, viol := runGossip(t, e, fmt.Sprintf("begin %d", n), x.next)
						record(ops)
						report(viol)
						runs++
						if runs <= 1 && len(e.Samples) < 3 && length >= 2 {
							e.Sample(ops)
						}
						if !x.advance() {
							complete = true
							break
						}
						if runs >= capPer {
							break
						}
					}
					if !complete {
						completeAll = false
						// beyond the cap: a seeded sample of random walks through the same tree
						for i := 0; i < sample; i++ {
							x.reset()
							x.path = nil
							x.random = e.Rng.IntN
							ops, viol := runGossip(t, e, fmt.Sprintf("begin %d", n), x.next)
							record(ops)
							report(viol)
							runs++
						}
						x.random = nil
					}
					key := patternString(n, pat)
					if !mode.ticks {
						key += "/equal-stamps"
					} else if mode.dup {
						key += "/dup"
					}
					exhaustive[key] = map[string]any{"runs": runs, "complete": complete}
					e.Dist["interleavings"] += runs
					if complete {
						e.Count("patterns_explored_completely")
					} else {
						e.Count("patterns_sampled_beyond_cap")
					}
				}
			}
		}
	}
	e.Stats["exhaustive"] = completeAll
	e.Stats["extra"] = map[string]any{"claim_patterns": exhaustive}

	// (1b) the same search with the registrations made by REAL proxyStreamSender streams (two claims)
	for _, n := range []int{2, 3} {
		for _, pat := range gPatterns(n, 2, 2) {
			if pat[0] == pat[1] {
				continue // a second stream for the same shard on the same instance first tears the previous one down: C08's machinery
			}
			x := &gExplorer{n: n, claims: pat, ticks: true}
			runs := 0
			for {
				x.reset()
				ops, viol := runGossip(t, e, fmt.Sprintf("begin %d streams", n), x.next)
				record(ops)
				report(viol)
				runs++
				e.Count("interleavings_through_real_streams")
				if !x.advance() || runs >= capPer {
					break
				}
			}
		}
	}

	// (3) routing clause on the real delivery functions, (4) ReconcilePeerStreams, excluded point of the snapshot size
	c09RouteMessages(t, e)
	c09RouteAcks(t, e)
	c09Reconcile(t, e)
	e.Stats["extra"].(map[string]any)["snapshot_limit"] = c09SnapshotLimit(t, e)

	// (2) random schedules
	nr := 400
	if e.Thorough() {
		nr = 30000
	}
	for i := 0; i < nr; i++ {
		g := &gRandom{e: e, n: 2 + e.Rng.IntN(2), steps: 8 + e.Rng.IntN(40), maxClaim: 2 + e.Rng.IntN(4), shards: 1 + e.Rng.IntN(2)}
		ops, viol := runGossip(t, e, fmt.Sprintf("begin %d", g.n), g.next)
		record(ops)
		report(viol)
		if i == 0 {
			e.Sample(ops)
		}
	}
}
