package eng

// Shared plumbing for all engines.  Every engine is a Go test function (so that
// testing/synctest is available) driven by environment variables:
//
//	VERIF_SEED  integer seed; every random choice derives from it
//	VERIF_TIER  quick | thorough
//	VERIF_OUT   directory receiving ops.txt (lines for the Lean driver), impl.txt (the real
//	            code's canonical observation per op line) and stats.json
//	VERIF_REPLAY optional path of a replay/corpus file to run instead of generating
import (
	"bufio"
	"encoding/json"
	"fmt"
	"math/rand/v2"
	"os"
	"path/filepath"
	"sort"
	"strconv"
	"strings"
	"testing"
)

type Env struct {
	Seed    uint64
	Tier    string
	Out     string
	Replay  string
	Rng     *rand.Rand
	ops     *bufio.Writer
	impl    *bufio.Writer
	opsF    *os.File
	implF   *os.File
	Lines   int
	Stats   map[string]any
	Dist    map[string]int
	Samples []any
	// monitor violations: each is a replayable description
	Violations []map[string]any
	distinct   map[uint64]struct{}
	Evals      int
	unattributed int
}

func NewEnv(t *testing.T, engine string) *Env {
	e := &Env{Tier: os.Getenv("VERIF_TIER"), Out: os.Getenv("VERIF_OUT"), Replay: os.Getenv("VERIF_REPLAY")}
	if e.Tier == "" {
		e.Tier = "quick"
	}
	if s := os.Getenv("VERIF_SEED"); s != "" {
		v, err := strconv.ParseUint(s, 10, 64)
		if err != nil {
			t.Fatalf("bad VERIF_SEED %q", s)
		}
		e.Seed = v
	}
	if e.Out == "" {
		t.Skip("VERIF_OUT not set (engine tests are driven by /verif/check)")
	}
	if err := os.MkdirAll(e.Out, 0o755); err != nil {
		t.Fatal(err)
	}
	e.Rng = rand.New(rand.NewPCG(e.Seed, 0x5eed0000+uint64(len(engine))))
	var err error
	if e.opsF, err = os.Create(filepath.Join(e.Out, "ops.txt")); err != nil {
		t.Fatal(err)
	}
	if e.implF, err = os.Create(filepath.Join(e.Out, "impl.txt")); err != nil {
		t.Fatal(err)
	}
	e.ops = bufio.NewWriterSize(e.opsF, 1<<20)
	e.impl = bufio.NewWriterSize(e.implF, 1<<20)
	e.Stats = map[string]any{}
	e.Dist = map[string]int{}
	e.distinct = map[uint64]struct{}{}
	fmt.Fprintf(e.ops, "engine %s\n", engine)
	fmt.Fprintf(e.impl, "engine %s\n", engine)
	return e
}

// Emit writes one op line for the model driver and the implementation's observation for it.
func (e *Env) Emit(op string, obs string) {
	if strings.ContainsAny(op, "\n") || strings.ContainsAny(obs, "\n") {
		panic("newline in protocol line")
	}
	e.ops.WriteString(op)
	e.ops.WriteByte('\n')
	e.impl.WriteString(obs)
	e.impl.WriteByte('\n')
	e.Lines++
}

func (e *Env) Count(k string) { e.Dist[k]++ }

func (e *Env) Sample(v any) {
	if len(e.Samples) < 5 {
		e.Samples = append(e.Samples, v)
	}
}

// Distinct records a canonical case hash; returns true when new.
func (e *Env) Distinct(h uint64) bool {
	if _, ok := e.distinct[h]; ok {
		return false
	}
	e.distinct[h] = struct{}{}
	return true
}

func (e *Env) Violation(v map[string]any) {
	e.Dist["monitor_violation"]++
	if f, ok := v["finding"].(string); ok && f != "" {
		// violations attributed to a listed finding: a few witnesses each are enough
		e.Dist["finding_"+f]++
		if e.Dist["finding_"+f] <= 3 {
			e.Violations = append(e.Violations, v)
		}
		return
	}
	e.unattributed++
	if e.unattributed <= 50 { // anything not attributed is always kept
		e.Violations = append(e.Violations, v)
	}
}

func (e *Env) Close(t *testing.T) {
	e.ops.Flush()
	e.impl.Flush()
	e.opsF.Close()
	e.implF.Close()
	e.Stats["lines"] = e.Lines
	e.Stats["evaluations"] = e.Evals
	e.Stats["distinct_nontrivial"] = len(e.distinct)
	e.Stats["dist"] = e.Dist
	e.Stats["samples"] = e.Samples
	e.Stats["violations"] = e.Violations
	e.Stats["seed"] = e.Seed
	e.Stats["tier"] = e.Tier
	b, _ := json.MarshalIndent(e.Stats, "", " ")
	if err := os.WriteFile(filepath.Join(e.Out, "stats.json"), b, 0o644); err != nil {
		t.Fatal(err)
	}
}

func fnv(s string) uint64 {
	h := uint64(1469598103934665603)
	for i := 0; i < len(s); i++ {
		h ^= uint64(s[i])
		h *= 1099511628211
	}
	return h
}

func sortedKeys[V any](m map[string]V) []string {
	ks := make([]string, 0, len(m))
	for k := range m {
		ks = append(ks, k)
	}
	sort.Strings(ks)
	return ks
}

func (e *Env) Thorough() bool { return e.Tier == "thorough" }

// ReplayLines returns the op lines of a replay/corpus file (JSON {"ops":[...]}), or nil.
func (e *Env) ReplayLines(t *testing.T) [][]string {
	if e.Replay == "" {
		return nil
	}
	b, err := os.ReadFile(e.Replay)
	if err != nil {
		t.Fatal(err)
	}
	var r struct {
		Cases [][]string `json:"cases"`
		Ops   []string   `json:"ops"`
	}
	if err := json.Unmarshal(b, &r); err != nil {
		t.Fatal(err)
	}
	if len(r.Ops) > 0 {
		r.Cases = append(r.Cases, r.Ops)
	}
	return r.Cases
}

// CorpusCases returns all cases of the property's corpus directory (VERIF_CORPUS), sorted by file.
func (e *Env) CorpusCases(t *testing.T) [][]string {
	dir := os.Getenv("VERIF_CORPUS")
	if dir == "" || e.Replay != "" {
		return nil
	}
	files, _ := filepath.Glob(filepath.Join(dir, "*.json"))
	sort.Strings(files)
	var out [][]string
	for _, f := range files {
		e.Replay = f
		out = append(out, e.ReplayLines(t)...)
		e.Dist["corpus_files"]++
	}
	e.Replay = ""
	return out
}
