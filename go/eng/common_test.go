package eng

// Shared plumbing for all engines.  Every engine is a Go test function (so that
// testing/synctest is available) driven by environment variables:
//
//	VERIF_SEED  integer seed; every random choice derives from it
//	VERIF_TIER  quick | thorough
//	VERIF_OUT   directory receiving ops.txt (lines for the Lean driver), impl.txt (the real
//	            code's canonical observation per op line) and stats.json
//	VERIF_REPLAY optional path of a replay/corpus file to run instead of generating
import (
	"bufio"
	"encoding/json"
	"fmt"
	"math/rand/v2"
	"os"
	"path/filepath"
	"sort"
	"strconv"
	"strings"
	"sync"
	"sync/atomic"
	"testing"
	"time"
)

type Env struct {
	Seed    uint64
	Tier    string
	Out     string
	Replay  string
	Rng     *rand.Rand
	ops     *bufio.Writer
	impl    *bufio.Writer
	opsF    *os.File
	implF   *os.File
	Lines   int
	Stats   map[string]any
	Dist    map[string]int
	Samples []any
	// monitor violations: each is a replayable description
	Violations   []map[string]any
	distinct     map[uint64]struct{}
	Evals        int
	unattributed int
	mu           sync.Mutex // protects the protocol writers (Emit vs the background flusher / the watchdog)
	stopFlush    chan struct{}
	stopping     atomic.Bool // set by the watchdog: engine goroutines park at their next Env call
}

// park blocks an engine goroutine for good once the watchdog has taken over (it is writing the results and exits).
func (e *Env) park() {
	if e.stopping.Load() {
		select {}
	}
}

func NewEnv(t *testing.T, engine string) *Env {
	e := &Env{Tier: os.Getenv("VERIF_TIER"), Out: os.Getenv("VERIF_OUT"), Replay: os.Getenv("VERIF_REPLAY")}
	if e.Tier == "" {
		e.Tier = "quick"
	}
	if s := os.Getenv("VERIF_SEED"); s != "" {
		v, err := strconv.ParseUint(s, 10, 64)
		if err != nil {
			t.Fatalf("bad VERIF_SEED %q", s)
		}
		e.Seed = v
	}
	if e.Out == "" {
		t.Skip("VERIF_OUT not set (engine tests are driven by /verif/check)")
	}
	if err := os.MkdirAll(e.Out, 0o755); err != nil {
		t.Fatal(err)
	}
	e.Rng = rand.New(rand.NewPCG(e.Seed, 0x5eed0000+uint64(len(engine))))
	var err error
	if e.opsF, err = os.Create(filepath.Join(e.Out, "ops.txt")); err != nil {
		t.Fatal(err)
	}
	if e.implF, err = os.Create(filepath.Join(e.Out, "impl.txt")); err != nil {
		t.Fatal(err)
	}
	e.ops = bufio.NewWriterSize(e.opsF, 1<<20)
	e.impl = bufio.NewWriterSize(e.implF, 1<<20)
	e.Stats = map[string]any{}
	e.Dist = map[string]int{}
	e.distinct = map[uint64]struct{}{}
	fmt.Fprintf(e.ops, "engine %s\n", engine)
	fmt.Fprintf(e.impl, "engine %s\n", engine)
	// flush the protocol files every few seconds, so that after a crash or a hang of the real code the case that
	// was running can be read from the tail of ops.txt (`check` attaches it to the replay file)
	e.stopFlush = make(chan struct{})
	go func() {
		tk := time.NewTicker(3 * time.Second)
		defer tk.Stop()
		for {
			select {
			case <-e.stopFlush:
				return
			case <-tk.C:
				e.mu.Lock()
				e.ops.Flush()
				e.impl.Flush()
				e.mu.Unlock()
			}
		}
	}()
	return e
}

// Watchdog guards one case in REAL time (arm it outside any synctest bubble): if the case does not finish within d the
// real code is spinning or blocked; the violation `describe()` returns is recorded, the protocol files and stats are
// written, and the engine process ends normally so that `check` reports the violation with the case as its replay.
func (e *Env) Watchdog(d time.Duration, describe func() map[string]any) (stop func()) {
	done := make(chan struct{})
	go func() {
		select {
		case <-done:
		case <-time.After(d):
			v := describe()
			e.stopping.Store(true)
			time.Sleep(300 * time.Millisecond) // engine goroutines still running park at their next Env call
			e.mu.Lock()
			e.Violations = append(e.Violations, v)
			e.Dist["monitor_violation"]++
			e.Dist["watchdog_fired"]++
			e.mu.Unlock()
			_ = e.finish()
			fmt.Fprintln(os.Stderr, "watchdog: a case did not finish in real time; violation recorded, engine stopped")
			os.Exit(0)
		}
	}()
	return func() { close(done) }
}

// Progress is the "what is running now" record of an engine whose cases run inside a synctest bubble (where timers are
// virtual): the engine calls Step before every operation; StallWatchdog, started OUTSIDE the bubble, fires when no Step has
// happened for d of REAL time — the real code hangs (dead-lock, goroutines blocked on a lock the bubble cannot see) on the
// recorded case, which becomes the failing input.
type Progress struct {
	mu   sync.Mutex
	tick int64
	ops  []string
}

func (p *Progress) Step(ops []string, next string) {
	p.mu.Lock()
	p.tick++
	p.ops = append(append([]string{}, ops...), next)
	p.mu.Unlock()
}

func (e *Env) StallWatchdog(d time.Duration, p *Progress, what string) (stop func()) {
	done := make(chan struct{})
	go func() {
		last, since := int64(-1), time.Now()
		for {
			select {
			case <-done:
				return
			case <-time.After(time.Second):
			}
			p.mu.Lock()
			tick, ops := p.tick, append([]string{}, p.ops...)
			p.mu.Unlock()
			if tick != last {
				last, since = tick, time.Now()
				continue
			}
			if tick > 0 && time.Since(since) > d {
				e.stopping.Store(true)
				time.Sleep(300 * time.Millisecond)
				e.mu.Lock()
				e.Violations = append(e.Violations, map[string]any{"what": what, "ops": ops})
				e.Dist["monitor_violation"]++
				e.Dist["watchdog_fired"]++
				e.mu.Unlock()
				_ = e.finish()
				fmt.Fprintln(os.Stderr, "watchdog: a case did not finish in real time; violation recorded, engine stopped")
				os.Exit(0)
			}
		}
	}()
	return func() { close(done) }
}

// Emit writes one op line for the model driver and the implementation's observation for it.
func (e *Env) Emit(op string, obs string) {
	if strings.ContainsAny(op, "\n") || strings.ContainsAny(obs, "\n") {
		panic("newline in protocol line")
	}
	e.park()
	e.mu.Lock()
	e.ops.WriteString(op)
	e.ops.WriteByte('\n')
	e.impl.WriteString(obs)
	e.impl.WriteByte('\n')
	e.Lines++
	e.mu.Unlock()
}

// FlushNow writes the buffered protocol lines out (engines whose cases can crash the process call it per case).
func (e *Env) FlushNow() {
	e.mu.Lock()
	e.ops.Flush()
	e.impl.Flush()
	e.mu.Unlock()
}

func (e *Env) Count(k string) { e.park(); e.Dist[k]++ }

func (e *Env) Sample(v any) {
	if len(e.Samples) < 5 {
		e.Samples = append(e.Samples, v)
	}
}

// Distinct records a canonical case hash; returns true when new.
func (e *Env) Distinct(h uint64) bool {
	if _, ok := e.distinct[h]; ok {
		return false
	}
	e.distinct[h] = struct{}{}
	return true
}

const maxUnattributed = 8

func (e *Env) Violation(v map[string]any) {
	e.park()
	e.Dist["monitor_violation"]++
	if f, ok := v["finding"].(string); ok && f != "" {
		// violations attributed to a listed finding: a few witnesses each are enough
		e.Dist["finding_"+f]++
		if e.Dist["finding_"+f] <= 3 {
			e.Violations = append(e.Violations, v)
		}
		return
	}
	e.unattributed++
	if e.unattributed <= 50 { // anything not attributed is always kept
		e.Violations = append(e.Violations, v)
	}
	if e.unattributed == maxUnattributed && os.Getenv("VERIF_KEEP_GOING") == "" {
		// the verdict is settled and the witnesses are recorded; on a broken tree every further case can cost seconds
		// (hangs, retries until a bound): stop here, write the results, end the engine normally
		e.Dist["stopped_after_violations"]++
		e.stopping.Store(true)
		if err := e.finish(); err != nil {
			fmt.Fprintln(os.Stderr, err)
			os.Exit(2)
		}
		fmt.Fprintf(os.Stderr, "%d violations not attributed to a recorded finding: engine stopped early\n", maxUnattributed)
		os.Exit(0)
	}
}

func (e *Env) Close(t *testing.T) {
	if err := e.finish(); err != nil {
		t.Fatal(err)
	}
}

func (e *Env) finish() error {
	select {
	case <-e.stopFlush:
	default:
		close(e.stopFlush)
	}
	e.mu.Lock()
	defer e.mu.Unlock()
	e.ops.Flush()
	e.impl.Flush()
	e.opsF.Close()
	e.implF.Close()
	e.Stats["lines"] = e.Lines
	e.Stats["evaluations"] = e.Evals
	e.Stats["distinct_nontrivial"] = len(e.distinct)
	e.Stats["dist"] = e.Dist
	e.Stats["samples"] = e.Samples
	e.Stats["violations"] = e.Violations
	e.Stats["seed"] = e.Seed
	e.Stats["tier"] = e.Tier
	b, _ := json.MarshalIndent(e.Stats, "", " ")
	return os.WriteFile(filepath.Join(e.Out, "stats.json"), b, 0o644)
}

func fnv(s string) uint64 {
	h := uint64(1469598103934665603)
	for i := 0; i < len(s); i++ {
		h ^= uint64(s[i])
		h *= 1099511628211
	}
	return h
}

func sortedKeys[V any](m map[string]V) []string {
	ks := make([]string, 0, len(m))
	for k := range m {
		ks = append(ks, k)
	}
	sort.Strings(ks)
	return ks
}

func (e *Env) Thorough() bool { return e.Tier == "thorough" }

// ReplayLines returns the op lines of a replay/corpus file (JSON {"ops":[...]}), or nil.
func (e *Env) ReplayLines(t *testing.T) [][]string {
	if e.Replay == "" {
		return nil
	}
	b, err := os.ReadFile(e.Replay)
	if err != nil {
		t.Fatal(err)
	}
	var r struct {
		Cases [][]string `json:"cases"`
		Ops   []string   `json:"ops"`
	}
	if err := json.Unmarshal(b, &r); err != nil {
		t.Fatal(err)
	}
	if len(r.Ops) > 0 {
		r.Cases = append(r.Cases, r.Ops)
	}
	return r.Cases
}

// CorpusCases returns all cases of the property's corpus directory (VERIF_CORPUS), sorted by file.
func (e *Env) CorpusCases(t *testing.T) [][]string {
	dir := os.Getenv("VERIF_CORPUS")
	if dir == "" || e.Replay != "" {
		return nil
	}
	files, _ := filepath.Glob(filepath.Join(dir, "*.json"))
	sort.Strings(files)
	var out [][]string
	for _, f := range files {
		e.Replay = f
		out = append(out, e.ReplayLines(t)...)
		e.Dist["corpus_files"]++
	}
	e.Replay = ""
	return out
}
