package eng

import "math/big"

func bigMask(set map[int]bool) string {
	n := new(big.Int)
	for k, v := range set {
		if v {
			n.SetBit(n, k, 1)
		}
	}
	return n.String()
}
