package eng

// C10 with the REAL receiving connection provider (transport/mux/receiver.go) on a loopback TCP listener: the scripted
// pipe world replaces receivingConnProvider.NewConnection / its listener, so what the receiver does with connections
// beyond its pool size — and with all of them at shutdown — is exercised here. The peer dials MORE connections than the
// pool holds (a peer configured with a larger pool, a port probe, a racing reconnect). Monitor (real time): never more
// than N sessions registered; after shutdown every connection the peer has opened, registered or not, is closed.

import (
	"context"
	"fmt"
	"io"
	"net"
	"sync"
	"testing"
	"time"

	"github.com/hashicorp/yamux"
	"go.temporal.io/server/common/log"

	"github.com/temporalio/s2s-proxy/config"
	"github.com/temporalio/s2s-proxy/transport/mux"
)

func c10ReceiverReal(t *testing.T, e *Env) {
	type scen struct{ n, extra int }
	scens := []scen{{1, 1}, {2, 1}, {2, 2}}
	if e.Thorough() {
		scens = append(scens, scen{3, 1}, scen{1, 3}, scen{4, 2}, scen{1, 0})
	}
	type outcome struct {
		op    string
		viols []string
	}
	results := make([]outcome, len(scens))
	var wg sync.WaitGroup
	for si, sc := range scens {
		wg.Add(1)
		go func() {
			defer wg.Done()
			res := &results[si]
			res.op = fmt.Sprintf("# receiver-real scenario %d: pool %d, the peer dials %d connection(s)", si, sc.n, sc.n+sc.extra)
			ctx, cancel := context.WithCancel(context.Background())
			defer cancel()
			name := fmt.Sprintf("rcv%d", muxWorldSeq.Add(1))
			labels := []string{name, "receiver", "verif"}
			builder := func(cb mux.AddNewMux, lt context.Context) (mux.MuxProvider, error) {
				return mux.NewMuxReceiverProvider(lt, name, cb, int64(sc.n), config.TCPTLSInfo{ConnectionString: "127.0.0.1:0"}, labels, log.NewNoopLogger())
			}
			mgr, err := mux.NewCustomMultiMuxManager(ctx, name, builder, nil, nil, log.NewNoopLogger())
			if err != nil {
				res.viols = append(res.viols, "harness: "+err.Error())
				return
			}
			mgr.Start()
			addr := mgr.Address()
			var conns []net.Conn
			var sessions []*yamux.Session
			defer func() {
				for _, s := range sessions {
					_ = s.Close()
				}
				for _, c := range conns {
					_ = c.Close()
				}
			}()
			for i := 0; i < sc.n+sc.extra; i++ {
				c, err := net.DialTimeout("tcp", addr, 3*time.Second)
				if err != nil {
					res.viols = append(res.viols, fmt.Sprintf("harness: dial %d: %v", i, err))
					return
				}
				conns = append(conns, c)
				if i < sc.n { // the first N become sessions; the others stay raw connections nobody speaks on
					s, err := yamux.Client(c, yamuxQuiet())
					if err == nil {
						sessions = append(sessions, s)
					}
				}
			}
			maxSeen, full := 0, false
			for w := time.Now(); time.Since(w) < 10*time.Second; time.Sleep(20 * time.Millisecond) {
				r := len(mgr.GetMuxConnections())
				maxSeen = max(maxSeen, r)
				if r == sc.n {
					full = true
					break
				}
			}
			time.Sleep(300 * time.Millisecond) // whatever the receiver does with the surplus connections has happened
			maxSeen = max(maxSeen, len(mgr.GetMuxConnections()))
			if !full {
				res.viols = append(res.viols, fmt.Sprintf("real receiver: %d peer sessions offered to a pool of %d, %d registered after 10 s", sc.n, sc.n, len(mgr.GetMuxConnections())))
			}
			if maxSeen > sc.n {
				res.viols = append(res.viols, fmt.Sprintf("real receiver: %d sessions registered in a pool of %d", maxSeen, sc.n))
			}
			cancel() // shutdown
			closed := false
			for w := time.Now(); time.Since(w) < 10*time.Second; time.Sleep(20 * time.Millisecond) {
				if mgr.IsClosed() && len(mgr.GetMuxConnections()) == 0 {
					closed = true
					break
				}
			}
			if !closed {
				res.viols = append(res.viols, fmt.Sprintf("real receiver: 10 s after shutdown the manager is closed=%v with %d session(s) registered", mgr.IsClosed(), len(mgr.GetMuxConnections())))
				return
			}
			// every connection the peer opened must now be closed from the proxy's side: a read ends with EOF / reset
			// (sessions: the yamux session reports closed)
			for i, c := range conns {
				if i < len(sessions) {
					select {
					case <-sessions[i].CloseChan():
					case <-time.After(5 * time.Second):
						res.viols = append(res.viols, fmt.Sprintf("real receiver: 5 s after shutdown completed, the peer's session %d of %d is still open", i, sc.n))
					}
					continue
				}
				_ = c.SetReadDeadline(time.Now().Add(5 * time.Second))
				buf := make([]byte, 1)
				_, err := c.Read(buf)
				if ne, ok := err.(net.Error); err == nil || (ok && ne.Timeout()) {
					res.viols = append(res.viols, fmt.Sprintf("real receiver (pool %d): 5 s after shutdown completed, connection %d of the %d the peer opened is still open (read: %v): after shutdown every connection must be closed", sc.n, i+1, sc.n+sc.extra, err))
				} else if err != io.EOF {
					_ = err // reset by peer etc.: closed
				}
			}
		}()
	}
	wg.Wait()
	for _, res := range results {
		e.Emit(res.op, "#")
		e.Evals++
		e.Count("receiver_real_scenario")
		for _, v := range res.viols {
			e.Violation(map[string]any{"what": v, "ops": []string{res.op}})
		}
	}
}
