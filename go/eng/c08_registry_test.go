package eng

// C08 — reconnecting streams never orphan, steal or crash a shard's registration (engine "registry").
//
// The REAL shard manager (proxy.NewShardManager, memberlist off, callbacks wired by VerifSetupCallbacks) and
// two REAL adminServiceProxyServers in routing mode (exactly as newRWorld in routing_test.go) run inside a
// synctest bubble.  Every stream the harness opens is one INCARNATION (numbered 0,1,2,... in opening order) of
// the stream of a client shard c = 100*cluster+shard; streamRouting starts its proxyStreamSender and its
// proxyStreamReceiver.
//
// Deterministic scheduler.  The proxy's goroutines are stopped at SCHEDULE POINTS: the four verifPoint hooks of
// /repo/proxy/verif_points.go plus the log statements that precede the registry operations (the loggers handed to
// the shard manager and the servers are ours; a log call made while no lock is held is a legal place to be
// descheduled).  Every goroutine is attributed to its incarnation through its creation ancestry.  All workers are
// always held at their next point; the harness releases ONE at a time, waits for quiescence (synctest.Wait) and
// looks at the registries, so one released step corresponds to a fixed sequence of atomic steps of the Lean
// model.  After every op the workers that are not paused by the trace run on in a canonical order (newest
// incarnation first, sender before receiver) – the Lean driver does the same.
//
// ops:   open <c> [fail]   new incarnation of the stream of client shard c; `fail`: the receiver's client stream cannot
//                          be opened.  Virtual time advances 1 ms before EVERY addLocalShard (registrations are told
//                          apart by their time stamp).
//        open! <c>         the same, but registrations performed during this op see no time pass (equal stamps)
//        break <i>         the incoming stream of incarnation i fails
//        pause <point> <i> / resume <point> <i>
//        wm <i> <high>     the source of receiver i sends a watermark-only batch
//        settle            2 s of virtual time (tickers, keep-alives)
//        end               lifetime ends, everything is released; registries must be empty, handlers returned
//
// Hooks: the verifPoint hooks of /repo/proxy (RegisterShard.afterAdd, UnregisterShard.afterUnlock, sender.beforeClose,
// sender.afterClose and replay.afterLookup = between the replay's channel look-up and its send) are used.  The 13 log points replace hooks that
// would be cleaner as verifPoint lines (requested, not required): top of proxyStreamReceiver.Run (before
// TerminatePreviousLocalReceiver; today GetLocalReceiverCancelFunc runs together with the release of the handler),
// inside TerminatePreviousLocalReceiver after the get / after the cancel / after RemoveLocalReceiverCancelFunc, before
// SetLocalAckChan / SetLocalReceiverCancelFunc / RegisterActiveReceiver, in the deferred clean-up before
// RemoveLocalAckChan, after the outgoingContext.Err() test, before UnregisterActiveReceiver, in proxyStreamSender.Run
// before SetRemoteSendChan and before RemoveRemoteSendChan.  (RegisterActiveReceiver / UnregisterActiveReceiver have no preceding log
// line, so the engine cannot stop there: the model splits them, the driver runs them together.)
//
// Every trace runs in a CHILD PROCESS (the same test binary, -test.run ^TestC08Child$): a panic in a proxy
// goroutine or goroutines left blocked when the bubble ends kill only the child and become the observations
// `crashed` / `leak n`.

import (
	"bufio"
	"bytes"
	"context"
	"encoding/json"
	"errors"
	"fmt"
	persistencepb "go.temporal.io/server/api/persistence/v1"
	replicationpb "go.temporal.io/server/api/replication/v1"
	"os"
	"os/exec"
	"runtime"
	"sort"
	"strconv"
	"strings"
	"sync"
	"testing"
	"testing/synctest"
	"time"

	"go.temporal.io/server/api/adminservice/v1"
	"go.temporal.io/server/client/history"
	"go.temporal.io/server/common/log"
	"go.temporal.io/server/common/log/tag"
	"google.golang.org/grpc"
	"google.golang.org/grpc/metadata"

	"github.com/temporalio/s2s-proxy/config"
	"github.com/temporalio/s2s-proxy/encryption"
	"github.com/temporalio/s2s-proxy/logging"
	"github.com/temporalio/s2s-proxy/proxy"
)

// ---- schedule points ---------------------------------------------------------------------------------------

// log message -> point.  Only messages logged while NO lock is held may appear here.
var c08LogPoints = map[string]string{
	"streamRouting started":                                                    "r.start",
	"Terminating previous local receiver for shard":                            "r.term",
	"Remove local receiver cancel function for shard":                          "r.termRm|r.rmCancel", // resolved by the receiver's previous point
	"Force remove local ack channel for shard":                                 "r.termAck",
	"proxyStreamReceiver outgoingContext created":                              "r.open",
	"Register local ack channel for shard":                                     "r.setAck",
	"Register local receiver cancel function for shard":                        "r.setCancel",
	"Remove local ack channel for shard":                                       "r.rmAck",
	"Register remote send channel for shard":                                   "s.start",
	"RegisterShard":                                                            "s.set",
	"Sending pending watermark to newly registered shard":                      "s.replay",
	"UnregisterShard completed":                                                "s.rmChan",
	"Skipped unregistering shard (timestamp mismatch or already unregistered)": "s.rmChan",
}

var c08HookPoints = map[string]bool{
	"RegisterShard.afterAdd": true, "sender.beforeClose": true, "sender.afterClose": true, "UnregisterShard.afterUnlock": true,
	"replay.afterLookup": true, // between the replay's GetRemoteSendChan and its send (sendPendingWatermarkToShard)
}

// points a trace may pause at
var c08AllPoints = []string{"s.start", "s.set", "RegisterShard.afterAdd", "s.replay", "replay.afterLookup", "sender.beforeClose", "sender.afterClose",
	"UnregisterShard.afterUnlock", "s.rmChan", "r.start", "r.term", "r.termRm", "r.termAck", "r.open", "r.setAck", "r.setCancel", "r.rmAck", "r.rmCancel"}

func c08Role(point string) byte {
	if strings.HasPrefix(point, "r.") {
		return 'r'
	}
	return 's'
}

// clean-up points: a step released from one of them may only remove entries of its own incarnation
var c08CleanupPoints = map[string]bool{"sender.afterClose": true, "UnregisterShard.afterUnlock": true, "s.rmChan": true, "r.rmAck": true, "r.rmCancel": true}

var c08Cur struct {
	mu sync.RWMutex
	w  *c08World
}

func c08World0() *c08World {
	c08Cur.mu.RLock()
	defer c08Cur.mu.RUnlock()
	return c08Cur.w
}

type c08Logger struct{}

func (c08Logger) at(msg string) {
	if p, ok := c08LogPoints[msg]; ok {
		if w := c08World0(); w != nil {
			w.hold(p)
		}
	}
}
func (l c08Logger) Debug(msg string, _ ...tag.Tag)  { l.at(msg) }
func (l c08Logger) Info(msg string, _ ...tag.Tag)   { l.at(msg) }
func (l c08Logger) Warn(msg string, _ ...tag.Tag)   {}
func (l c08Logger) Error(msg string, _ ...tag.Tag)  {}
func (l c08Logger) DPanic(msg string, _ ...tag.Tag) {}
func (l c08Logger) Panic(msg string, _ ...tag.Tag)  {}
func (l c08Logger) Fatal(msg string, _ ...tag.Tag)  {}

type c08Loggers struct{}

func (c08Loggers) Get(logging.LogComponentName) log.Logger  { return c08Logger{} }
func (p c08Loggers) With(...tag.Tag) logging.LoggerProvider { return p }

// goroutine id and the id of the goroutine that created it, from the runtime's own traceback
func c08Goroutine(withParent bool) (gid, parent int64) {
	size := 64
	if withParent {
		size = 1 << 16
	}
	buf := make([]byte, size)
	buf = buf[:runtime.Stack(buf, false)]
	// "goroutine 123 [running...]:"
	if f := bytes.Fields(buf[:min(len(buf), 48)]); len(f) >= 2 {
		gid, _ = strconv.ParseInt(string(f[1]), 10, 64)
	}
	parent = -1
	if withParent {
		if i := bytes.LastIndex(buf, []byte(" in goroutine ")); i >= 0 {
			rest := buf[i+len(" in goroutine "):]
			if j := bytes.IndexByte(rest, '\n'); j >= 0 {
				rest = rest[:j]
			}
			parent, _ = strconv.ParseInt(strings.TrimSpace(string(rest)), 10, 64)
		}
	}
	return
}

// ---- world --------------------------------------------------------------------------------------------------

type c08Key struct {
	inc  int
	role byte
}

type c08Hold struct {
	inc  int
	role byte
	pos  string
	ch   chan struct{}
}

type c08Inc struct {
	id       int
	shard    int
	csid     history.ClusterShardID
	srv      *srvStream
	cancel   context.CancelFunc
	cli      *cliStream
	failOpen bool
	returned bool
	broken   bool
	stamp    time.Time
	hasStamp bool
	lastRPos string
	wmSent   int64 // the highest watermark this incarnation's source has sent to its receiver (accepted by Recv)
	// facts for the monitor (step numbers; 0 = has not happened)
	openFailed     bool
	tSet, tAdd     int   // SetRemoteSendChan / addLocalShard ran
	tGet, tReg     int   // the receiver's start-up began (GetLocalReceiverCancelFunc) / ended (RegisterActiveReceiver)
	tCheck         int   // the clean-up's context check ran
	tCancelled     int   // a successor's TerminatePreviousLocalReceiver cancelled our context
	terminatedBy   int   // ... that successor (-1: none)
	gotCancelOf    int   // whose cancel function our TerminatePreviousLocalReceiver found (-1: none)
	addInUnregOf   []int // our addLocalShard ran while these incarnations sat between the two deletes of UnregisterShard
	wipedBySecond  bool  // ... and the rest of UnregisterShard of one of them then removed our localShards entry
	setInCleanupOf []int // we registered cancel func / active receiver while these sat between their context check and their removals
}

type c08Client struct {
	adminservice.AdminServiceClient
	w *c08World
}

func (c *c08Client) StreamWorkflowReplicationMessages(ctx context.Context, _ ...grpc.CallOption) (adminservice.AdminService_StreamWorkflowReplicationMessagesClient, error) {
	w := c.w
	k := w.resolve()
	w.mu.Lock()
	defer w.mu.Unlock()
	if k < 0 || k >= len(w.incs) {
		return nil, errors.New("c08: stream opened by an unknown goroutine")
	}
	in := w.incs[k]
	if in.failOpen {
		in.openFailed = true
		return nil, errors.New("c08: injected open failure")
	}
	in.cli = newCliStream(ctx)
	return in.cli, nil
}

type c08View struct {
	L, S, A, R int  // owner incarnation, -1 = none, -2 = unknown object
	C          bool // presence only
}

type c08World struct {
	t           *testing.T
	mu          sync.Mutex
	sm          proxy.ShardManager
	srvX        adminservice.AdminServiceServer // serves streams whose client shard is in cluster 1
	srvY        adminservice.AdminServiceServer // ... cluster 2
	lifetime    context.Context
	stopAll     context.CancelFunc
	incs        []*c08Inc
	gids        map[int64]int
	held        map[c08Key]*c08Hold
	paused      map[string]bool
	free        bool // teardown: nobody is held any more
	shards      []int
	adders      map[int][]int // shard -> incarnations in the order of their addLocalShard
	sendOwner   map[chan proxy.RoutedMessage]int
	ackOwner    map[chan proxy.RoutedAck]int
	recvOwner   map[proxy.ActiveReceiver]int
	cancelOwner map[int]int     // shard -> incarnation that last registered a cancel func (harness knowledge)
	base        map[string]bool // goroutines of the bubble that belong to the test framework
	steps       int
	artefact    bool // the trace used `open!`
	floodID     int64
	noTick      bool // `open!`: registrations of this op do not see time pass
	viol        []map[string]any
}

func c08Csid(c int) history.ClusterShardID {
	return history.ClusterShardID{ClusterID: int32(c / 100), ShardID: int32(c % 100)}
}

func newC08World(t *testing.T) *c08World {
	w := &c08World{t: t, gids: map[int64]int{}, held: map[c08Key]*c08Hold{}, paused: map[string]bool{}, adders: map[int][]int{},
		sendOwner: map[chan proxy.RoutedMessage]int{}, ackOwner: map[chan proxy.RoutedAck]int{}, recvOwner: map[proxy.ActiveReceiver]int{},
		cancelOwner: map[int]int{}}
	w.base = map[string]bool{}
	for _, g := range c08BubbleGoroutines() {
		w.base[strings.SplitN(g, " [", 2)[0]] = true
	}
	loggers := c08Loggers{}
	scc := config.ShardCountConfig{Mode: config.ShardCountRouting, LocalShardCount: 4, RemoteShardCount: 4}
	w.lifetime, w.stopAll = context.WithCancel(context.Background())
	w.sm = proxy.NewShardManager(nil, scc, encryption.TLSConfig{}, loggers)
	proxy.VerifSetupCallbacks(w.sm)
	cl := &c08Client{w: w}
	w.srvX = proxy.NewAdminServiceProxyServer("x", cl, cl, proxy.AdminServiceOverrides{}, []string{"outbound"}, func(int32, int32) {}, scc,
		proxy.LCMParameters{}, proxy.RoutingParameters{RoutingLocalShardCount: 4, DirectionLabel: "outbound"}, loggers, w.sm, w.lifetime)
	w.srvY = proxy.NewAdminServiceProxyServer("y", cl, cl, proxy.AdminServiceOverrides{}, []string{"inbound"}, func(int32, int32) {}, scc,
		proxy.LCMParameters{}, proxy.RoutingParameters{RoutingLocalShardCount: 4, DirectionLabel: "inbound"}, loggers, w.sm, w.lifetime)
	c08Cur.mu.Lock()
	c08Cur.w = w
	c08Cur.mu.Unlock()
	proxy.VerifSetPointHandler(func(name string) {
		if c08HookPoints[name] {
			w.hold(name)
		}
	})
	return w
}

func (w *c08World) detach() {
	proxy.VerifSetPointHandler(nil)
	c08Cur.mu.Lock()
	c08Cur.w = nil
	c08Cur.mu.Unlock()
}

// resolve: the incarnation the calling goroutine belongs to (creation ancestry), -1 if none
func (w *c08World) resolve() int {
	gid, _ := c08Goroutine(false)
	w.mu.Lock()
	k, ok := w.gids[gid]
	w.mu.Unlock()
	if ok {
		return k
	}
	_, parent := c08Goroutine(true)
	w.mu.Lock()
	defer w.mu.Unlock()
	if pk, ok := w.gids[parent]; ok {
		w.gids[gid] = pk
		return pk
	}
	w.gids[gid] = -1
	return -1
}

// hold: called by a proxy goroutine at a schedule point; blocks until the harness releases it
func (w *c08World) hold(point string) {
	k := w.resolve()
	if k < 0 {
		return
	}
	w.mu.Lock()
	if w.free {
		w.mu.Unlock()
		return
	}
	in := w.incs[k]
	if point == "r.termRm|r.rmCancel" {
		if in.lastRPos == "r.term" {
			point = "r.termRm"
		} else {
			point = "r.rmCancel"
		}
	}
	role := c08Role(point)
	if role == 'r' {
		in.lastRPos = point
	}
	if point == "RegisterShard.afterAdd" {
		in.stamp, in.hasStamp = time.Now(), true // no time passes between addLocalShard and this point
		w.adders[in.shard] = append(w.adders[in.shard], k)
	}
	h := &c08Hold{inc: k, role: role, pos: point, ch: make(chan struct{})}
	w.held[c08Key{k, role}] = h
	w.mu.Unlock()
	<-h.ch
}

func (w *c08World) violation(what string, extra map[string]any) {
	if w.artefact {
		return // `open!` made two registrations share a clock instant: the distinct-stamps assumption does not hold in this trace
	}
	v := map[string]any{"what": what}
	for k, x := range extra {
		v[k] = x
	}
	w.viol = append(w.viol, v)
}

// view: which incarnation (if any) each of the five registries holds for shard c
func (w *c08World) view(c int) c08View {
	csid := c08Csid(c)
	v := c08View{L: -1, S: -1, A: -1, R: -1}
	if created, ok := proxy.VerifLocalShardCreated(w.sm)[proxy.ClusterShardIDtoShortString(csid)]; ok {
		v.L = -2
		for _, k := range w.adders[c] {
			if w.incs[k].hasStamp && w.incs[k].stamp.Equal(created) {
				v.L = k // the last registration with this stamp
			}
		}
	}
	if ch, ok := w.sm.GetRemoteSendChan(csid); ok {
		if k, ok := w.sendOwner[ch]; ok {
			v.S = k
		} else {
			v.S = -2
		}
	}
	if ch, ok := w.sm.GetLocalAckChan(csid); ok {
		if k, ok := w.ackOwner[ch]; ok {
			v.A = k
		} else {
			v.A = -2
		}
	}
	_, v.C = w.sm.GetLocalReceiverCancelFunc(csid)
	if r, ok := w.sm.GetActiveReceiver(csid); ok {
		if k, ok := w.recvOwner[r]; ok {
			v.R = k
		} else {
			v.R = -2
		}
	}
	return v
}

// learn: objects that appeared while only incarnation k's worker ran belong to k
func (w *c08World) learn(k int) {
	for _, c := range w.shards {
		csid := c08Csid(c)
		if ch, ok := w.sm.GetRemoteSendChan(csid); ok {
			if _, seen := w.sendOwner[ch]; !seen {
				w.sendOwner[ch] = k
			}
		}
		if ch, ok := w.sm.GetLocalAckChan(csid); ok {
			if _, seen := w.ackOwner[ch]; !seen {
				w.ackOwner[ch] = k
			}
		}
		if r, ok := w.sm.GetActiveReceiver(csid); ok {
			if _, seen := w.recvOwner[r]; !seen {
				w.recvOwner[r] = k
			}
		}
	}
}

func (w *c08World) heldAt(point string, shard int, except int) []int {
	var out []int
	for _, h := range w.held {
		if h.pos == point && h.inc != except && w.incs[h.inc].shard == shard {
			out = append(out, h.inc)
		}
	}
	sort.Ints(out)
	return out
}

func c08Has(l []int, x int) bool {
	for _, y := range l {
		if y == x {
			return true
		}
	}
	return false
}

// release one held worker, run it to its next point, look at the registries (monitor: clean-up removes only its own entries)
func (w *c08World) release(h *c08Hold) {
	w.mu.Lock()
	delete(w.held, c08Key{h.inc, h.role})
	in := w.incs[h.inc]
	before := map[int]c08View{}
	for _, c := range w.shards {
		before[c] = w.view(c)
	}
	cancelOwnerBefore, okc := w.cancelOwner[in.shard]
	if !okc {
		cancelOwnerBefore = -1
	}
	_, hadCancel := w.sm.GetLocalReceiverCancelFunc(in.csid)
	// structural facts used only to attribute a monitor violation to a documented finding
	w.steps++
	switch h.pos {
	case "s.start":
		in.tSet = w.steps
	case "s.set": // the step performs addLocalShard
		in.tAdd = w.steps
		in.addInUnregOf = w.heldAt("UnregisterShard.afterUnlock", in.shard, h.inc)
	case "r.start": // the step performs GetLocalReceiverCancelFunc
		in.tGet = w.steps
		in.gotCancelOf = -1
		if hadCancel {
			in.gotCancelOf = cancelOwnerBefore
		}
	case "r.setCancel": // the step performs SetLocalReceiverCancelFunc + RegisterActiveReceiver
		in.tReg = w.steps
		in.setInCleanupOf = w.heldAt("r.rmCancel", in.shard, h.inc)
	case "r.term": // the step calls the predecessor's cancel function
		if g := in.gotCancelOf; g >= 0 && w.incs[g].terminatedBy < 0 {
			w.incs[g].terminatedBy, w.incs[g].tCancelled = h.inc, w.steps
		}
	case "r.rmAck": // the step performs RemoveLocalAckChan and the context check
		in.tCheck = w.steps
	}
	w.mu.Unlock()
	if h.pos == "s.set" && !w.noTick {
		// the step performs addLocalShard: registrations are told apart by their time stamp, so time passes before each
		// one (two registrations in one instant of the bubble's virtual clock would be an artefact of the harness)
		time.Sleep(time.Millisecond)
	}
	close(h.ch)
	synctest.Wait()
	w.mu.Lock()
	defer w.mu.Unlock()
	w.learn(h.inc)
	if h.pos == "r.setCancel" {
		w.cancelOwner[in.shard] = h.inc
	}
	if c08CleanupPoints[h.pos] {
		for _, c := range w.shards {
			a, b := before[c], w.view(c)
			chk := func(reg string, x, y int) {
				if x >= 0 && x != h.inc && y != x {
					if reg == "localShards" && h.pos == "UnregisterShard.afterUnlock" && c08Has(w.incs[x].addInUnregOf, h.inc) {
						w.incs[x].wipedBySecond = true
					}
					w.violation(fmt.Sprintf("clean-up step of incarnation %d at %s removed the %s entry of shard %d owned by incarnation %d", h.inc, h.pos, reg, c, x),
						w.attribute(reg, x, h))
				}
			}
			chk("localShards", a.L, b.L)
			chk("remoteSendChannels", a.S, b.S)
			chk("localAckChannels", a.A, b.A)
			chk("activeReceivers", a.R, b.R)
			if c == in.shard && a.C && !b.C && cancelOwnerBefore != h.inc && cancelOwnerBefore >= 0 {
				w.violation(fmt.Sprintf("clean-up step of incarnation %d at %s removed the cancel function of shard %d registered by incarnation %d", h.inc, h.pos, c, cancelOwnerBefore),
					w.attribute("localReceiverCancelFuncs", cancelOwnerBefore, h))
			}
		}
	}
}

// attribute: is the violation about `victim`'s entry in `reg` exactly one of the documented structural situations?
// (h: the clean-up step that removed the entry, nil for a violation seen at quiescence)
func (w *c08World) attribute(reg string, victim int, h *c08Hold) map[string]any {
	v := w.incs[victim]
	tag := func(f string) map[string]any { return map[string]any{"finding": f} }
	switch reg {
	case "localShards":
		if v.wipedBySecond && (h == nil || (h.pos == "UnregisterShard.afterUnlock" && c08Has(v.addInUnregOf, h.inc))) {
			return tag("C08-unregister-double-delete") // repaired: not a listed finding any more, its return is a VIOLATION
		}
	case "localReceiverCancelFuncs", "activeReceivers":
		for _, gi := range v.setInCleanupOf {
			g := w.incs[gi]
			if (h == nil || (h.pos == "r.rmCancel" && h.inc == gi)) && g.tCheck > 0 && (g.tCancelled == 0 || g.tCheck < g.tCancelled) {
				return tag("C08-receiver-cleanup-check-then-remove") // it passed its context check before the successor cancelled it
			}
		}
	}
	// start-up order: two incarnations i < j of the shard are in order when i's sender registered before j's
	// (SetRemoteSendChan and addLocalShard) and i's receiver had finished its start-up (RegisterActiveReceiver)
	// before j's began (GetLocalReceiverCancelFunc).  Anything else is the documented start-up-order situation.
	inf := func(t int) int {
		if t == 0 {
			return 1 << 30
		}
		return t
	}
	overlap, inverted := false, false
	for _, i := range w.incs {
		for _, j := range w.incs {
			if i.id >= j.id || i.shard != v.shard || j.shard != v.shard {
				continue
			}
			if i.tGet == 0 && j.tGet == 0 {
				continue
			}
			if inf(i.tGet) < inf(j.tReg) && inf(j.tGet) < inf(i.tReg) && i.tGet > 0 && j.tGet > 0 {
				overlap = true
			} else if inf(j.tGet) < inf(i.tReg) {
				inverted = true
			}
			if inf(j.tSet) < inf(i.tSet) && j.tSet > 0 || inf(j.tAdd) < inf(i.tAdd) && j.tAdd > 0 {
				inverted = true
			}
		}
	}
	switch {
	case overlap && reg != "localShards" && reg != "remoteSendChannels":
		return tag("C08-overlapping-receiver-startups")
	case inverted:
		return tag("C08-late-start-of-older-incarnation")
	case overlap:
		return tag("C08-overlapping-receiver-startups")
	}
	return nil
}

// autorun: every held worker the trace has not paused runs on, newest incarnation first, sender before receiver
func (w *c08World) autorun() {
	for {
		synctest.Wait()
		w.mu.Lock()
		var best *c08Hold
		for _, h := range w.held {
			if w.paused[h.pos+"/"+strconv.Itoa(h.inc)] {
				continue
			}
			if best == nil || h.inc > best.inc || (h.inc == best.inc && h.role == 's' && best.role == 'r') {
				best = h
			}
		}
		w.mu.Unlock()
		if best == nil {
			return
		}
		w.release(best)
	}
}

func (w *c08World) open(c int, fail bool) {
	k := len(w.incs)
	csid := c08Csid(c)
	peer := int32(3 - c/100)
	md := streamMD(csid.ClusterID, csid.ShardID, peer, csid.ShardID)
	ctx, cancel := context.WithCancel(metadata.NewIncomingContext(w.lifetime, md))
	in := &c08Inc{id: k, shard: c, csid: csid, srv: newSrvStream(ctx), cancel: cancel, failOpen: fail, terminatedBy: -1, gotCancelOf: -1}
	w.mu.Lock()
	w.incs = append(w.incs, in)
	found := false
	for _, s := range w.shards {
		found = found || s == c
	}
	if !found {
		w.shards = append(w.shards, c)
		sort.Ints(w.shards)
	}
	w.mu.Unlock()
	srv := w.srvX
	if c/100 == 2 {
		srv = w.srvY
	}
	go func() {
		gid, _ := c08Goroutine(false)
		w.mu.Lock()
		w.gids[gid] = k
		w.mu.Unlock()
		_ = srv.StreamWorkflowReplicationMessages(in.srv)
		w.mu.Lock()
		in.returned = true
		w.mu.Unlock()
	}()
}

func (w *c08World) exec(op string) string {
	f := strings.Fields(op)
	n := func(i int) int { v, _ := strconv.Atoi(f[i]); return v }
	final := false
	switch f[0] {
	case "open", "open!":
		w.noTick = f[0] == "open!"
		w.artefact = w.artefact || w.noTick
		w.open(n(1), len(f) > 2 && f[2] == "fail")
	case "break":
		if k := n(1); k < len(w.incs) && !w.incs[k].broken {
			w.incs[k].broken = true
			w.incs[k].cancel()
		}
	case "pause":
		w.paused[f[1]+"/"+f[2]] = true
		return w.observe(false)
	case "resume":
		delete(w.paused, f[1]+"/"+f[2])
	case "wm":
		if k := n(1); k < len(w.incs) && w.incs[k].cli != nil {
			synctest.Wait()
			select {
			case w.incs[k].cli.in <- ev[repResp]{v: msgRespFrom(k, int64(n(2)))}: // tagged with the incarnation (Priority travels with the message)
				if int64(n(2)) > w.incs[k].wmSent {
					w.incs[k].wmSent = int64(n(2))
				}
			default: // the receiver is not reading any more
			}
		}
	case "ack": // the cluster behind incarnation k's stream acknowledges everything it has received on it (or `ack k w`)
		if k := n(1); k < len(w.incs) && !w.incs[k].broken {
			wv := int64(0)
			if len(f) > 2 {
				wv = int64(n(2))
			} else if sent := w.incs[k].srv.Sent(); len(sent) > 0 {
				wv = sent[len(sent)-1].GetMessages().GetExclusiveHighWatermark()
			}
			synctest.Wait()
			select {
			case w.incs[k].srv.in <- ev[repReq]{v: ackReq(wv)}:
			default:
			}
		}
	case "stall", "unstall": // the cluster behind incarnation k's stream stops / resumes reading: the sender's Send blocks
		if k := n(1); k < len(w.incs) {
			w.incs[k].srv.SetStall(f[0] == "stall")
		}
	case "flood": // the source of receiver k sends up to n task batches, each one task owned by shard 1 of the other cluster,
		// for as long as the receiver takes them (it stops taking when a hand-off blocks on a full channel)
		if k := n(1); k < len(w.incs) && w.incs[k].cli != nil {
			wf := wfFor(4, 1)
			for j := 0; j < n(2); j++ {
				w.floodID++
				id := 1000 + w.floodID
				pt := &replicationpb.ReplicationTask{SourceTaskId: id, TaskType: 1,
					RawTaskInfo: &persistencepb.ReplicationTaskInfo{NamespaceId: "ns", WorkflowId: wf, TaskId: id, RunId: fmt.Sprintf("run-%d", id)}}
				synctest.Wait()
				sent := false
				select {
				case w.incs[k].cli.in <- ev[repResp]{v: msgResp(id+1, pt)}:
					sent = true
				default:
				}
				if !sent {
					break
				}
			}
		}
	case "selfend": // receiver k ends on its own: its Send to the source cluster fails while it forwards an acknowledgement
		// (model: Act.selfEnd k). The acknowledgement is handed to the receiver's registered channel directly.
		if k := n(1); k < len(w.incs) && w.incs[k].cli != nil {
			in := w.incs[k]
			var ch chan proxy.RoutedAck
			for c, owner := range w.ackOwner { // the receiver's own channel, whether or not it is (still) the registered one
				if owner == k {
					ch = c
				}
			}
			if ch != nil && !in.returned && in.tReg != 0 { // only a receiver that has finished its start-up forwards acknowledgements
				in.cli.mu.Lock()
				in.cli.sendErr = errors.New("c08: injected send failure (source gone)")
				in.cli.mu.Unlock()
				synctest.Wait()
				select {
				case ch <- proxy.RoutedAck{TargetShard: history.ClusterShardID{ClusterID: 3 - in.csid.ClusterID, ShardID: 1}, Req: ackReq(5)}:
				default:
				}
			}
		}
	case "sendfail": // from now on the Send of receiver k's stream to its source cluster fails (the source went away without a reset)
		if k := n(1); k < len(w.incs) && w.incs[k].cli != nil {
			w.incs[k].cli.mu.Lock()
			w.incs[k].cli.sendErr = errors.New("c08: injected send failure (source gone)")
			w.incs[k].cli.mu.Unlock()
		}
	case "settle":
		synctest.Wait()
		time.Sleep(2 * time.Second)
	case "end":
		final = true
		w.paused = map[string]bool{}
		w.stopAll()
	default:
		w.t.Fatalf("bad registry op %q", op)
	}
	w.autorun()
	w.noTick = false
	if final {
		time.Sleep(3 * time.Second)
		w.autorun()
	}
	return w.observe(final)
}

func c08Show(k int) string {
	switch {
	case k == -1:
		return "-"
	case k < 0:
		return "?"
	}
	return strconv.Itoa(k)
}

// observe: the canonical registry view + the property monitor at quiescence
func (w *c08World) observe(final bool) string {
	w.mu.Lock()
	defer w.mu.Unlock()
	var parts []string
	views := map[int]c08View{}
	for _, c := range w.shards {
		v := w.view(c)
		views[c] = v
		cs := "-"
		if v.C {
			cs = "+"
		}
		parts = append(parts, fmt.Sprintf("%d:L=%s,S=%s,A=%s,C=%s,R=%s", c, c08Show(v.L), c08Show(v.S), c08Show(v.A), cs, c08Show(v.R)))
	}
	var hs []*c08Hold
	for _, h := range w.held {
		hs = append(hs, h)
	}
	sort.Slice(hs, func(i, j int) bool {
		if hs[i].inc != hs[j].inc {
			return hs[i].inc < hs[j].inc
		}
		return hs[i].role == 'r' && hs[j].role == 's'
	})
	var held, ret []string
	for _, h := range hs {
		held = append(held, fmt.Sprintf("%d%c@%s", h.inc, h.role, h.pos))
	}
	for _, in := range w.incs {
		if in.returned {
			ret = append(ret, strconv.Itoa(in.id))
		}
	}
	line := strings.Join(parts, " ") + " | held " + strings.Join(held, ",") + " | ret " + strings.Join(ret, ",")
	if final {
		var leaked []string
		for _, g := range c08BubbleGoroutines() {
			if !w.base[strings.SplitN(g, " [", 2)[0]] {
				leaked = append(leaked, g)
			}
		}
		line += fmt.Sprintf(" | leak %d", len(leaked))
		if len(leaked) > 0 {
			w.violation(fmt.Sprintf("%d goroutine(s) of the bubble still alive after every stream ended", len(leaked)), map[string]any{"goroutines": leaked})
		}
		for _, in := range w.incs {
			if !in.returned {
				w.violation(fmt.Sprintf("handler of incarnation %d (shard %d) has not returned after every stream ended", in.id, in.shard), nil)
			}
		}
	}
	// ---- property monitor (independent of the model): only at quiescence, i.e. when no worker is held mid-way
	if len(w.held) == 0 {
		for _, c := range w.shards {
			v := views[c]
			liveS, liveR := -1, -1 // newest incarnation whose stream is still served / whose receiver is still served
			for _, in := range w.incs {
				if in.shard == c && !in.returned {
					liveS = in.id
					if !in.openFailed {
						liveR = in.id
					}
				}
			}
			chk := func(reg string, got, want int) {
				if got == want {
					return
				}
				var what string
				var extra map[string]any
				switch {
				case want >= 0 && got == -1:
					what = fmt.Sprintf("shard %d: %s is empty although incarnation %d is live (orphaned)", c, reg, want)
					extra = w.attribute(reg, want, nil)
				case want == -1:
					what = fmt.Sprintf("shard %d: %s still holds the entry of incarnation %s, which has ended", c, reg, c08Show(got))
				default:
					what = fmt.Sprintf("shard %d: %s holds incarnation %s, the newest live incarnation is %d", c, reg, c08Show(got), want)
					extra = w.attribute(reg, want, nil)
				}
				if extra == nil && reg == "activeReceivers" && got >= 0 && got != want && w.incs[got].returned &&
					w.incs[got].terminatedBy >= 0 && w.incs[w.incs[got].terminatedBy].openFailed {
					// the dead receiver was told to go by a successor that never managed to open its own stream
					extra = map[string]any{"finding": "C08-stale-active-receiver-after-failed-open"}
				}
				if extra == nil && got >= 0 && got != want {
					extra = w.attribute(reg, got, nil)
				}
				w.violation(what, extra)
			}
			// watermark replay: the pending watermark of every live, registered receiver of the OTHER cluster has reached the
			// newest live stream of this shard (broadcast if that stream was registered when the watermark came, replay if it
			// registered later) — checked when this shard's and that receiver's registrations are both in order
			if liveS >= 0 && v.S == liveS && v.L == liveS && !w.incs[liveS].broken {
				for _, rc := range w.shards {
					if rc/100 == c/100 {
						continue
					}
					rv := views[rc]
					if rv.R < 0 || rv.R >= len(w.incs) {
						continue
					}
					ri := w.incs[rv.R]
					if ri.returned || ri.broken || ri.wmSent == 0 || ri.tReg == 0 || rv.A != rv.R || !rv.C {
						continue
					}
					got := false
					for _, m := range w.incs[liveS].srv.Sent() {
						got = got || int(m.GetMessages().GetPriority())-100 == ri.id
					}
					if !got {
						w.violation(fmt.Sprintf("shard %d: the newest live stream (incarnation %d) never received the pending watermark %d of the live receiver %d (shard %d): neither the broadcast nor the replay to a newly registered shard reached it", c, liveS, ri.wmSent, ri.id, rc), w.attribute("remoteSendChannels", liveS, nil))
					}
				}
			}
			chk("localShards", v.L, liveS)
			chk("remoteSendChannels", v.S, liveS)
			chk("localAckChannels", v.A, liveR)
			chk("activeReceivers", v.R, liveR)
			if v.C != (liveR >= 0) {
				if liveR >= 0 {
					chk("localReceiverCancelFuncs", -1, liveR)
				} else {
					chk("localReceiverCancelFuncs", -2, -1)
				}
			}
		}
	}
	return line
}

var c08StackBuf = make([]byte, 1<<19)

// c08BubbleGoroutines: the goroutines of the current synctest bubble other than the caller (first lines of their tracebacks)
func c08BubbleGoroutines() []string {
	buf := c08StackBuf[:runtime.Stack(c08StackBuf, true)]
	var out []string
	for i, blk := range strings.Split(string(buf), "\n\n") {
		lines := strings.Split(blk, "\n")
		if i == 0 || len(lines) == 0 || !strings.Contains(lines[0], "synctest bubble") {
			continue
		}
		top := lines[0]
		for _, l := range lines[1:] {
			if strings.Contains(l, "s2s-proxy") || strings.Contains(l, "eng.") {
				top += " " + strings.TrimSpace(l)
				break
			}
		}
		out = append(out, top)
	}
	return out
}

// ---- child process: runs traces inside bubbles, streams "op \t obs" lines -----------------------------------

type c08Result struct {
	Case int              `json:"case"`
	Op   string           `json:"op,omitempty"`
	Obs  string           `json:"obs,omitempty"`
	Viol []map[string]any `json:"viol,omitempty"`
	Done bool             `json:"done,omitempty"`
}

func TestC08Child(t *testing.T) {
	in, out := os.Getenv("VERIF_C08_CASES"), os.Getenv("VERIF_C08_RESULT")
	if in == "" || out == "" {
		t.Skip("child of TestC08")
	}
	b, err := os.ReadFile(in)
	if err != nil {
		t.Fatal(err)
	}
	var cases [][]string
	if err := json.Unmarshal(b, &cases); err != nil {
		t.Fatal(err)
	}
	first, _ := strconv.Atoi(os.Getenv("VERIF_C08_FIRST"))
	f, err := os.OpenFile(out, os.O_APPEND|os.O_CREATE|os.O_WRONLY, 0o644)
	if err != nil {
		t.Fatal(err)
	}
	defer f.Close()
	emit := func(r c08Result) {
		j, _ := json.Marshal(r)
		f.Write(append(j, '\n')) // unbuffered: the line is on disk before the next step can kill the process
	}
	for ci := first; ci < len(cases); ci++ {
		ops := cases[ci]
		synctest.Test(t, func(t *testing.T) {
			w := newC08World(t)
			defer w.detach()
			for _, op := range ops {
				emit(c08Result{Case: ci, Op: op}) // announced before it runs: a crash is attributed to this op
				obs := w.exec(op)
				emit(c08Result{Case: ci, Op: op, Obs: obs, Viol: w.viol})
				w.viol = nil
			}
			emit(c08Result{Case: ci, Done: true})
			// whatever is still held (a trace without `end`) is let go before the bubble closes
			w.mu.Lock()
			w.free = true
			for k, h := range w.held {
				delete(w.held, k)
				close(h.ch)
			}
			w.mu.Unlock()
			w.stopAll()
			synctest.Wait()
			time.Sleep(3 * time.Second)
			synctest.Wait()
		})
	}
}

// ---- parent: generation, child management, model protocol, monitor reports ----------------------------------

type c08CaseResult struct {
	ops      []string
	obs      []string
	viol     []map[string]any
	crashed  bool
	panicMsg string
}

// runC08Cases runs the cases in child processes (several at a time, each on its own slice of the cases); a child that
// dies is restarted after the case that killed it.
func runC08Cases(t *testing.T, e *Env, cases [][]string) []c08CaseResult {
	res := make([]c08CaseResult, len(cases))
	for i := range res {
		res[i].ops = cases[i]
	}
	const chunk = 1200
	workers := runtime.NumCPU()
	if workers > 8 {
		workers = 8
	}
	type job struct{ lo, hi int }
	jobs := make(chan job)
	var wg sync.WaitGroup
	var mu sync.Mutex
	var fatal string
	for wk := 0; wk < workers; wk++ {
		wg.Add(1)
		go func() {
			defer wg.Done()
			for j := range jobs {
				n, deaths, err := runC08Chunk(e.Out, j.lo, cases[j.lo:j.hi], res[j.lo:j.hi])
				mu.Lock()
				e.Dist["child_processes"] += n
				e.Dist["child_died_closing_bubble"] += deaths
				if err != "" && fatal == "" {
					fatal = err
				}
				mu.Unlock()
			}
		}()
	}
	for lo := 0; lo < len(cases); lo += chunk {
		hi := lo + chunk
		if hi > len(cases) {
			hi = len(cases)
		}
		jobs <- job{lo, hi}
	}
	close(jobs)
	wg.Wait()
	if fatal != "" {
		t.Fatal(fatal)
	}
	return res
}

func runC08Chunk(dir string, base int, cases [][]string, res []c08CaseResult) (children, bubbleDeaths int, fatal string) {
	casesPath := fmt.Sprintf("%s/c08_cases_%d.json", dir, base)
	b, _ := json.Marshal(cases)
	if err := os.WriteFile(casesPath, b, 0o644); err != nil {
		return 0, 0, err.Error()
	}
	defer os.Remove(casesPath)
	first := 0
	for first < len(cases) {
		resPath := fmt.Sprintf("%s/c08_result_%d_%d.jsonl", dir, base, first)
		os.Remove(resPath)
		cmd := exec.Command(os.Args[0], "-test.run", "^TestC08Child$", "-test.timeout", "60m")
		cmd.Env = append(os.Environ(), "VERIF_C08_CASES="+casesPath, "VERIF_C08_RESULT="+resPath, "VERIF_C08_FIRST="+strconv.Itoa(first))
		var stderr bytes.Buffer
		cmd.Stdout, cmd.Stderr = &stderr, &stderr
		runErr := cmd.Run()
		children++
		// read what the child managed to write
		last, lastDone, pendingOp := first-1, true, ""
		if f, err := os.Open(resPath); err == nil {
			sc := bufio.NewScanner(f)
			sc.Buffer(make([]byte, 1<<20), 1<<24)
			for sc.Scan() {
				var r c08Result
				if json.Unmarshal(sc.Bytes(), &r) != nil {
					continue
				}
				if r.Case != last {
					last, lastDone = r.Case, false
				}
				switch {
				case r.Done:
					lastDone = true
				case r.Obs == "":
					pendingOp = r.Op
				default:
					pendingOp = ""
					res[r.Case].obs = append(res[r.Case].obs, r.Obs)
					if len(res[r.Case].viol) == 0 { // a violated trace is reported at its first violating op
						res[r.Case].viol = append(res[r.Case].viol, r.Viol...)
					}
				}
			}
			f.Close()
		}
		os.Remove(resPath)
		if runErr == nil && last == len(cases)-1 && lastDone {
			break
		}
		// the child died: in case `last` (while running pendingOp, or while closing the bubble)
		if last < first {
			return children, bubbleDeaths, fmt.Sprintf("C08 child made no progress: %v\n%s", runErr, tail(stderr.String(), 3000))
		}
		msg := c08PanicLine(stderr.String())
		r := &res[last]
		if pendingOp != "" || !lastDone {
			r.crashed, r.panicMsg = true, msg
			extra := map[string]any{"panic": msg}
			if strings.Contains(msg, "send on closed channel") && strings.Contains(stderr.String(), "sendPendingWatermarkToShard") {
				extra["finding"] = "C08-replay-send-on-closed-channel"
			}
			extra["what"] = fmt.Sprintf("the process crashed during op %q: %s", pendingOp, msg)
			if len(r.viol) == 0 {
				r.viol = append(r.viol, extra)
			}
			for len(r.obs) < len(r.ops) {
				r.obs = append(r.obs, "crashed")
			}
		} else {
			// died after the trace was complete: goroutines left in the bubble (already reported as `leak n` by the trace's `end`)
			bubbleDeaths++
			if !strings.Contains(msg, "deadlock") && !strings.Contains(msg, "blocked goroutines") {
				r.viol = append(r.viol, map[string]any{"what": "the process crashed after the trace ended: " + msg})
			}
		}
		first = last + 1
	}
	return children, bubbleDeaths, ""
}

func tail(s string, n int) string {
	if len(s) > n {
		return s[len(s)-n:]
	}
	return s
}

func c08PanicLine(stderr string) string {
	for _, l := range strings.Split(stderr, "\n") {
		if strings.HasPrefix(l, "panic: ") || strings.HasPrefix(l, "fatal error: ") {
			return strings.TrimSpace(l)
		}
	}
	return "child exited abnormally: " + tail(strings.TrimSpace(stderr), 300)
}

func TestC08(t *testing.T) {
	engine := "registry"
	if os.Getenv("VERIF_C08_MODEL") == "asis" { // a tree before the fixes of the second delete in UnregisterShard and of the unguarded replay send
		engine = "registry-asis"
	}
	e := NewEnv(t, engine)
	defer e.Close(t)
	// does the code under test have the schedule point replay.afterLookup?  (a checkout from before that hook runs the
	// replay's look-up and send together; the model driver is told so: `begin nogap`)
	begin := "begin"
	probe := runC08Cases(t, e, [][]string{{"open 101", "wm 0 7", "pause replay.afterLookup 1", "open 201"}})
	if len(probe[0].obs) != 4 || !strings.Contains(probe[0].obs[3], "1s@replay.afterLookup") {
		begin = "begin nogap"
		e.Count("code_without_replay_afterLookup_point")
	}
	e.Dist["child_processes"] = 0
	var cases [][]string
	if rc := e.ReplayLines(t); rc != nil {
		cases = rc
	} else {
		cc := e.CorpusCases(t)
		for range cc {
			e.Count("corpus_case")
		}
		cases = append(cases, cc...)
		cases = append(cases, genC08(e)...)
	}
	results := runC08Cases(t, e, cases)
	for i, r := range results {
		e.Evals++
		if i < 3 {
			e.Sample(r.ops)
		}
		// traces with ops outside the registry model's language (acknowledgements, a failing upstream Send) are judged by the
		// property monitor alone: their lines go to the protocol file as comments
		monitorOnly := false
		for _, op := range r.ops {
			if f := strings.Fields(op); f[0] == "ack" || f[0] == "sendfail" || f[0] == "stall" || f[0] == "unstall" || f[0] == "flood" {
				monitorOnly = true
			}
		}
		if monitorOnly {
			e.Count("trace_monitor_only")
			e.Emit("# "+begin, "#")
		} else {
			e.Emit(begin, "ok")
		}
		for j, op := range r.ops {
			obs := "missing"
			if j < len(r.obs) {
				obs = r.obs[j]
			}
			if monitorOnly {
				e.Emit("# "+op+"  => "+obs, "#")
			} else {
				e.Emit(op, obs)
			}
			e.Count("op_" + strings.Fields(op)[0])
			if f := strings.Fields(op); f[0] == "pause" {
				e.Count("pause_" + f[1])
			}
		}
		if len(r.ops) > 3 {
			e.Distinct(fnv(strings.Join(r.ops, "|")))
		}
		if r.crashed {
			e.Count("trace_crashed")
		}
		seen := map[string]bool{}
		for _, v := range r.viol {
			key := fmt.Sprint(v["what"])
			if seen[key] {
				continue
			}
			seen[key] = true
			v["ops"] = r.ops
			e.Violation(v)
		}
	}
}
