package eng

// The translator for C12/C13/C14/C16: the Go type graph exactly as the reflective visitor
// (github.com/keilerkonzept/visit over the generated protobuf structs) walks it, plus the
// descriptor-side oracle (which fields carry namespace names / history-event blobs / search
// attributes), read from the running code and the pinned API modules on every run.

import (
	"fmt"
	"reflect"
	"sort"
	"strings"

	commonpb "go.temporal.io/api/common/v1"
	enumspb "go.temporal.io/api/enums/v1"
	historypb "go.temporal.io/api/history/v1"
	namespacepb "go.temporal.io/api/namespace/v1"
	workflowservice "go.temporal.io/api/workflowservice/v1"
	"google.golang.org/protobuf/proto"
	"google.golang.org/protobuf/reflect/protoreflect"
	"google.golang.org/protobuf/reflect/protoregistry"
	"google.golang.org/protobuf/runtime/protoimpl"

	"github.com/temporalio/s2s-proxy/interceptor"
)

type tgField struct {
	Go       string
	Proto    string
	Idx      int   // struct field index
	Targets  []int // struct types reachable through this field (ptr / slice / map value / oneof wrappers)
	OracleNs bool  // descriptor oracle: string field named `namespace` or `*_namespace`
	GoString bool  // Go type is exactly `string`
	Blob     bool  // Go type *DataBlob or []*DataBlob
	SA       bool  // search-attributes container: *SearchAttributes, or map[string]*Payload named search_attributes
	OtherSA  bool  // named SearchAttributes but of another type (the visitor errors out on it)
}

type tgType struct {
	ID      int
	Go      string // Go type name with package
	Proto   string // proto full name ("" for oneof wrappers)
	Fields  []tgField
	Wrapper bool
	rt      reflect.Type
}

type typeGraph struct {
	Types   []*tgType
	byRT    map[reflect.Type]int
	Roots   []int          // request/response types of both services
	RootSvc map[int]string // "admin" | "workflow" | "both"
}

var payloadMapType = reflect.TypeOf(map[string]*commonpb.Payload{})

func (g *typeGraph) add(rt reflect.Type) int {
	for rt.Kind() == reflect.Ptr {
		rt = rt.Elem()
	}
	if id, ok := g.byRT[rt]; ok {
		return id
	}
	id := len(g.Types)
	t := &tgType{ID: id, Go: rt.PkgPath() + "." + rt.Name(), rt: rt}
	g.Types = append(g.Types, t)
	g.byRT[rt] = id
	var wrappers []any
	if m, ok := reflect.New(rt).Interface().(proto.Message); ok {
		t.Proto = string(m.ProtoReflect().Descriptor().FullName())
		if mi, ok := m.ProtoReflect().Type().(*protoimpl.MessageInfo); ok {
			wrappers = mi.OneofWrappers
		}
	} else {
		t.Wrapper = true
	}
	for i := 0; i < rt.NumField(); i++ {
		sf := rt.Field(i)
		if !sf.IsExported() {
			continue // the visitor skips unexported fields
		}
		f := tgField{Go: sf.Name, Idx: i}
		if tag := sf.Tag.Get("protobuf"); tag != "" {
			for _, part := range strings.Split(tag, ",") {
				if strings.HasPrefix(part, "name=") {
					f.Proto = strings.TrimPrefix(part, "name=")
				}
			}
		}
		ft := sf.Type
		f.GoString = ft.Kind() == reflect.String && ft.PkgPath() == ""
		isStringish := ft.Kind() == reflect.String || (ft.Kind() == reflect.Ptr && ft.Elem().Kind() == reflect.String) ||
			(ft.Kind() == reflect.Slice && ft.Elem().Kind() == reflect.String)
		f.OracleNs = isStringish && (f.Proto == "namespace" || strings.HasSuffix(f.Proto, "_namespace"))
		f.Blob = ft == reflect.TypeOf(&commonpb.DataBlob{}) || ft == reflect.TypeOf([]*commonpb.DataBlob{})
		if ft == reflect.TypeOf(&commonpb.SearchAttributes{}) || (ft == payloadMapType && f.Proto == "search_attributes") {
			f.SA = true
		} else if sf.Name == "SearchAttributes" {
			f.OtherSA = true
		}
		// targets
		var collect func(ft reflect.Type)
		collect = func(ft reflect.Type) {
			switch ft.Kind() {
			case reflect.Ptr:
				if ft.Elem().Kind() == reflect.Struct {
					f.Targets = append(f.Targets, g.add(ft.Elem()))
				}
			case reflect.Struct:
				f.Targets = append(f.Targets, g.add(ft))
			case reflect.Slice, reflect.Array:
				collect(ft.Elem())
			case reflect.Map:
				collect(ft.Elem())
			case reflect.Interface:
				for _, w := range wrappers {
					wt := reflect.TypeOf(w)
					if wt.Implements(ft) {
						f.Targets = append(f.Targets, g.add(wt))
					}
				}
			}
		}
		collect(ft)
		// g.Types may have been reallocated by recursion; t is a pointer so this is safe
		t.Fields = append(t.Fields, f)
	}
	return id
}

func buildTypeGraph() *typeGraph {
	g := &typeGraph{byRT: map[reflect.Type]int{}, RootSvc: map[int]string{}}
	for _, svc := range []struct{ name, tag string }{{adminSvc, "admin"}, {workflowSvc, "workflow"}} {
		d, err := protoregistry.GlobalFiles.FindDescriptorByName(protoreflect.FullName(svc.name))
		if err != nil {
			panic(err)
		}
		sd := d.(protoreflect.ServiceDescriptor)
		for i := 0; i < sd.Methods().Len(); i++ {
			for _, md := range []protoreflect.MessageDescriptor{sd.Methods().Get(i).Input(), sd.Methods().Get(i).Output()} {
				id := g.add(reflect.TypeOf(newMsg(md)))
				if cur, ok := g.RootSvc[id]; ok && cur != svc.tag {
					g.RootSvc[id] = "both"
				} else if !ok {
					g.RootSvc[id] = svc.tag
					g.Roots = append(g.Roots, id)
				}
			}
		}
	}
	// what a decoded history-event blob contains
	g.add(reflect.TypeOf(&historypb.HistoryEvent{}))
	return g
}

func (g *typeGraph) typeID(m any) int { return g.byRT[reflect.TypeOf(m).Elem()] }

// closure returns the set of types reachable from the start types through field targets.
func (g *typeGraph) closure(start []int) map[int]bool {
	seen := map[int]bool{}
	stack := append([]int{}, start...)
	for len(stack) > 0 {
		t := stack[len(stack)-1]
		stack = stack[:len(stack)-1]
		if seen[t] {
			continue
		}
		seen[t] = true
		for _, f := range g.Types[t].Fields {
			stack = append(stack, f.Targets...)
		}
	}
	return seen
}

// bearsNs: the type itself has a namespace-name field (by the oracle) or is NamespaceInfo.
func (g *typeGraph) bearsNs(t int) bool {
	if g.Types[t].Proto == string((&namespacepb.NamespaceInfo{}).ProtoReflect().Descriptor().FullName()) {
		return true
	}
	for _, f := range g.Types[t].Fields {
		if f.OracleNs {
			return true
		}
	}
	return false
}

// eventAttrType maps an event type to the struct type id of its attributes message (via the oneof wrappers
// of HistoryEvent and the attribute message names, e.g. EVENT_TYPE_TIMER_FIRED -> TimerFiredEventAttributes).
func (g *typeGraph) eventAttrTypes() map[enumspb.EventType]int {
	out := map[enumspb.EventType]int{}
	ev := g.Types[g.typeID(&historypb.HistoryEvent{})]
	byName := map[string]int{}
	for _, f := range ev.Fields {
		if f.Go != "Attributes" {
			continue
		}
		for _, w := range f.Targets {
			for _, wf := range g.Types[w].Fields {
				for _, at := range wf.Targets {
					name := g.Types[at].Go[strings.LastIndex(g.Types[at].Go, ".")+1:]
					byName[strings.ToLower(strings.TrimSuffix(name, "EventAttributes"))] = at
				}
			}
		}
	}
	for num, name := range enumspb.EventType_name {
		if num == 0 {
			continue
		}
		key := strings.ToLower(strings.ReplaceAll(strings.TrimPrefix(name, "EVENT_TYPE_"), "_", ""))
		if at, ok := byName[key]; ok {
			out[enumspb.EventType(num)] = at
		}
	}
	return out
}

// reviewedNonEventBlobs: DataBlob-typed fields that do NOT carry serialized history events (reviewed by hand
// against the pinned API: persistence tasks, CHASM nodes, opaque replication-task payloads). A DataBlob field
// that is neither in the code's dataBlobFieldNames nor listed here makes the C12 blob obligation fail.
var reviewedNonEventBlobs = map[string]bool{
	"go.temporal.io/server/api/adminservice/v1.AddTasksRequest_Task.Blob":         true, // serialized persistence task
	"go.temporal.io/server/api/common/v1.HistoryTask.Blob":                        true, // DLQ: serialized persistence task
	"go.temporal.io/server/api/persistence/v1.ChasmComponentAttributes_Task.Data": true, // CHASM task payload
	"go.temporal.io/server/api/persistence/v1.ChasmNode.Data":                     true, // CHASM node payload
	"go.temporal.io/server/api/replication/v1.ReplicationTask.Data":               true, // opaque "task_type + data" payload, unused by history replication
}

type internTable struct {
	ids   map[string]int
	names []string
}

func (it *internTable) id(s string) int {
	if it.ids == nil {
		it.ids = map[string]int{}
	}
	if id, ok := it.ids[s]; ok {
		return id
	}
	id := len(it.names)
	it.ids[s] = id
	it.names = append(it.names, s)
	return id
}

func maskOf(set map[int]bool) string {
	// big Nat literal as a sum of powers of two is unreadable; emit as hexadecimal-free decimal via big.Int
	return bigMask(set)
}

// tables read from the running code
type tgTables struct {
	Ns, Blob, SA []string
	Skippable    []enumspb.EventType
}

func readTables() tgTables {
	var t tgTables
	for k, v := range interceptor.VerifNamespaceFieldNames() {
		if v {
			t.Ns = append(t.Ns, k)
		}
	}
	for k, v := range interceptor.VerifDataBlobFieldNames() {
		if v {
			t.Blob = append(t.Blob, k)
		}
	}
	for k, v := range interceptor.VerifSearchAttributeFieldNames() {
		if v {
			t.SA = append(t.SA, k)
		}
	}
	for k := range interceptor.VerifSkippableHistoryEvents() {
		t.Skippable = append(t.Skippable, k)
	}
	sort.Strings(t.Ns)
	sort.Strings(t.Blob)
	sort.Strings(t.SA)
	sort.Slice(t.Skippable, func(i, j int) bool { return t.Skippable[i] < t.Skippable[j] })
	return t
}

var _ = fmt.Sprint
var _ = workflowservice.ListWorkflowExecutionsResponse{}
