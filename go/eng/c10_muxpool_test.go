package eng

// C10 — mux session pool stays within its limit, heals itself and shuts down clean (engine "muxpool").
//
// Ops (one observation line each; an op that does not apply in the current state is a no-op):
//
//	begin <N> establisher|receiver [tcp]
//	conn ok|err|sessfail          answer the provider's pending NewConnection(): a fresh connection / an error /
//	                              a connection on which sessionFn fails
//	peer ping-ok|ping-die|silent|mute|slow|eof|garbage   what the peer does with the connection handed out last (its first Ping is in flight)
//	die <k> remote|local|stall    the k-th registered session dies: peer closes / ManagedMuxSession.Close() / peer goes quiet (keep-alive)
//	wait                          61 s pass (keep-alives, health checks; a ping in flight times out)
//	cancel                        the lifetime context ends
//	heal                          the peer is reachable and healthy: answer every attempt until the provider stops asking
//	end                           resolve whatever is still pending (NewConnection -> error, ping -> EOF) and settle
//
// Observation (pipe mode): reg=<keys of GetMuxConnections()> can=<CanAcceptConnections()> phase=<connecting|pinging|blocked|exited>
// conns=<connections handed out and not Close()d>/<handed out> sess=<yamux sessions not shut down> closed=<IsClosed()>.
// tcp mode (real NewMuxReceiverProvider on loopback): reg, can, open=<connections the dialling side still sees open>, closed.

import (
	"fmt"
	"os"
	"strings"
	"testing"
	"testing/synctest"
)

const (
	findLateAdd  = "C10-late-add-leaks-session"
	findSessFail = "C10-sessionfn-error-leaks-conn"
	findExitPing = "C10-exit-during-ping-leaks-session"
)

type c10Result struct {
	key        string   // abstract state after the body (before the epilogue)
	applicable []string // ops applicable in that state
}

func c10Applicable(w *muxWorld) []string {
	var ops []string
	if w.connecting() {
		ops = append(ops, "conn ok")
		if !w.tcp {
			ops = append(ops, "conn err", "conn sessfail")
		}
	}
	if w.inflight != nil {
		ops = append(ops, "peer ping-ok", "peer eof", "peer garbage")
		if !w.tcp {
			ops = append(ops, "peer silent", "peer mute", "peer slow", "peer ping-die")
		}
	} else if !w.tcp {
		ops = append(ops, "wait")
	}
	for k := range w.regIDs() {
		ops = append(ops, fmt.Sprintf("die %d remote", k), fmt.Sprintf("die %d local", k))
		if !w.tcp {
			ops = append(ops, fmt.Sprintf("die %d stall", k), fmt.Sprintf("die %d slowclose", k))
		}
	}
	if !w.cancelled {
		ops = append(ops, "cancel", "heal")
	}
	return ops
}

func c10Key(w *muxWorld) string {
	oc, _, os := w.counts()
	sf := 0 // connections abandoned after a sessionFn failure only ever accumulate: count them once
	for _, m := range w.conns {
		if m.sessFail {
			sf++
		}
	}
	return fmt.Sprintf("%d|%s|r%d|c%v|%s|o%d|s%d|f%v|x%v|k%v", w.n, w.role, len(w.regIDs()), w.mgr.CanAcceptConnections(), w.phase(), oc-sf, os, sf > 0, w.cancelled, w.mgr.IsClosed())
}

// c10Run executes one script on the real code, emitting op/observation lines and running the monitor.
// `next` (optional) extends the script online: called after the body with the world, returns further ops ("" = stop).
func c10Run(t *testing.T, e *Env, bubble bool, body []string, next func(w *muxWorld, step int) string) c10Result {
	var res c10Result
	if len(body) == 0 {
		return res
	}
	f := strings.Fields(body[0])
	var n int
	if len(f) < 3 || f[0] != "begin" {
		t.Fatalf("script must start with begin: %q", body[0])
	}
	fmt.Sscan(f[1], &n)
	role := f[2]
	tcp := len(f) == 4 && f[3] == "tcp"
	if n < 1 || (role != "establisher" && role != "receiver") || (tcp && (bubble || role != "receiver")) || (!tcp && !bubble) {
		t.Fatalf("bad begin line %q (bubble=%v)", body[0], bubble)
	}
	w := newMuxWorld(t, n, role, tcp, bubble, false)
	w.settle(nil)
	var ops []string
	nontrivial := false
	emit := func(op string) {
		obs := w.observe()
		e.Emit(op, obs)
		e.FlushNow() // a panic in the pool's goroutines kills the process: keep the running script readable from ops.txt
		ops = append(ops, op)
		// monitor, clause 1: never more than N live sessions
		oc, _, os := w.counts()
		_ = oc
		if r := len(w.regIDs()); r > n || (!tcp && os > n) {
			e.Violation(map[string]any{"what": fmt.Sprintf("pool of %d has %d registered / %d open sessions after %q", n, r, os, op), "ops": append([]string{}, ops...)})
		}
	}
	emit(body[0])
	do := func(op string) {
		switch {
		case strings.HasPrefix(op, "conn err"), strings.HasPrefix(op, "conn sessfail"), strings.HasPrefix(op, "die"), op == "cancel":
			nontrivial = true
		case strings.HasPrefix(op, "peer") && op != "peer ping-ok":
			nontrivial = true
		}
		kind := strings.Fields(op)
		e.Count("op_" + kind[0] + func() string {
			if len(kind) > 1 && kind[0] != "die" {
				return "_" + kind[1]
			} else if kind[0] == "die" {
				return "_" + kind[2]
			}
			return ""
		}())
		wasLive := !w.cancelled
		if !w.apply(op) {
			t.Fatalf("bad op %q", op)
		}
		emit(op)
		// monitor, clause 2: with a healthy peer the pool returns to full strength
		if op == "heal" && wasLive {
			if r := len(w.regIDs()); r != n || w.mgr.CanAcceptConnections() {
				e.Violation(map[string]any{"what": fmt.Sprintf("pool of %d did not refill with a healthy peer: %s", n, w.observe()), "ops": append([]string{}, ops...)})
			}
		}
	}
	for _, op := range body[1:] {
		do(op)
	}
	for step := 0; next != nil; step++ {
		op := next(w, step)
		if op == "" {
			break
		}
		do(op)
	}
	res.key = c10Key(w)
	res.applicable = c10Applicable(w)
	// epilogue: the pool must be able to heal, then shut down clean
	if len(ops) > 0 && ops[len(ops)-1] != "end" {
		if !w.cancelled {
			do("heal")
			do("cancel")
		}
		do("end")
	}
	// monitor, clause 3: after shutdown every session and every connection ever handed out is closed
	if w.cancelled {
		byFinding := map[string][]int{}
		for _, m := range w.conns {
			leaked := false
			if tcp {
				leaked = m.harnessSeesOpen()
			} else {
				leaked = !m.prov.closed.Load() || (m.sess != nil && !m.sess.IsClosed())
			}
			if !leaked {
				continue
			}
			fid := ""
			switch {
			case m.handed && m.lateAdd: // exactly: the session was handed to AddConnection after the lifetime had ended
				fid = findLateAdd
			case m.sessFail: // exactly: sessionFn returned an error for this connection
				fid = findSessFail
			case !tcp && m.sess != nil && !m.handed: // a session that never reached addNewMux: the provider returned while holding it
				fid = findExitPing
			}
			byFinding[fid] = append(byFinding[fid], m.cid)
		}
		for fid, cids := range byFinding {
			v := map[string]any{"what": fmt.Sprintf("after shutdown connection(s) %v (of %d handed out) are still open: %s", cids, len(w.conns), w.observe()), "ops": append([]string{}, ops...)}
			if fid != "" {
				v["finding"] = fid
			}
			e.Violation(v)
		}
		if len(w.regIDs()) != 0 || !w.mgr.IsClosed() || !w.provExited() {
			e.Violation(map[string]any{"what": "after shutdown: " + w.observe() + fmt.Sprintf(" providerExited=%v", w.provExited()), "ops": append([]string{}, ops...)})
		}
	}
	if !tcp {
		for _, k := range []string{"timeout", "disconnected", "unknown"} {
			if v := int(muxErrorCount(w.labels, k)); v > 0 {
				e.Dist["ping_failure_branch_"+k] += v
			}
		}
	}
	w.teardown()
	e.Evals++
	if nontrivial {
		e.Distinct(fnv(strings.Join(ops, ";")))
	}
	e.Count(fmt.Sprintf("pool_size_%d", n))
	e.Count("role_" + role + func() string {
		if tcp {
			return "_tcp"
		}
		return ""
	}())
	e.Count(fmt.Sprintf("script_len_%s", lenBucket(len(ops))))
	return res
}

func lenBucket(n int) string {
	switch {
	case n <= 6:
		return "le6"
	case n <= 14:
		return "le14"
	case n <= 50:
		return "le50"
	default:
		return "gt50"
	}
}

// c10RandomNext picks applicable ops at random, biased towards keeping the pool busy.
func c10RandomNext(e *Env, length int) func(w *muxWorld, step int) string {
	earlyCancel := e.Rng.IntN(4) == 0 // a quarter of the scripts may shut down at any point, the others only near their end
	return func(w *muxWorld, step int) string {
		if step >= length {
			return ""
		}
		ops := c10Applicable(w)
		if len(ops) == 0 || (w.cancelled && len(ops) == 1 && ops[0] == "wait" && e.Rng.IntN(3) > 0) {
			return "" // after shutdown nothing but time can happen: at most a couple of waits
		}
		// weights: progress ops more often than cancel (a cancel ends most of the interesting behaviour)
		var pool []string
		for _, op := range ops {
			wgt := 4
			switch {
			case op == "cancel":
				wgt = 1
				if !earlyCancel && step < length*4/5 {
					wgt = 0
				}
			case op == "heal", op == "wait", op == "conn sessfail": // sessfail leaves a connection behind for good: keep most scripts free of it
				wgt = 1
			case op == "conn ok", op == "peer ping-ok":
				wgt = 10
			case strings.HasPrefix(op, "die"):
				wgt = 2
			}
			for i := 0; i < wgt; i++ {
				pool = append(pool, op)
			}
		}
		return pool[e.Rng.IntN(len(pool))]
	}
}

func TestC10(t *testing.T) {
	engine := "muxpool"
	if os.Getenv("VERIF_C10_MODEL") == "asis" { // the pinned tree before the C10 `fix:` commit (leaks on shutdown)
		engine = "muxpool-asis"
	}
	e := NewEnv(t, engine)
	defer e.Close(t)
	replay := e.ReplayLines(t)
	onlyReplay := replay != nil
	cases := append(replay, e.CorpusCases(t)...)
	var pipeCases, tcpCases [][]string
	for _, c := range cases {
		if len(c) > 0 && strings.HasSuffix(strings.TrimSpace(c[0]), " tcp") {
			tcpCases = append(tcpCases, c)
		} else if len(c) > 0 {
			pipeCases = append(pipeCases, c)
		}
	}
	exhaustiveStates, exhaustiveScripts := 0, 0
	exhaustiveComplete := true
	depth := 12

	// ---- part 1: fake connProvider over net.Pipe, one synctest bubble ----------------------
	synctest.Test(t, func(t *testing.T) {
		for _, c := range pipeCases {
			c10Run(t, e, true, c, nil)
		}
		if onlyReplay {
			return
		}
		// (a) bounded-exhaustive: every applicable op from every distinct abstract pool state reachable within `depth` ops
		budget := 1500
		if e.Thorough() {
			budget = 40000
		}
		for _, role := range []string{"establisher", "receiver"} {
			for _, n := range []int{1, 2} {
				seen := map[string]bool{}
				queue := [][]string{{fmt.Sprintf("begin %d %s", n, role)}}
				count := 0
				for len(queue) > 0 && count < budget {
					// quick tier: a seeded slice of the frontier; thorough: breadth first, all of it
					idx := 0
					if !e.Thorough() && len(queue) > 1 {
						idx = e.Rng.IntN(len(queue))
					}
					s := queue[idx]
					queue = append(queue[:idx], queue[idx+1:]...)
					r := c10Run(t, e, true, s, nil)
					count++
					exhaustiveScripts++
					if seen[r.key] || len(s)-1 >= depth {
						continue
					}
					seen[r.key] = true
					exhaustiveStates++
					for _, op := range r.applicable {
						queue = append(queue, append(append([]string{}, s...), op))
					}
				}
				e.Count(fmt.Sprintf("exhaustive_%s_n%d_complete_%v", role, n, len(queue) == 0))
				if len(queue) != 0 {
					exhaustiveComplete = false
				}
			}
		}
		// (b) random scripts, longer and with larger pools
		nScripts, maxLen, maxN := 500, 60, 6
		if e.Thorough() {
			nScripts, maxLen, maxN = 4000, 200, 8
		}
		for i := 0; i < nScripts; i++ {
			n := 1 + e.Rng.IntN(maxN)
			role := []string{"establisher", "receiver"}[e.Rng.IntN(2)]
			length := 4 + e.Rng.IntN(maxLen-3)
			if i%10 == 0 {
				length = maxLen
			}
			c10Run(t, e, true, []string{fmt.Sprintf("begin %d %s", n, role)}, c10RandomNext(e, length))
		}
	})

	// ---- part 2: the real receiver (NewMuxReceiverProvider) on loopback TCP, real time --------
	flushYamuxTimerPool()
	for _, c := range tcpCases {
		c10Run(t, e, false, c, nil)
	}
	if !onlyReplay {
		fixed := [][]string{
			{"begin 1 receiver tcp", "conn ok", "peer ping-ok", "die 0 remote", "conn ok", "peer ping-ok", "die 0 local"},
			{"begin 2 receiver tcp", "conn ok", "peer eof", "conn ok", "peer garbage", "conn ok", "peer ping-ok", "conn ok", "peer ping-ok", "die 1 remote", "heal"},
			{"begin 1 receiver tcp", "conn ok", "cancel", "peer ping-ok"}, // the late-add window on the real receiver
			{"begin 2 receiver tcp", "conn ok", "peer ping-ok", "conn ok", "cancel", "peer eof"},
			{"begin 1 receiver tcp", "cancel"},
		}
		for _, s := range fixed {
			c10Run(t, e, false, s, nil)
		}
		nTCP, lenTCP := 12, 12
		if e.Thorough() {
			nTCP, lenTCP = 80, 30
		}
		for i := 0; i < nTCP; i++ {
			n := 1 + e.Rng.IntN(3)
			c10Run(t, e, false, []string{fmt.Sprintf("begin %d receiver tcp", n)}, c10RandomNext(e, 3+e.Rng.IntN(lenTCP)))
		}
	}
	if !onlyReplay {
		c10ReceiverReal(t, e)
		c10EstablisherTLS(t, e)
	}
	e.Stats["exhaustive"] = !onlyReplay && exhaustiveComplete
	e.Stats["exhaustive_depth"] = depth
	e.Stats["exhaustive_histories"] = exhaustiveScripts
	e.Stats["extra"] = map[string]any{"exhaustive_abstract_states": exhaustiveStates}
	e.Sample([]string{"begin 1 establisher", "conn ok", "cancel", "peer ping-ok", "end"})
	e.Sample([]string{"begin 2 receiver", "conn ok", "peer ping-ok", "conn sessfail", "conn ok", "peer silent", "die 0 stall", "heal", "cancel", "end"})
}
