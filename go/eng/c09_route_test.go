package eng

// ---- C09, routing clause and ReconcilePeerStreams on the real code (engine "gossip", ops rmsg / rack / reconcile) ----

import (
	"context"
	"encoding/json"
	"errors"
	"fmt"
	"sort"
	"strings"
	"sync"
	"sync/atomic"
	"testing"
	"testing/synctest"
	"time"

	"go.temporal.io/server/client/history"
	"go.temporal.io/server/common/channel"
	"go.temporal.io/server/common/log"
	"google.golang.org/grpc"
	"google.golang.org/grpc/metadata"

	"github.com/temporalio/s2s-proxy/config"
	"github.com/temporalio/s2s-proxy/encryption"
	"github.com/temporalio/s2s-proxy/proxy"
)

var (
	rTarget = history.ClusterShardID{ClusterID: 2, ShardID: 1} // the shard a message is addressed to / an ack comes from
	rSource = history.ClusterShardID{ClusterID: 1, ShardID: 1} // the shard a message comes from / an ack is addressed to
)

func b01(b bool) string {
	if b {
		return "1"
	}
	return "0"
}

func snapshotJSON(node string, shards ...history.ClusterShardID) []byte {
	st := proxy.NodeShardState{NodeName: node, Shards: map[string]proxy.ShardInfo{}, Updated: time.Now()}
	for _, s := range shards {
		st.Shards[proxy.ClusterShardIDtoShortString(s)] = proxy.ShardInfo{ID: s, Created: time.Now()}
	}
	b, _ := json.Marshal(st)
	return b
}

type rCase struct {
	local string // none | sent | shutdown | closed | closed+shutdown
	ml    bool   // memberlist configured
	mode  bool   // routing mode (the intra-proxy manager exists iff ml && mode)
	owner string // unknown | self | other | other-noaddr
	fwd   string // ok | err | none   (the registered intra-proxy stream towards the owner)
	allow bool   // allowForward (acks)
}

func (c rCase) line(kind string) string {
	lc := c.local
	if lc == "closed+shutdown" {
		lc = "closed"
	}
	shut := c.local == "shutdown" || c.local == "closed+shutdown"
	ownerKnown := c.owner == "other" || c.owner == "other-noaddr" || (c.owner == "self" && !c.ml)
	return fmt.Sprintf("%s %s %s %s %s %s 0 %s %s %s", kind, lc, b01(shut), b01(c.ml), b01(c.ml && c.mode), b01(ownerKnown),
		b01(c.ml && c.owner == "other"), b01(c.ml && c.mode && c.fwd == "ok"), b01(c.allow))
}

func newRouteManager(c rCase) proxy.ShardManager {
	var ml *config.MemberlistConfig
	if c.ml {
		ml = &config.MemberlistConfig{Enabled: true, NodeName: "n0", ProxyAddresses: map[string]string{"n0": "127.0.0.1:1"}}
		if c.owner == "other" {
			ml.ProxyAddresses["n1"] = "127.0.0.1:1"
		}
	}
	mode := config.ShardCountDefault
	if c.mode {
		mode = config.ShardCountRouting
	}
	sm := proxy.NewShardManager(ml, config.ShardCountConfig{Mode: mode, LocalShardCount: 4, RemoteShardCount: 4}, encryption.TLSConfig{}, noopLoggers())
	if c.ml {
		proxy.VerifSetupCallbacks(sm)
	}
	return sm
}

func routeOutcome(ok bool, local, remote int, panicked bool) string {
	if panicked {
		return "panic"
	}
	return fmt.Sprintf("%v local=%d remote=%d", ok, local, remote)
}

// c09RouteMessages: DeliverMessagesToShardOwner over the full cross product, each case in its own bubble
// (the 2 s wait for a sender that never registers is virtual).
func c09RouteMessages(t *testing.T, e *Env) {
	for _, local := range []string{"none", "sent", "shutdown", "closed", "closed+shutdown"} {
		for _, ml := range []bool{false, true} {
			for _, mode := range []bool{false, true} {
				for _, owner := range []string{"unknown", "self", "other", "other-noaddr"} {
					for _, fwd := range []string{"ok", "err", "none"} {
						if !(ml && mode) && fwd != "none" {
							continue // no intra-proxy manager: nothing to register a sender with
						}
						c := rCase{local: local, ml: ml, mode: mode, owner: owner, fwd: fwd, allow: true}
						var obs string
						var waited time.Duration
						synctest.Test(t, func(t *testing.T) {
							sm := newRouteManager(c)
							shardOf := rTarget
							switch owner {
							case "self":
								proxy.VerifMergeRemoteState(sm, snapshotJSON("n0", shardOf))
							case "other", "other-noaddr":
								proxy.VerifMergeRemoteState(sm, snapshotJSON("n1", shardOf))
							}
							ss := newSrvStream(t.Context())
							if ml && mode && fwd != "none" {
								if fwd == "err" {
									ss.SetSendErr(errors.New("stream broken"))
								}
								proxy.VerifRegisterIntraSender(sm, "n1", rTarget, rSource, ss)
							}
							shutdown := channel.NewShutdownOnce()
							var ch chan proxy.RoutedMessage
							switch local {
							case "sent":
								ch = make(chan proxy.RoutedMessage, 1)
							case "shutdown":
								ch = make(chan proxy.RoutedMessage) // nobody reads: the send can only block
								shutdown.Shutdown()
							case "closed", "closed+shutdown":
								ch = make(chan proxy.RoutedMessage, 1)
								close(ch)
								if local == "closed+shutdown" {
									shutdown.Shutdown()
								}
							}
							if ch != nil {
								sm.SetRemoteSendChan(rTarget, ch)
							}
							start := time.Now()
							ok := sm.DeliverMessagesToShardOwner(rTarget, &proxy.RoutedMessage{SourceShard: rSource, Resp: msgResp(9)}, shutdown, log.NewNoopLogger())
							waited = time.Since(start)
							gotLocal := 0
							if local == "sent" {
								gotLocal = len(ch)
							}
							gotRemote := len(ss.Sent())
							obs = routeOutcome(ok, gotLocal, gotRemote, false)
							// monitor: true iff exactly one recipient, false iff none
							if ok != (gotLocal+gotRemote == 1) || gotLocal+gotRemote > 1 {
								e.Violation(map[string]any{"what": fmt.Sprintf("DeliverMessagesToShardOwner returned %v with %d local and %d remote recipients", ok, gotLocal, gotRemote), "ops": []string{c.line("rmsg")}})
							}
						})
						e.Emit(c.line("rmsg"), obs)
						e.Evals++
						e.Distinct(fnv(c.line("rmsg") + "|" + local))
						e.Count("route_msg_" + strings.Fields(obs)[0])
						if waited >= 2*time.Second {
							e.Count("route_msg_waited_2s_for_sender")
						}
					}
				}
			}
		}
	}
}

// ackPeer is a real gRPC server standing in for the owner's proxy: it counts the acknowledgements it receives on
// intra-proxy streams and holds the streams open.
type ackPeer struct {
	be      *backend
	opened  atomic.Int64
	acks    atomic.Int64
	mu      sync.Mutex
	streams []string
	ackOn   []string // per acknowledgement received: the key of the stream it arrived on
}

func newAckPeer(t *testing.T) *ackPeer {
	p := &ackPeer{be: newBackend(t, "peer")}
	p.be.Stream = func(method string, md metadata.MD, ss grpc.ServerStream) error {
		p.mu.Lock()
		p.streams = append(p.streams, strings.Join(md.Get(history.MetadataKeyClientClusterID), "")+":"+strings.Join(md.Get(history.MetadataKeyClientShardID), "")+
			"<-"+strings.Join(md.Get(history.MetadataKeyServerClusterID), "")+":"+strings.Join(md.Get(history.MetadataKeyServerShardID), ""))
		p.mu.Unlock()
		key := p.streams[len(p.streams)-1]
		p.opened.Add(1)
		for {
			req := newMsg(methodDesc(method).Input())
			if err := ss.RecvMsg(req); err != nil {
				return nil
			}
			p.mu.Lock()
			p.ackOn = append(p.ackOn, key)
			p.mu.Unlock()
			p.acks.Add(1)
		}
	}
	return p
}

func waitFor(cond func() bool, d time.Duration) bool {
	deadline := time.Now().Add(d)
	for time.Now().Before(deadline) {
		if cond() {
			return true
		}
		time.Sleep(2 * time.Millisecond)
	}
	return cond()
}

// c09RouteAcks: DeliverAckToShardOwner over the full cross product, in real time; the remote hand-off goes through a
// REAL intra-proxy receiver (gRPC client stream to a real server) created by EnsureReceiverForPeerShard.
func c09RouteAcks(t *testing.T, e *Env) {
	c09AckOnItsOwnStream(t, e)
	peer := newAckPeer(t)
	defer peer.be.Stop()
	for _, local := range []string{"none", "sent", "shutdown", "closed", "closed+shutdown"} {
		for _, ml := range []bool{false, true} {
			for _, mode := range []bool{false, true} {
				for _, owner := range []string{"unknown", "self", "other", "other-noaddr"} {
					for _, fwd := range []string{"ok", "none"} {
						for _, allow := range []bool{false, true} {
							if !(ml && mode && owner == "other") && fwd != "none" {
								continue // a receiver can only exist towards a peer with an address, in routing mode
							}
							c := rCase{local: local, ml: ml, mode: mode, owner: owner, fwd: fwd, allow: allow}
							var mlc *config.MemberlistConfig
							if ml {
								mlc = &config.MemberlistConfig{Enabled: true, NodeName: "n0", ProxyAddresses: map[string]string{"n0": "127.0.0.1:1"}}
								if owner == "other" {
									mlc.ProxyAddresses["n1"] = peer.be.Addr()
								}
							}
							md := config.ShardCountDefault
							if mode {
								md = config.ShardCountRouting
							}
							sm := proxy.NewShardManager(mlc, config.ShardCountConfig{Mode: md, LocalShardCount: 4, RemoteShardCount: 4}, encryption.TLSConfig{}, noopLoggers())
							if ml {
								proxy.VerifSetupCallbacks(sm)
							}
							switch owner {
							case "self":
								proxy.VerifMergeRemoteState(sm, snapshotJSON("n0", rSource))
							case "other", "other-noaddr":
								proxy.VerifMergeRemoteState(sm, snapshotJSON("n1", rSource))
							}
							if fwd == "ok" {
								// this instance holds the target shard locally and keeps a receiver stream towards the owner of the source shard
								sm.RegisterShard(rTarget)
								before := peer.opened.Load()
								sm.GetIntraProxyManager().EnsureReceiverForPeerShard("n1", rTarget, rSource)
								if !waitFor(func() bool { return peer.opened.Load() > before }, 5*time.Second) {
									t.Fatalf("intra-proxy receiver stream did not reach the peer")
								}
								time.Sleep(5 * time.Millisecond)
							}
							shutdown := channel.NewShutdownOnce()
							var ch chan proxy.RoutedAck
							switch local {
							case "sent":
								ch = make(chan proxy.RoutedAck, 1)
							case "shutdown":
								ch = make(chan proxy.RoutedAck)
								shutdown.Shutdown()
							case "closed", "closed+shutdown":
								ch = make(chan proxy.RoutedAck, 1)
								close(ch)
								if local == "closed+shutdown" {
									shutdown.Shutdown()
								}
							}
							if ch != nil {
								sm.SetLocalAckChan(rSource, ch)
							}
							acksBefore := peer.acks.Load()
							ok, panicked := false, false
							func() {
								defer func() {
									if r := recover(); r != nil {
										panicked = true
									}
								}()
								ok = sm.DeliverAckToShardOwner(rSource, &proxy.RoutedAck{TargetShard: rTarget, Req: ackReq(7)}, shutdown, log.NewNoopLogger(), 7, allow)
							}()
							gotLocal := 0
							if local == "sent" {
								gotLocal = len(ch)
							}
							gotRemote := 0
							if ok && gotLocal == 0 {
								waitFor(func() bool { return peer.acks.Load() > acksBefore }, 3*time.Second)
							} else if fwd == "ok" {
								time.Sleep(10 * time.Millisecond)
							}
							gotRemote = int(peer.acks.Load() - acksBefore)
							obs := routeOutcome(ok, gotLocal, gotRemote, panicked)
							if !panicked && (ok != (gotLocal+gotRemote == 1) || gotLocal+gotRemote > 1) {
								e.Violation(map[string]any{"what": fmt.Sprintf("DeliverAckToShardOwner returned %v with %d local and %d remote recipients", ok, gotLocal, gotRemote), "ops": []string{c.line("rack")}})
							}
							if panicked && ml && mode {
								e.Violation(map[string]any{"what": "DeliverAckToShardOwner panicked in routing mode", "ops": []string{c.line("rack")}})
							}
							e.Emit(c.line("rack"), obs)
							e.Evals++
							e.Distinct(fnv(c.line("rack") + "|" + local))
							e.Count("route_ack_" + strings.Fields(obs)[0])
							if mgr := sm.GetIntraProxyManager(); mgr != nil {
								mgr.ClosePeer("n1")
							}
						}
					}
				}
			}
		}
	}
}

// c09AckOnItsOwnStream: the owner of a source shard books an acknowledgement under the target shard of the intra-proxy stream
// it ARRIVES on. This instance holds two target shards T and T'; only the stream (T', S) to the owner is up (the one for T
// is down or not yet re-established). An acknowledgement coming from T may be reported undeliverable — it must not reach
// the owner on the stream of T'. Control: with the stream (T, S) up it arrives there.
func c09AckOnItsOwnStream(t *testing.T, e *Env) {
	peer := newAckPeer(t)
	defer peer.be.Stop()
	rTarget2 := history.ClusterShardID{ClusterID: rTarget.ClusterID, ShardID: rTarget.ShardID + 1}
	for _, scen := range []string{"own-stream-up", "only-sibling-up", "both-up"} {
		mlc := &config.MemberlistConfig{Enabled: true, NodeName: "n0", ProxyAddresses: map[string]string{"n0": "127.0.0.1:1", "n1": peer.be.Addr()}}
		sm := proxy.NewShardManager(mlc, config.ShardCountConfig{Mode: config.ShardCountRouting, LocalShardCount: 4, RemoteShardCount: 4}, encryption.TLSConfig{}, noopLoggers())
		proxy.VerifSetupCallbacks(sm)
		proxy.VerifMergeRemoteState(sm, snapshotJSON("n1", rSource))
		sm.RegisterShard(rTarget)
		sm.RegisterShard(rTarget2)
		ensure := func(tgt history.ClusterShardID) {
			before := peer.opened.Load()
			sm.GetIntraProxyManager().EnsureReceiverForPeerShard("n1", tgt, rSource)
			if !waitFor(func() bool { return peer.opened.Load() > before }, 5*time.Second) {
				t.Fatalf("intra-proxy receiver stream did not reach the peer")
			}
			time.Sleep(5 * time.Millisecond)
		}
		peer.mu.Lock()
		nStreams := len(peer.streams)
		peer.mu.Unlock()
		if scen != "only-sibling-up" {
			ensure(rTarget)
		}
		if scen != "own-stream-up" {
			ensure(rTarget2)
		}
		peer.mu.Lock()
		var ownKey string
		if scen != "only-sibling-up" {
			ownKey = peer.streams[nStreams]
		}
		ackBefore := len(peer.ackOn)
		peer.mu.Unlock()
		ok := sm.DeliverAckToShardOwner(rSource, &proxy.RoutedAck{TargetShard: rTarget, Req: ackReq(7)}, channel.NewShutdownOnce(), log.NewNoopLogger(), 7, true)
		waitFor(func() bool { peer.mu.Lock(); defer peer.mu.Unlock(); return len(peer.ackOn) > ackBefore }, 300*time.Millisecond)
		peer.mu.Lock()
		arrived := append([]string{}, peer.ackOn[ackBefore:]...)
		peer.mu.Unlock()
		op := fmt.Sprintf("# ack-on-its-own-stream %s", scen)
		e.Emit(op, "#")
		e.Evals++
		e.Count("ack_own_stream_" + scen)
		for _, k := range arrived {
			if k != ownKey {
				e.Violation(map[string]any{"what": fmt.Sprintf("an acknowledgement coming from target shard %s reached the owner of the source shard on the intra-proxy stream %q (scenario %s; its own stream: %q): the owner books it under that stream's target shard (delivery returned %v)",
					proxy.ClusterShardIDtoShortString(rTarget), k, scen, ownKey, ok), "ops": []string{op}})
			}
		}
		if scen != "only-sibling-up" && (len(arrived) != 1 || !ok) {
			e.Violation(map[string]any{"what": fmt.Sprintf("an acknowledgement coming from target shard %s with its stream to the owner up: delivery returned %v, %d acknowledgement(s) arrived", proxy.ClusterShardIDtoShortString(rTarget), ok, len(arrived)), "ops": []string{op}})
		}
		if mgr := sm.GetIntraProxyManager(); mgr != nil {
			mgr.ClosePeer("n1")
		}
	}
}

// ---- ReconcilePeerStreams ----

func cs(c, s int32) history.ClusterShardID { return history.ClusterShardID{ClusterID: c, ShardID: s} }

func csList(l []history.ClusterShardID) string {
	if len(l) == 0 {
		return "-"
	}
	var p []string
	for _, x := range l {
		p = append(p, proxy.ClusterShardIDtoShortString(x))
	}
	return strings.Join(p, ",")
}

func keyList(l []string) string {
	if len(l) == 0 {
		return "-"
	}
	l = append([]string{}, l...)
	sort.Strings(l)
	return strings.Join(l, ",")
}

// c09Reconcile drives the REAL ReconcilePeerStreams of a manager with two real gRPC peers through a sequence of
// ownership situations; the tables it leaves behind are compared with the pure desired-set / prune functions.
func c09Reconcile(t *testing.T, e *Env) {
	rounds := 6
	if e.Thorough() {
		rounds = 40
	}
	for round := 0; round < rounds; round++ {
		peers := []*ackPeer{newAckPeer(t), newAckPeer(t)}
		mlc := &config.MemberlistConfig{Enabled: true, NodeName: "n0", ProxyAddresses: map[string]string{"n0": "127.0.0.1:1", "n1": peers[0].be.Addr(), "n2": peers[1].be.Addr()}}
		sm := proxy.NewShardManager(mlc, config.ShardCountConfig{Mode: config.ShardCountRouting, LocalShardCount: 4, RemoteShardCount: 4}, encryption.TLSConfig{}, noopLoggers())
		proxy.VerifSetupCallbacks(sm)
		mgr := sm.GetIntraProxyManager()
		locals := map[history.ClusterShardID]time.Time{}
		var senders [2][]string // keys registered under n1 / n2 by the harness (what a peer's receiver stream would register)
		steps := 4 + e.Rng.IntN(4)
		for step := 0; step < steps; step++ {
			// a new ownership situation: local shards of both clusters, disjoint shard sets at the two peers
			var wantLocal []history.ClusterShardID
			var remote [2][]history.ClusterShardID
			for c := int32(1); c <= 2; c++ {
				for s := int32(1); s <= 3; s++ {
					switch e.Rng.IntN(4) {
					case 0:
						wantLocal = append(wantLocal, cs(c, s))
					case 1:
						remote[0] = append(remote[0], cs(c, s))
					case 2:
						remote[1] = append(remote[1], cs(c, s))
					}
				}
			}
			for sh, at := range locals {
				keep := false
				for _, x := range wantLocal {
					keep = keep || x == sh
				}
				if !keep {
					sm.UnregisterShard(sh, at)
					delete(locals, sh)
				}
			}
			for _, x := range wantLocal {
				if _, ok := locals[x]; !ok {
					locals[x] = sm.RegisterShard(x)
				}
			}
			for p := 0; p < 2; p++ {
				proxy.VerifMergeRemoteState(sm, snapshotJSON(fmt.Sprintf("n%d", p+1), remote[p]...))
			}
			// a few peer-opened streams register senders here, desired or not
			for k := 0; k < 2; k++ {
				p := e.Rng.IntN(2)
				tgt, src := cs(int32(1+e.Rng.IntN(2)), int32(1+e.Rng.IntN(3))), cs(int32(1+e.Rng.IntN(2)), int32(1+e.Rng.IntN(3)))
				if e.Rng.IntN(3) != 0 && len(remote[p]) > 0 && len(wantLocal) > 0 {
					// what the peer's receiver for one of its shards would open: target = its shard, source = one of ours
					tgt, src = remote[p][e.Rng.IntN(len(remote[p]))], wantLocal[e.Rng.IntN(len(wantLocal))]
				}
				if tgt.ClusterID == src.ClusterID {
					continue // RegisterSender ignores same-cluster pairs
				}
				proxy.VerifRegisterIntraSender(sm, fmt.Sprintf("n%d", p+1), tgt, src, newSrvStream(context.Background()))
			}
			recvBefore, sendBefore := proxy.VerifPeerStreamKeys(sm)
			senders[0], senders[1] = sendBefore["n1"], sendBefore["n2"]
			mgr.ReconcilePeerStreams("")
			recvAfter, sendAfter := proxy.VerifPeerStreamKeys(sm)
			var lk []history.ClusterShardID
			for sh := range locals {
				lk = append(lk, sh)
			}
			sort.Slice(lk, func(i, j int) bool {
				return proxy.ClusterShardIDtoShortString(lk[i]) < proxy.ClusterShardIDtoShortString(lk[j])
			})
			op := fmt.Sprintf("reconcile %s 1 %s %s %s 2 %s %s %s", csList(lk),
				keyList(recvBefore["n1"]), keyList(senders[0]), csList(remote[0]),
				keyList(recvBefore["n2"]), keyList(senders[1]), csList(remote[1]))
			obs := fmt.Sprintf("p1 R=%s S=%s | p2 R=%s S=%s", keyList(recvAfter["n1"]), keyList(sendAfter["n1"]), keyList(recvAfter["n2"]), keyList(sendAfter["n2"]))
			e.Emit(op, obs)
			e.Evals++
			e.Distinct(fnv(op))
			e.Count("reconcile_step")
			// monitor: everything left is a cross-cluster (local, remote) pair in the right direction
			isLocal := func(k string) bool {
				for sh := range locals {
					if proxy.ClusterShardIDtoShortString(sh) == k {
						return true
					}
				}
				return false
			}
			isRemote := func(k string) bool {
				for p := 0; p < 2; p++ {
					for _, sh := range remote[p] {
						if proxy.ClusterShardIDtoShortString(sh) == k {
							return true
						}
					}
				}
				return false
			}
			for _, tbl := range []map[string][]string{recvAfter} {
				for peer, keys := range tbl {
					for _, k := range keys {
						p := strings.Split(k, "<-")
						if !(isLocal(p[0]) && isRemote(p[1]) && p[0][0] != p[1][0]) {
							e.Violation(map[string]any{"what": fmt.Sprintf("receiver %s towards %s survived a reconcile outside the desired set", k, peer), "ops": []string{op}})
						}
					}
				}
			}
			for peer, keys := range sendAfter {
				for _, k := range keys {
					p := strings.Split(k, "<-")
					if !(isRemote(p[0]) && isLocal(p[1]) && p[0][0] != p[1][0]) {
						e.Violation(map[string]any{"what": fmt.Sprintf("sender %s towards %s survived a reconcile outside the desired set", k, peer), "ops": []string{op}})
					}
				}
			}
			// let the freshly ensured receivers open their streams before the situation changes again
			want := 0
			for _, keys := range recvAfter {
				want += len(keys)
			}
			waitFor(func() bool {
				r, _ := proxy.VerifPeerStreamKeys(sm)
				n := 0
				for _, k := range r {
					n += len(k)
				}
				return n == want
			}, time.Second)
			time.Sleep(30 * time.Millisecond)
		}
		mgr.ClosePeer("n1")
		mgr.ClosePeer("n2")
		peers[0].be.Stop()
		peers[1].be.Stop()
	}
}

// c09SnapshotLimit: the excluded point of the snapshot assumption — LocalState is NodeMeta(4096); a node holding more
// shards than fit degrades to its bare name, which peers cannot merge.  Exercised and reported; outside the property's bounds.
func c09SnapshotLimit(t *testing.T, e *Env) map[string]any {
	mk := func(name string) proxy.ShardManager {
		ml := &config.MemberlistConfig{Enabled: true, NodeName: name, ProxyAddresses: map[string]string{}}
		sm := proxy.NewShardManager(ml, config.ShardCountConfig{Mode: config.ShardCountRouting}, encryption.TLSConfig{}, noopLoggers())
		proxy.VerifSetupCallbacks(sm)
		return sm
	}
	a, b := mk("n0"), mk("n1")
	firstBad := 0
	for s := int32(1); s <= 128; s++ {
		a.RegisterShard(cs(2, s))
		proxy.VerifMergeRemoteState(b, proxy.VerifLocalState(a))
		seen := len(proxy.VerifRemoteNodeStates(b)["n0"])
		if seen != int(s) && firstBad == 0 {
			firstBad = int(s)
			e.Count("excluded_snapshot_over_4096_bytes_not_merged")
		}
	}
	return map[string]any{"shards_held_when_LocalState_stops_being_mergeable": firstBad, "bytes_at_128_shards": len(proxy.VerifLocalState(a))}
}
