package eng

import (
	"encoding/hex"
	"fmt"
	"math/rand/v2"
	"reflect"
	"sort"
	"strings"
	"testing"
	"time"
	"unicode/utf8"

	gogoproto "github.com/gogo/protobuf/proto"
	replicationpb "go.temporal.io/server/api/replication/v1"
	"google.golang.org/grpc/encoding"
	grpcproto "google.golang.org/grpc/encoding/proto"
	"google.golang.org/grpc/mem"
	"google.golang.org/protobuf/proto"
	"google.golang.org/protobuf/reflect/protoreflect"
	"google.golang.org/protobuf/reflect/protoregistry"
	"google.golang.org/protobuf/types/known/wrapperspb"

	failure122 "github.com/temporalio/s2s-proxy/proto/1_22/api/failure/v1"
	"github.com/temporalio/s2s-proxy/proto/compat"
)

// ---- C17: UTF-8 repair is invisible on valid data and faithful on invalid data (engine "utf8") ----
//
//  (a) utf8.ValidString / strings.ToValidUTF8(s, "�")  vs the Lean model, exhaustively on short strings
//  (b) repairInvalidUTF8InFailure through the exported generated compat.RepairInvalidUTF8
//  (c) the real registered codec on wire bytes produced by the LEGACY (gogo) schema
//
// The property monitor never consults the model: its reference is "standard decode of a sanitised
// copy of the same message" where the copy is made by the harness' own reflection walker.

func hexOf(b []byte) string {
	if len(b) == 0 {
		return "-"
	}
	return hex.EncodeToString(b)
}

func unhex(s string) ([]byte, bool) {
	if s == "-" {
		return nil, true
	}
	b, err := hex.DecodeString(s)
	return b, err == nil
}

const replacement = "�"

// ---------- (a) ----------

func c17Valid(e *Env, b []byte) {
	s := string(b)
	e.Emit("valid "+hexOf(b), fmt.Sprint(utf8.ValidString(s)))
	e.Evals++
}

func c17ToValid(e *Env, b []byte) {
	s := string(b)
	out := strings.ToValidUTF8(s, replacement)
	op := "tovalid " + hexOf(b)
	e.Emit(op, hexOf([]byte(out)))
	e.Evals++
	// monitor (statement of the property on Go's functions, no model): result valid; valid input unchanged
	if !utf8.ValidString(out) {
		e.Violation(map[string]any{"what": "strings.ToValidUTF8 returned invalid UTF-8", "ops": []string{op}})
	}
	if utf8.ValidString(s) {
		e.Count("u8_valid_input")
		if out != s {
			e.Violation(map[string]any{"what": "strings.ToValidUTF8 changed a valid string", "ops": []string{op}})
		}
	} else {
		e.Count("u8_invalid_input")
		e.Distinct(fnv(op))
	}
}

// combined op used for the big exhaustive sweep of the thorough tier (halves the line count)
func c17U8(e *Env, b []byte) {
	s := string(b)
	out := strings.ToValidUTF8(s, replacement)
	e.Emit("u8 "+hexOf(b), fmt.Sprintf("%v %s", utf8.ValidString(s), hexOf([]byte(out))))
	e.Evals++
	if !utf8.ValidString(s) {
		e.Count("u8_invalid_input")
	} else {
		e.Count("u8_valid_input")
	}
}

// bytes at and around every boundary of Go's `first` / `acceptRanges` tables
var edgeBytes = []byte{0x00, 0x41, 0x7f, 0x80, 0x8f, 0x90, 0x9f, 0xa0, 0xbd, 0xbf, 0xc0, 0xc1, 0xc2, 0xdf, 0xe0, 0xe1, 0xec, 0xed, 0xee, 0xef, 0xf0, 0xf1, 0xf3, 0xf4, 0xf5, 0xf7, 0xf8, 0xfe, 0xff}

type u8gen struct{ r *rand.Rand }

func (g u8gen) rune() rune {
	switch g.r.IntN(10) {
	case 0:
		return rune(g.r.IntN(0x80))
	case 1:
		return []rune{0x80, 0x7ff, 0x800, 0xfff, 0x1000, 0xcfff, 0xd7ff, 0xe000, 0xfffd, 0xffff, 0x10000, 0x3ffff, 0x40000, 0xfffff, 0x100000, 0x10ffff}[g.r.IntN(16)]
	case 2:
		return rune(0x80 + g.r.IntN(0x780))
	case 3:
		return rune(0x10000 + g.r.IntN(0x100000))
	case 4, 5:
		for {
			r := rune(0x800 + g.r.IntN(0xf800))
			if r < 0xd800 || r > 0xdfff {
				return r
			}
		}
	}
	return rune(0x20 + g.r.IntN(0x5f))
}

func (g u8gen) validString(maxRunes int) string {
	var sb strings.Builder
	n := g.r.IntN(maxRunes + 1)
	for i := 0; i < n; i++ {
		sb.WriteRune(g.rune())
	}
	return sb.String()
}

// piece returns one structured fragment: valid runes, truncated sequences, overlongs, surrogates, ...
func (g u8gen) piece() []byte {
	switch g.r.IntN(12) {
	case 0, 1, 2:
		return []byte(g.validString(4))
	case 3: // truncated multi-byte rune
		b := []byte(string(g.rune()))
		if len(b) > 1 {
			return b[:1+g.r.IntN(len(b)-1)]
		}
		return b
	case 4: // overlong forms
		return [][]byte{{0xc0, 0x80}, {0xc1, 0xbf}, {0xe0, 0x80, 0x80}, {0xe0, 0x9f, 0xbf}, {0xf0, 0x80, 0x80, 0x80}, {0xf0, 0x8f, 0xbf, 0xbf}}[g.r.IntN(6)]
	case 5: // surrogates
		return []byte{0xed, byte(0xa0 + g.r.IntN(0x20)), byte(0x80 + g.r.IntN(0x40))}
	case 6: // beyond U+10FFFF
		return [][]byte{{0xf4, 0x90, 0x80, 0x80}, {0xf5, 0x80, 0x80, 0x80}, {0xf7, 0xbf, 0xbf, 0xbf}, {0xf8, 0x88, 0x80, 0x80, 0x80}}[g.r.IntN(4)]
	case 7: // stray continuation bytes
		n := 1 + g.r.IntN(3)
		b := make([]byte, n)
		for i := range b {
			b[i] = byte(0x80 + g.r.IntN(0x40))
		}
		return b
	case 8:
		return [][]byte{{0xff}, {0xfe}, {0xff, 0xff}, {0xfe, 0xff}}[g.r.IntN(4)]
	case 9: // edge bytes
		n := 1 + g.r.IntN(4)
		b := make([]byte, n)
		for i := range b {
			b[i] = edgeBytes[g.r.IntN(len(edgeBytes))]
		}
		return b
	case 10: // a well-formed U+FFFD in the input
		return []byte(replacement)
	}
	n := 1 + g.r.IntN(5)
	b := make([]byte, n)
	for i := range b {
		b[i] = byte(g.r.IntN(256))
	}
	return b
}

func (g u8gen) bytes(maxPieces int) []byte {
	var out []byte
	n := g.r.IntN(maxPieces + 1)
	for i := 0; i < n; i++ {
		out = append(out, g.piece()...)
	}
	return out
}

// invalid returns a byte string that is certainly not valid UTF-8
func (g u8gen) invalid() string {
	for {
		b := g.bytes(4)
		if !utf8.Valid(b) {
			return string(b)
		}
	}
}

// ---------- (b) failure chains through the generated visitor ----------

// chainCarrier builds a legacy message holding a failure chain; returns the root for
// compat.RepairInvalidUTF8 and the outermost failure.
type chainCarrier struct {
	name string
	mk   func() (any, *failure122.Failure)
}

func chainCarriers() []chainCarrier {
	var out []chainCarrier
	out = append(out, chainCarrier{"Failure", func() (any, *failure122.Failure) { f := &failure122.Failure{}; return f, f }})
	for _, name := range []string{
		"temporal.api.history.v1.HistoryEvent",
		"temporal.server.api.adminservice.v1.StreamWorkflowReplicationMessagesResponse",
		"temporal.api.workflowservice.v1.PollWorkflowTaskQueueResponse",
		"temporal.api.workflowservice.v1.RespondWorkflowTaskFailedRequest",
		"temporal.api.workflowservice.v1.RespondActivityTaskFailedByIdResponse",
		"temporal.server.api.adminservice.v1.DescribeMutableStateResponse",
	} {
		lt := legacyType(name)
		if lt == nil {
			continue
		}
		for _, p := range oraclePaths(lt) {
			lt, p := lt, p
			out = append(out, chainCarrier{name + ":" + p.String(), func() (any, *failure122.Failure) {
				rv, f := rpBuildAlong(lt, p)
				return rv.Interface(), f
			}})
		}
	}
	return out
}

func chainMessages(f *failure122.Failure) [][]byte {
	var out [][]byte
	for ; f != nil; f = f.Cause {
		out = append(out, []byte(f.Message))
	}
	return out
}

func chainStr(msgs [][]byte) string {
	if len(msgs) == 0 {
		return "nil"
	}
	parts := make([]string, len(msgs))
	for i, m := range msgs {
		parts[i] = hexOf(m)
	}
	return strings.Join(parts, ",")
}

func parseChainStr(s string) ([][]byte, bool) {
	if s == "nil" {
		return nil, true
	}
	var out [][]byte
	for _, p := range strings.Split(s, ",") {
		b, ok := unhex(p)
		if !ok {
			return nil, false
		}
		out = append(out, b)
	}
	return out, true
}

// c17Chain runs one chain through the real visitor inside carrier c.
func c17Chain(e *Env, c chainCarrier, msgs [][]byte) {
	op := "chain " + chainStr(msgs)
	var root any
	var f *failure122.Failure
	if len(msgs) == 0 {
		root, f = (*failure122.Failure)(nil), nil
	} else {
		root, f = c.mk()
		ss := make([]string, len(msgs))
		for i, m := range msgs {
			ss[i] = string(m)
		}
		chainAt(reflect.ValueOf(f).Elem(), ss)
		// every other string of the failures gets a recognisable valid value
		i := 0
		for x := f; x != nil; x = x.Cause {
			x.Source, x.StackTrace = fmt.Sprintf("src%d", i), "traceé"
			i++
		}
	}
	changed, err := compat.RepairInvalidUTF8(root)
	after := chainMessages(f)
	tag := "ok"
	if err != nil {
		tag = "err"
	}
	b := 0
	if changed {
		b = 1
	}
	e.Emit(op, fmt.Sprintf("%s changed=%d %s", tag, b, chainStr(after)))
	e.Evals++
	e.Count(fmt.Sprintf("chain_depth_%02d", len(msgs)))
	e.Distinct(fnv(c.name + op))
	// monitor: the property statement, directly
	bad := func(what string) {
		e.Violation(map[string]any{"what": what + " (carrier " + c.name + ")", "ops": []string{op}})
	}
	if len(after) != len(msgs) {
		bad("failure chain changed length")
		return
	}
	anyInvalid := false
	for i, m := range msgs {
		if !utf8.Valid(m) && i < 10 {
			anyInvalid = true
		}
	}
	if len(msgs) <= 10 {
		if err != nil {
			bad("chain within the supported depth reported an error: " + err.Error())
		}
		for i, m := range msgs {
			want := strings.ToValidUTF8(string(m), replacement)
			if string(after[i]) != want {
				bad(fmt.Sprintf("message %d is %q, want %q", i, after[i], want))
			}
		}
		if changed != anyInvalid {
			bad(fmt.Sprintf("changed=%v but invalid messages present=%v", changed, anyInvalid))
		}
	} else if err == nil {
		bad("chain beyond the supported depth did not report an error")
	}
	i := 0
	for x := f; x != nil; x = x.Cause {
		if x.Source != fmt.Sprintf("src%d", i) || x.StackTrace != "traceé" {
			bad("another field of the failure was modified")
		}
		i++
	}
}

// ---------- (c) the codec ----------

// random legacy messages -------------------------------------------------------------------------

type msgGen struct {
	r  *rand.Rand
	u8 u8gen
}

var durationT = reflect.TypeOf(time.Duration(0))

func (g *msgGen) scalar(fv reflect.Value) bool {
	switch fv.Kind() {
	case reflect.String:
		if g.r.IntN(3) > 0 {
			fv.SetString(g.u8.validString(6))
		}
	case reflect.Bool:
		fv.SetBool(g.r.IntN(2) == 0)
	case reflect.Int32, reflect.Int64, reflect.Int:
		if fv.Type().PkgPath() != "" && fv.Type() != durationT { // enum
			fv.SetInt(int64(g.r.IntN(4)))
		} else {
			fv.SetInt(int64(g.r.IntN(1000)))
		}
	case reflect.Uint32, reflect.Uint64:
		fv.SetUint(uint64(g.r.IntN(1000)))
	case reflect.Float32, reflect.Float64:
		fv.SetFloat(float64(g.r.IntN(100)) / 4)
	default:
		return false
	}
	return true
}

func (g *msgGen) value(fv reflect.Value, depth int) {
	if g.scalar(fv) {
		return
	}
	switch fv.Kind() {
	case reflect.Slice:
		et := fv.Type().Elem()
		if et.Kind() == reflect.Uint8 {
			n := g.r.IntN(6)
			b := make([]byte, n)
			for i := range b {
				b[i] = byte(g.r.IntN(256))
			}
			if n > 0 {
				fv.SetBytes(b)
			}
			return
		}
		if depth <= 0 && (et.Kind() == reflect.Ptr || et.Kind() == reflect.Struct) {
			return
		}
		n := g.r.IntN(3)
		for i := 0; i < n; i++ {
			ev := reflect.New(et).Elem()
			g.nonNil(ev, depth-1)
			fv.Set(reflect.Append(fv, ev))
		}
	case reflect.Map:
		if depth <= 0 {
			return
		}
		n := g.r.IntN(3)
		if n > 0 {
			fv.Set(reflect.MakeMap(fv.Type()))
		}
		for i := 0; i < n; i++ {
			ev := reflect.New(fv.Type().Elem()).Elem()
			g.nonNil(ev, depth-1)
			fv.SetMapIndex(mkKey(fv.Type().Key(), i), ev)
		}
	case reflect.Ptr:
		if g.r.IntN(2) == 0 || (depth <= 0 && fv.Type().Elem().Kind() == reflect.Struct && fv.Type().Elem() != timeT) {
			return
		}
		g.nonNil(fv, depth)
	case reflect.Struct:
		g.nonNil(fv, depth)
	case reflect.Interface:
		// handled by fill (needs the owner's wrapper list)
	}
}

// nonNil makes fv a populated value (allocating pointers)
func (g *msgGen) nonNil(fv reflect.Value, depth int) {
	switch fv.Kind() {
	case reflect.Ptr:
		p := reflect.New(fv.Type().Elem())
		g.nonNil(p.Elem(), depth)
		fv.Set(p)
	case reflect.Struct:
		if fv.Type() == timeT {
			fv.Set(reflect.ValueOf(time.Date(2023, 5, 17, 10, 0, g.r.IntN(60), 0, time.UTC)))
			return
		}
		g.fill(fv, depth-1)
	case reflect.Slice:
		if fv.Type().Elem().Kind() == reflect.Uint8 {
			fv.SetBytes([]byte{byte(g.r.IntN(256))})
		}
	default:
		g.scalar(fv)
	}
}

// fill populates the exported fields of a legacy struct value with random VALID content.
func (g *msgGen) fill(sv reflect.Value, depth int) {
	t := sv.Type()
	for i := 0; i < t.NumField(); i++ {
		f := t.Field(i)
		if !f.IsExported() || strings.HasPrefix(f.Name, "XXX_") {
			continue
		}
		fv := sv.Field(i)
		if fv.Kind() == reflect.Interface {
			if _, ok := f.Tag.Lookup("protobuf_oneof"); !ok || depth <= 0 {
				continue
			}
			ws := oneofWrappers(t, f.Type)
			if len(ws) == 0 || g.r.IntN(3) == 0 {
				continue
			}
			w := reflect.New(ws[g.r.IntN(len(ws))])
			g.nonNil(w.Elem().Field(0), depth)
			fv.Set(w)
			continue
		}
		g.value(fv, depth)
	}
}

// sanitiseFailures is the harness' own statement of what "repair" means, written from the property
// text: every failure message reachable in the value, through nested causes up to the supported
// depth (10), has its invalid UTF-8 replaced by U+FFFD.  Reports whether anything changed and whether
// some chain is longer than the supported depth.
func sanitiseFailures(v reflect.Value) (changed, tooDeep bool) {
	var walk func(v reflect.Value)
	walk = func(v reflect.Value) {
		switch v.Kind() {
		case reflect.Ptr, reflect.Interface:
			if !v.IsNil() {
				walk(v.Elem())
			}
		case reflect.Struct:
			if v.Type() == failureT {
				f := v.Addr().Interface().(*failure122.Failure)
				n := 0
				for ; f != nil && n < 10; f, n = f.Cause, n+1 {
					if !utf8.ValidString(f.Message) {
						f.Message = strings.ToValidUTF8(f.Message, replacement)
						changed = true
					}
				}
				if f != nil {
					tooDeep = true
				}
				return
			}
			if v.Type() == timeT {
				return
			}
			for i := 0; i < v.NumField(); i++ {
				ft := v.Type().Field(i)
				if ft.IsExported() && !strings.HasPrefix(ft.Name, "XXX_") {
					walk(v.Field(i))
				}
			}
		case reflect.Slice:
			if v.Type().Elem().Kind() != reflect.Uint8 {
				for i := 0; i < v.Len(); i++ {
					walk(v.Index(i))
				}
			}
		case reflect.Map:
			for _, k := range v.MapKeys() {
				walk(v.MapIndex(k))
			}
		}
	}
	walk(v)
	return
}

// otherStringFields collects settable string fields that are not Failure.Message
func otherStringFields(v reflect.Value) []reflect.Value {
	var out []reflect.Value
	var walk func(v reflect.Value, budget int)
	walk = func(v reflect.Value, budget int) {
		if budget <= 0 {
			return
		}
		switch v.Kind() {
		case reflect.Ptr, reflect.Interface:
			if !v.IsNil() {
				walk(v.Elem(), budget)
			}
		case reflect.Struct:
			if v.Type() == timeT {
				return
			}
			for i := 0; i < v.NumField(); i++ {
				ft := v.Type().Field(i)
				if !ft.IsExported() || strings.HasPrefix(ft.Name, "XXX_") {
					continue
				}
				fv := v.Field(i)
				if fv.Kind() == reflect.String {
					if !(v.Type() == failureT && ft.Name == "Message") && fv.CanSet() {
						out = append(out, fv)
					}
					continue
				}
				walk(fv, budget-1)
			}
		case reflect.Slice:
			if v.Type().Elem().Kind() == reflect.String {
				for i := 0; i < v.Len(); i++ {
					out = append(out, v.Index(i))
				}
			} else if v.Type().Elem().Kind() != reflect.Uint8 {
				for i := 0; i < v.Len(); i++ {
					walk(v.Index(i), budget-1)
				}
			}
		case reflect.Map:
			keys := v.MapKeys()
			sort.Slice(keys, func(i, j int) bool { return fmt.Sprint(keys[i]) < fmt.Sprint(keys[j]) })
			for _, k := range keys {
				walk(v.MapIndex(k), budget-1)
			}
		}
	}
	walk(v, 40)
	return out
}

type gogoMsg interface {
	gogoproto.Message
	Marshal() ([]byte, error)
	Unmarshal([]byte) error
}

// stage outcomes, determined by the harness itself (standard codec, gogo codec, own walker) ---------

func isInvalidUTF8Err(err error) bool { // the classification the property speaks of, restated
	return err != nil && strings.Contains(strings.ToLower(err.Error()), "invalid utf-8")
}

func stdKind(err error) string {
	switch {
	case err == nil:
		return "ok"
	case isInvalidUTF8Err(err):
		return "invalidutf8"
	}
	return "other"
}

var stdCodec = encoding.GetCodecV2(grpcproto.Name)

func stdDecode(data []byte, v any) error {
	return stdCodec.Unmarshal(mem.BufferSlice{mem.SliceBuffer(data)}, v)
}

var serviceTypeNames = func() map[string]bool {
	m := map[string]bool{}
	for _, svc := range []string{adminSvc, workflowSvc} {
		d, err := protoregistry.GlobalFiles.FindDescriptorByName(protoreflect.FullName(svc))
		if err != nil {
			panic(err)
		}
		sd := d.(protoreflect.ServiceDescriptor)
		for i := 0; i < sd.Methods().Len(); i++ {
			m[string(sd.Methods().Get(i).Input().FullName())] = true
			m[string(sd.Methods().Get(i).Output().FullName())] = true
		}
	}
	return m
}()

// expectConvertible: the conversion tables cover the request/response types of the two services that
// also exist in the legacy schema (restated; the tables themselves are unexported).
func expectConvertible(fullName string) bool {
	return serviceTypeNames[fullName] && legacyType(fullName) != nil
}

type stageSet struct {
	delegate, repair               string
	marshaler, convertible         bool
	legacy, remarshal, reunmarshal string
	reference                      proto.Message // standard decode of the sanitised copy (nil if none)
	stdValue                       proto.Message // standard decode of the input (nil if rejected)
}

func okErr(err error) string {
	if err == nil {
		return "ok"
	}
	return "err"
}

func b2i(b bool) int {
	if b {
		return 1
	}
	return 0
}

func (s stageSet) opLine() string {
	return fmt.Sprintf("codec delegate=%s marshaler=%d convertible=%d legacy=%s repair=%s remarshal=%s reunmarshal=%s",
		s.delegate, b2i(s.marshaler), b2i(s.convertible), s.legacy, s.repair, s.remarshal, s.reunmarshal)
}

// stagesFor executes the stages of the property's mechanism with independent means.
func stagesFor(newV func() any, fullName string, data []byte) stageSet {
	s := stageSet{legacy: "ok", repair: "unchanged", remarshal: "ok", reunmarshal: "ok"}
	v := newV()
	s.delegate = stdKind(stdDecode(data, v))
	if s.delegate == "ok" {
		s.stdValue, _ = v.(proto.Message)
	}
	_, s.marshaler = v.(interface {
		Marshal() ([]byte, error)
		Unmarshal([]byte) error
	})
	s.convertible = expectConvertible(fullName)
	lt := legacyType(fullName)
	if lt == nil {
		return s
	}
	lm, ok := reflect.New(lt).Interface().(gogoMsg)
	if !ok {
		return s
	}
	if err := lm.Unmarshal(data); err != nil {
		s.legacy = "err"
		return s
	}
	changed, tooDeep := sanitiseFailures(reflect.ValueOf(lm))
	switch {
	case tooDeep:
		s.repair = "err"
	case changed:
		s.repair = "changed"
	}
	out, err := lm.Marshal()
	s.remarshal = okErr(err)
	if err == nil {
		ref := newV()
		err := stdDecode(out, ref)
		s.reunmarshal = okErr(err)
		if err == nil && !tooDeep {
			s.reference, _ = ref.(proto.Message)
		}
	}
	return s
}

// c17Codec runs one wire message through the real codec and the monitor.
func c17Codec(e *Env, fullName string, newV func() any, data []byte, kind string) {
	setup := fmt.Sprintf("#codec %s %s", fullName, hexOf(data))
	e.Emit(setup, "#")
	st := stagesFor(newV, fullName, data)
	v := newV()
	o := runCodec(data, v)
	var obs string
	switch k := stdKind(o.err); {
	case k == "ok" && !o.entered:
		obs = "ok-delegate entered=0"
	case k == "ok":
		obs = "ok-" + o.stage + " entered=1"
	case k == "other":
		obs = fmt.Sprintf("err-other entered=%d", b2i(o.entered))
	default:
		stage := o.stage
		if !o.entered {
			stage = "none"
		}
		obs = fmt.Sprintf("err-invalidutf8 stage=%s entered=%d", stage, b2i(o.entered))
	}
	e.Emit(st.opLine(), obs)
	e.Evals++
	e.Count("codec_kind_" + kind)
	e.Count("codec_result_" + strings.Fields(obs)[0])
	if o.entered {
		e.Count("codec_stage_" + o.stage)
	}
	e.Distinct(fnv(setup))
	// ---- monitor
	bad := func(what string) {
		e.Violation(map[string]any{"what": what + " (" + fullName + ", " + kind + ")", "ops": []string{setup}})
	}
	pm, isProto := v.(proto.Message)
	switch {
	case st.stdValue != nil:
		// transparency: accepted by the standard codec => exactly its result, repair never runs
		if o.err != nil {
			bad("standard codec accepts the message but the codec returned " + o.err.Error())
		} else if !isProto || !proto.Equal(pm, st.stdValue) {
			bad("standard codec accepts the message but the codec's result differs from the standard result")
		}
		if o.entered {
			bad("repair path ran on a message the standard codec accepts")
		}
	case o.err == nil:
		// success after a rejection by the standard codec: must be the sanitised copy, nothing else
		if st.delegate != "invalidutf8" {
			bad("codec returned success although the standard codec failed with a non-UTF-8 error")
		} else if st.reference == nil || st.repair != "changed" {
			bad("codec returned success although the message cannot be repaired (" + st.opLine() + ")")
		} else if !isProto || !proto.Equal(pm, st.reference) {
			bad("repaired message differs from the standard decode of the sanitised copy")
		} else if inv := invalidStringsIn(pm.ProtoReflect(), 0); inv != "" {
			bad("repaired message still holds invalid UTF-8 in " + inv)
		}
	default:
		// an error was returned: fine unless the message was repairable
		if st.delegate == "invalidutf8" && st.marshaler && st.convertible && st.legacy == "ok" && st.repair == "changed" && st.reference != nil {
			bad("message from an older server with invalid UTF-8 only in failure messages was not repaired: " + o.err.Error())
		}
	}
}

// invalidStringsIn: first string field of a current-schema message holding invalid UTF-8 ("" if none)
func invalidStringsIn(m protoreflect.Message, depth int) string {
	if depth > 40 {
		return ""
	}
	res := ""
	m.Range(func(fd protoreflect.FieldDescriptor, v protoreflect.Value) bool {
		check := func(fd protoreflect.FieldDescriptor, v protoreflect.Value) {
			switch fd.Kind() {
			case protoreflect.StringKind:
				if !utf8.ValidString(v.String()) {
					res = string(fd.FullName())
				}
			case protoreflect.MessageKind:
				if r := invalidStringsIn(v.Message(), depth+1); r != "" {
					res = r
				}
			}
		}
		switch {
		case fd.IsList():
			l := v.List()
			for i := 0; i < l.Len() && res == ""; i++ {
				check(fd, l.Get(i))
			}
		case fd.IsMap():
			v.Map().Range(func(k protoreflect.MapKey, mv protoreflect.Value) bool {
				if fd.MapKey().Kind() == protoreflect.StringKind && !utf8.ValidString(k.String()) {
					res = string(fd.FullName())
				}
				check(fd.MapValue(), mv)
				return res == ""
			})
		default:
			check(fd, v)
		}
		return res == ""
	})
	return res
}

func newCurrent(fullName string) func() any {
	mt, err := protoregistry.GlobalTypes.FindMessageByName(protoreflect.FullName(fullName))
	if err != nil {
		return nil
	}
	return func() any { return mt.New().Interface() }
}

type codecRoot struct {
	name  string
	lt    reflect.Type
	paths []opath
}

// genCodecCase builds one legacy message and its wire bytes.
func (g *msgGen) genCodecCase(roots, failRoots []codecRoot) (name string, data []byte, kind string) {
	var root codecRoot
	kindN := g.r.IntN(100)
	if kindN < 30 && g.r.IntN(3) > 0 || len(failRoots) == 0 {
		root = roots[g.r.IntN(len(roots))]
	} else {
		root = failRoots[g.r.IntN(len(failRoots))]
	}
	rv := reflect.New(root.lt)
	g.fill(rv.Elem(), 3)
	plant := func(depth int, allInvalid bool) {
		if len(root.paths) == 0 {
			return
		}
		p := root.paths[g.r.IntN(len(root.paths))]
		cur := rv.Elem()
		for _, s := range p.steps {
			fan := 1 + g.r.IntN(3)
			cur = descend(cur, s, fan, g.r.IntN(fan))
		}
		msgs := make([]string, depth)
		some := false
		for i := range msgs {
			if allInvalid || g.r.IntN(2) == 0 {
				msgs[i] = g.u8.validString(3) + g.u8.invalid() + g.u8.validString(2)
				some = true
			} else {
				msgs[i] = g.u8.validString(5)
			}
		}
		if !some {
			i := g.r.IntN(min(depth, 10))
			msgs[i] = g.u8.invalid()
		}
		// cut whatever chain the filler put there, then install ours
		f := cur.Addr().Interface().(*failure122.Failure)
		f.Cause = nil
		chainAt(cur, msgs)
	}
	switch {
	case kindN < 30:
		kind = "valid"
	case kindN < 60:
		kind = "failure-invalid"
		for i, n := 0, 1+g.r.IntN(3); i < n; i++ {
			plant(1+g.r.IntN(4), false)
		}
	case kindN < 72:
		d := []int{9, 10, 11, 12}[g.r.IntN(4)]
		kind = fmt.Sprintf("chain-depth-%d", d)
		plant(d, g.r.IntN(2) == 0)
	case kindN < 84:
		kind = "other-field-invalid"
		if g.r.IntN(2) == 0 {
			plant(1+g.r.IntN(3), false)
			kind = "other-field-and-failure-invalid"
		}
		fs := otherStringFields(rv)
		if len(fs) > 0 {
			fs[g.r.IntN(len(fs))].SetString(g.u8.invalid())
		} else {
			kind = "other-field-none-available"
		}
	default:
		kind = "garbled"
		if g.r.IntN(2) == 0 {
			plant(1+g.r.IntN(3), false)
		}
	}
	data, err := rv.Interface().(gogoMsg).Marshal()
	if err != nil {
		return root.name, nil, "marshal-error"
	}
	if kind == "garbled" && len(data) > 0 {
		switch g.r.IntN(3) {
		case 0:
			data = data[:g.r.IntN(len(data))]
			kind = "garbled-truncated"
		case 1:
			data = append([]byte(nil), data...)
			for i, n := 0, 1+g.r.IntN(3); i < n; i++ {
				data[g.r.IntN(len(data))] = byte(g.r.IntN(256))
			}
			kind = "garbled-bytes"
		default:
			data = append([]byte(nil), data...)
			data[g.r.IntN(len(data))] ^= 1 << g.r.IntN(8)
			kind = "garbled-bitflip"
		}
	}
	return root.name, data, kind
}

func c17ReplayOp(t *testing.T, e *Env, op string, carriers []chainCarrier) {
	f := strings.Fields(op)
	if len(f) == 0 {
		return
	}
	switch f[0] {
	case "valid", "tovalid", "u8":
		if len(f) != 2 {
			t.Fatalf("bad replay op %q", op)
		}
		b, ok := unhex(f[1])
		if !ok {
			t.Fatalf("bad replay op %q", op)
		}
		switch f[0] {
		case "valid":
			c17Valid(e, b)
		case "tovalid":
			c17ToValid(e, b)
		default:
			c17U8(e, b)
		}
	case "chain":
		msgs, ok := parseChainStr(f[1])
		if !ok {
			t.Fatalf("bad replay op %q", op)
		}
		for _, c := range carriers[:min(3, len(carriers))] {
			c17Chain(e, c, msgs)
		}
	case "#codec":
		data, ok := unhex(f[2])
		nv := newCurrent(f[1])
		if !ok || nv == nil {
			t.Fatalf("bad replay op %q", op)
		}
		c17Codec(e, f[1], nv, data, "replay")
	case "#blob":
		data, ok := unhex(f[1])
		if !ok {
			t.Fatalf("bad replay op %q", op)
		}
		c17Blob(e, data, "replay")
	case "codec", "blob": // derived lines, regenerated by their #codec / #blob line
	default:
		t.Fatalf("unknown replay op %q", op)
	}
}

func TestC17(t *testing.T) {
	e := NewEnv(t, "utf8")
	defer e.Close(t)
	carriers := chainCarriers()
	// 1. replay / corpus first
	if cases := e.ReplayLines(t); cases != nil {
		for _, c := range cases {
			for _, op := range c {
				c17ReplayOp(t, e, op, carriers)
			}
		}
		return
	}
	for _, c := range e.CorpusCases(t) {
		for _, op := range c {
			c17ReplayOp(t, e, op, carriers)
		}
		e.Count("corpus_case")
	}
	g := u8gen{e.Rng}

	// 2. (a) exhaustive: every byte string of length <= 2
	c17Valid(e, nil)
	c17ToValid(e, nil)
	for a := 0; a < 256; a++ {
		c17Valid(e, []byte{byte(a)})
		c17ToValid(e, []byte{byte(a)})
		for b := 0; b < 256; b++ {
			c17Valid(e, []byte{byte(a), byte(b)})
			c17ToValid(e, []byte{byte(a), byte(b)})
		}
	}
	if e.Thorough() {
		for a := 0; a < 256; a++ {
			for b := 0; b < 256; b++ {
				for c := 0; c < 256; c++ {
					c17U8(e, []byte{byte(a), byte(b), byte(c)})
				}
			}
		}
		e.Stats["exhaustive_depth"] = 3
	} else {
		for _, a := range edgeBytes {
			for _, b := range edgeBytes {
				for _, c := range edgeBytes {
					c17Valid(e, []byte{a, b, c})
					c17ToValid(e, []byte{a, b, c})
				}
			}
		}
		e.Stats["exhaustive_depth"] = 2
	}
	// length 4 and 5 over the table boundaries (4-byte forms need them)
	for _, a := range []byte{0x41, 0xe0, 0xed, 0xf0, 0xf1, 0xf4, 0xf5} {
		for _, b := range edgeBytes {
			for _, c := range []byte{0x41, 0x7f, 0x80, 0xbf, 0xc0} {
				for _, d := range []byte{0x41, 0x80, 0xbf, 0xc2, 0xff} {
					c17U8(e, []byte{a, b, c, d})
					c17U8(e, []byte{a, b, c, d, 0x80})
				}
			}
		}
	}
	n := 10000
	if e.Thorough() {
		n = 1000000
	}
	for i := 0; i < n; i++ {
		b := g.bytes(1 + e.Rng.IntN(12))
		if i < 2 {
			e.Sample("tovalid " + hexOf(b))
		}
		if i%2 == 0 {
			c17Valid(e, b)
			c17ToValid(e, b)
		} else {
			c17U8(e, b)
		}
	}

	// 3. (b) chains of depth 0..12 through the real visitor, every carrier
	c17Chain(e, carriers[0], nil)
	for _, c := range carriers {
		for depth := 1; depth <= 12; depth++ {
			// one invalid message at each position, everything else valid
			for pos := 0; pos < depth; pos++ {
				if depth > 4 && pos != 0 && pos != depth-1 && pos != 9 && pos != 10 && e.Rng.IntN(4) > 0 {
					continue
				}
				msgs := make([][]byte, depth)
				for i := range msgs {
					msgs[i] = []byte(g.validString(3))
				}
				msgs[pos] = []byte(g.invalid())
				c17Chain(e, c, msgs)
			}
		}
	}
	nChain := 5000
	if e.Thorough() {
		nChain = 100000
	}
	for i := 0; i < nChain; i++ {
		depth := 1 + e.Rng.IntN(12)
		msgs := make([][]byte, depth)
		for j := range msgs {
			switch e.Rng.IntN(4) {
			case 0:
				msgs[j] = []byte(g.invalid())
			case 1:
				msgs[j] = nil
			default:
				msgs[j] = []byte(g.validString(4))
			}
		}
		if i < 2 {
			e.Sample("chain " + chainStr(msgs))
		}
		c17Chain(e, carriers[e.Rng.IntN(len(carriers))], msgs)
	}

	// 4. (c) the codec on legacy-schema wire bytes
	var roots, failRoots []codecRoot
	for _, r := range serviceRoots() {
		if r.Legacy == nil || !expectConvertible(r.Name) {
			continue
		}
		cr := codecRoot{name: r.Name, lt: r.Legacy, paths: oraclePaths(r.Legacy)}
		roots = append(roots, cr)
		if len(cr.paths) > 0 {
			failRoots = append(failRoots, cr)
		}
		// what the real codec says about convertibility must agree with the restated rule
		if r.Convertible == "no" {
			e.Violation(map[string]any{"what": "type has a legacy counterpart and is a service request/response but the codec cannot convert it: " + r.Name, "ops": []string{"#codec " + r.Name + " -"}})
		}
	}
	e.Stats["extra"] = map[string]any{"convertible_roots": len(roots), "roots_with_failure_paths": len(failRoots)}
	mg := &msgGen{r: e.Rng, u8: g}
	// fixed cases: not a Marshaler, not convertible, the three messages of the repo's own tests
	sv := func() any { return &wrapperspb.StringValue{} }
	c17Codec(e, "google.protobuf.StringValue", sv, []byte{0x0a, 0x01, 0xff}, "not-marshaler")
	c17Codec(e, "google.protobuf.StringValue", sv, []byte{0x0a, 0x01, 0x41}, "not-marshaler-valid")
	rt := func() any { return &replicationpb.ReplicationTask{} }
	if d := stringFieldWire((&replicationpb.ReplicationTask{}).ProtoReflect().Descriptor()); d != nil {
		c17Codec(e, "temporal.server.api.replication.v1.ReplicationTask", rt, d, "not-convertible")
	}
	for _, r := range roots {
		// every convertible type: empty message, and 0xFF in its first string field (nothing to repair)
		nv := newCurrent(r.name)
		c17Codec(e, r.name, nv, nil, "empty")
		if d := stringFieldWire(nv().(proto.Message).ProtoReflect().Descriptor()); d != nil {
			c17Codec(e, r.name, nv, d, "first-string-invalid")
		}
	}
	nCodec := 20000
	if e.Thorough() {
		nCodec = 300000
	}
	for i := 0; i < nCodec; i++ {
		name, data, kind := mg.genCodecCase(roots, failRoots)
		if kind == "marshal-error" {
			e.Count("codec_gen_marshal_error")
			continue
		}
		if i < 2 {
			e.Sample(fmt.Sprintf("#codec %s %s (%s)", name, hexOf(data), kind))
		}
		c17Codec(e, name, newCurrent(name), data, kind)
	}

	// 5. (d) history blobs through the exported namespace translator
	evPaths := oraclePaths(legacyType("temporal.api.history.v1.HistoryEvent"))
	c17Blob(e, nil, "empty")
	nBlob := 4000
	if e.Thorough() {
		nBlob = 100000
	}
	for i := 0; i < nBlob; i++ {
		data, kind := mg.genBlobCase(evPaths)
		if kind == "marshal-error" {
			e.Count("blob_gen_marshal_error")
			continue
		}
		if i < 1 {
			e.Sample(fmt.Sprintf("#blob %s (%s)", hexOf(data), kind))
		}
		c17Blob(e, data, kind)
	}
}
