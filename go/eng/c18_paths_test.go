package eng

import (
	"encoding/json"
	"fmt"
	"math/rand/v2"
	"os"
	"path/filepath"
	"reflect"
	"sort"
	"strconv"
	"strings"
	"testing"
	"unicode/utf8"

	"google.golang.org/protobuf/proto"

	failure122 "github.com/temporalio/s2s-proxy/proto/1_22/api/failure/v1"
	"github.com/temporalio/s2s-proxy/proto/compat"
)

// ---- C18: UTF-8 repair reaches every failure message in every supported RPC type (engine "repair") ----
//
//	path  <root> <pathid>            the real RepairInvalidUTF8 on a message populated along exactly that
//	                                 oracle path, invalid UTF-8 in the failure there  -> repaired|missed|error
//	pathf <root> <pathid> <seed>     same inside a randomly filled (valid) message
//	wire  <root> <pathid>            service roots only: the same message marshalled with the legacy schema and
//	                                 decoded by the real registered codec into the CURRENT type -> ok-repaired|...
//	multi <root> <seed> <p*n,...>    several failures invalid at once (lists/maps with several elements,
//	                                 chains up to depth 10) -> all|missed:<n>
//
// The model side is the pattern-driven visitor with the MEASURED pattern set (regenerated Lean facts):
// `path` re-validates the extraction, `multi` validates that single-path behaviour composes.
// Property monitor: after the call, walk the whole message by reflection (independent of paths) and
// report every Failure.Message within the supported depth that is still invalid.

type c18 struct {
	e     *Env
	roots []rpRootInfo
}

func (c *c18) missed(root rpRootInfo, p rpPath, what string, op string) {
	c.e.Violation(map[string]any{
		"what":    fmt.Sprintf("invalid UTF-8 in a failure message is NOT repaired: root %s, path %s (%s)", root.Name, p.Str, what),
		"finding": findingID(root, p),
		"root":    root.Name,
		"path":    p.Str,
		"ops":     []string{op},
	})
	c.e.Count("missed_" + shortName(root.Name))
}

func (c *c18) runPath(op string, root rpRootInfo, p rpPath, seed uint64, filled bool) {
	rv := reflect.New(root.Legacy)
	if filled {
		g := &msgGen{r: rand.New(rand.NewPCG(seed, 18))}
		g.u8 = u8gen{g.r}
		g.fill(rv.Elem(), 3)
	}
	cur := rv.Elem()
	for _, s := range p.P.steps {
		cur = descend(cur, s, 1, 0)
	}
	f := cur.Addr().Interface().(*failure122.Failure)
	f.Cause = nil
	f.Message = "x\xc0\xafy\xff"
	changed, err := compat.RepairInvalidUTF8(rv.Interface())
	obs := "missed"
	switch {
	case err != nil:
		obs = "error"
	case f.Message == "x�y�" && changed:
		obs = "repaired"
	}
	c.e.Emit(op, obs)
	c.e.Evals++
	c.e.Distinct(fnv(op))
	c.e.Count("path_" + obs)
	c.e.Count("class_" + root.Class)
	if obs != "repaired" {
		c.missed(root, p, fmt.Sprintf("changed=%v err=%v message=%q", changed, err, f.Message), op)
		return
	}
	// monitor: nothing invalid may remain anywhere (the filler only writes valid strings)
	if left := invalidFailureMessages(rv, 10); len(left) > 0 {
		c.missed(root, p, "still invalid after the call at "+strings.Join(left, " "), op)
	}
}

// runWire: end to end through the codec for a convertible request/response type.
func (c *c18) runWire(op string, root rpRootInfo, p rpPath) {
	nv := newCurrent(root.Name)
	if nv == nil {
		c.e.Emit(op, "no-current-type")
		return
	}
	rv, f := rpBuildAlong(root.Legacy, p.P)
	f.Message = "x\xc0\xafy\xff"
	data, err := rv.Interface().(gogoMsg).Marshal()
	if err != nil {
		c.e.Emit(op, "marshal-error")
		return
	}
	st := stagesFor(nv, root.Name, data)
	v := nv()
	o := runCodec(data, v)
	obs := "error"
	switch {
	case o.err == nil && o.entered && o.stage == "repaired":
		obs = "ok-repaired"
	case o.err == nil:
		obs = "ok-delegate"
	case o.entered:
		obs = "error:" + o.stage
	}
	c.e.Emit(op, obs)
	c.e.Evals++
	c.e.Distinct(fnv(op))
	c.e.Count("wire_" + obs)
	pm, _ := v.(proto.Message)
	switch {
	case obs != "ok-repaired":
		c.missed(root, p, "through the codec: "+obs+fmt.Sprintf(" err=%v", o.err), op)
	case st.reference == nil || pm == nil || !proto.Equal(pm, st.reference):
		c.e.Violation(map[string]any{"what": "codec-repaired message differs from the standard decode of the sanitised copy: " + root.Name + " " + p.Str, "ops": []string{op}})
	case invalidStringsIn(pm.ProtoReflect(), 0) != "":
		c.missed(root, p, "decoded message still holds invalid UTF-8", op)
	}
}

// reachableFailures: every *Failure reachable in v (not following causes)
func reachableFailures(v reflect.Value) map[*failure122.Failure]bool {
	out := map[*failure122.Failure]bool{}
	var walk func(v reflect.Value, budget int)
	walk = func(v reflect.Value, budget int) {
		if budget <= 0 {
			return
		}
		switch v.Kind() {
		case reflect.Ptr, reflect.Interface:
			if !v.IsNil() {
				walk(v.Elem(), budget)
			}
		case reflect.Struct:
			if v.Type() == failureT {
				if v.CanAddr() {
					out[v.Addr().Interface().(*failure122.Failure)] = true
				}
				return
			}
			if v.Type() == timeT {
				return
			}
			for i := 0; i < v.NumField(); i++ {
				ft := v.Type().Field(i)
				if ft.IsExported() && !strings.HasPrefix(ft.Name, "XXX_") {
					walk(v.Field(i), budget-1)
				}
			}
		case reflect.Slice:
			if v.Type().Elem().Kind() != reflect.Uint8 {
				for i := 0; i < v.Len(); i++ {
					walk(v.Index(i), budget-1)
				}
			}
		case reflect.Map:
			for _, k := range v.MapKeys() {
				walk(v.MapIndex(k), budget-1)
			}
		}
	}
	walk(v, 64)
	return out
}

func chainInvalid(f *failure122.Failure, depth int) bool {
	for n := 0; f != nil && n < depth; f, n = f.Cause, n+1 {
		if !utf8.ValidString(f.Message) {
			return true
		}
	}
	return false
}

// buildMulti deterministically builds the multi-path value for (root, seed): returns the value and,
// per planted (still reachable) failure, its path.
func (c *c18) buildMulti(root rpRootInfo, seed uint64) (reflect.Value, map[*failure122.Failure]rpPath) {
	r := rand.New(rand.NewPCG(seed, 1818))
	g := &msgGen{r: r, u8: u8gen{r}}
	rv := reflect.New(root.Legacy)
	if r.IntN(3) > 0 {
		g.fill(rv.Elem(), 2+r.IntN(2))
	}
	planted := map[*failure122.Failure]rpPath{}
	n := 2 + r.IntN(5)
	for i := 0; i < n; i++ {
		p := root.Paths[r.IntN(len(root.Paths))]
		cur := rv.Elem()
		for _, s := range p.P.steps {
			fan := 1 + r.IntN(3)
			cur = descend(cur, s, fan, r.IntN(fan))
		}
		f := cur.Addr().Interface().(*failure122.Failure)
		depth := 1 + r.IntN(10)
		msgs := make([]string, depth)
		some := false
		for j := range msgs {
			if r.IntN(3) == 0 {
				msgs[j] = g.u8.validString(2) + g.u8.invalid()
				some = true
			} else {
				msgs[j] = g.u8.validString(4)
			}
		}
		if !some {
			msgs[r.IntN(depth)] = g.u8.invalid()
		}
		f.Cause = nil
		chainAt(cur, msgs)
		planted[f] = p
	}
	// a later plant may have replaced a oneof member or sits inside a filled element: keep what is reachable
	reach := reachableFailures(rv)
	for f := range planted {
		if !reach[f] {
			delete(planted, f)
		}
	}
	return rv, planted
}

func (c *c18) runMulti(root rpRootInfo, seed uint64) {
	rv, planted := c.buildMulti(root, seed)
	counts := map[int]int{}
	for _, p := range planted {
		counts[p.ID]++
	}
	ids := make([]int, 0, len(counts))
	for id := range counts {
		ids = append(ids, id)
	}
	sort.Ints(ids)
	parts := make([]string, len(ids))
	for i, id := range ids {
		parts[i] = fmt.Sprintf("%d*%d", id, counts[id])
	}
	op := fmt.Sprintf("multi %d %d %s", root.ID, seed, strings.Join(parts, ","))
	_, err := compat.RepairInvalidUTF8(rv.Interface())
	missed := 0
	for f, p := range planted {
		if chainInvalid(f, 10) {
			missed++
			c.missed(root, p, "one of several invalid failures in the same message", op)
		}
	}
	obs := "all"
	if err != nil {
		obs = "error"
	} else if missed > 0 {
		obs = fmt.Sprintf("missed:%d", missed)
	}
	c.e.Emit(op, obs)
	c.e.Evals++
	c.e.Distinct(fnv(op))
	c.e.Count(fmt.Sprintf("multi_planted_%d", len(planted)))
	c.e.Count("multi_" + strings.Split(obs, ":")[0])
	// monitor: independent walk over everything reachable
	if left := invalidFailureMessages(rv, 10); len(left) > 0 && missed == 0 {
		c.e.Violation(map[string]any{"what": fmt.Sprintf("after RepairInvalidUTF8 on %s failure messages are still invalid at %s", root.Name, strings.Join(left, " ")), "ops": []string{op}, "root": root.Name})
	}
}

func (c *c18) replay(t *testing.T, op string) {
	f := strings.Fields(op)
	num := func(s string) uint64 {
		v, err := strconv.ParseUint(s, 10, 64)
		if err != nil {
			t.Fatalf("bad replay op %q", op)
		}
		return v
	}
	if len(f) < 3 {
		t.Fatalf("bad replay op %q", op)
	}
	rid := int(num(f[1]))
	if rid >= len(c.roots) {
		t.Fatalf("replay op %q: no such root", op)
	}
	root := c.roots[rid]
	switch f[0] {
	case "path", "pathf":
		pid := int(num(f[2]))
		if pid >= len(root.Paths) {
			t.Fatalf("replay op %q: no such path", op)
		}
		seed := uint64(0)
		if f[0] == "pathf" && len(f) > 3 {
			seed = num(f[3])
		}
		c.runPath(op, root, root.Paths[pid], seed, f[0] == "pathf")
	case "wire":
		pid := int(num(f[2]))
		if pid >= len(root.Paths) {
			t.Fatalf("replay op %q: no such path", op)
		}
		c.runWire(op, root, root.Paths[pid])
	case "multi":
		c.runMulti(root, num(f[2]))
	default:
		t.Fatalf("unknown replay op %q", op)
	}
}

func TestC18(t *testing.T) {
	e := NewEnv(t, "repair")
	defer e.Close(t)
	roots, auxNoCase, notes := repairUniverse()
	c := &c18{e: e, roots: roots}
	if cases := e.ReplayLines(t); cases != nil {
		for _, cs := range cases {
			for _, op := range cs {
				c.replay(t, op)
			}
		}
		return
	}
	for _, cs := range e.CorpusCases(t) {
		for _, op := range cs {
			c.replay(t, op)
		}
		e.Count("corpus_case")
	}
	nPaths := 0
	classes := map[string]int{}
	// 1. every (root, path), one at a time: bare and inside a filled message
	for _, root := range roots {
		classes[root.Class]++
		for _, p := range root.Paths {
			nPaths++
			c.runPath(fmt.Sprintf("path %d %d", root.ID, p.ID), root, p, 0, false)
			seed := e.Rng.Uint64() % 1000000
			c.runPath(fmt.Sprintf("pathf %d %d %d", root.ID, p.ID, seed), root, p, seed, true)
			if root.Class == "service" {
				c.runWire(fmt.Sprintf("wire %d %d", root.ID, p.ID), root, p)
			}
		}
	}
	// 2. combinations
	n := 4000
	if e.Thorough() {
		n = 150000
	}
	var weighted []int // roots weighted by their number of paths: combinations need several positions
	for i, r := range roots {
		for j := 0; j < len(r.Paths); j++ {
			weighted = append(weighted, i)
		}
	}
	for i := 0; i < n; i++ {
		root := roots[weighted[e.Rng.IntN(len(weighted))]]
		c.runMulti(root, e.Rng.Uint64()%100000000)
	}
	e.Sample(map[string]any{"root": roots[len(roots)-1].Name, "paths": func() []string {
		var s []string
		for _, p := range roots[len(roots)-1].Paths {
			s = append(s, p.Str)
		}
		return s
	}()})
	e.Stats["exhaustive"] = true // every (root, path) pair is exercised
	gen := 0
	if b, err := os.ReadFile(filepath.Join(e.Out, "repairpaths.json")); err == nil {
		var j struct {
			Chunks int `json:"chunks"`
		}
		if json.Unmarshal(b, &j) == nil {
			gen = j.Chunks + 3 // chunk theorems + known_not_measured + property_roots_reach + oracle_exhaustive
		}
	}
	e.Stats["gen_obligations"] = gen
	e.Stats["extra"] = map[string]any{"roots": len(roots), "roots_by_class": classes, "oracle_paths": nPaths,
		"graph_types_reaching_failure_without_own_case": auxNoCase, "root_discovery": notes, "type_recursion_cuts": oracleCuts}
}
