package eng

// C10 with the REAL establishing connection provider (transport/mux/establisher.go) over loopback TCP with TLS:
// the scripted pipe world replaces establishingConnProvider.NewConnection, so what that function does with a peer
// that accepts the TCP connection and then stays silent (hung receiver, a balancer holding the connection without a
// backend) is exercised here. Monitor only (real time, outside any bubble): never more than N sessions; the pool
// heals to N while the peer is reachable; shutdown closes everything.

import (
	"context"
	"crypto/tls"
	"fmt"
	"net"
	"os"
	"path/filepath"
	"sync"
	"testing"
	"time"

	"github.com/hashicorp/yamux"
	"go.temporal.io/server/common/log"

	"github.com/temporalio/s2s-proxy/config"
	"github.com/temporalio/s2s-proxy/transport/mux"
)

type estPeer struct {
	ln       net.Listener
	mu       sync.Mutex
	script   []string // behaviour of the i-th accepted connection: healthy | silent | close ; beyond the script: healthy
	accepted int
	conns    []net.Conn
	sessions []*yamux.Session
}

func (p *estPeer) serve(srvCfg *tls.Config) {
	for {
		c, err := p.ln.Accept()
		if err != nil {
			return
		}
		p.mu.Lock()
		kind := "healthy"
		if p.accepted < len(p.script) {
			kind = p.script[p.accepted]
		}
		p.accepted++
		p.conns = append(p.conns, c)
		p.mu.Unlock()
		switch kind {
		case "silent": // accepted, then nothing: no TLS ServerHello, no close
		case "close":
			_ = c.Close()
		default:
			go func() {
				tc := tls.Server(c, srvCfg)
				s, err := yamux.Server(tc, yamuxQuiet())
				if err != nil {
					_ = c.Close()
					return
				}
				p.mu.Lock()
				p.sessions = append(p.sessions, s)
				p.mu.Unlock()
			}()
		}
	}
}

func (p *estPeer) stop() {
	_ = p.ln.Close()
	p.mu.Lock()
	defer p.mu.Unlock()
	for _, s := range p.sessions {
		_ = s.Close()
	}
	for _, c := range p.conns {
		_ = c.Close()
	}
}

func c10EstablisherTLS(t *testing.T, e *Env) {
	dir := filepath.Join(e.Out, "c10certs")
	_ = os.MkdirAll(dir, 0o700)
	k := newCertKit(t, dir)
	srvCfg := &tls.Config{MinVersion: tls.VersionTLS12, Certificates: []tls.Certificate{*k.creds["validChain"]}}
	type scen struct {
		n      int
		script []string
		budget time.Duration // real time within which the pool must be back at full strength
	}
	scens := []scen{
		{2, []string{"healthy", "silent"}, 40 * time.Second}, // one accepted-but-silent connection: its slot must be freed and refilled
		{1, []string{"close", "healthy"}, 20 * time.Second},  // a connection closed at once
		{2, nil, 10 * time.Second},                           // control: healthy peer
	}
	if e.Thorough() {
		scens = append(scens, scen{3, []string{"silent", "healthy", "silent", "close"}, 80 * time.Second}, scen{1, []string{"silent", "silent"}, 60 * time.Second})
	}
	for si, sc := range scens {
		ln, err := net.Listen("tcp", "127.0.0.1:0")
		if err != nil {
			t.Fatal(err)
		}
		peer := &estPeer{ln: ln, script: sc.script}
		go peer.serve(srvCfg)
		ctx, cancel := context.WithCancel(context.Background())
		name := fmt.Sprintf("est%d", muxWorldSeq.Add(1))
		labels := []string{name, "establisher", "verif"}
		builder := func(cb mux.AddNewMux, lt context.Context) (mux.MuxProvider, error) {
			return mux.NewMuxEstablisherProvider(lt, name, cb, int64(sc.n),
				config.TCPTLSInfo{ConnectionString: ln.Addr().String(), TLSConfig: k.config(tlsCase{true, true, "good", false})}, labels, log.NewNoopLogger())
		}
		mgr, err := mux.NewCustomMultiMuxManager(ctx, name, builder, nil, nil, log.NewNoopLogger())
		if err != nil {
			t.Fatal(err)
		}
		mgr.Start()
		start := time.Now()
		maxSeen, healed := 0, false
		for time.Since(start) < sc.budget {
			r := len(mgr.GetMuxConnections())
			if r > maxSeen {
				maxSeen = r
			}
			if r == sc.n {
				healed = true
				break
			}
			time.Sleep(50 * time.Millisecond)
		}
		took := time.Since(start).Round(100 * time.Millisecond)
		op := fmt.Sprintf("# establisher-tls scenario %d: pool %d, peer script %v", si, sc.n, sc.script)
		e.Emit(op, "#")
		e.Evals++
		e.Count("establisher_tls_scenario")
		peer.mu.Lock()
		acc := peer.accepted
		peer.mu.Unlock()
		if maxSeen > sc.n {
			e.Violation(map[string]any{"what": fmt.Sprintf("real establisher over TLS: %d sessions registered in a pool of %d", maxSeen, sc.n), "ops": []string{op}})
		}
		if !healed {
			e.Violation(map[string]any{"what": fmt.Sprintf("real establisher over TLS: the peer is reachable and healthy (apart from %v at the start) but after %v the pool of %d holds %d session(s); the peer has accepted %d connection(s)",
				sc.script, took, sc.n, len(mgr.GetMuxConnections()), acc), "ops": []string{op}})
		}
		cancel()
		closed := false
		for w := time.Now(); time.Since(w) < 20*time.Second; time.Sleep(50 * time.Millisecond) {
			if mgr.IsClosed() && len(mgr.GetMuxConnections()) == 0 {
				closed = true
				break
			}
		}
		if !closed && healed {
			e.Violation(map[string]any{"what": fmt.Sprintf("real establisher over TLS: after shutdown the manager is closed=%v with %d session(s) registered", mgr.IsClosed(), len(mgr.GetMuxConnections())), "ops": []string{op}})
		}
		peer.stop()
	}
}
