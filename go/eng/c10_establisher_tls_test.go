package eng

// C10 with the REAL establishing connection provider (transport/mux/establisher.go) over loopback TCP with TLS:
// the scripted pipe world replaces establishingConnProvider.NewConnection, so what that function does with a peer
// that accepts the TCP connection and then stays silent (hung receiver, a balancer holding the connection without a
// backend) is exercised here. Monitor only (real time, outside any bubble): never more than N sessions; the pool
// heals to N while the peer is reachable; shutdown closes everything.

import (
	"context"
	"crypto/tls"
	"fmt"
	"net"
	"os"
	"path/filepath"
	"sync"
	"testing"
	"time"

	"github.com/hashicorp/yamux"
	"go.temporal.io/server/common/log"

	"github.com/temporalio/s2s-proxy/config"
	"github.com/temporalio/s2s-proxy/transport/mux"
)

type estPeer struct {
	ln       net.Listener
	mu       sync.Mutex
	script   []string // behaviour of the i-th accepted connection: healthy | silent | close ; beyond the script: healthy
	accepted int
	conns    []net.Conn
	sessions []*yamux.Session
}

// stallConn: a connection whose peer goes completely silent at stallAt — nothing is read any more (so nothing is answered),
// nothing is closed: only the other side's keep-alive can notice.
type stallConn struct {
	net.Conn
	stallAt time.Time
	closed  chan struct{}
	once    sync.Once
}

func (c *stallConn) Read(b []byte) (int, error) {
	if time.Now().After(c.stallAt) {
		<-c.closed
		return 0, net.ErrClosed
	}
	_ = c.Conn.SetReadDeadline(c.stallAt)
	n, err := c.Conn.Read(b)
	if ne, ok := err.(net.Error); ok && ne.Timeout() {
		<-c.closed
		return 0, net.ErrClosed
	}
	return n, err
}
func (c *stallConn) Close() error {
	c.once.Do(func() { close(c.closed) })
	return c.Conn.Close()
}

func (p *estPeer) serve(srvCfg *tls.Config) {
	for {
		c, err := p.ln.Accept()
		if err != nil {
			return
		}
		p.mu.Lock()
		kind := "healthy"
		if p.accepted < len(p.script) {
			kind = p.script[p.accepted]
		}
		p.accepted++
		p.conns = append(p.conns, c)
		p.mu.Unlock()
		switch kind {
		case "silent": // accepted, then nothing: no TLS ServerHello, no close
		case "close":
			_ = c.Close()
		default:
			if kind == "healthy-then-silent" {
				sc := &stallConn{Conn: c, stallAt: time.Now().Add(3 * time.Second), closed: make(chan struct{})}
				p.mu.Lock()
				p.conns[len(p.conns)-1] = sc
				p.mu.Unlock()
				c = sc
			}
			go func() {
				tc := tls.Server(c, srvCfg)
				ycfg := yamuxQuiet()
				ycfg.EnableKeepAlive = false // the peer is passive: it must be the PROXY's side that notices a dead link
				s, err := yamux.Server(tc, ycfg)
				if err != nil {
					_ = c.Close()
					return
				}
				p.mu.Lock()
				p.sessions = append(p.sessions, s)
				p.mu.Unlock()
			}()
		}
	}
}

func (p *estPeer) stop() {
	_ = p.ln.Close()
	p.mu.Lock()
	defer p.mu.Unlock()
	for _, s := range p.sessions {
		_ = s.Close()
	}
	for _, c := range p.conns {
		_ = c.Close()
	}
}

func c10EstablisherTLS(t *testing.T, e *Env) {
	dir := filepath.Join(e.Out, "c10certs")
	_ = os.MkdirAll(dir, 0o700)
	k := newCertKit(t, dir)
	srvCfg := &tls.Config{MinVersion: tls.VersionTLS12, Certificates: []tls.Certificate{*k.creds["validChain"]}}
	type scen struct {
		n      int
		script []string
		budget time.Duration // real time within which the pool must be at full strength
		reheal time.Duration // > 0: a registered session's peer then goes silent (no FIN); within this time its slot must have been recycled and refilled
	}
	scens := []scen{
		{2, []string{"healthy", "silent"}, 40 * time.Second, 0},                  // one accepted-but-silent connection: its slot must be freed and refilled
		{1, []string{"close", "healthy"}, 20 * time.Second, 0},                   // a connection closed at once
		{2, nil, 10 * time.Second, 0},                                            // control: healthy peer
		{1, []string{"healthy-then-silent"}, 10 * time.Second, 75 * time.Second}, // a registered session whose peer goes silent without closing
	}
	if e.Thorough() {
		scens = append(scens, scen{3, []string{"silent", "healthy", "silent", "close"}, 80 * time.Second, 0}, scen{1, []string{"silent", "silent"}, 60 * time.Second, 0},
			scen{2, []string{"healthy", "healthy-then-silent"}, 10 * time.Second, 75 * time.Second})
	}
	type outcome struct {
		op    string
		viols []string
	}
	results := make([]outcome, len(scens))
	var wg sync.WaitGroup
	for si, sc := range scens { // the scenarios wait in real time (yamux's 10 s / 30 s timers): run them side by side
		wg.Add(1)
		go func() {
			defer wg.Done()
			res := &results[si]
			res.op = fmt.Sprintf("# establisher-tls scenario %d: pool %d, peer script %v", si, sc.n, sc.script)
			ln, err := net.Listen("tcp", "127.0.0.1:0")
			if err != nil {
				res.viols = append(res.viols, "harness: "+err.Error())
				return
			}
			peer := &estPeer{ln: ln, script: sc.script}
			go peer.serve(srvCfg)
			defer peer.stop()
			ctx, cancel := context.WithCancel(context.Background())
			defer cancel()
			name := fmt.Sprintf("est%d", muxWorldSeq.Add(1))
			labels := []string{name, "establisher", "verif"}
			builder := func(cb mux.AddNewMux, lt context.Context) (mux.MuxProvider, error) {
				return mux.NewMuxEstablisherProvider(lt, name, cb, int64(sc.n),
					config.TCPTLSInfo{ConnectionString: ln.Addr().String(), TLSConfig: k.config(tlsCase{true, true, "good", false})}, labels, log.NewNoopLogger())
			}
			mgr, err := mux.NewCustomMultiMuxManager(ctx, name, builder, nil, nil, log.NewNoopLogger())
			if err != nil {
				res.viols = append(res.viols, "harness: "+err.Error())
				return
			}
			mgr.Start()
			accepted := func() int { peer.mu.Lock(); defer peer.mu.Unlock(); return peer.accepted }
			start := time.Now()
			maxSeen, healed := 0, false
			for time.Since(start) < sc.budget {
				r := len(mgr.GetMuxConnections())
				maxSeen = max(maxSeen, r)
				if r == sc.n {
					healed = true
					break
				}
				time.Sleep(50 * time.Millisecond)
			}
			if !healed {
				res.viols = append(res.viols, fmt.Sprintf("real establisher over TLS: the peer is reachable and healthy (apart from %v at the start) but after %v the pool of %d holds %d session(s); the peer has accepted %d connection(s)",
					sc.script, time.Since(start).Round(100*time.Millisecond), sc.n, len(mgr.GetMuxConnections()), accepted()))
			}
			if healed && sc.reheal > 0 {
				// one registered session's peer has gone silent (3 s after it was accepted): the provider must notice (keep-alive),
				// end that session and replace it
				before := accepted()
				t0, ok := time.Now(), false
				for time.Since(t0) < sc.reheal {
					r := len(mgr.GetMuxConnections())
					maxSeen = max(maxSeen, r)
					if accepted() > before && r == sc.n {
						ok = true
						break
					}
					time.Sleep(100 * time.Millisecond)
				}
				if !ok {
					res.viols = append(res.viols, fmt.Sprintf("real establisher over TLS: the peer of a registered session went silent (no close) %v ago; the dead session was not replaced (pool of %d holds %d session(s), the peer has accepted %d connection(s), %d before): a slot freed by a dead session must become usable again",
						time.Since(t0).Round(time.Second), sc.n, len(mgr.GetMuxConnections()), accepted(), before))
				}
			}
			if maxSeen > sc.n {
				res.viols = append(res.viols, fmt.Sprintf("real establisher over TLS: %d sessions registered in a pool of %d", maxSeen, sc.n))
			}
			cancel()
			closed := false
			for w := time.Now(); time.Since(w) < 20*time.Second; time.Sleep(50 * time.Millisecond) {
				if mgr.IsClosed() && len(mgr.GetMuxConnections()) == 0 {
					closed = true
					break
				}
			}
			if !closed && healed {
				res.viols = append(res.viols, fmt.Sprintf("real establisher over TLS: after shutdown the manager is closed=%v with %d session(s) registered", mgr.IsClosed(), len(mgr.GetMuxConnections())))
			}
		}()
	}
	wg.Wait()
	for _, res := range results {
		e.Emit(res.op, "#")
		e.Evals++
		e.Count("establisher_tls_scenario")
		for _, v := range res.viols {
			e.Violation(map[string]any{"what": v, "ops": []string{res.op}})
		}
	}
}
