package eng

import (
	"fmt"
	"reflect"
	"sort"
	"strings"
	"testing"

	enumspb "go.temporal.io/api/enums/v1"
	historypb "go.temporal.io/api/history/v1"

	"go.temporal.io/server/common/log"
	"google.golang.org/protobuf/proto"
	"google.golang.org/protobuf/reflect/protoreflect"

	"github.com/temporalio/s2s-proxy/interceptor"
)

// ---- C12: namespace names are translated wherever they occur (engine "translate") ------------

// includes a chain a->b->c and an identity entry (a namespace that keeps its name on both sides)
var c12Mapping = map[string]string{"local-ns": "remote-ns", "other-local": "other-remote", "a": "b", "b": "c", "shared": "shared"}

func c12Names() []string {
	// mapped names, look-alikes (prefix / suffix / substring / case), unmapped, empty, chain a->b->c
	return []string{"local-ns", "local-ns", "other-local", "a", "b", "shared", "shared", "local-ns2", "xlocal-ns", "local", "LOCAL-NS", "unmapped", "", "remote-ns", "c"}
}

// translateAndCompare runs the real translator on m and compares with the independent reference.
func translateAndCompare(tr interceptor.Translator, m proto.Message, request bool, ro refOpts) (string, error) {
	ref := proto.Clone(m)
	var err error
	if request {
		_, err = tr.TranslateRequest(m)
	} else {
		_, err = tr.TranslateResponse(m)
	}
	if err != nil {
		return "", err
	}
	refTranslate(ref.ProtoReflect(), ro)
	got := proto.Clone(m)
	okA := canonBlobs(got.ProtoReflect())
	okB := canonBlobs(ref.ProtoReflect())
	if !okA || !okB {
		return "undecodable-blob", nil
	}
	if !proto.Equal(got, ref) {
		return "differs", nil
	}
	return "equal", nil
}

func TestC12(t *testing.T) {
	e := NewEnv(t, "translate")
	defer e.Close(t)
	te := newTgEmit()
	g := te.g
	tr := interceptor.NewNamespaceNameTranslator(log.NewNoopLogger(), c12Mapping, map[string]string{})
	ro := refOpts{ns: c12Mapping}
	// adversarial warm-up: the FIRST things this process hands to the translator are messages of every type that cannot
	// hold a namespace name (nexus links and failures, payloads, empty requests, ...). Any process-wide shortcut that
	// learns "nothing to translate here" from what it has seen — keyed by something coarser than the exact type — is
	// thereby taught the wrong answer before the per-path checks below run (the other order hides such a shortcut).
	{
		flw := &filler{rng: e.Rng, names: c12Names(), keys: []string{"k1"}}
		warm := 0
		for ti, ty := range g.Types {
			pm, ok := reflect.New(ty.rt).Interface().(proto.Message)
			if !ok || len(enumPaths(g, ti, nsLeaf, 1, 1)) > 0 {
				continue
			}
			_, _ = tr.TranslateRequest(pm) // empty instance
			pm2 := reflect.New(ty.rt).Interface().(proto.Message)
			flw.fill(pm2.ProtoReflect(), 2)
			_, _ = tr.TranslateRequest(pm2)
			_, _ = tr.TranslateResponse(pm2)
			warm++
		}
		e.Stats["warmup_namespace_free_types"] = warm
		e.Stats["sparse_warmup_messages"] = sparseWarm(g, g.Roots, flw, tr)
	}
	maxOcc, perRoot := 1, 12
	if e.Thorough() {
		maxOcc, perRoot = 2, 400
	}
	roots := append([]int{}, g.Roots...)
	sort.Ints(roots)
	nPaths := 0
	leafSeen := map[string]bool{}
	for _, r := range roots {
		paths := enumPaths(g, r, nsLeaf, maxOcc, 200000)
		nPaths += len(paths)
		// take every path that ends in a leaf field not seen yet, plus a seeded sample up to perRoot
		var chosen []tPath
		for _, p := range paths {
			k := fmt.Sprintf("%d.%d/%d", p.LeafTy, p.LeafPos, len(p.Steps))
			hasBlob := false
			for _, s := range p.Steps {
				hasBlob = hasBlob || s.Blob
			}
			k += fmt.Sprint(hasBlob)
			if !leafSeen[k] {
				leafSeen[k] = true
				chosen = append(chosen, p)
			}
		}
		for len(chosen) < perRoot && len(chosen) < len(paths) {
			chosen = append(chosen, paths[e.Rng.IntN(len(paths))])
		}
		for _, p := range chosen {
			m, err := buildAlong(g, p, func(f reflect.Value) { f.SetString("local-ns") })
			if err != nil {
				e.Count("unbuildable_path")
				continue
			}
			op := "path " + p.opString()
			cmp, err := translateAndCompare(tr, m, true, ro)
			obs := "missed"
			if err != nil {
				obs = "error"
			} else if leaf, lerr := readLeaf(g, p, m); lerr == nil && leaf.Kind() == reflect.String && leaf.String() == "remote-ns" {
				obs = "translated"
			}
			e.Emit(op, obs)
			e.Evals++
			e.Distinct(fnv(op))
			e.Count("path_" + obs)
			if obs != "translated" {
				e.Violation(map[string]any{"what": fmt.Sprintf("namespace name at %s (root %s) left untranslated (%s)", describePath(g, p), g.Types[p.Root].Go, obs), "ops": []string{op}})
			} else if cmp != "equal" {
				e.Violation(map[string]any{"what": fmt.Sprintf("translation of a message populated along %s differs from the reference translation (%s): something else changed", describePath(g, p), cmp), "ops": []string{op}})
			}
			// batch context (blob paths): the same event among other events of its blob — events whose attributes have a
			// namespace field that is empty / identity-mapped / unmapped / mapped, and plain events, before and after it
			if hasBlobStep(p) && obs == "translated" {
				modes := []int{1 + e.Rng.IntN(3)}
				if e.Thorough() {
					modes = []int{1, 2, 3}
				}
				for _, mode := range modes {
					m, err := buildAlong(g, p, func(f reflect.Value) { f.SetString("local-ns") })
					if err != nil {
						continue
					}
					unset, set := padEvents(func(fd protoreflect.FieldDescriptor) bool {
						return fd.Kind() == protoreflect.StringKind && !fd.IsList() && (fd.Name() == "namespace" || strings.HasSuffix(string(fd.Name()), "_namespace"))
					}, func(attrs protoreflect.Message, fd protoreflect.FieldDescriptor) {
						attrs.Set(fd, protoreflect.ValueOfString([]string{"shared", "unmapped", "local-ns", "remote-ns"}[e.Rng.IntN(4)]))
					})
					pick := func(l []*historypb.HistoryEvent) *historypb.HistoryEvent { return l[e.Rng.IntN(len(l))] }
					mapEventBlobs(m.ProtoReflect(), func(evs []*historypb.HistoryEvent) []*historypb.HistoryEvent {
						switch mode {
						case 1:
							return append([]*historypb.HistoryEvent{plainPadEvent(90), pick(unset), pick(set)}, evs...)
						case 2:
							return append(append([]*historypb.HistoryEvent{}, evs...), pick(set), pick(unset), plainPadEvent(91))
						default:
							return append(append([]*historypb.HistoryEvent{pick(set), plainPadEvent(90)}, evs...), plainPadEvent(91), pick(set))
						}
					})
					cmp, err := translateAndCompare(tr, m, true, ro)
					obs2 := "missed"
					if err != nil {
						obs2 = "error"
					} else if leaf, lerr := readLeaf(g, p, m); lerr == nil && leaf.Kind() == reflect.String && leaf.String() == "remote-ns" {
						obs2 = "translated"
					}
					e.Emit(op, obs2)
					e.Evals++
					e.Count(fmt.Sprintf("batch_context_%d_%s", mode, obs2))
					if obs2 != "translated" || cmp != "equal" {
						e.Violation(map[string]any{"what": fmt.Sprintf("namespace name at %s (root %s) inside a history batch of several events (arrangement %d): %s, compared with the reference translation: %s", describePath(g, p), g.Types[p.Root].Go, mode, obs2, cmp), "ops": []string{op}})
					}
				}
			}
			// the same bytes passing through the proxy again (a page read twice, a batch re-sent after a reconnect), with a
			// large batch: every pass must be translated — a performance shortcut must not remember a previous pass
			if hasBlobStep(p) && obs == "translated" && (e.Thorough() || e.Rng.IntN(4) == 0) {
				if m, err := buildAlong(g, p, func(f reflect.Value) { f.SetString("local-ns") }); err == nil {
					big := plainPadEvent(95)
					big.GetWorkflowTaskCompletedEventAttributes().Identity = strings.Repeat("worker-identity-", 700) // > 10 KiB
					mapEventBlobs(m.ProtoReflect(), func(evs []*historypb.HistoryEvent) []*historypb.HistoryEvent {
						return append(append([]*historypb.HistoryEvent{}, evs...), big)
					})
					wire, merr := proto.Marshal(m)
					for pass := 1; merr == nil && pass <= 3; pass++ {
						again := m.ProtoReflect().New().Interface()
						if proto.Unmarshal(wire, again) != nil {
							break
						}
						cmp, terr := translateAndCompare(tr, again, true, ro)
						got := "?"
						if l, lerr := readLeaf(g, p, again); lerr == nil && l.Kind() == reflect.String {
							got = l.String()
						}
						e.Emit(fmt.Sprintf("# same-bytes pass %d %s", pass, p.opString()), "#")
						e.Evals++
						e.Count("same_bytes_pass")
						if terr != nil || cmp != "equal" || got != "remote-ns" {
							e.Violation(map[string]any{"what": fmt.Sprintf("namespace name at %s (root %s), large batch, pass %d of the same bytes through the translator: the leaf reads %q (want \"remote-ns\"), comparison with the reference translation: %s, err=%v", describePath(g, p), g.Types[p.Root].Go, pass, got, cmp, terr), "ops": []string{op, "# same-bytes"}})
							break
						}
					}
				}
			}
			// the same message with its history blobs JSON-encoded (the other encoding the serializer reads): what leaves the
			// translator must decode (under the encoding it is labelled with) to the translated events
			if hasBlobStep(p) && obs == "translated" && (e.Thorough() || e.Rng.IntN(3) == 0) {
				if m, err := buildAlong(g, p, func(f reflect.Value) { f.SetString("local-ns") }); err == nil && jsonEncodeBlobs(m.ProtoReflect()) > 0 {
					cmp, terr := translateAndCompare(tr, m, true, ro)
					got := "?"
					if l, lerr := readLeaf(g, p, m); lerr == nil && l.Kind() == reflect.String {
						got = l.String()
					}
					e.Emit("# json-blob "+p.opString(), "#")
					e.Evals++
					e.Count("json_blob_" + cmp)
					if terr != nil || cmp != "equal" || got != "remote-ns" {
						e.Violation(map[string]any{"what": fmt.Sprintf("namespace name at %s (root %s) inside a JSON-encoded history blob: after translation the leaf reads %q (want \"remote-ns\"), comparison with the reference translation: %s, err=%v", describePath(g, p), g.Types[p.Root].Go, got, cmp, terr), "ops": []string{op, "# json-blob"}})
					}
				}
			}
			// the same event in a batch that ALSO needs the UTF-8 repair (invalid bytes in a failure message of another
			// event): the blob that leaves the translator must be both repaired and translated
			if hasBlobStep(p) && obs == "translated" && (e.Thorough() || e.Rng.IntN(2) == 0) {
				m, err := buildAlong(g, p, func(f reflect.Value) { f.SetString("local-ns") })
				if err == nil {
					mapEventBlobs(m.ProtoReflect(), func(evs []*historypb.HistoryEvent) []*historypb.HistoryEvent {
						if e.Rng.IntN(2) == 0 {
							return append([]*historypb.HistoryEvent{failurePadEvent(90)}, evs...)
						}
						return append(append([]*historypb.HistoryEvent{}, evs...), failurePadEvent(91))
					})
					// reference: what the repair makes of the batch (events pass through the v1.22 schema, the invalid run
					// becomes one U+FFFD), translated by the descriptor-driven reference
					ref := proto.Clone(m)
					legacyRoundTripBlobs(ref.ProtoReflect())
					mapEventBlobs(ref.ProtoReflect(), func(evs []*historypb.HistoryEvent) []*historypb.HistoryEvent {
						for _, ev := range evs {
							if f := ev.GetActivityTaskFailedEventAttributes().GetFailure(); f != nil && f.Message == badUTF8Marker {
								f.Message = strings.Replace(badUTF8Marker, "~^~^", "\uFFFD", 1)
							}
						}
						return evs
					})
					refTranslate(ref.ProtoReflect(), ro)
					refLeaf, rerr := readLeaf(g, p, ref)
					if corruptBlobs(m.ProtoReflect()) > 0 {
						_, terr := tr.TranslateRequest(m)
						a, b := proto.Clone(m), proto.Clone(ref)
						okA, okB := canonBlobs(a.ProtoReflect()), canonBlobs(b.ProtoReflect())
						e.Emit("# repaired-context "+p.opString(), "#")
						e.Evals++
						switch {
						case rerr != nil || refLeaf.Kind() != reflect.String || refLeaf.String() != "remote-ns":
							e.Count("repair_context_leaf_not_in_v1_22_schema") // the repair drops the field: nothing to translate
						case terr != nil || !okA || !okB || !proto.Equal(a, b):
							e.Count("repair_context_wrong")
							got := "?"
							if l, lerr := readLeaf(g, p, m); lerr == nil && l.Kind() == reflect.String {
								got = l.String()
							}
							e.Violation(map[string]any{"what": fmt.Sprintf("namespace name at %s (root %s) in a history batch that also needed the UTF-8 repair: the blob leaving the translator holds %q (want \"remote-ns\"), decodes=%v, equals the repaired+translated reference=%v, err=%v",
								describePath(g, p), g.Types[p.Root].Go, got, okA, okA && okB && proto.Equal(a, b), terr), "ops": []string{op, "# repaired-context"}})
						default:
							e.Count("repair_context_ok")
						}
					}
				}
			}
		}
	}
	// two namespace fields in one message: a name with an identity mapping (or an unmapped one) on one path must not
	// influence the translation of the name on the other path, whatever the visiting order
	nCombo := 0
	for _, r := range roots {
		paths := enumPaths(g, r, nsLeaf, 1, 2000)
		if len(paths) < 2 {
			continue
		}
		tries := 3
		if e.Thorough() {
			tries = 30
		}
		for k := 0; k < tries; k++ {
			p, q := paths[e.Rng.IntN(len(paths))], paths[e.Rng.IntN(len(paths))]
			if p.opString() == q.opString() || hasBlobStep(p) || hasBlobStep(q) {
				continue
			}
			first := []string{"shared", "unmapped", "remote-ns"}[e.Rng.IntN(3)]
			m1, err1 := buildAlong(g, p, func(f reflect.Value) { f.SetString(first) })
			m2, err2 := buildAlong(g, q, func(f reflect.Value) { f.SetString("local-ns") })
			if err1 != nil || err2 != nil {
				continue
			}
			proto.Merge(m1, m2)
			cmp, err := translateAndCompare(tr, m1, true, ro)
			e.Emit(fmt.Sprintf("# combo %s + %s", p.opString(), q.opString()), "#")
			e.Evals++
			nCombo++
			if err != nil || cmp != "equal" {
				e.Violation(map[string]any{"what": fmt.Sprintf("message with %q at %s and a mapped name at %s (root %s): translation differs from the reference (%s %v)", first, describePath(g, p), describePath(g, q), g.Types[r].Go, cmp, err),
					"ops": []string{fmt.Sprintf("# combo %s + %s first=%s", p.opString(), q.opString(), first)}})
			}
		}
	}
	e.Stats["extra"] = map[string]any{"roots": len(roots), "types": len(g.Types), "oracle_paths_total": nPaths, "max_occurrences_per_type": maxOcc, "two_field_combinations": nCombo}
	// random fully-populated messages of every root type, compared with the independent reference translation
	perRootRand := 6
	if e.Thorough() {
		perRootRand = 40
	}
	fl := &filler{rng: e.Rng, names: c12Names(), keys: []string{"CustomKeywordField", "k1", "k2"}}
	for _, r := range roots {
		for i := 0; i < perRootRand; i++ {
			m := reflect.New(g.Types[r].rt).Interface().(proto.Message)
			fl.fill(m.ProtoReflect(), 4)
			if interceptor.VerifIsSkippable(m) { // ListWorkflowExecutionsResponse: skipped by design; must then contain no namespace name
				e.Count("rand_skippable_root")
			}
			cmp, err := translateAndCompare(tr, m, i%2 == 0, refOpts{ns: map[bool]map[string]string{true: c12Mapping, false: {}}[i%2 == 0]})
			e.Emit(fmt.Sprintf("# rand %d %d", r, i), "#")
			e.Evals++
			e.Count("rand_" + cmp)
			if err != nil || cmp == "differs" {
				e.Violation(map[string]any{"what": fmt.Sprintf("random %s: real translation vs reference: %s %v", g.Types[r].Go, cmp, err), "ops": []string{fmt.Sprintf("# rand %d %d seed %d", r, i, e.Seed)}})
			}
		}
	}
	// several LARGE history batches per message, several messages in flight (see translateSeveralBig)
	for rep := 0; rep < 3; rep++ {
		what := translateSeveralBig(tr, true, ro, func(mi, i int) *historypb.HistoryEvent {
			return &historypb.HistoryEvent{EventType: enumspb.EVENT_TYPE_WORKFLOW_EXECUTION_STARTED,
				Attributes: &historypb.HistoryEvent_WorkflowExecutionStartedEventAttributes{WorkflowExecutionStartedEventAttributes: &historypb.WorkflowExecutionStartedEventAttributes{
					ParentWorkflowNamespace: []string{"local-ns", "other-local", "a", "unmapped"}[(mi+i+rep)%4], Identity: fmt.Sprintf("id-%d-%d-%d", rep, mi, i)}}}
		})
		op := fmt.Sprintf("# several-big-batches %d", rep)
		e.Emit(op, "#")
		e.Evals++
		e.Count("several_big_batches")
		if what != "" {
			e.Violation(map[string]any{"what": "namespace names in large history batches: " + what, "ops": []string{op}})
		}
	}
	// deep recursion: the same leaves below a long chain through a recursive type (Failure.cause of a deep child-workflow
	// hierarchy, nested payload/link containers ...). The enumeration above bounds how often a type may occur on a path;
	// here a path is "pumped": a cycle of the type graph through one of its types is inserted k times. The theorems hold
	// at any depth; so must the code.
	{
		cycles := map[int][]tStep{}
		cycleOf := func(t int) []tStep {
			if c, ok := cycles[t]; ok {
				return c
			}
			type node struct {
				ty   int
				path []tStep
			}
			seen := map[int]bool{}
			queue := []node{{t, nil}}
			var found []tStep
			for len(queue) > 0 && found == nil {
				n := queue[0]
				queue = queue[1:]
				ty := g.Types[n.ty]
				for pos := range ty.Fields {
					f := &ty.Fields[pos]
					if f.Blob {
						continue
					}
					for _, nx := range f.Targets {
						st := append(append([]tStep{}, n.path...), tStep{Ty: n.ty, Pos: pos, Next: nx})
						if nx == t {
							found = st
							break
						}
						if !seen[nx] && len(st) < 6 {
							seen[nx] = true
							queue = append(queue, node{nx, st})
						}
					}
					if found != nil {
						break
					}
				}
			}
			cycles[t] = found
			return found
		}
		pump := func(p tPath, k int) (tPath, bool) {
			// types on the path: Steps[i].Ty for each step, then LeafTy
			for i := len(p.Steps); i >= 0; i-- {
				t := p.LeafTy
				if i < len(p.Steps) {
					t = p.Steps[i].Ty
				}
				c := cycleOf(t)
				if c == nil {
					continue
				}
				q := tPath{Root: p.Root, LeafTy: p.LeafTy, LeafPos: p.LeafPos}
				q.Steps = append(q.Steps, p.Steps[:i]...)
				for j := 0; j < k; j++ {
					q.Steps = append(q.Steps, c...)
				}
				q.Steps = append(q.Steps, p.Steps[i:]...)
				return q, true
			}
			return p, false
		}
		depths := []int{3, 12, 26, 31, 45, 64, 70, 130, 300}
		rootsDeep := roots
		perRootDeep := 1
		if e.Thorough() {
			perRootDeep = 6
		}
		nDeep, maxSteps := 0, 0
		for _, r := range rootsDeep {
			paths := enumPaths(g, r, nsLeaf, 1, 20000)
			var pumpable []tPath
			for _, p := range paths {
				if _, ok := pump(p, 1); ok {
					pumpable = append(pumpable, p)
				}
			}
			if len(pumpable) == 0 {
				continue
			}
			for i := 0; i < perRootDeep; i++ {
				p0 := pumpable[e.Rng.IntN(len(pumpable))]
				ks := []int{depths[e.Rng.IntN(len(depths))], 70 + e.Rng.IntN(80)}
				if e.Thorough() {
					ks = depths
				}
				for _, k := range ks {
					p, _ := pump(p0, k)
					m, err := buildAlong(g, p, func(f reflect.Value) { f.SetString("local-ns") })
					if err != nil {
						e.Count("deep_unbuildable")
						continue
					}
					op := "path " + p.opString()
					cmp, terr := translateAndCompare(tr, m, true, ro)
					obs := "missed"
					if terr != nil {
						obs = "error"
					} else if leaf, lerr := readLeaf(g, p, m); lerr == nil && leaf.Kind() == reflect.String && leaf.String() == "remote-ns" {
						obs = "translated"
					}
					e.Emit(op, obs)
					e.Evals++
					nDeep++
					maxSteps = max(maxSteps, len(p.Steps))
					e.Count("deep_" + obs)
					if obs != "translated" || cmp != "equal" {
						e.Violation(map[string]any{"what": fmt.Sprintf("namespace name at %s (root %s) below a chain of %d nested %s (path of %d steps): %s, compared with the reference translation: %s", describePath(g, p0), g.Types[p.Root].Go, k, "recursive values", len(p.Steps), obs, cmp), "ops": []string{op}})
					}
				}
			}
		}
		if ex, ok := e.Stats["extra"].(map[string]any); ok {
			ex["deep_recursion_cases"], ex["deep_recursion_max_path_steps"] = nDeep, maxSteps
		}
	}
	e.Sample([]string{"path r5 f5.2.17 f17.0.40 l40.3"})
	vtC12(e, g) // value-level correspondence (valtree_test.go): ops `valns`
}

func describePath(g *typeGraph, p tPath) string {
	s := ""
	for _, st := range p.Steps {
		f := g.Types[st.Ty].Fields[st.Pos]
		if st.Blob {
			s += f.Go + "[blob]>"
		} else {
			s += f.Go + ">"
		}
	}
	return s + g.Types[p.LeafTy].Fields[p.LeafPos].Go
}
