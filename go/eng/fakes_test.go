package eng

// Channel-based fake gRPC replication streams. Usable inside and outside synctest bubbles.

import (
	"context"
	"fmt"
	"io"
	"sync"

	"go.temporal.io/server/api/adminservice/v1"
	enumsspb "go.temporal.io/server/api/enums/v1"
	replicationpb "go.temporal.io/server/api/replication/v1"
	"go.temporal.io/server/client/history"
	"google.golang.org/grpc"
	"google.golang.org/grpc/metadata"
)

type ev[T any] struct {
	v   *T
	err error
}

type repReq = adminservice.StreamWorkflowReplicationMessagesRequest
type repResp = adminservice.StreamWorkflowReplicationMessagesResponse

// cliStream: the client stream the proxy opens towards a cluster (proxy Recv()s replication
// messages from it and Send()s sync-states to it).
type cliStream struct {
	grpc.ClientStream
	ctx             context.Context
	md              metadata.MD
	in              chan ev[repResp]
	mu              sync.Mutex
	sent            []*repReq
	sendErr         error // when set, Send fails with it
	closed          bool  // CloseSend called
	eof             chan struct{}
	ignoreCloseSend bool          // a peer that does not answer the half-close
	gate            chan struct{} // non-nil: Send blocks until closed (a peer that is slow to read what the proxy sends it)
}

func newCliStream(ctx context.Context) *cliStream {
	md, _ := metadata.FromOutgoingContext(ctx)
	return &cliStream{ctx: ctx, md: md, in: make(chan ev[repResp]), eof: make(chan struct{})}
}

func (c *cliStream) Context() context.Context { return c.ctx }
func (c *cliStream) Recv() (*repResp, error) {
	select {
	case e := <-c.in:
		return e.v, e.err
	case <-c.eof:
		return nil, io.EOF
	case <-c.ctx.Done():
		return nil, c.ctx.Err()
	}
}
func (c *cliStream) Send(r *repReq) error {
	c.mu.Lock()
	gate := c.gate
	if gate != nil && len(c.sent) > 0 && r.GetSyncReplicationState() != nil && c.sent[len(c.sent)-1].GetSyncReplicationState() != nil &&
		r.GetSyncReplicationState().GetInclusiveLowWatermark() == c.sent[len(c.sent)-1].GetSyncReplicationState().GetInclusiveLowWatermark() {
		gate = nil // a slow reader refuses only what is new to it: the repeated watermark of a keep-alive still gets through
	}
	c.mu.Unlock()
	if gate != nil {
		select {
		case <-gate:
		case <-c.ctx.Done():
			return c.ctx.Err()
		}
	}
	c.mu.Lock()
	defer c.mu.Unlock()
	if c.sendErr != nil {
		return c.sendErr
	}
	c.sent = append(c.sent, r)
	return nil
}
func (c *cliStream) CloseSend() error {
	c.mu.Lock()
	defer c.mu.Unlock()
	if !c.closed {
		c.closed = true
		if !c.ignoreCloseSend {
			close(c.eof)
		}
	}
	return nil
}

// SetGate(true): from now on Send blocks (the peer does not read); SetGate(false) releases every blocked Send.
func (c *cliStream) SetGate(closed bool) {
	c.mu.Lock()
	defer c.mu.Unlock()
	if closed && c.gate == nil {
		c.gate = make(chan struct{})
	} else if !closed && c.gate != nil {
		close(c.gate)
		c.gate = nil
	}
}
func (c *cliStream) Sent() []*repReq {
	c.mu.Lock()
	defer c.mu.Unlock()
	return append([]*repReq(nil), c.sent...)
}
func (c *cliStream) Closed() bool {
	c.mu.Lock()
	defer c.mu.Unlock()
	return c.closed
}

// srvStream: the server stream a cluster opened to the proxy (proxy Recv()s sync-states from
// it and Send()s replication messages to it).
type srvStream struct {
	grpc.ServerStream
	ctx     context.Context
	in      chan ev[repReq]
	mu      sync.Mutex
	sent    []*repResp
	sendErr error
	stall   chan struct{} // non-nil: Send blocks (the cluster behind the stream is not reading) until released or the stream ends
}

// SetStall(true): from now on Send blocks; SetStall(false) releases every blocked Send.
func (s *srvStream) SetStall(on bool) {
	s.mu.Lock()
	defer s.mu.Unlock()
	if on && s.stall == nil {
		s.stall = make(chan struct{})
	} else if !on && s.stall != nil {
		close(s.stall)
		s.stall = nil
	}
}

func newSrvStream(ctx context.Context) *srvStream {
	return &srvStream{ctx: ctx, in: make(chan ev[repReq])}
}
func (s *srvStream) Context() context.Context { return s.ctx }
func (s *srvStream) Recv() (*repReq, error) {
	select {
	case e := <-s.in:
		return e.v, e.err
	case <-s.ctx.Done():
		return nil, s.ctx.Err()
	}
}
func (s *srvStream) Send(r *repResp) error {
	s.mu.Lock()
	st := s.stall
	s.mu.Unlock()
	if st != nil {
		select {
		case <-st:
		case <-s.ctx.Done():
			return s.ctx.Err()
		}
	}
	s.mu.Lock()
	defer s.mu.Unlock()
	if s.sendErr != nil {
		return s.sendErr
	}
	s.sent = append(s.sent, r)
	return nil
}
func (s *srvStream) Sent() []*repResp {
	s.mu.Lock()
	defer s.mu.Unlock()
	return append([]*repResp(nil), s.sent...)
}
func (s *srvStream) SetSendErr(err error) {
	s.mu.Lock()
	s.sendErr = err
	s.mu.Unlock()
}

// multiClient is a fake AdminServiceClient handing out one cliStream per opened stream; the
// newest stream per "serverCluster:serverShard" key is kept, all are listed in order.
type multiClient struct {
	adminservice.AdminServiceClient
	mu           sync.Mutex
	streams      map[string]*cliStream
	all          []*cliStream
	openErr      error
	openErrFirst []error         // consumed one per open attempt before anything else: transient failures
	attempts     []metadata.MD   // outgoing metadata of EVERY open attempt, failed ones included
	opened       chan *cliStream // optional notification
}

func newMultiClient() *multiClient { return &multiClient{streams: map[string]*cliStream{}} }

func (f *multiClient) StreamWorkflowReplicationMessages(ctx context.Context, opts ...grpc.CallOption) (adminservice.AdminService_StreamWorkflowReplicationMessagesClient, error) {
	f.mu.Lock()
	defer f.mu.Unlock()
	if md, ok := metadata.FromOutgoingContext(ctx); ok {
		f.attempts = append(f.attempts, md.Copy())
	} else {
		f.attempts = append(f.attempts, nil)
	}
	if len(f.openErrFirst) > 0 {
		err := f.openErrFirst[0]
		f.openErrFirst = f.openErrFirst[1:]
		if err != nil {
			return nil, err
		}
	}
	if f.openErr != nil {
		return nil, f.openErr
	}
	cs := newCliStream(ctx)
	key := "?"
	if a, b := cs.md.Get(history.MetadataKeyServerClusterID), cs.md.Get(history.MetadataKeyServerShardID); len(a) > 0 && len(b) > 0 {
		key = a[0] + ":" + b[0]
	}
	f.streams[key] = cs
	f.all = append(f.all, cs)
	if f.opened != nil {
		select {
		case f.opened <- cs:
		default:
		}
	}
	return cs, nil
}
func (f *multiClient) Stream(key string) *cliStream {
	f.mu.Lock()
	defer f.mu.Unlock()
	return f.streams[key]
}
func (f *multiClient) All() []*cliStream {
	f.mu.Lock()
	defer f.mu.Unlock()
	return append([]*cliStream(nil), f.all...)
}

func msgResp(high int64, tasks ...*replicationpb.ReplicationTask) *repResp {
	return &repResp{Attributes: &adminservice.StreamWorkflowReplicationMessagesResponse_Messages{
		Messages: &replicationpb.WorkflowReplicationMessages{ReplicationTasks: tasks, ExclusiveHighWatermark: high}}}
}

// msgRespFrom marks the batch with its source index in the Priority field, which the proxy copies through
// unchanged on every routed message (so the harness can tell whose watermark a target received).
func msgRespFrom(src int, high int64, tasks ...*replicationpb.ReplicationTask) *repResp {
	r := msgResp(high, tasks...)
	r.GetMessages().Priority = enumsspb.TaskPriority(100 + src)
	return r
}
func ackReq(low int64) *repReq {
	return &repReq{Attributes: &adminservice.StreamWorkflowReplicationMessagesRequest_SyncReplicationState{
		SyncReplicationState: &replicationpb.SyncReplicationState{InclusiveLowWatermark: low}}}
}

func mdPairs(cc, cs, sc, ss string) metadata.MD {
	md := metadata.MD{}
	set := func(k, v string) {
		if v != "_" {
			md.Set(k, v)
		}
	}
	set(history.MetadataKeyClientClusterID, cc)
	set(history.MetadataKeyClientShardID, cs)
	set(history.MetadataKeyServerClusterID, sc)
	set(history.MetadataKeyServerShardID, ss)
	return md
}

var _ = fmt.Sprint
