module verifharness

go 1.26.4

require (
	github.com/gogo/protobuf v1.3.2
	github.com/google/go-cmp v0.7.0
	github.com/hashicorp/yamux v0.1.2
	github.com/prometheus/client_model v0.6.2
	github.com/temporalio/s2s-proxy v0.0.0
	go.temporal.io/api v1.62.8
	go.temporal.io/server v1.31.2
	google.golang.org/grpc v1.80.0
	google.golang.org/protobuf v1.36.11
)

require (
	github.com/armon/go-metrics v0.0.0-20180917152333-f0300d1749da // indirect
	github.com/beorn7/perks v1.0.1 // indirect
	github.com/blang/semver/v4 v4.0.0 // indirect
	github.com/cactus/go-statsd-client/v5 v5.1.0 // indirect
	github.com/cespare/xxhash/v2 v2.3.0 // indirect
	github.com/cpuguy83/go-md2man/v2 v2.0.7 // indirect
	github.com/davecgh/go-spew v1.1.2-0.20180830191138-d8f796af33cc // indirect
	github.com/dgryski/go-farm v0.0.0-20240924180020-3414d57e47da // indirect
	github.com/facebookgo/clock v0.0.0-20150410010913-600d898af40a // indirect
	github.com/go-logr/logr v1.4.3 // indirect
	github.com/go-logr/stdr v1.2.2 // indirect
	github.com/gogo/googleapis v0.0.0-20180223154316-0cd9801be74a // indirect
	github.com/gogo/status v1.1.1 // indirect
	github.com/golang/mock v1.7.0-rc.1 // indirect
	github.com/golang/protobuf v1.5.4 // indirect
	github.com/google/btree v1.1.3 // indirect
	github.com/google/uuid v1.6.0 // indirect
	github.com/grpc-ecosystem/go-grpc-middleware/providers/prometheus v1.1.0 // indirect
	github.com/grpc-ecosystem/go-grpc-middleware/v2 v2.3.3 // indirect
	github.com/grpc-ecosystem/grpc-gateway/v2 v2.29.0 // indirect
	github.com/hashicorp/errwrap v1.0.0 // indirect
	github.com/hashicorp/go-immutable-radix v1.0.0 // indirect
	github.com/hashicorp/go-msgpack/v2 v2.1.1 // indirect
	github.com/hashicorp/go-multierror v1.0.0 // indirect
	github.com/hashicorp/go-sockaddr v1.0.0 // indirect
	github.com/hashicorp/golang-lru v0.5.0 // indirect
	github.com/hashicorp/memberlist v0.5.1 // indirect
	github.com/keilerkonzept/visit v1.1.1 // indirect
	github.com/miekg/dns v1.1.57 // indirect
	github.com/mitchellh/mapstructure v1.5.0 // indirect
	github.com/munnerz/goautoneg v0.0.0-20191010083416-a7dc8b61c822 // indirect
	github.com/nexus-rpc/sdk-go v0.6.0 // indirect
	github.com/pkg/errors v0.9.1 // indirect
	github.com/pmezard/go-difflib v1.0.1-0.20181226105442-5d4384ee4fb2 // indirect
	github.com/prometheus/client_golang v1.23.2 // indirect
	github.com/prometheus/common v0.66.1 // indirect
	github.com/prometheus/procfs v0.20.1 // indirect
	github.com/robfig/cron v1.2.0 // indirect
	github.com/robfig/cron/v3 v3.0.1 // indirect
	github.com/russross/blackfriday/v2 v2.1.0 // indirect
	github.com/sean-/seed v0.0.0-20170313163322-e2103e2c3529 // indirect
	github.com/stretchr/objx v0.5.3 // indirect
	github.com/stretchr/testify v1.11.1 // indirect
	github.com/twmb/murmur3 v1.1.8 // indirect
	github.com/uber-go/tally/v4 v4.1.17 // indirect
	github.com/urfave/cli/v2 v2.27.7 // indirect
	github.com/xrash/smetrics v0.0.0-20250705151800-55b8f293f342 // indirect
	go.opentelemetry.io/auto/sdk v1.2.1 // indirect
	go.opentelemetry.io/otel v1.43.0 // indirect
	go.opentelemetry.io/otel/exporters/prometheus v0.57.0 // indirect
	go.opentelemetry.io/otel/metric v1.43.0 // indirect
	go.opentelemetry.io/otel/sdk v1.43.0 // indirect
	go.opentelemetry.io/otel/sdk/metric v1.43.0 // indirect
	go.opentelemetry.io/otel/trace v1.43.0 // indirect
	go.temporal.io/sdk v1.41.1 // indirect
	go.uber.org/atomic v1.11.0 // indirect
	go.uber.org/dig v1.19.0 // indirect
	go.uber.org/fx v1.24.0 // indirect
	go.uber.org/mock v0.6.0 // indirect
	go.uber.org/multierr v1.11.0 // indirect
	go.uber.org/zap v1.27.1 // indirect
	go.yaml.in/yaml/v2 v2.4.4 // indirect
	golang.org/x/exp v0.0.0-20260410095643-746e56fc9e2f // indirect
	golang.org/x/net v0.55.0 // indirect
	golang.org/x/sync v0.20.0 // indirect
	golang.org/x/sys v0.45.0 // indirect
	golang.org/x/text v0.37.0 // indirect
	golang.org/x/time v0.15.0 // indirect
	google.golang.org/genproto/googleapis/api v0.0.0-20260420184626-e10c466a9529 // indirect
	google.golang.org/genproto/googleapis/rpc v0.0.0-20260420184626-e10c466a9529 // indirect
	gopkg.in/yaml.v3 v3.0.1 // indirect
)

replace github.com/temporalio/s2s-proxy => /repo
