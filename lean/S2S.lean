import S2S.Model.Ring
