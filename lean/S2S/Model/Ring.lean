/-
Model of `proxyIDRingBuffer` (proxy/proxy_streams.go).  CORE LEAN ONLY.

Go `int` / `int64` values are modelled by unbounded `Int`/`Nat`; the single place where the
code's result depends on two's-complement wrap-around for inputs a caller can supply
(`watermark - startProxyID + 1` in `AggregateUpTo`) goes through `wrap64`.  The remaining
`int64` additions (`startProxyID + int64(size)`, `startProxyID += count`) are exact as long as
ids stay inside the int64 range, which is the theorems' explicit hypothesis `NoOverflow`.
-/
namespace S2S.Ring

/-- `history.ClusterShardID` + original task id: one `proxyIDMapping`. -/
structure Entry where
  cluster : Int
  shard   : Int
  task    : Int
deriving DecidableEq, Repr, Inhabited

/-- The zero mapping the code writes to keep proxy ids contiguous. -/
def hole : Entry := ⟨0, 0, 0⟩

/-- `m.sourceShard.ClusterID == 0 && m.sourceShard.ShardID == 0` -/
def Entry.isHole (e : Entry) : Bool := e.cluster == 0 && e.shard == 0

abbrev Key := Int × Int
def Entry.key (e : Entry) : Key := (e.cluster, e.shard)

structure Buf where
  entries : List Entry      -- the physical slice; `len(b.entries)` is the capacity
  head    : Nat
  size    : Nat
  maxSize : Nat
  start   : Int             -- startProxyID
deriving Repr, DecidableEq

def Buf.cap (b : Buf) : Nat := b.entries.length

/-- `newProxyIDRingBuffer(capacity)` -/
def new (capacity : Int) : Buf :=
  { entries := List.replicate (if capacity < 1 then 1 else capacity.toNat) hole
    head := 0, size := 0, maxSize := 0, start := 0 }

/-- `b.entries[(b.head + i) % len(b.entries)]` -/
def Buf.at (b : Buf) (i : Nat) : Entry :=
  b.entries.getD ((b.head + i) % b.cap) hole

/-- `ensureCapacity` -/
def Buf.ensureCapacity (b : Buf) : Buf :=
  if b.size < b.cap then b
  else
    let newCap := if b.cap * 2 = 0 then 1 else b.cap * 2
    { b with
      entries := (List.range newCap).map (fun i => if i < b.size then b.at i else hole)
      head := 0 }

/-- write one mapping at the tail position and bump `size` / `maxSize` (no capacity check). -/
def Buf.writeTail (b : Buf) (e : Entry) : Buf :=
  { b with
    entries := b.entries.set ((b.head + b.size) % b.cap) e
    size := b.size + 1
    maxSize := if b.size + 1 > b.maxSize then b.size + 1 else b.maxSize }

/-- the hole-filling loop `for expected < proxyID { ensureCapacity; write hole; size++; expected++ }` -/
def Buf.fillHoles : Nat → Buf → Buf
  | 0, b => b
  | n + 1, b => fillHoles n (b.ensureCapacity.writeTail hole)

/--
`Append`.  `finalEnsure` says whether the code calls `ensureCapacity` again after the
hole-filling loop, before the final write (see `Gen/RingFacts` — read from the source on every run;
the pinned tree did not, which is finding C05-gap, repaired by a `fix:` commit).
-/
def Buf.append (finalEnsure : Bool) (b : Buf) (proxyID : Int) (e : Entry) : Buf :=
  let b := b.ensureCapacity
  let b :=
    if b.size = 0 then { b with start := proxyID }
    else
      let expected := b.start + (b.size : Int)
      if proxyID ≠ expected then b.fillHoles (proxyID - expected).toNat else b
  let b := if finalEnsure then b.ensureCapacity else b
  b.writeTail e

def two63 : Int := 9223372036854775808
def two64 : Int := 18446744073709551616

/-- two's-complement int64 wrap of an exact integer result -/
def wrap64 (x : Int) : Int := (x + two63) % two64 - two63

/-- insert-or-max into the result map (an association list in first-insertion order) -/
def aggInsert : List (Key × Int) → Key → Int → List (Key × Int)
  | [], k, v => [(k, v)]
  | (k', v') :: rest, k, v =>
    if k' = k then (k', if v > v' then v else v') :: rest
    else (k', v') :: aggInsert rest k v

/-- the loop of `AggregateUpTo` over the first `count` logical slots -/
def Buf.aggLoop (b : Buf) (count : Nat) : List (Key × Int) :=
  (List.range count).foldl
    (fun acc i => let m := b.at i
      if m.isHole then acc else aggInsert acc m.key m.task) []

/-- `AggregateUpTo(watermark)` : (result map, count) -/
def Buf.aggregate (b : Buf) (w : Int) : List (Key × Int) × Nat :=
  if b.size = 0 then ([], 0)
  else if w < b.start then ([], 0)
  else
    let count64 := wrap64 (w - b.start + 1)
    if count64 ≤ 0 then ([], 0)
    else
      let count := if count64.toNat > b.size then b.size else count64.toNat
      (b.aggLoop count, count)

/-- `Discard(count)` -/
def Buf.discard (b : Buf) (count : Int) : Buf :=
  if count ≤ 0 then b
  else
    let c := if count.toNat > b.size then b.size else count.toNat
    { b with head := (b.head + c) % b.cap, size := b.size - c, start := b.start + (c : Int) }

/-- Operations of the ring, as driven by the harness and quantified over by the theorems. -/
inductive Op where
  | append (proxyID : Int) (e : Entry)
  | aggregate (w : Int)
  | discard (n : Int)
deriving Repr, DecidableEq

def Buf.step (fe : Bool) (b : Buf) : Op → Buf
  | .append p e => b.append fe p e
  | .aggregate _ => b
  | .discard n => b.discard n

def Buf.run (fe : Bool) (b : Buf) (ops : List Op) : Buf := ops.foldl (Buf.step fe) b

/-- logical contents, oldest first (what `buildSenderDebugSnapshot` previews) -/
def Buf.items (b : Buf) : List Entry := (List.range b.size).map b.at

end S2S.Ring
