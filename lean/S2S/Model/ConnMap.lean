/-
Model of the session table ⇄ client connection coupling (C11):
  multiMuxManager.AddConnection / unregisterMux / notifyChange   (transport/mux/multi_mux_manager.go)
  MultiClientConn.OnConnectionListUpdate / UpdateState / deriveStateFromConns / getMapDialer / CanMakeCalls
                                                                  (transport/grpcutil/multi_client_conn.go)
plus an explicit, *assumed* model of what gRPC does with the resolver state (`Balancer`).
CORE LEAN ONLY.

A session object is identified by `obj` (allocation order); the table maps string keys (the decimal
`muxIdSequencer` value, here a `Nat`) to objects.  `notifyChange` runs inside the table lock on every
add/remove, so "mutate the table + notify" is one atomic action.
-/
namespace S2S.ConnMap

structure Sess where
  key   : Nat          -- map key = muxIdSequencer value at registration
  obj   : Nat          -- identity of the ManagedMuxSession object
  alive : Bool := true -- yamux session open and session context live: `Open()` succeeds
deriving DecidableEq, Repr

structure St where
  cap       : Nat                          -- pool size (C10: never more than `cap` registered)
  muxes     : List Sess := []              -- multiMuxManager.muxes, in registration order
  connMap   : Option (List (Nat × Nat)) := none  -- MultiClientConn.connMap: key ↦ object whose `Open` is stored; `none` = nil map
  endpoints : List Nat := []               -- the resolver state gRPC was given: one endpoint per address (= key)
  seq       : Nat := 0                     -- muxIdSequencer
  nextObj   : Nat := 0
  live      : Bool := true                 -- lifetime context (shared by manager and MultiClientConn)
  applied   : Bool := false                -- the resolver has been given a state at least once
deriving DecidableEq, Repr

def St.init (n : Nat) : St := { cap := n }

def St.keys (σ : St) : List Nat := σ.muxes.map (·.key)

/-- `MultiClientConn.UpdateState(conns)`: store the map, derive one endpoint per key -/
def updateState (σ : St) (conns : Option (List (Nat × Nat))) : St :=
  { σ with connMap := conns, endpoints := (conns.getD []).map (·.1), applied := true }

/-- `MultiClientConn.OnConnectionListUpdate(muxes)`: nil for the empty table, else a fresh copy -/
def onConnectionListUpdate (σ : St) : St :=
  if σ.muxes.isEmpty then updateState σ none
  else updateState σ (some (σ.muxes.map fun s => (s.key, s.obj)))

/-- `multiMuxManager.notifyChange` (called with the table lock held) -/
def notifyChange (σ : St) : St := onConnectionListUpdate σ

inductive Act where
  | add                 -- AddConnection: a new session is registered under a fresh key
  | kill (k : Nat)      -- the session under key `k` dies (peer gone / Close()): `Open()` fails from now on
  | unregister (k : Nat)-- unregisterMux(k): delete + notifyChange
  | cancel              -- lifetime ends
deriving DecidableEq, Repr

def step (σ : St) : Act → Option St
  | .add =>
    if σ.live = true ∧ σ.muxes.length < σ.cap then
      some (notifyChange { σ with muxes := σ.muxes ++ [{ key := σ.seq, obj := σ.nextObj }], seq := σ.seq + 1, nextObj := σ.nextObj + 1 })
    else none
  | .kill k =>
    if σ.keys.contains k then
      some { σ with muxes := σ.muxes.map fun s => if s.key = k then { s with alive := false } else s }
    else none
  | .unregister k =>
    if σ.keys.contains k then some (notifyChange { σ with muxes := σ.muxes.filter fun s => s.key ≠ k })
    else none
  | .cancel => if σ.live = true then some { σ with live := false } else none

def run (σ : St) (acts : List Act) : St := acts.foldl (fun s a => (step s a).getD s) σ

/-! ### what the client connection can do with its state -/

inductive DialResult where
  | noKey                -- "connection key %s didn't match a connection"
  | sessionClosed        -- the stored `Open` returned an error
  | stream (obj : Nat)   -- a yamux stream on session object `obj`
deriving DecidableEq, Repr

def sessionAlive (σ : St) (obj : Nat) : Bool := σ.muxes.any fun s => s.obj = obj ∧ s.alive

/-- `getMapDialer`: look the address up in `connMap`, call the stored `Open` -/
def dial (σ : St) (addr : Nat) : DialResult :=
  match (σ.connMap.getD []).find? (fun p => p.1 = addr) with
  | none => .noKey
  | some (_, o) => if sessionAlive σ o then .stream o else .sessionClosed

def St.canMakeCalls (σ : St) : Bool := σ.live && !(σ.connMap.getD []).isEmpty

/-- endpoints whose sub-connection can be (re)established: the dialer yields a stream -/
def readyEndpoints (σ : St) : List Nat :=
  σ.endpoints.filter fun k => match dial σ k with | .stream _ => true | _ => false

/-- **Assumption, not verified** (gRPC's round-robin over the resolver's endpoints): a ready
    endpoint is picked iff one exists, and only an endpoint of the current resolver state. -/
structure Balancer where
  pick : List Nat → Nat → Option Nat
  pick_mem  : ∀ l i k, pick l i = some k → k ∈ l
  pick_none : ∀ l i, pick l i = none ↔ l = []

inductive RpcResult where
  | closed               -- the client connection is closing
  | blocked              -- no resolver state yet: the call waits (until its deadline)
  | unavailable
  | served (obj : Nat)
deriving DecidableEq, Repr

/-- a unary call issued in a quiescent state, `i` = the balancer's internal position -/
def rpc (B : Balancer) (σ : St) (i : Nat) : RpcResult :=
  if σ.live = false then .closed
  else if σ.applied = false then .blocked
  else match B.pick (readyEndpoints σ) i with
    | none => .unavailable
    | some k => match dial σ k with
      | .stream o => .served o
      | _ => .unavailable

/-- the simplest balancer satisfying the assumption (used by the driver and the examples) -/
def firstBalancer : Balancer where
  pick l _ := l.head?
  pick_mem := by
    intro l i k h
    cases l with
    | nil => simp at h
    | cons x r => simp at h; subst h; exact List.mem_cons_self
  pick_none := by
    intro l i
    cases l <;> simp

end S2S.ConnMap
