/-
Model of the access-control pipeline (C15, C16):
  interceptor.AccessControlInterceptor.Intercept / StreamIntercept  (interceptor/access_control.go)
  auth.AccessControl.IsAllowed, auth.IsAllowedWorkflowMigrationAPIs (auth/)
  api.MethodName                                                    (temporal server v1.31.2)
  where the policy is attached: makeServerOptions / NewClusterConnection (proxy/cluster_connection.go)
  workflowServiceProxyServer.ListNamespaces filter                  (proxy/workflowservice.go)
CORE LEAN ONLY.
-/
namespace S2S.Acl

def workflowPrefix : String := "/temporal.api.workflowservice.v1.WorkflowService/"
def adminPrefix : String := "/temporal.server.api.adminservice.v1.AdminService/"

/-- `api.MethodName`: the part after the last '/' (the whole string when there is none) -/
def methodName (full : String) : String := (full.splitOn "/").getLast?.getD full

/-- `auth.AccessControl.IsAllowed`: an empty list allows everything -/
def isAllowed (list : List String) (x : String) : Bool := list.isEmpty || list.contains x

/-- `workflowServiceDisallowedAPIs` -/
def denyList : List String := ["DeprecateNamespace", "RegisterNamespace"]

structure Policy where
  adminMethods : List String     -- aclPolicy.AllowedMethods.AdminService
  namespaces   : List String     -- aclPolicy.AllowedNamespaces
deriving Repr, DecidableEq

inductive Decision where
  | forward     -- the next handler (and ultimately the local cluster) is called
  | denied      -- PermissionDenied; nothing behind the interceptor runs
deriving Repr, DecidableEq

inductive Service where
  | workflow | admin | other
deriving Repr, DecidableEq

/-- classification of a full gRPC method name by the two prefixes the interceptor tests -/
def serviceOf (full : String) : Service :=
  if full.startsWith workflowPrefix then .workflow
  else if full.startsWith adminPrefix then .admin
  else .other

/-- `Intercept` on a classified method; `reqNamespaces` are the names the namespace visitor finds in
    the request (after translation, which runs before this interceptor) -/
def aclUnaryOn (p : Policy) (svc : Service) (name : String) (reqNamespaces : List String) : Decision :=
  if svc = .workflow && denyList.contains name then .denied
  else if svc = .admin && !isAllowed p.adminMethods name then .denied
  else if (svc = .workflow || svc = .admin) && reqNamespaces.any (fun n => !isAllowed p.namespaces n) then .denied
  else .forward

/-- `Intercept` when the namespace visitor may FAIL on the request (`visit = none`: a history blob that can
    neither be decoded nor repaired): `isNamespaceAccessAllowed` returns the error and the request is refused. -/
def aclUnaryOnV (p : Policy) (svc : Service) (name : String) (visit : Option (List String)) : Decision :=
  match visit with
  | some ns => aclUnaryOn p svc name ns
  | none =>
    if svc = .workflow && denyList.contains name then .denied
    else if svc = .admin && !isAllowed p.adminMethods name then .denied
    else if svc = .workflow || svc = .admin then .denied
    else .forward

/-- `StreamIntercept` on a classified method -/
def aclStreamOn (p : Policy) (svc : Service) (name : String) : Decision :=
  if svc = .admin && !isAllowed p.adminMethods name then .denied
  else .forward

def aclUnary (p : Policy) (full : String) (reqNamespaces : List String) : Decision :=
  aclUnaryOn p (serviceOf full) (methodName full) reqNamespaces

def aclStream (p : Policy) (full : String) : Decision :=
  aclStreamOn p (serviceOf full) (methodName full)

/-- which policy a server of the cluster connection carries: `inboundCfg.aclPolicy := connConfig.ACLPolicy`,
    the outbound configuration has none; `buildProxyServer` is shared by the TCP and the mux transport -/
def serverPolicy (inbound : Bool) (configured : Option Policy) : Option Policy :=
  if inbound then configured else none

def handleUnary (inbound : Bool) (configured : Option Policy) (full : String) (reqNamespaces : List String) : Decision :=
  match serverPolicy inbound configured with
  | none => .forward
  | some p => aclUnary p full reqNamespaces

def handleUnaryV (inbound : Bool) (configured : Option Policy) (full : String) (visit : Option (List String)) : Decision :=
  match serverPolicy inbound configured with
  | none => .forward
  | some p => aclUnaryOnV p (serviceOf full) (methodName full) visit

def handleStream (inbound : Bool) (configured : Option Policy) (full : String) : Decision :=
  match serverPolicy inbound configured with
  | none => .forward
  | some p => aclStream p full

/-- `ListNamespaces` response filter (applied when a policy is configured) -/
def filterNamespaces (allowedNs : Option (List String)) (names : List String) : List String :=
  match allowedNs with
  | none => names
  | some l => names.filter (isAllowed l)

end S2S.Acl
