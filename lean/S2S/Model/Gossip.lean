/-
Model of shard-ownership gossip between proxy instances and of owner routing (C09):
  shardManagerImpl.RegisterShard / addLocalShard / UnregisterShard / broadcastShardChange
  shardDelegate.NotifyMsg / LocalState (NodeMeta) / MergeRemoteState, shardEventDelegate.NotifyLeave
  getShardOwner / GetRemoteShardsForPeer, DeliverMessagesToShardOwner, DeliverAckToShardOwner   (proxy/shard_manager.go)
  intraProxyManager.sendReplicationMessages / sendAck / ReconcilePeerStreams                     (proxy/intra_proxy_router.go)
CORE LEAN ONLY.

Time: ONE global clock (`State.clock`), read by every `time.Now()`; it advances only by the action
`tick`.  Two reads without a tick in between return equal values; "the clock is strictly increasing"
is therefore not built in but appears as an explicit hypothesis (`DisjointWindows`, which is strict)
where a theorem needs it.  Clocks of different machines are compared directly by the code; the single
clock is the stated assumption.

The machine is FINE-GRAINED: `RegisterShard` is two actions (`add`: `addLocalShard`, Created := now;
`announce`: `broadcastShardChange("register")`, stamped with a LATER now), so that anything can
happen in between (schedule point `RegisterShard.afterAdd`).  The network is a multiset of in-flight
items; `deliver it keep` hands any in-flight item to its addressee and removes it unless `keep`
(duplication); delay and reordering are the choice of which item is delivered when.
-/
namespace S2S.Gossip

abbrev NodeId := Nat
abbrev ShardId := Nat
abbrev Time := Nat

/-! ### Go maps as association lists (lookup = first match; `aset` / `aerase` remove every entry of the key) -/
def aget {α} (l : List (Nat × α)) (k : Nat) : Option α := (l.find? (fun p => p.1 == k)).map (·.2)
def aerase {α} (l : List (Nat × α)) (k : Nat) : List (Nat × α) := l.filter (fun p => !(p.1 == k))
def aset {α} (l : List (Nat × α)) (k : Nat) (v : α) : List (Nat × α) := (k, v) :: aerase l k
def akeys {α} (l : List (Nat × α)) : List Nat := l.map (·.1)

/-- `map[string]ShardInfo`: shard ↦ Created -/
abbrev Table := List (ShardId × Time)

/-- defect flags.  `stampAtBroadcast = true` mirrors the current tree: the register announcement is
    stamped with `time.Now()` at broadcast time, not with the registration's `Created`. -/
structure Cfg where
  stampAtBroadcast : Bool := true
deriving Repr, DecidableEq

def Cfg.asIs : Cfg := {}
def Cfg.fixed : Cfg := { stampAtBroadcast := false }

inductive Kind where
  | register | unregister
deriving Repr, DecidableEq

/-- an in-flight item: a `ShardMessage` for one addressee, or a full-state snapshot (`NodeShardState`) -/
inductive Item where
  | ann  (kind : Kind) (src : NodeId) (shard : ShardId) (stamp : Time) (dst : NodeId)
  | snap (src : NodeId) (shards : Table) (dst : NodeId)
deriving Repr, DecidableEq

structure Node where
  locals  : Table := []                        -- localShards
  remote  : List (NodeId × Table) := []        -- remoteNodeStates (only MergeRemoteState / NotifyLeave write it)
  pending : List (ShardId × Time) := []        -- RegisterShard calls between addLocalShard and the broadcast
  streams : List (ShardId × Nat) := []         -- remoteSendChannels: shard ↦ identity of the live local stream's channel (its registration's sequence number)
deriving Repr, DecidableEq

/-- one `RegisterShard` call: `[created, stamp]` is its claim window -/
structure Claim where
  node    : NodeId
  shard   : ShardId
  created : Time
  stamp   : Time
deriving Repr, DecidableEq

structure State where
  node  : NodeId → Node := fun _ => {}
  net   : List Item := []
  clock : Time := 0
  -- histories (ghost state; never read by the machine)
  adds      : List (NodeId × ShardId × Time) := []          -- every addLocalShard: (node, shard, Created)
  claims    : List Claim := []                              -- every completed RegisterShard
  evicted   : List (NodeId × ShardId × Time × Time) := []   -- (node, shard, Created, evicting stamp)
  ended     : List (NodeId × ShardId × Time) := []          -- UnregisterShard by the stream's own exit that removed the entry
  emitted   : List Item := []                               -- every item ever put in flight
  delivered : List Item := []                               -- every item ever delivered

def State.init : State := {}

def State.setNode (σ : State) (n : NodeId) (x : Node) : State :=
  { σ with node := fun k => if k = n then x else σ.node k }

/-- one announcement per node currently in the sender's `remoteNodeStates`, never to itself -/
def emit (kind : Kind) (n : NodeId) (s : ShardId) (t : Time) (x : Node) : List Item :=
  ((akeys x.remote).filter (fun d => !(d == n))).map fun d => Item.ann kind n s t d

def State.send (σ : State) (items : List Item) : State :=
  { σ with net := σ.net ++ items, emitted := σ.emitted ++ items }

/-- `UnregisterShard(s, c)` at node `n`: only when the entry's Created equals `c`; broadcasts "unregister".
    (The function deletes, unlocks, and deletes again; a `RegisterShard` of the same shard on the same
    node inside that window is C08's subject and is excluded here: the step is atomic.) -/
def unregister (σ : State) (n : NodeId) (s : ShardId) (c : Time) : State :=
  let x := σ.node n
  if aget x.locals s = some c then
    (σ.setNode n { x with locals := aerase x.locals s }).send (emit .unregister n s σ.clock x)
  else σ

/-- `shardDelegate.NotifyMsg` at `dst` (with the callbacks of `SetupCallbacks` installed).  Only a
    "register" can change anything: a local entry created strictly before the message's stamp is
    force-unregistered.  `remoteNodeStates` is NOT touched. -/
def notifyMsg (σ : State) (kind : Kind) (s : ShardId) (t : Time) (dst : NodeId) : State :=
  match kind with
  | .unregister => σ
  | .register =>
    match aget (σ.node dst).locals s with
    | some c => if c < t then { unregister σ dst s c with evicted := (dst, s, c, t) :: σ.evicted } else σ
    | none => σ

/-- `shardDelegate.MergeRemoteState`: the snapshot replaces the entry of its node -/
def mergeRemote (σ : State) (src : NodeId) (tbl : Table) (dst : NodeId) : State :=
  let x := σ.node dst
  σ.setNode dst { x with remote := aset x.remote src tbl }

inductive Act where
  | tick
  | add (n : NodeId) (s : ShardId)                  -- stream opened: SetRemoteSendChan; RegisterShard up to the schedule point
  | announce (n : NodeId) (s : ShardId)             -- rest of the oldest pending RegisterShard(s) of n
  | streamEnd (n : NodeId) (s : ShardId) (c : Time) (id : Nat) -- the stream whose registration was the id-th `add` (stamp c) ends: UnregisterShard(s, c); RemoveRemoteSendChan(s, its channel)
  | deliver (it : Item) (keep : Bool)
  | snapshot (n m : NodeId)                         -- push/pull: m merges n's current LocalState now
  | snapSend (n m : NodeId)                         -- n's LocalState is captured now, merged later (in flight)
  | leave (m n : NodeId)                            -- m processes NotifyLeave(n)
deriving Repr, DecidableEq

def step (cfg : Cfg) (σ : State) : Act → State
  | .tick => { σ with clock := σ.clock + 1 }
  | .add n s =>
    let x := σ.node n
    let c := σ.clock
    { σ.setNode n { x with locals := aset x.locals s c, pending := x.pending ++ [(s, c)], streams := aset x.streams s σ.adds.length }
      with adds := (n, s, c) :: σ.adds }
  | .announce n s =>
    let x := σ.node n
    match x.pending.find? (fun p => p.1 == s) with
    | none => σ
    | some p =>
      let t := if cfg.stampAtBroadcast then σ.clock else p.2
      { (σ.setNode n { x with pending := x.pending.erase p }).send (emit .register n s t x)
        with claims := ⟨n, s, p.2, t⟩ :: σ.claims }
  | .streamEnd n s c id =>
    let x := σ.node n
    let σ1 := if aget x.locals s = some c then { unregister σ n s c with ended := (n, s, c) :: σ.ended } else σ
    let y := σ1.node n
    if aget y.streams s = some id then σ1.setNode n { y with streams := aerase y.streams s } else σ1
  | .deliver it keep =>
    if it ∈ σ.net then
      let σ0 := { σ with net := if keep then σ.net else σ.net.erase it, delivered := it :: σ.delivered }
      match it with
      | .ann kind _ s t dst => notifyMsg σ0 kind s t dst
      | .snap src tbl dst => mergeRemote σ0 src tbl dst
    else σ
  | .snapshot n m => mergeRemote σ n (σ.node n).locals m
  | .snapSend n m => σ.send [Item.snap n (σ.node n).locals m]
  | .leave m n =>
    let x := σ.node m
    σ.setNode m { x with remote := aerase x.remote n }

def run (cfg : Cfg) (σ : State) (acts : List Act) : State := acts.foldl (step cfg) σ

/-- node `m` holds shard `s` with registration stamp `c` -/
def Holds (σ : State) (m : NodeId) (s : ShardId) (c : Time) : Prop := aget (σ.node m).locals s = some c

/-- `getShardOwner` at node `n`: the candidates are the OTHER nodes whose merged snapshot lists the shard
    (the code returns the first one in Go map order; the model keeps all of them) -/
def shardOwners (x : Node) (self : NodeId) (s : ShardId) : List NodeId :=
  (x.remote.filter fun e => !(e.1 == self) && (aget e.2 s).isSome).map (·.1)

/-! ### Delivery decisions (`DeliverMessagesToShardOwner`, `DeliverAckToShardOwner`) -/

/-- how the `select` on the local channel ended (a full channel without shutdown blocks: not an outcome) -/
inductive LocalSend where
  | sent          -- the item is in the local stream's channel
  | shutdown      -- the shutdown branch was taken
  | closedPanic   -- send on a closed channel, recovered
deriving Repr, DecidableEq

structure RouteIn where
  localChan    : Option LocalSend   -- `none`: no channel registered for the shard
  isShutdown   : Bool               -- `shutdownChan.IsShutdown()` after a local attempt that did not deliver
  memberlist   : Bool               -- `sm.memberlistConfig != nil`
  mgrPresent   : Bool               -- `sm.intraMgr != nil` (memberlist configured AND routing mode)
  ownerKnown   : Bool               -- `getShardOwner` found a node
  ownerIsSelf  : Bool
  addrKnown    : Bool               -- `GetProxyAddress(owner)`
  fwdOk        : Bool               -- the intra-proxy hand-off succeeded (sender/receiver registered, Send returned nil)
  allowForward : Bool               -- acks only
deriving Repr, DecidableEq

/-- what a delivery call did: its boolean result and which hand-offs were performed -/
structure RouteOut where
  result   : Bool
  toLocal  : Bool
  toRemote : Bool
  panicked : Bool := false          -- nil intra-proxy manager dereferenced (ack path outside routing mode)
deriving Repr, DecidableEq

def RouteOut.undelivered : RouteOut := ⟨false, false, false, false⟩
def RouteOut.atLocal : RouteOut := ⟨true, true, false, false⟩
def RouteOut.atRemote : RouteOut := ⟨true, false, true, false⟩

/-- the local attempt: `some out` = the function returns `out` here, `none` = it goes on -/
def localAttempt (i : RouteIn) : Option RouteOut :=
  match i.localChan with
  | some .sent => some .atLocal
  | some _ => if i.isShutdown then some .undelivered else none
  | none => none

/-- `DeliverMessagesToShardOwner` -/
def deliverMsg (i : RouteIn) : RouteOut :=
  match localAttempt i with
  | some o => o
  | none =>
    if i.memberlist && i.ownerKnown && !i.ownerIsSelf && i.addrKnown && i.mgrPresent then
      (if i.fwdOk then .atRemote else .undelivered)
    else .undelivered

/-- `DeliverAckToShardOwner` -/
def deliverAck (i : RouteIn) : RouteOut :=
  match localAttempt i with
  | some o => o
  | none =>
    if !i.allowForward then .undelivered
    else if i.memberlist && i.ownerKnown && !i.ownerIsSelf && i.addrKnown then
      (if !i.mgrPresent then { RouteOut.undelivered with panicked := true }
       else if i.fwdOk then .atRemote else .undelivered)
    else .undelivered

/-! ### `ReconcilePeerStreams("")` -/

structure CShard where
  cluster : Nat
  shard   : Nat
deriving Repr, DecidableEq

/-- `peerStreamKey` -/
structure PKey where
  target : CShard
  source : CShard
deriving Repr, DecidableEq

def PKey.swap (k : PKey) : PKey := ⟨k.source, k.target⟩

/-- every cross-cluster (local, remote) pair, with the peer that lists the remote shard -/
def crossPairs (locals : List CShard) (remote : List (NodeId × List CShard)) : List (NodeId × CShard × CShard) :=
  locals.flatMap fun l => remote.flatMap fun e => (e.2.filter fun r => !(l.cluster == r.cluster)).map fun r => (e.1, l, r)

/-- desired receivers: target = local shard, source = remote shard -/
def desiredReceivers (locals : List CShard) (remote : List (NodeId × List CShard)) : List PKey :=
  (crossPairs locals remote).map fun p => ⟨p.2.1, p.2.2⟩

/-- desired senders: the inverse direction -/
def desiredSenders (locals : List CShard) (remote : List (NodeId × List CShard)) : List PKey :=
  (crossPairs locals remote).map fun p => ⟨p.2.2, p.2.1⟩

/-- the pruning phase for one peer's tables (`check`): receivers outside the desired set are closed
    first (`closePeerShardLocked` drops the sender of the same key too), then senders outside theirs
    (dropping the receiver of the same key too) -/
def prune (dR dS : List PKey) (receivers senders : List PKey) : List PKey × List PKey :=
  let rClose := receivers.filter fun k => !dR.contains k
  let r1 := receivers.filter fun k => !rClose.contains k
  let s1 := senders.filter fun k => !rClose.contains k
  let sClose := s1.filter fun k => !dS.contains k
  (r1.filter fun k => !sClose.contains k, s1.filter fun k => !sClose.contains k)

end S2S.Gossip
