/-
Model of the shard registries of `shardManagerImpl` and of the life cycle of the two workers every
routed replication stream creates (C08).  CORE LEAN ONLY.

One incoming stream for client shard `c` (an *incarnation*, identified by its token = the order in
which streams were opened) runs `streamRouting`, which starts

* a `proxyStreamSender`   — `SetRemoteSendChan(c, ch)`; `RegisterShard(c)` = `addLocalShard` (entry
  stamped with `time.Now()`), then `onLocalShardChange` → `notifyReceiversOfNewShard` → for every
  active receiver routing to `c`'s cluster `sendPendingWatermarkToShard(c)` (look the channel of `c`
  up, non-blocking send, guarded by `recover` since its fix: `Cfg.replayRecover`); waits for the stream's shutdown signal; `close(ch)`;
  deferred `UnregisterShard(c, stamp)` (delete under the lock when the stamp matches, unlock, then
  `removeLocalShard` deletes AGAIN unconditionally); deferred `RemoveRemoteSendChan(c, ch)` (only
  when identical);
* a `proxyStreamReceiver` with `sourceShardID = c` — `TerminatePreviousLocalReceiver(c)` (get the
  registered cancel function; call it; `RemoveLocalReceiverCancelFunc`; `forceRemoveLocalAckChan`),
  opens its client stream, `SetLocalAckChan`, `SetLocalReceiverCancelFunc`,
  `RegisterActiveReceiver`; runs; deferred: `RemoveLocalAckChan(expected)` and — unless its own
  context was cancelled (by a successor) — `RemoveLocalReceiverCancelFunc`,
  `UnregisterActiveReceiver` (both unconditional).

An incarnation winds down because (a) its incoming stream fails (`brk`, then `sNotice`), (b) a successor cancels its
receiver (`rCancel` of the successor, then `rNotice`), (c) the lifetime ends (`stop`), or (d) the receiver ends ON ITS
OWN (`selfEnd`): `sendAck`'s `Send` to the source fails, `sendAck` returns, its deferred function calls
`shutdownChan.Shutdown()` and `CloseSend`, `recvReplicationMessages` returns, `Run` returns and runs its deferred
clean-up with `outgoingContext.Err() == nil` — the ordinary removals.  `streamRouting` creates ONE `ShutdownOnce` and hands
it to both `Run`s (and then only `wg.Wait()`s for both): the latch tripped by the receiver is the very signal the sender's
`<-shutdownChan.Channel()` waits for, so the sender of the same incarnation closes its channel and unregisters too.  In
all four cases the signal is the single flag `Inc.shutdown` (or `State.stopped`): `State.down`.

The machine is FINE-GRAINED: one `Act` is one atomic step (one lock-protected region / one channel
operation) of one goroutine, or one action of the environment.  Theorems quantify over every list
of `Act`s, i.e. over every interleaving of any number of incarnations of any number of shards.
-/
namespace S2S.Registry

/-- shards and incarnation tokens are natural numbers (notations, so that arithmetic automation sees `Nat`) -/
notation "Shard" => Nat
notation "Tok" => Nat

/-- shard `c` of cluster `k` is the number `100*k + c` -/
def clusterOf (c : Shard) : Nat := c / 100

/-- model parameters: the `recover` guard per call site and the variants of the clean-up steps.
    The defaults mirror the CURRENT tree; every other value is a tree before one of the `fix:` commits. -/
structure Cfg where
  /-- pre-`0c8aedd` receiver clean-up: remove cancel function and active receiver even when a successor terminated us -/
  cleanupUnconditional : Bool := false
  /-- before the fix of C08-unregister-double-delete: `UnregisterShard` called `removeLocalShard` (a second,
      unconditional delete) after releasing the lock -/
  secondDelete : Bool := false
  /-- `sendPendingWatermarkToShard` (watermark replay) guarded by `recover`?  (`false`: before the fix of
      C08-replay-send-on-closed-channel) -/
  replayRecover : Bool := true
  /-- `DeliverMessagesToShardOwner` -/
  deliverRecover : Bool := true
  /-- the watermark broadcast in `recvReplicationMessages` -/
  bcastRecover : Bool := true
deriving Repr, DecidableEq

/-- the current tree -/
def Cfg.cur : Cfg := {}
/-- the tree before `fix:` 0c8aedd (unconditional receiver clean-up) -/
def Cfg.preFix : Cfg := { cleanupUnconditional := true }
/-- the tree before the fix of the second delete in `UnregisterShard` -/
def Cfg.beforeUnregFix : Cfg := { secondDelete := true }
/-- the tree before `sendPendingWatermarkToShard` got its `recover` -/
def Cfg.beforeReplayFix : Cfg := { replayRecover := false }
/-- the tree before both of these fixes (what the harness compares an unpatched checkout with: `VERIF_C08_MODEL=asis`) -/
def Cfg.asIs : Cfg := { secondDelete := true, replayRecover := false }

/-- program counter of a sender (`proxyStreamSender.Run`); the value names the NEXT step -/
inductive SPc where
  | start                                   -- next: `SetRemoteSendChan`
  | set                                     -- next: `addLocalShard`
  | added                                   -- (point `RegisterShard.afterAdd`) next: snapshot of the active receivers
  | notify (todo : List Tok) (hand : Option Tok)  -- receivers still to notify; channel looked up for the current one
  | running                                 -- waits for the shutdown signal (point `sender.beforeClose`); next: `close`
  | closed                                  -- (point `sender.afterClose`) next: `UnregisterShard` first delete
  | unreg                                   -- deleted own entry, unlocked (point `UnregisterShard.afterUnlock`); next: the rest of `UnregisterShard`
  | rmChan                                  -- next: `RemoveRemoteSendChan(expected)`
  | done
deriving Repr, DecidableEq

/-- program counter of a receiver (`proxyStreamReceiver.Run`) -/
inductive RPc where
  | start                                   -- next: `GetLocalReceiverCancelFunc`
  | term (g : Tok)                          -- found predecessor `g`; next: call its cancel function
  | termRm                                  -- next: `RemoveLocalReceiverCancelFunc` (unconditional)
  | termAck                                 -- next: `forceRemoveLocalAckChan`
  | opening                                 -- next: open the client stream (may fail)
  | opened                                  -- next: `SetLocalAckChan`
  | ackSet                                  -- next: `SetLocalReceiverCancelFunc`
  | cancelSet                               -- next: `RegisterActiveReceiver`
  | running                                 -- both workers run until the shutdown signal; next: `RemoveLocalAckChan(expected)`
  | cleanCheck                              -- next: `outgoingContext.Err() == nil` ?
  | cleanCancel                             -- next: `RemoveLocalReceiverCancelFunc` (unconditional)
  | cleanActive                             -- next: `UnregisterActiveReceiver` (unconditional)
  | done
deriving Repr, DecidableEq

/-- one incarnation of the stream of a client shard -/
structure Inc where
  shard  : Shard := 0
  srv    : Nat := 0             -- cluster of the stream's server shard (= the receiver's target cluster)
  spc    : SPc := .done
  rpc    : RPc := .done
  stamp  : Nat := 0             -- `registeredAt` (valid once `addLocalShard` ran)
  closed : Bool := false        -- `close(sendMsgChan)` happened
  broken : Bool := false        -- the incoming stream failed (environment)
  cancelled : Bool := false     -- the receiver's outgoing context was cancelled by a successor
  shutdown : Bool := false      -- the stream's shared shutdown signal fired
  lastWm : Bool := false        -- the receiver holds a watermark to replay
deriving Repr, DecidableEq

/-- which registry a clean-up step wrongly emptied (ghost) -/
inductive Reg where
  | localShards | sendChans | ackChans | cancels | actives
deriving Repr, DecidableEq

/-- assoc-list helpers (Go maps) -/
def aget {α} : List (Nat × α) → Nat → Option α
  | [], _ => none
  | (k', v) :: r, k => if k' = k then some v else aget r k

def aset {α} : List (Nat × α) → Nat → α → List (Nat × α)
  | [], k, v => [(k, v)]
  | (k', v') :: r, k, v => if k' = k then (k, v) :: r else (k', v') :: aset r k v

def adel {α} : List (Nat × α) → Nat → List (Nat × α)
  | [], _ => []
  | (k', v') :: r, k => if k' = k then adel r k else (k', v') :: adel r k

structure State where
  incs        : List (Tok × Inc) := []
  next        : Tok := 0                       -- token of the next incarnation
  clock       : Nat := 0                       -- `time.Now()`; advances only by `tick`
  stopped     : Bool := false                  -- the connection's lifetime context ended: every stream is told to shut down
  localShards : List (Shard × (Tok × Nat)) := []   -- shard ↦ (incarnation that registered, Created)
  sendChans   : List (Shard × Tok) := []       -- remoteSendChannels
  ackChans    : List (Shard × Tok) := []       -- localAckChannels
  cancels     : List (Shard × Tok) := []       -- localReceiverCancelFuncs
  actives     : List (Shard × Tok) := []       -- activeReceivers
  crashed     : Bool := false                  -- a send on a closed channel outside `recover`: the process is gone
  -- ghost state, never read by the machine
  stolen      : List (Tok × Reg × Tok) := []   -- (incarnation, registry, victim): a CLEAN-UP step removed an entry it did not own
  caught      : Nat := 0                       -- sends on a closed channel swallowed by `recover`
deriving Repr, DecidableEq

def State.init : State := {}

def State.inc (σ : State) (i : Tok) : Inc := (aget σ.incs i).getD {}

/-- field updates (one function per field, so that the proofs can reason about them one at a time) -/
def State.setInc (σ : State) (i : Tok) (x : Inc) : State := { σ with incs := aset σ.incs i x }
def State.setNext (σ : State) (n : Tok) : State := { σ with next := n }
def State.setClock (σ : State) (n : Nat) : State := { σ with clock := n }
def State.setStopped (σ : State) : State := { σ with stopped := true }
def State.setLocal (σ : State) (l : List (Shard × (Tok × Nat))) : State := { σ with localShards := l }
def State.setSend (σ : State) (l : List (Shard × Tok)) : State := { σ with sendChans := l }
def State.setAck (σ : State) (l : List (Shard × Tok)) : State := { σ with ackChans := l }
def State.setCancels (σ : State) (l : List (Shard × Tok)) : State := { σ with cancels := l }
def State.setActives (σ : State) (l : List (Shard × Tok)) : State := { σ with actives := l }
def State.setCrashed (σ : State) : State := { σ with crashed := true }
def State.addStolen (σ : State) (x : Tok × Reg × Tok) : State := { σ with stolen := σ.stolen ++ [x] }
def State.incCaught (σ : State) : State := { σ with caught := σ.caught + 1 }

/-- the shutdown signal as the workers of incarnation `i` see it -/
def State.down (σ : State) (i : Tok) : Bool := (σ.inc i).shutdown || σ.stopped

/-- One atomic step of one goroutine, or one action of the environment. -/
inductive Act where
  -- environment
  | open (c : Shard) (srv : Nat)   -- a cluster opens a stream for client shard `c` towards a server shard of cluster `srv`
  | tick                           -- time passes
  | brk (i : Tok)                  -- the incoming stream of incarnation `i` fails
  | stop                           -- the connection's lifetime ends
  | wm (i : Tok)                   -- the source of receiver `i` sends a watermark-only batch
  | deliverMsg (t : Tok)           -- `DeliverMessagesToShardOwner`: send on channel `t`, looked up at any earlier time
  | bcast (t : Tok)                -- one non-blocking send of the watermark broadcast on channel `t`
  | deliverAck (c : Shard)         -- `DeliverAckToShardOwner` (ack channels are never closed)
  | replay (r : Tok) (c : Shard)   -- a remote owner announced `c`: receiver `r` replays its watermark to the local channel of `c`
  -- workers noticing a failure
  | sNotice (i : Tok)              -- `recvAck`'s `Recv` fails on the broken stream: shutdown signal
  | rNotice (i : Tok)              -- `recvReplicationMessages`' `Recv` fails on the cancelled context: shutdown signal
  | selfEnd (i : Tok)              -- the upstream `Send` of receiver `i` fails (the source went away without resetting the stream):
                                   -- `sendAck` returns, its deferred function trips the SHARED shutdown latch — the receiver ends on
                                   -- its own, neither broken nor cancelled, and the sender of the same incarnation is told to end too
  -- sender
  | sSet (i : Tok) | sAdd (i : Tok) | sSnap (i : Tok) | sLook (i : Tok) (r : Tok) | sSend (i : Tok)
  | sNotifyDone (i : Tok) | sClose (i : Tok) | sUnregCheck (i : Tok) | sUnregAgain (i : Tok) | sRmChan (i : Tok)
  -- receiver
  | rGet (i : Tok) | rCancel (i : Tok) | rRmCancel (i : Tok) | rForceAck (i : Tok) | rOpen (i : Tok) (ok : Bool)
  | rSetAck (i : Tok) | rSetCancel (i : Tok) | rRegActive (i : Tok)
  | rRmAck (i : Tok) | rCheck (i : Tok) | rRmOwnCancel (i : Tok) | rUnregActive (i : Tok)
deriving Repr, DecidableEq

/-- ghost: a clean-up step of `i` removed the entry of `v` from registry `g` -/
def steal (σ : State) (i : Tok) (g : Reg) (v : Option Tok) : State :=
  match v with
  | some v => if v = i then σ else σ.addStolen (i, g, v)
  | none => σ

/-- a send on the channel of incarnation `t` at a call site guarded (or not) by `recover` -/
def sendOn (σ : State) (t : Tok) (recover : Bool) : State :=
  if (σ.inc t).closed then
    (if recover then σ.incCaught else σ.setCrashed)
  else σ

/-- tokens of the active receivers routing to cluster `k` (the snapshot taken by `notifyReceiversOfNewShard`) -/
def receiversFor (σ : State) (k : Nat) : List Tok :=
  (σ.actives.map (·.2)).filter (fun r => (σ.inc r).srv = k)

/-- `step c σ a` : the successor state, or `none` when `a` is not enabled in `σ`.
    Nothing is enabled once the process has crashed. -/
def step (c : Cfg) (σ : State) (a : Act) : Option State :=
  if σ.crashed then none else
  match a with
  | .open sh srv =>
    some ((σ.setInc σ.next { shard := sh, srv := srv, spc := .start, rpc := .start }).setNext (σ.next + 1))
  | .tick => some (σ.setClock (σ.clock + 1))
  | .brk i =>
    let x := σ.inc i
    if x.spc = .done ∧ x.rpc = .done then none else some (σ.setInc i { x with broken := true })
  | .stop => some σ.setStopped
  | .wm i =>
    let x := σ.inc i
    if x.rpc = .running ∧ σ.down i = false then some (σ.setInc i { x with lastWm := true }) else none
  | .deliverMsg t => if (σ.inc t).spc = .start then none else some (sendOn σ t c.deliverRecover)
  | .bcast t => if (σ.inc t).spc = .start then none else some (sendOn σ t c.bcastRecover)
  | .deliverAck _ => some σ
  | .replay r sh =>
    if (σ.inc r).lastWm then
      match aget σ.sendChans sh with
      | some t => some (sendOn σ t c.replayRecover)
      | none => some σ
    else some σ
  | .sNotice i =>
    let x := σ.inc i
    if x.broken ∧ x.shutdown = false ∧ x.spc = .running then some (σ.setInc i { x with shutdown := true }) else none
  | .rNotice i =>
    let x := σ.inc i
    if x.cancelled ∧ x.shutdown = false ∧ x.rpc = .running then some (σ.setInc i { x with shutdown := true }) else none
  | .selfEnd i =>
    -- `rNotice` without its cause: `sendAck` runs only while the receiver is `running`; the latch (`ShutdownOnce`) is the one object
    -- `streamRouting` hands to BOTH `Run`s, so the sender's `<-shutdownChan.Channel()` fires as well (`sClose` becomes enabled);
    -- no pc moves, `cancelled` stays `false`: the clean-up will take the ordinary (un-cancelled) removals
    let x := σ.inc i
    if x.shutdown = false ∧ x.rpc = .running then some (σ.setInc i { x with shutdown := true }) else none
  -- ---------------------------------------------------------------- sender
  | .sSet i =>
    let x := σ.inc i
    if x.spc = .start ∧ x.rpc ≠ .start then
      some ((σ.setInc i { x with spc := .set }).setSend (aset σ.sendChans x.shard i))
    else none
  | .sAdd i =>
    let x := σ.inc i
    if x.spc = .set then
      some ((σ.setInc i { x with spc := .added, stamp := σ.clock }).setLocal (aset σ.localShards x.shard (i, σ.clock)))
    else none
  | .sSnap i =>
    let x := σ.inc i
    if x.spc = .added then some (σ.setInc i { x with spc := .notify (receiversFor σ (clusterOf x.shard)) none }) else none
  | .sLook i r =>
    let x := σ.inc i
    match x.spc with
    | .notify todo none =>
      if r ∈ todo then
        let todo' := todo.erase r
        if (σ.inc r).lastWm then some (σ.setInc i { x with spc := .notify todo' (aget σ.sendChans x.shard) })
        else some (σ.setInc i { x with spc := .notify todo' none })
      else none
    | _ => none
  | .sSend i =>
    let x := σ.inc i
    match x.spc with
    | .notify todo (some t) => some (sendOn (σ.setInc i { x with spc := .notify todo none }) t c.replayRecover)
    | _ => none
  | .sNotifyDone i =>
    let x := σ.inc i
    match x.spc with
    | .notify [] none => some (σ.setInc i { x with spc := .running })
    | _ => none
  | .sClose i =>
    let x := σ.inc i
    if x.spc = .running ∧ σ.down i then some (σ.setInc i { x with spc := .closed, closed := true }) else none
  | .sUnregCheck i =>
    let x := σ.inc i
    if x.spc = .closed then
      match aget σ.localShards x.shard with
      | some (v, st) =>
        if st = x.stamp then
          some (steal ((σ.setInc i { x with spc := .unreg }).setLocal (adel σ.localShards x.shard)) i .localShards (some v))
        else some (σ.setInc i { x with spc := .rmChan })
      | none => some (σ.setInc i { x with spc := .rmChan })
    else none
  | .sUnregAgain i =>
    -- the rest of `UnregisterShard` after the unlock: announcement, callbacks — and, before its fix, a second delete
    let x := σ.inc i
    if x.spc = .unreg then
      if c.secondDelete then
        some (steal ((σ.setInc i { x with spc := .rmChan }).setLocal (adel σ.localShards x.shard)) i .localShards
          ((aget σ.localShards x.shard).map (·.1)))
      else some (σ.setInc i { x with spc := .rmChan })
    else none
  | .sRmChan i =>
    let x := σ.inc i
    if x.spc = .rmChan then
      if aget σ.sendChans x.shard = some i then
        some ((σ.setInc i { x with spc := .done }).setSend (adel σ.sendChans x.shard))
      else some (σ.setInc i { x with spc := .done })
    else none
  -- ---------------------------------------------------------------- receiver
  | .rGet i =>
    let x := σ.inc i
    if x.rpc = .start then
      match aget σ.cancels x.shard with
      | some g => some (σ.setInc i { x with rpc := .term g })
      | none => some (σ.setInc i { x with rpc := .opening })
    else none
  | .rCancel i =>
    let x := σ.inc i
    match x.rpc with
    | .term g =>
      -- (g = i cannot happen: `g` registered its cancel function before `i` looked it up; the case is kept total)
      if g = i then some (σ.setInc i { x with rpc := .termRm, cancelled := true })
      else some ((σ.setInc i { x with rpc := .termRm }).setInc g { σ.inc g with cancelled := true })
    | _ => none
  | .rRmCancel i =>
    let x := σ.inc i
    if x.rpc = .termRm then some ((σ.setInc i { x with rpc := .termAck }).setCancels (adel σ.cancels x.shard)) else none
  | .rForceAck i =>
    let x := σ.inc i
    if x.rpc = .termAck then some ((σ.setInc i { x with rpc := .opening }).setAck (adel σ.ackChans x.shard)) else none
  | .rOpen i ok =>
    let x := σ.inc i
    if x.rpc = .opening then some (σ.setInc i { x with rpc := if ok then .opened else .done }) else none
  | .rSetAck i =>
    let x := σ.inc i
    if x.rpc = .opened then some ((σ.setInc i { x with rpc := .ackSet }).setAck (aset σ.ackChans x.shard i)) else none
  | .rSetCancel i =>
    let x := σ.inc i
    if x.rpc = .ackSet then some ((σ.setInc i { x with rpc := .cancelSet }).setCancels (aset σ.cancels x.shard i)) else none
  | .rRegActive i =>
    let x := σ.inc i
    if x.rpc = .cancelSet then some ((σ.setInc i { x with rpc := .running }).setActives (aset σ.actives x.shard i)) else none
  | .rRmAck i =>
    let x := σ.inc i
    if x.rpc = .running ∧ σ.down i then
      if aget σ.ackChans x.shard = some i then
        some ((σ.setInc i { x with rpc := .cleanCheck }).setAck (adel σ.ackChans x.shard))
      else some (σ.setInc i { x with rpc := .cleanCheck })
    else none
  | .rCheck i =>
    let x := σ.inc i
    if x.rpc = .cleanCheck then
      some (σ.setInc i { x with rpc := if c.cleanupUnconditional || !x.cancelled then .cleanCancel else .done })
    else none
  | .rRmOwnCancel i =>
    let x := σ.inc i
    if x.rpc = .cleanCancel then
      some (steal ((σ.setInc i { x with rpc := .cleanActive }).setCancels (adel σ.cancels x.shard)) i .cancels (aget σ.cancels x.shard))
    else none
  | .rUnregActive i =>
    let x := σ.inc i
    if x.rpc = .cleanActive then
      some (steal ((σ.setInc i { x with rpc := .done }).setActives (adel σ.actives x.shard)) i .actives (aget σ.actives x.shard))
    else none

/-- run a list of actions; disabled actions are skipped (they do not happen) -/
def run (c : Cfg) (σ : State) (acts : List Act) : State :=
  acts.foldl (fun σ a => (step c σ a).getD σ) σ

end S2S.Registry
