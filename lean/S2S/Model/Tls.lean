/-
Model of TLS endpoint configuration and admission (C19):
  encryption.TLSConfig.IsEnabled / GetServerTLSConfig / GetClientTLSConfig / fetchCACert / validateHasCA
  + a decision model of crypto/tls admission per ClientAuth mode / client-side verification.
CORE LEAN ONLY.  X.509 path validation itself is an abstract verdict carried by the credential
(`Cred`); the harness validates this decision model against real handshakes.
-/
namespace S2S.Tls

/-- what the peer presents -/
inductive Cred where
  | validChain      -- chains to the configured CA, in date, right key usage, right name
  | wrongName       -- chains to the configured CA but for another DNS name (servers only)
  | selfSigned
  | otherCA
  | expired
  | expiredRecently -- chains to the configured CA but its validity ended a minute or two ago (no tolerance: expired is expired)
  | wrongUsage      -- chains to the CA but lacks the ExtKeyUsage for its role
  | borrowedChain   -- first certificate: self-signed, CA flag set, the peer's own key; followed by the PUBLIC certificate of
                    -- a legitimate peer (which the peer holds no key for). TLS proves possession of the FIRST certificate's key only
  | validPlusCA     -- a valid leaf followed by the configured CA's own certificate (an ordinary full chain)
  | hostTrusted     -- right name, in date, issued by a CA of the HOST's trust store that is not the configured CA
  | none
deriving DecidableEq, Repr

/-- the CA bundle the config points to -/
inductive CAFile where
  | good            -- readable PEM containing the CA certificate
  | noCACert        -- readable PEM without any CA certificate (validateHasCA fails)
  | unreadable      -- missing file / bad PEM
  | unset           -- RemoteCAPath = ""
deriving DecidableEq, Repr

structure Config where
  hasCertKey   : Bool       -- CertificatePath and KeyPath set (and loadable)
  serverName   : Bool       -- CAServerName ≠ ""
  caFile       : CAFile
  skipVerify   : Bool       -- SkipCAVerification
deriving DecidableEq, Repr

def Config.isEnabled (c : Config) : Bool := c.hasCertKey || c.serverName

inductive ClientAuth where
  | noClientCert | requireAnyClientCert | requireAndVerifyClientCert
deriving DecidableEq, Repr

structure ServerConf where
  clientAuth : ClientAuth
  hasCAs     : Bool
  hasCert    : Bool
deriving DecidableEq, Repr

structure ClientConf where
  insecureSkipVerify : Bool
  serverNameSet      : Bool
  customRoots        : Bool      -- RootCAs from the configured file (else: system roots)
  hasCert            : Bool
deriving DecidableEq, Repr

inductive Built (α : Type) where
  | disabled            -- TLS not enabled: plaintext endpoint
  | error               -- start-up error: no endpoint
  | ok (c : α)
deriving DecidableEq, Repr

/-- `fetchCACert` succeeds only for a readable bundle containing a CA certificate -/
def caLoads : CAFile → Bool
  | .good => true
  | _ => false

/-- `GetServerTLSConfig`; `verifyMode` is the ClientAuth mode the code uses when verification is on
    (`requireAndVerifyClientCert` in the current tree; the pinned tree used `requireAnyClientCert`). -/
def serverTLS (verifyMode : ClientAuth) (c : Config) : Built ServerConf :=
  if !c.isEnabled then .disabled
  else if !c.skipVerify then
    if caLoads c.caFile then .ok { clientAuth := verifyMode, hasCAs := true, hasCert := c.hasCertKey }
    else .error
  else .ok { clientAuth := .noClientCert, hasCAs := false, hasCert := c.hasCertKey }

/-- `GetClientTLSConfig` -/
def clientTLS (c : Config) : Built ClientConf :=
  if !c.isEnabled then .disabled
  else if !c.skipVerify && !c.serverName then .error
  else match c.caFile with
    | .unset => .ok { insecureSkipVerify := c.skipVerify, serverNameSet := !c.skipVerify, customRoots := false, hasCert := c.hasCertKey }
    | f => if caLoads f then .ok { insecureSkipVerify := c.skipVerify, serverNameSet := !c.skipVerify, customRoots := true, hasCert := c.hasCertKey }
           else .error

/-- abstract X.509 verdict: the credential chains to the configured CA (in date, right usage) -/
def chainsToCA : Cred → Bool
  | .validChain => true
  | .wrongName => true
  | .validPlusCA => true
  | _ => false

/-- abstract X.509 verdict against the host's system roots (used by the client only when no CA file is configured) -/
def chainsToSystem : Cred → Bool
  | .hostTrusted => true
  | _ => false

def nameMatches : Cred → Bool
  | .wrongName => false
  | _ => true

/-- crypto/tls server side: does the handshake complete with a peer presenting `cred`? -/
def serverAdmits (s : ServerConf) (cred : Cred) : Bool :=
  s.hasCert &&   -- a server without a certificate cannot complete any handshake
  (match s.clientAuth with
   | .noClientCert => true
   | .requireAnyClientCert => cred != .none
   | .requireAndVerifyClientCert => s.hasCAs && chainsToCA cred && cred != .none)

/-- crypto/tls client side (configured roots): does the handshake complete with a server presenting `cred`? -/
def clientAdmits (c : ClientConf) (cred : Cred) : Bool :=
  cred != .none &&
  (c.insecureSkipVerify || (c.customRoots && chainsToCA cred && nameMatches cred) ||
   (!c.customRoots && chainsToSystem cred && nameMatches cred))   -- no CA file configured: RootCAs = nil = the host's roots

def curVerifyMode : ClientAuth := .requireAndVerifyClientCert

end S2S.Tls
