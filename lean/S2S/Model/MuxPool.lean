/-
Model of the mux session pool (C10):
  muxProvider.Start loop                      (transport/mux/provider.go)
  multiMuxManager.AddConnection / unregisterMux / onClose   (transport/mux/multi_mux_manager.go)
  session.NewManagedMuxSession / waitAndCleanup             (transport/mux/session/managed_mux_session.go)
The establisher and the receiver differ only in their connProvider and in which yamux role
`sessionFn` takes; both run the same loop, so the role is a label here.  CORE LEAN ONLY.

The machine is FINE-GRAINED: an `Act` is one branch of one statement of the provider loop, one
lock-protected region of the manager, one step of a session's `waitAndCleanup` goroutine, or one
environment event.  Theorems quantify over every list of `Act`s (every interleaving, every fault
sequence); a disabled action is a stutter.  The driver's big-step ops are `run`s of explicit
action lists (`settle`), hence fine-step runs.

Modelled, not verified: `semaphore.Weighted` (x/sync v0.20.0: `Acquire` fails once the context is
done, `Release` adds one), yamux (`Session.Close` closes the underlying conn; a session whose peer
disappears or sends garbage closes itself; `Ping` returns an error on a closed session), Go
contexts (a child context is done as soon as its parent is).
-/
namespace S2S.MuxPool

/-- modelled deviations from the property (DESIGN §4).  `asIs` mirrors the current tree. -/
structure Defects where
  /-- `AddConnection` returns early when the lifetime has ended, closing nothing -/
  lateAddLeaks      : Bool := true
  /-- the `sessionFn` error branch does not close the raw connection it was given -/
  sessErrLeavesConn : Bool := true
  /-- the `if m.lifetime.Err() != nil { return }` exits of the `sessionFn`/`Ping` error branches
      happen before (instead of after) `session.Close(); conn.Close()` -/
  exitLeaksAttempt  : Bool := true
deriving DecidableEq, Repr

def Defects.asIs : Defects := {}
def Defects.fixed : Defects := { lateAddLeaks := false, sessErrLeavesConn := false, exitLeaksAttempt := false }

/-- where a connection handed out by `NewConnection` is in its life -/
inductive Stage where
  | raw                    -- held by the provider loop, no yamux session yet
  | rawFailed              -- `sessionFn` failed on it; the loop moved on
  | sessioned              -- held by the provider loop together with its yamux session (in `Ping` / before `addNewMux`)
  | failed                 -- `Ping` failed; the loop closed it and moved on
  | abandoned              -- the provider goroutine returned while holding it (lifetime over)
  | dropped                -- handed to `AddConnection`, which refused it (lifetime over)
  | registered (mid : Nat) -- a ManagedMuxSession in the `muxes` table under key `mid`
  | cleaned (mid : Nat)    -- `waitAndCleanup` ran: closed, removed from the table; `AllowMoreConns(1)` still to come
  | released (mid : Nat)   -- permit returned
deriving DecidableEq, Repr

structure Conn where
  connOpen : Bool := true      -- `Close` not yet called on the net.Conn
  sessOpen : Bool := false     -- a yamux session exists on it and is not shut down
  ctxDone  : Bool := false     -- the ManagedMuxSession's own context was cancelled (`Close()`)
  stage    : Stage := .raw
deriving DecidableEq, Repr

/-- program counter of the goroutine started by `muxProvider.Start` -/
inductive Phase where
  | idle                   -- top of the loop, about to `Acquire`
  | acquired               -- holds a permit, inside `connProvider.NewConnection()`
  | haveConn (c : Nat)     -- has connection `c`, about to call `sessionFn`
  | haveSession (c : Nat)  -- has a session on `c`, inside `session.Ping()`
  | pinged (c : Nat)       -- `Ping` succeeded, about to call `addNewMux`
  | exited                 -- the goroutine returned
deriving DecidableEq, Repr

inductive Role where | establisher | receiver
deriving DecidableEq, Repr

structure St where
  cap         : Nat                -- muxCount
  permits     : Nat                -- free permits of `muxPermits`
  phase       : Phase := .idle
  conns       : List Conn := []    -- every connection ever handed out; connection id = index
  muxSeq      : Nat := 0           -- muxIdSequencer
  live        : Bool := true       -- lifetime context not cancelled
  mgrClosed   : Bool := false      -- `hasShutDown` (onClose finished)
  lostPermits : Nat := 0           -- ghost: permits held by a goroutine that returned / by a dropped session
  role        : Role := .establisher
deriving DecidableEq, Repr

def St.init (n : Nat) (r : Role := .establisher) : St := { cap := n, permits := n, role := r }

inductive PingErr where | writeTimeout | eof | other
deriving DecidableEq, Repr

inductive Act where
  | acquire                 -- `muxPermits.Acquire(lifetime, 1)` succeeds
  | acquireFail             -- … fails because the lifetime is over ⇒ return
  | connErr                 -- `NewConnection()` returns an error
  | connOk                  -- `NewConnection()` returns a fresh connection
  | sessErr                 -- `sessionFn(conn)` returns an error
  | sessOk                  -- `sessionFn(conn)` returns a session
  | pingOk                  -- `session.Ping()` succeeds
  | pingErr (k : PingErr)   -- `session.Ping()` fails (write timeout / EOF / anything else)
  | add                     -- `m.addNewMux(session, conn)` = `multiMuxManager.AddConnection`
  | peerClose (c : Nat)     -- environment: the peer closes / sends garbage / stops answering keep-alives ⇒ the yamux session on `c` shuts itself down (closing the conn)
  | localClose (c : Nat)    -- `ManagedMuxSession.Close()` on a registered session
  | cleanup (c : Nat)       -- `waitAndCleanup` past its `select`: cancel, `session.Close()`, `conn.Close()`, `unregisterMux`
  | release (c : Nat)       -- … `muxProvider.AllowMoreConns(1)`
  | cancel                  -- the lifetime context is cancelled
  | onClose                 -- `multiMuxManager.onClose` after `WaitForClose()` returned
deriving DecidableEq, Repr

def St.conn (σ : St) (c : Nat) : Conn := σ.conns.getD c {}
def St.setConn (σ : St) (c : Nat) (x : Conn) : St := { σ with conns := σ.conns.set c x }

def Conn.closeBoth (x : Conn) : Conn := { x with connOpen := false, sessOpen := false }

/-- `waitAndCleanup`'s `select` is ready: the yamux session shut down, or the session context is
    done (its own cancel, or the parent lifetime) -/
def Conn.dying (x : Conn) (live : Bool) : Bool := !x.sessOpen || x.ctxDone || !live

/-- one atomic step; `none` = not enabled -/
def step (d : Defects) (σ : St) : Act → Option St
  | .acquire =>
    match σ.phase with
    | .idle => if σ.live = true ∧ 0 < σ.permits then some { σ with permits := σ.permits - 1, phase := .acquired } else none
    | _ => none
  | .acquireFail =>
    match σ.phase with
    | .idle => if σ.live = false then some { σ with phase := .exited } else none
    | _ => none
  | .connErr =>
    match σ.phase with
    | .acquired =>
      if σ.live = false then some { σ with phase := .exited, lostPermits := σ.lostPermits + 1 }
      else some { σ with phase := .idle, permits := σ.permits + 1 }
    | _ => none
  | .connOk =>
    match σ.phase with
    | .acquired => some { σ with phase := .haveConn σ.conns.length, conns := σ.conns ++ [{}] }
    | _ => none
  | .sessErr =>
    match σ.phase with
    | .haveConn c =>
      let x := σ.conn c
      if σ.live = false then
        some { (σ.setConn c { (if d.exitLeaksAttempt then x else x.closeBoth) with stage := .abandoned }) with
                 phase := .exited, lostPermits := σ.lostPermits + 1 }
      else
        some { (σ.setConn c { (if d.sessErrLeavesConn then x else x.closeBoth) with stage := .rawFailed }) with
                 phase := .idle, permits := σ.permits + 1 }
    | _ => none
  | .sessOk =>
    match σ.phase with
    | .haveConn c => some { (σ.setConn c { σ.conn c with sessOpen := true, stage := .sessioned }) with phase := .haveSession c }
    | _ => none
  | .pingOk =>
    match σ.phase with
    | .haveSession c => if (σ.conn c).sessOpen = true then some { σ with phase := .pinged c } else none
    | _ => none
  | .pingErr _ =>
    match σ.phase with
    | .haveSession c =>
      let x := σ.conn c
      if σ.live = false then
        some { (σ.setConn c { (if d.exitLeaksAttempt then x else x.closeBoth) with stage := .abandoned }) with
                 phase := .exited, lostPermits := σ.lostPermits + 1 }
      else
        some { (σ.setConn c { x.closeBoth with stage := .failed }) with phase := .idle, permits := σ.permits + 1 }
    | _ => none
  | .add =>
    match σ.phase with
    | .pinged c =>
      let x := σ.conn c
      if σ.live = false then
        some { (σ.setConn c { (if d.lateAddLeaks then x else x.closeBoth) with stage := .dropped }) with
                 phase := .idle, lostPermits := σ.lostPermits + 1 }
      else
        -- NewManagedMuxSession: a fresh session context, `go waitAndCleanup`
        some { (σ.setConn c { x with ctxDone := false, stage := .registered σ.muxSeq }) with phase := .idle, muxSeq := σ.muxSeq + 1 }
    | _ => none
  | .peerClose c =>
    if c < σ.conns.length ∧ (σ.conn c).sessOpen = true then some (σ.setConn c (σ.conn c).closeBoth) else none
  | .localClose c =>
    match (σ.conn c).stage with
    | .registered _ => if c < σ.conns.length ∧ (σ.conn c).ctxDone = false then some (σ.setConn c { σ.conn c with ctxDone := true }) else none
    | _ => none
  | .cleanup c =>
    match (σ.conn c).stage with
    | .registered mid =>
      if c < σ.conns.length ∧ (σ.conn c).dying σ.live = true then
        some (σ.setConn c { (σ.conn c).closeBoth with ctxDone := true, stage := .cleaned mid })
      else none
    | _ => none
  | .release c =>
    match (σ.conn c).stage with
    | .cleaned mid =>
      if c < σ.conns.length then some { (σ.setConn c { σ.conn c with stage := .released mid }) with permits := σ.permits + 1 } else none
    | _ => none
  | .cancel => if σ.live = true then some { σ with live := false } else none
  | .onClose =>
    match σ.phase with
    | .exited => if σ.live = false ∧ σ.mgrClosed = false then some { σ with mgrClosed := true } else none
    | _ => none

/-- run a list of actions; disabled actions are skipped -/
def run (d : Defects) (σ : St) (acts : List Act) : St :=
  acts.foldl (fun s a => (step d s a).getD s) σ

/-! ### observables -/

def Stage.isRegistered : Stage → Bool | .registered _ => true | _ => false
def Stage.isCleaned : Stage → Bool | .cleaned _ => true | _ => false
def Stage.isHeld (s : Stage) : Bool := s.isRegistered || s.isCleaned

/-- the `muxes` table: registered keys (in connection order = increasing key order) -/
def St.registered (σ : St) : List Nat :=
  σ.conns.filterMap fun x => match x.stage with | .registered m => some m | _ => none

def St.registeredCount (σ : St) : Nat := σ.conns.countP (fun x => x.stage.isRegistered)
def St.heldCount (σ : St) : Nat := σ.conns.countP (fun x => x.stage.isHeld)
def St.openSessions (σ : St) : Nat := σ.conns.countP (fun x => x.sessOpen)
def St.openConns (σ : St) : Nat := σ.conns.countP (fun x => x.connOpen)

/-- the provider goroutine holds a permit it has not (yet) handed on -/
def Phase.inflight : Phase → Nat
  | .acquired | .haveConn _ | .haveSession _ | .pinged _ => 1
  | _ => 0

/-- `HasConnectionsAvailable()` = `TryAcquire(1)` succeeds: a free permit and no waiter
    (a provider blocked in `Acquire` implies no free permit) -/
def St.canAccept (σ : St) : Bool := decide (0 < σ.permits)

def St.allClosed (σ : St) : Bool := σ.conns.all fun x => !x.connOpen && !x.sessOpen

/-! ### big steps used by the driver (and by the `heal` theorem) -/

/-- the internal steps that need no input from the environment, for connections `0..n-1` -/
def eager (n : Nat) : List Act :=
  [.acquire, .acquireFail, .add] ++ (List.range n).flatMap (fun c => [.cleanup c, .release c]) ++ [.acquire, .acquireFail, .onClose]

/-- fire the eager steps to a fixpoint (three passes suffice: cleanup/release → acquire; add → acquireFail → onClose) -/
def settle (d : Defects) (σ : St) : St :=
  let n := σ.conns.length
  run d σ (eager n ++ eager n ++ eager n)

/-- one successful loop iteration driven from outside: connection, session, ping, add -/
def healRound : List Act := [.connOk, .sessOk, .pingOk, .add]

/-- peer healthy from now on: complete / retry the in-flight attempt, then fill every free slot -/
def heal (d : Defects) : Nat → St → St
  | 0, σ => σ
  | fuel + 1, σ =>
    let σ1 := settle d σ
    match σ1.phase with
    | .acquired => heal d fuel (run d σ1 healRound)
    | .haveConn _ => heal d fuel (run d σ1 [.sessOk, .pingOk, .add])
    | .haveSession c => heal d fuel (if (σ1.conn c).sessOpen then run d σ1 [.pingOk, .add] else run d σ1 [.pingErr .other])
    | .pinged _ => heal d fuel (run d σ1 [.add])
    | _ => σ1

end S2S.MuxPool
