import S2S.Model.Utf8
/-
Model for C18 (UTF-8 repair reaches every failure message in every supported RPC type).  CORE LEAN ONLY.

A legacy message is a tree; the generated visitor `RepairInvalidUTF8` is modelled as a visitor driven
by a set of structural path patterns (`runVisitor paths`): it calls `repairInvalidUTF8InFailure`
(C17's `repairFailureChainFull`) on the failure at every position whose pattern is in `paths`.
Patterns abstract list indices and map keys to one wildcard step, so a pattern set speaks about
values with any list lengths.  Which patterns the REAL visitor handles is measured on the running
code (one path at a time) and regenerated into `S2S/Gen/RepairPaths*.lean` on every run, next to the
oracle (all structural paths to a failure found by reflection over the legacy structs).
-/
namespace S2S.RepairPaths
open S2S.Utf8

/-- one structural step: a message-typed struct field / oneof member (by number), or any element of
    a repeated field / any value of a map -/
inductive Step where
  | field (i : Nat)
  | elem
deriving DecidableEq, Repr

/-- A legacy message value, first order: a node is a sequence of labelled children.
    `fail c` is a `failure.v1.Failure` with its cause chain `c` (outermost message first). -/
inductive Val where
  | fail (chain : List Bytes)
  | nil                                       -- no (more) children
  | child (s : Step) (v : Val) (rest : Val)   -- a child reached by step `s`, then the siblings
deriving Repr

/-- a failure occurrence: the pattern of its position and its chain -/
abbrev Occ (P : Type) := P × List Bytes

/-- all failure occurrences of a value, left to right; `pre` is the pattern of the path so far -/
def occsFrom (pre : List Step) : Val → List (Occ (List Step))
  | .fail c => [(pre, c)]
  | .nil => []
  | .child s v rest => occsFrom (pre ++ [s]) v ++ occsFrom pre rest

def occs (v : Val) : List (Occ (List Step)) := occsFrom [] v

/-- what `repairInvalidUTF8InFailure` leaves in place of a chain (C17 (ii)) -/
def repairChain (c : List Bytes) : List Bytes := (repairFailureChainFull c).chain

/-- the visitor: repair the failure at every position whose pattern is in `paths` -/
def visitFrom [DecidableEq P] (paths : List P) (label : List Step → P) (pre : List Step) : Val → Val
  | .fail c => if label pre ∈ paths then .fail (repairChain c) else .fail c
  | .nil => .nil
  | .child s v rest => .child s (visitFrom paths label (pre ++ [s]) v) (visitFrom paths label pre rest)

def runVisitor (paths : List (List Step)) (v : Val) : Val := visitFrom paths id [] v

/-- the same visitor on the flat view of a value (its failure occurrences, labelled by pattern) -/
def runFlat [DecidableEq P] (paths : List P) (v : List (Occ P)) : List (Occ P) :=
  v.map fun o => if o.1 ∈ paths then (o.1, repairChain o.2) else o

def chainValid (c : List Bytes) : Bool := c.all validUtf8


/-! ## regenerated finite facts (`S2S/Gen/RepairPaths*.lean`) -/

/-- a path is named by (root id, path id); the readable table lives next to the facts -/
abbrev PathId := Nat × Nat

/-- one chunk of the regenerated facts (≤ 200 oracle entries, so `decide +kernel` stays fast) -/
structure Chunk where
  oracle   : List PathId   -- every structural path root → failure (reflection over the legacy structs)
  measured : List PathId   -- those at which the real visitor repaired an invalid message
  known    : List PathId   -- not repaired, recorded in known_findings.json
deriving Repr

/-- every oracle path is measured-repaired or a recorded finding, and recorded findings are genuine
    (oracle paths that are not repaired) -/
def Chunk.ok (c : Chunk) : Bool :=
  c.oracle.all (fun p => c.measured.contains p || c.known.contains p) &&
  c.known.all (fun p => c.oracle.contains p && !c.measured.contains p)

def oracleOf (cs : List Chunk) : List PathId := cs.flatMap (·.oracle)
def measuredOf (cs : List Chunk) : List PathId := cs.flatMap (·.measured)
def knownOf (cs : List Chunk) : List PathId := cs.flatMap (·.known)

end S2S.RepairPaths
