import S2S.Model.Shard
/-
Model of the stream-open prologue/epilogue (C20):
  history.DecodeClusterShardMD / parseInt32   (go.temporal.io/server v1.31.2 client/history/metadata.go)
  ReplicationStreamObserver.ReportStreamValue (proxy/replication_stream_observer.go)
  adminServiceProxyServer.StreamWorkflowReplicationMessages prologue, CapturePanic, deferred -1
CORE LEAN ONLY.
-/
namespace S2S.Observer
open S2S.Shard

def two63 : Int := 9223372036854775808

/-- `strconv.Atoi`: optional sign, one or more decimal digits, must fit int64 (Go `int`). -/
def atoi (s : String) : Option Int :=
  let cs := s.toList
  let (neg, ds) := match cs with
    | '-' :: r => (true, r)
    | '+' :: r => (false, r)
    | r => (false, r)
  if ds.isEmpty then none
  else if ds.all Char.isDigit then
    let n : Int := ds.foldl (fun acc c => acc * 10 + ((c.toNat - '0'.toNat : Nat) : Int)) 0
    let v := if neg then -n else n
    if v < -two63 ∨ v ≥ two63 then none else some v
  else none

inductive ParseErr where | missing | malformed
deriving DecidableEq, Repr

/-- `parseInt32`: empty ⇒ missing; Atoi error ⇒ malformed; otherwise int32 truncation -/
def parseInt32 (s : String) : Except ParseErr Int :=
  if s = "" then .error .missing
  else match atoi s with
    | none => .error .malformed
    | some v => .ok (wrap32 v)

/-- `DecodeClusterShardMD` (client cluster, client shard, server cluster, server shard) -/
def decodeMD (cc cs sc ss : String) : Except ParseErr StreamMD := do
  let a ← parseInt32 cc
  let b ← parseInt32 cs
  let c ← parseInt32 sc
  let d ← parseInt32 ss
  pure ⟨a, b, c, d⟩

/-- Observer state: slice length, non-zero counters, and whether `streamGrowLock` is held. -/
structure Obs where
  len      : Nat := 1024
  counters : List (Nat × Int) := []      -- index ↦ value, zero entries dropped, sorted by index
  locked   : Bool := false
deriving DecidableEq, Repr

def maxObservedStreamIndex : Int := 1048576
def maxInt32 : Int := 2147483647

def addCounter : List (Nat × Int) → Nat → Int → List (Nat × Int)
  | [], i, v => if v = 0 then [] else [(i, v)]
  | (j, x) :: rest, i, v =>
    if j = i then (if wrap32 (x + v) = 0 then rest else (j, wrap32 (x + v)) :: rest)
    else if i < j then (if v = 0 then (j, x) :: rest else (i, v) :: (j, x) :: rest)
    else (j, x) :: addCounter rest i v

inductive ReportOutcome where
  | ok | ignored | panicLocked
deriving DecidableEq, Repr

/-- `ReportStreamValue(idx, value)` as in the current tree (int arithmetic, deferred unlock,
    out-of-range indexes ignored).  A caller blocked on a held lock is `none`. -/
def report (o : Obs) (idx value : Int) : Option (Obs × ReportOutcome) :=
  if idx < 0 ∨ idx > maxObservedStreamIndex then some (o, .ignored)
  else if o.locked then none
  else
    let i := idx.toNat
    let len' :=
      if i ≥ o.len then
        let newSize := (if (idx + 1) * 9 < maxInt32 then (idx + 1) * 9 else maxInt32).tdiv 8
        newSize.toNat
      else o.len
    if i < len' then some ({ o with len := len', counters := addCounter o.counters i value }, .ok)
    else some ({ o with len := len', locked := false }, .panicLocked)  -- index panic; deferred unlock

/-- `ReportStreamValue` of the pinned tree before the `fix:` commit: `(idx+1)*9` in int32, lock
    not released on panic, no upper bound.  Kept for the refutation theorem only. -/
def reportOld (o : Obs) (idx value : Int) : Option (Obs × ReportOutcome) :=
  if idx < 0 then some (o, .ignored)
  else if o.locked then none
  else
    let i := idx.toNat
    if i ≥ o.len then
      let prod := wrap32 ((idx + 1) * 9)
      let newSize := (if prod < maxInt32 then prod else maxInt32).tdiv 8
      if newSize < 0 then some ({ o with locked := true }, .panicLocked)   -- slices.Grow panics
      else
        let len' := newSize.toNat
        if i < len' then some ({ o with len := len', counters := addCounter o.counters i value }, .ok)
        else some ({ o with len := len', locked := true }, .panicLocked)   -- index out of range
    else some ({ o with counters := addCounter o.counters i value }, .ok)

inductive OpenResult where
  | rejectedMissing | rejectedMalformed | rejectedPanic | served | wedged
deriving DecidableEq, Repr

/-- One complete stream open → (handler body) → close, for a handler body that itself succeeds
    unless the LCM remap panics.  `rep` is the `ReportStreamValue` implementation. -/
def openStream (rep : Obs → Int → Int → Option (Obs × ReportOutcome))
    (o : Obs) (mode : Mode) (p : LCMParams) (cc cs sc ss : String) : Obs × OpenResult :=
  match decodeMD cc cs sc ss with
  | .error .missing => (o, .rejectedMissing)
  | .error .malformed => (o, .rejectedMalformed)
  | .ok md =>
    match rep o md.serverShard 1 with
    | none => (o, .wedged)
    | some (o1, .panicLocked) =>
      -- the deferred `reportStreamValue(idx, -1)` runs while the panic unwinds
      (match rep o1 md.serverShard (-1) with
       | none => (o1, .wedged)
       | some (o2, _) => (o2, .rejectedPanic))
    | some (o1, _) =>
      let body : OpenResult :=
        match mode with
        | .lcm => if (lcmForward p md).isSome then .served else .rejectedPanic
        | _ => .served
      (match rep o1 md.serverShard (-1) with
       | none => (o1, .wedged)
       | some (o2, .panicLocked) => (o2, .rejectedPanic)
       | some (o2, _) => (o2, body))

/-- the stream is counted while it is open: observer state between the +1 and the -1 -/
def duringStream (rep : Obs → Int → Int → Option (Obs × ReportOutcome))
    (o : Obs) (cc cs sc ss : String) : Option Obs :=
  match decodeMD cc cs sc ss with
  | .ok md => (rep o md.serverShard 1).map (·.1)
  | _ => none

end S2S.Observer
