import S2S.Model.Translate
import S2S.Model.NameMap
/-
VALUE-LEVEL model of the reflective translators (C12 / C13 / C14), CORE LEAN ONLY, executable.

  interceptor/reflection.go : visitNamespace, visitSearchAttributes, visitDataBlobs, translateDataBlobs,
                              translateOneDataBlob, translateIndexedFields, getParentFieldType,
                              isSkippableForNamespaceTranslation
  interceptor/translator.go : NewNamespaceNameTranslator / createStringMatcher
  github.com/keilerkonzept/visit : Values (work-list walk over every exported field, pointer, slice, map, interface)

A `Val` is a Go protobuf message exactly as `visit.Values` sees it:

  * `msg ty fields`  a non-nil `*T`; `ty` is the struct's id in the REGENERATED type graph (`Graph`), `fields` are the
                     values of its exported fields in `TypeD.fields` order.  A oneof is an interface-typed field that
                     holds a pointer to a one-field WRAPPER struct: wrappers are ordinary `TypeD`s of the graph, so a
                     populated oneof is `msg wrapperTy [msg …]` and an empty one is `nil .iface`.
  * `str s`          a Go `string`;  `tok t` any other scalar (bool, numbers, enums, bytes, named string types) as an
                     opaque canonical token;  `payload t` a `*common.Payload`, opaque.
  * `nil k`          nil pointer / nil interface / nil slice / nil map.  The visitors never act on a nil value: nil
                     pointers are skipped by the callback itself; nil slices / maps would reach the callback (and a nil
                     `[]string` NAMED SearchAttributes would make visitSearchAttributes fail), but `visit.Values` keys its
                     seen-set by `Pointer()`, which is 0 for every nil slice / map / pointer, and the first such value of a
                     walk is the message's own `unknownFields` (work-list order: `state`, `sizeCache`, `unknownFields`, then
                     the exported fields backwards) — so every later nil value is skipped before the callback runs.
                     ASSUMPTION (validated by the correspondence): messages carry no unknown fields.
  * `list items`     a non-nil slice;  `map entries` a non-nil map, each entry a `kv key value` (string or scalar key).
  * `blobEv reenc events`  a non-nil `*common.DataBlob` whose bytes decode (serializer.DeserializeEvents) to `events`;
                     `reenc` is NOT part of the Go value: it records "the visitor replaced this blob by a re-encoding of
                     its translated events" (in Go: a new *DataBlob object is assigned), so that "not re-encoded, bytes
                     untouched" is observable in the model.  Inputs carry `false`.
  * `blobRaw empty t`  a non-nil DataBlob with no data (`empty = true`: the code returns it untouched without decoding)
                     or with bytes that do not decode as history events (`empty = false`: under a recognised blob field
                     the code returns the decoding error, see `nsErr` / `saErr`; UTF-8 repair is C17's subject).

Names, keys and tokens are an arbitrary type `α` with decidable equality (`String` in the driver, `Nat` in kernel-
evaluated examples).  The string matcher is a parameter `mt : α → α × Bool` (new name, matched) exactly as in Go
(`stringMatcher`); `look m` is `createStringMatcher(m)`.

What is modelled and NOT verified here (validated by the correspondence on the real code): protobuf codecs and
`serializer` (a blob is its decoded event list; blobs are proto3-encoded), the order in which the work list visits
values (irrelevant for the result: every non-skipped value is visited exactly once and the actions on different
values commute; it only decides WHICH error is returned first, all errors are one `error` value here), pointer
identity (values are trees; `visit.Values`' seen-set only skips repeated pointers).
-/
namespace S2S.TranslateVal
open S2S.Translate S2S.NameMap

inductive NilK where
  | ptr | iface | slice | map
deriving DecidableEq, Repr

inductive Val (α : Type) where
  | str (s : α)
  | tok (t : α)
  | payload (t : α)
  | nil (k : NilK)
  | msg (ty : Nat) (fields : List (Val α))
  | list (items : List (Val α))
  | map (entries : List (Val α))
  | kv (k : α) (v : Val α)
  | blobRaw (empty : Bool) (t : α)
  | blobEv (reenc : Bool) (events : List (Val α))
deriving Repr

/-- what the visitors need beyond `Graph` / `Tables`: interned Go field names and type ids the code refers to by name or
    by Go type, the empty string, and the reading of an `EventType` token (the dump writes the enum as the id of the
    event's attributes struct type, which is how `Tables.skipAttr` lists the code's skippable event types) -/
structure Ext (α : Type) where
  empty : α
  evAttr : α → Option Nat
  eventTypeField : Nat        -- "EventType"       (HistoryEvent.GetEventType)
  variantField : Nat          -- "Variant"         (Link's oneof)
  workflowEventField : Nat    -- "WorkflowEvent"   (Link.GetWorkflowEvent)
  namespaceField : Nat        -- "Namespace"       (Link_WorkflowEvent.GetNamespace)
  eventsField : Nat           -- "Events"          (History.GetEvents)
  indexedFieldsField : Nat    -- "IndexedFields"   (SearchAttributes.IndexedFields)
  lwerType : Nat              -- workflowservice.ListWorkflowExecutionsResponse

variable {α : Type} [DecidableEq α]

/-- `createStringMatcher(mapping)`: (new name, matched); an unmatched name is reported unchanged -/
def look (m : List (α × α)) (s : α) : α × Bool :=
  match lookup m s with
  | some t => (t, true)
  | none => (s, false)

/-- how the code uses a matcher's answer: the new name only when it matched (`if !ok { return visit.Continue }`,
    `if matched && key != newKey`); an unmatched name is left alone whatever the matcher returned as first value -/
def app (mt : α → α × Bool) (s : α) : α × Bool := if (mt s).2 then ((mt s).1, true) else (s, false)

/-- first field with the given Go name -/
def fieldVal (name : Nat) : List FieldD → List (Val α) → Option (Val α)
  | f :: fds, v :: vs => if f.go == name then some v else fieldVal name fds vs
  | _, _ => none

section
variable (g : Graph) (tb : Tables) (X : Ext α)

/-- the value of the field with Go name `name` of a non-nil struct pointer (the generated getters: nil-safe) -/
def sub (name : Nat) (v : Val α) : Option (Val α) :=
  match v with
  | .msg ty fs => fieldVal name (g.typeD ty).fields fs
  | _ => none

/-- `len(l.GetWorkflowEvent().GetNamespace()) > 0`: Link.Variant holds the `Link_WorkflowEvent_` wrapper (the wrapper with a
    field named WorkflowEvent), whose `WorkflowEvent.Namespace` is a non-empty string -/
def linkHasNs (l : Val α) : Bool :=
  match ((sub g X.variantField l).bind (sub g X.workflowEventField)).bind (sub g X.namespaceField) with
  | some (.str s) => s != X.empty
  | _ => false

/-- `namespaceTranslationSkippableHistoryEvents[evt.GetEventType()]` -/
def evSkipTy (ev : Val α) : Bool :=
  match sub g X.eventTypeField ev with
  | some (.tok t) => (match X.evAttr t with | some a => tb.skipAttr.contains a | none => false)
  | _ => false

/-- some link of the event names a namespace -/
def evLinked (ev : Val α) : Bool :=
  match sub g g.linksField ev with
  | some (.list links) => links.any (linkHasNs g X)
  | _ => false

/-- `isSkippableForNamespaceTranslation(*HistoryEvent)`: no link names a namespace and the event type is in the table -/
def evSkippable (ev : Val α) : Bool := !evLinked g X ev && evSkipTy g tb X ev

/-- `isSkippableForNamespaceTranslation([]*HistoryEvent)`: only if every event of the list is skippable -/
def listSkippable (evs : List (Val α)) : Bool := evs.all (evSkippable g tb X)

/-- the value sits in a struct field whose Go name is in `dataBlobFieldNames` and whose Go type is `*DataBlob` / `[]*DataBlob` -/
def blobCtx (fc : Option FieldD) : Bool :=
  match fc with
  | some f => tb.blob.contains f.go && f.blob
  | none => false

/-- the `else if` chain of visitNamespace for a plain Go string: not a blob-named field, Go name in `namespaceFieldNames` -/
def isNsLeafField (f : FieldD) : Bool := !tb.blob.contains f.go && tb.ns.contains f.go && f.goString

/-- the `else if` chain of visitSearchAttributes: not a blob-named field, Go name in `searchAttributeFieldNames` -/
def saNamed (fc : Option FieldD) : Bool :=
  match fc with
  | some f => !tb.blob.contains f.go && tb.sa.contains f.go
  | none => false

/-- the field's Go type is `*SearchAttributes` or `map[string]*Payload` (the two cases of the type switch) -/
def saTyped (fc : Option FieldD) : Bool :=
  match fc with
  | some f => f.sa
  | none => false

/-- translateOneDataBlob's epilogue: `skip` = the visitor returned at once (skip shortcut), `r` = (translated events,
    matched); the blob is replaced by a re-encoding only when something matched -/
def blobResult (re : Bool) (evs : List (Val α)) (skip : Bool) (r : List (Val α) × Bool) : Val α × Bool :=
  if skip then (.blobEv re evs, false)
  else if r.2 then (.blobEv true r.1, true) else (.blobEv re evs, false)

/-- how the fields of a struct are walked -/
inductive FMode where
  | plain
  | nsInfo     -- the struct is a `*namespace.NamespaceInfo`: `info.Name` goes through the matcher first (by TYPE)
  | hist       -- the struct is a `*history.History`: only `GetEvents()`, one recursive visitNamespace per event, then Skip
deriving DecidableEq, Repr

/-- how the elements of a slice / map are walked -/
inductive IMode where
  | plain
  | blobs      -- `[]*DataBlob` in a recognised blob field: translateDataBlobs
  | events     -- `History.Events`: per-event recursive call, so per-event skip shortcut
deriving DecidableEq, Repr

variable (mt : α → α × Bool)

mutual
/-- visitNamespace's callback on one value; `fc` = the parent struct field (`getParentFieldType`), `none` when the parent
    is not a struct (slice element, map value, pointer/interface target, the root) -/
def visitNs (fc : Option FieldD) : Val α → Val α × Bool
  | .str s =>
    match fc with
    | some f => if isNsLeafField tb f then ((Val.str (app mt s).1), (app mt s).2) else (.str s, false)
    | none => (.str s, false)
  | .msg ty fs =>
    let mode : FMode := if ty == g.historyType then .hist else if ty == g.namespaceInfo then .nsInfo else .plain
    let r := visitNsFields mode (g.typeD ty).fields fs
    (.msg ty r.1, r.2)
  | .list items =>
    let r := visitNsItems (if blobCtx tb fc then .blobs else .plain) items
    (.list r.1, r.2)
  | .map es =>
    let r := visitNsItems .plain es
    (.map r.1, r.2)
  | .kv k v =>
    let r := visitNs none v
    (.kv k r.1, r.2)
  | .blobEv re evs =>
    if blobCtx tb fc then blobResult re evs (listSkippable g tb X evs) (visitNsItems .plain evs)
    else (.blobEv re evs, false)
  | .tok t => (.tok t, false)
  | .payload t => (.payload t, false)
  | .nil k => (.nil k, false)
  | .blobRaw e t => (.blobRaw e t, false)
def visitNsFields (mode : FMode) : List FieldD → List (Val α) → List (Val α) × Bool
  | f :: fds, v :: vs =>
    let r1 : Val α × Bool :=
      match mode with
      | .hist =>
        (match v with
         | .list items =>
           if f.go == X.eventsField then
             let r := visitNsItems .events items
             (Val.list r.1, r.2)
           else (.list items, false)
         | w => (w, false))
      | .nsInfo =>
        (match v with
         | .str s =>
           -- by type: `match(info.Name)`; afterwards the walk reaches the same field again as an ordinary field
           let a : α × Bool := if f.go == g.nameField && f.goString then app mt s else (s, false)
           let b : α × Bool := if isNsLeafField tb f then app mt a.1 else (a.1, false)
           (Val.str b.1, a.2 || b.2)
         | w => visitNs (some f) w)
      | .plain => visitNs (some f) v
    let r2 := visitNsFields mode fds vs
    (r1.1 :: r2.1, r1.2 || r2.2)
  | [], vs => (vs, false)
  | _ :: _, [] => ([], false)
def visitNsItems (mode : IMode) : List (Val α) → List (Val α) × Bool
  | [] => ([], false)
  | v :: vs =>
    let r1 : Val α × Bool :=
      match mode with
      | .events => if evSkippable g tb X v then (v, false) else visitNs none v
      | .blobs =>
        (match v with
         | .blobEv re evs => blobResult re evs (listSkippable g tb X evs) (visitNsItems .plain evs)
         | w => visitNs none w)
      | .plain => visitNs none v
    let r2 := visitNsItems mode vs
    (r1.1 :: r2.1, r1.2 || r2.2)
end

/-- `isSkippableForNamespaceTranslation` on the root object (a request / response message, or a single event) -/
def rootSkippable (v : Val α) : Bool :=
  match v with
  | .msg ty _ => ty == X.lwerType || (ty == g.eventType && evSkippable g tb X v)
  | _ => false

/-- `visitNamespace(obj, match)`: (translated object, matched) -/
def visitNamespace (v : Val α) : Val α × Bool :=
  if rootSkippable g tb X v then (v, false) else visitNs g tb X mt none v

/-- `NewNamespaceNameTranslator(m, _).TranslateRequest(v)` -/
def translateNs (m : List (α × α)) (v : Val α) : Val α × Bool := visitNamespace g tb X (look m) v

/-! ### errors of the namespace visitor: a non-empty blob in a recognised blob field that does not decode -/
mutual
def nsErrV (fc : Option FieldD) : Val α → Bool
  | .msg ty fs =>
    let mode : FMode := if ty == g.historyType then .hist else if ty == g.namespaceInfo then .nsInfo else .plain
    nsErrFields mode (g.typeD ty).fields fs
  | .list items => nsErrItems (if blobCtx tb fc then .blobs else .plain) items
  | .map es => nsErrItems .plain es
  | .kv _ v => nsErrV none v
  | .blobEv _ evs => blobCtx tb fc && !listSkippable g tb X evs && nsErrItems .plain evs
  | .blobRaw e _ => blobCtx tb fc && !e
  | _ => false
def nsErrFields (mode : FMode) : List FieldD → List (Val α) → Bool
  | f :: fds, v :: vs =>
    (match mode with
     | .hist => (match v with
                 | .list items => f.go == X.eventsField && nsErrItems .events items
                 | _ => false)
     | _ => nsErrV (some f) v) || nsErrFields mode fds vs
  | _, _ => false
def nsErrItems (mode : IMode) : List (Val α) → Bool
  | [] => false
  | v :: vs =>
    (match mode with
     | .events => !evSkippable g tb X v && nsErrV none v
     | .blobs => (match v with
                  | .blobEv _ evs => !listSkippable g tb X evs && nsErrItems .plain evs
                  | .blobRaw e _ => !e
                  | w => nsErrV none w)
     | .plain => nsErrV none v) || nsErrItems mode vs
end

def nsErr (v : Val α) : Bool := !rootSkippable g tb X v && nsErrV g tb X none v

/-! ### visitSearchAttributes -/

def keysOf : List (Val α) → List α
  | [] => []
  | .kv k _ :: es => k :: keysOf es
  | _ :: es => keysOf es

/-- `translateIndexedFields` inserts every entry under its new key into a NEW map, in iteration order: the entry list
    produced by the model (`SMode.ren`) is that map iff the new keys are distinct.  Otherwise two entries end up under the
    same key and Go's result depends on map iteration order (one entry is lost): `renCollide`. -/
def renCollide (es : List (Val α)) : Bool := !decide ((keysOf es).map (fun k => (app mt k).1)).Nodup

/-- how the elements of a slice / map are walked by visitSearchAttributes -/
inductive SMode where
  | plain
  | blobs      -- `[]*DataBlob` in a recognised blob field
  | ren        -- the entries of a search-attribute map: `translateIndexedFields` (keys through the matcher, values carried over)
deriving DecidableEq, Repr

/-- the map is rebuilt: it is `attrs.IndexedFields` of a `*SearchAttributes` found in a search-attribute field (`cont`), or
    itself a `map[string]*Payload` in a search-attribute field -/
def saRenField (cont : Bool) (f : FieldD) : Bool :=
  (cont && f.go == X.indexedFieldsField) || (saNamed tb (some f) && saTyped (some f))

mutual
/-- visitSearchAttributes' callback on one value -/
def visitSa (fc : Option FieldD) : Val α → Val α × Bool
  | .msg ty fs =>
    let r := visitSaFields (saNamed tb fc && saTyped fc) (g.typeD ty).fields fs
    (.msg ty r.1, r.2)
  | .map es =>
    let r := visitSaItems (if saNamed tb fc && saTyped fc then .ren else .plain) es
    (.map r.1, r.2)
  | .list items =>
    let r := visitSaItems (if blobCtx tb fc then .blobs else .plain) items
    (.list r.1, r.2)
  | .kv k v =>
    let r := visitSa none v
    (.kv k r.1, r.2)
  | .blobEv re evs =>
    if blobCtx tb fc then blobResult re evs false (visitSaItems .plain evs)
    else (.blobEv re evs, false)
  | .str s => (.str s, false)
  | .tok t => (.tok t, false)
  | .payload t => (.payload t, false)
  | .nil k => (.nil k, false)
  | .blobRaw e t => (.blobRaw e t, false)
/-- `cont`: the struct is a `*common.SearchAttributes` found in a search-attribute field: `attrs.IndexedFields` is rebuilt -/
def visitSaFields (cont : Bool) : List FieldD → List (Val α) → List (Val α) × Bool
  | f :: fds, v :: vs =>
    let r1 : Val α × Bool :=
      match v with
      | .map es =>
        let r := visitSaItems (if saRenField tb X cont f then .ren else .plain) es
        (Val.map r.1, r.2)
      | w => visitSa (some f) w
    let r2 := visitSaFields cont fds vs
    (r1.1 :: r2.1, r1.2 || r2.2)
  | [], vs => (vs, false)
  | _ :: _, [] => ([], false)
def visitSaItems (mode : SMode) : List (Val α) → List (Val α) × Bool
  | [] => ([], false)
  | v :: vs =>
    let r1 : Val α × Bool :=
      match mode with
      | .ren =>
        (match v with
         | .kv k w =>
           -- the entry moves to its new key; its value (the same pointer) is then walked like any map value
           let r := visitSa none w
           (Val.kv (app mt k).1 r.1, (app mt k).2 || r.2)
         | w => visitSa none w)
      | .blobs =>
        (match v with
         | .blobEv re evs => blobResult re evs false (visitSaItems .plain evs)
         | w => visitSa none w)
      | .plain => visitSa none v
    let r2 := visitSaItems mode vs
    (r1.1 :: r2.1, r1.2 || r2.2)
end

/-- `NewSearchAttributeTranslator({_: m}, _).TranslateRequest(v)` -/
def translateSA (m : List (α × α)) (v : Val α) : Val α × Bool := visitSa g tb X (look m) none v

/-! ### errors and key collisions of the search-attribute visitor.
`chk`: what is tested at a search-attribute container; `saScan chk stopAtErr`. -/
mutual
/-- `unh = true`: look for "unhandled search attribute type" / undecodable blobs; `unh = false`: look for key collisions -/
def saScanV (unh : Bool) (fc : Option FieldD) : Val α → Bool
  | .msg ty fs =>
    (unh && saNamed tb fc && !saTyped fc) || saScanFields unh (saNamed tb fc && saTyped fc) (g.typeD ty).fields fs
  | .map es =>
    (unh && saNamed tb fc && !saTyped fc) || (!unh && saNamed tb fc && saTyped fc && renCollide mt es) || saScanItems unh false es
  | .list items => (unh && saNamed tb fc) || saScanItems unh (blobCtx tb fc) items
  | .kv _ v => saScanV unh none v
  | .blobEv _ evs => (unh && saNamed tb fc) || (blobCtx tb fc && saScanItems unh false evs)
  | .blobRaw e _ => (unh && saNamed tb fc) || (unh && blobCtx tb fc && !e)
  | .nil _ => false   -- see the note on nil values in the header
  | _ => unh && saNamed tb fc
def saScanFields (unh cont : Bool) : List FieldD → List (Val α) → Bool
  | f :: fds, v :: vs =>
    (match v with
     | .map es =>
       if cont && f.go == X.indexedFieldsField then (!unh && renCollide mt es) || saScanItems unh false es
       else saScanV unh (some f) (.map es)
     | w => saScanV unh (some f) w) || saScanFields unh cont fds vs
  | _, _ => false
def saScanItems (unh bc : Bool) : List (Val α) → Bool
  | [] => false
  | v :: vs =>
    (match v with
     | .blobEv _ evs => bc && saScanItems unh false evs
     | .blobRaw e _ => unh && bc && !e
     | w => saScanV unh none w) || saScanItems unh bc vs
end

/-- visitSearchAttributes returns an error ("unhandled search attribute type: %T", or a blob that does not decode) -/
def saErr (v : Val α) : Bool := saScanV g tb X mt true none v
/-- some rebuilt map receives two entries under one key -/
def saCollision (m : List (α × α)) (v : Val α) : Bool := saScanV g tb X (look m) false none v

end
end S2S.TranslateVal
