/-
Model of the pass-through stream handler (C06): `StreamForwarder.Run`, `forwardReplicationMessages`,
`forwardAcks`, `startListener` (proxy/admin_stream_transfer.go) as reached from
`adminServiceProxyServer.StreamWorkflowReplicationMessages` in default and LCM mode (the two modes
differ only in the stream-open metadata, which is C07; the machine below is the same).
CORE LEAN ONLY.

The machine is FINE-GRAINED: an `Act` is one atomic step of one goroutine between two
synchronisation points (a channel operation, a latch read, one stream Recv/Send/CloseSend
returning), or one step of the environment.  Theorems quantify over every list of `Act`s, i.e.
over every interleaving of the two directions and every position of every ending.

Six goroutines per stream, all explicit:

  H    the handler goroutine, inside `Run`: `wg.Wait()`, then `defer cancel()`, then return
  FR   `forwardReplicationMessages`  (relay loop of direction `D.s`: source  → initiator)
  FA   `forwardAcks`                 (relay loop of direction `D.i`: initiator → source)
  LS   the listener `startListener(sourceStreamClient)` feeding FR over an unbuffered channel
  LT   the listener `startListener(targetStreamServer)` feeding FA over an unbuffered channel
  CS   the goroutine FA's deferred block starts around `sourceStreamClient.CloseSend()`

Flow control: a gRPC `Send` blocks while the receiving peer does not read ("until there is sufficient
flow control, or the stream is done, or the stream breaks").  `Dir.stalled` (set / cleared by the
environment actions `Act.stall d` / `Act.unstall d`) says that the peer direction `d`'s loop sends to
is not reading; `rProc d` holding a message is then NOT enabled as long as the `Send` could succeed
(`sendOk`), and returns the error at once when the stream is done / broken / its context cancelled.

gRPC is environment ("modelled, not verified"): `Env` lists every assumption on it as a switch;
`GrpcStreamEnv` (in `Spec/Forwarder.lean`) is the conjunction the liveness theorem needs.
-/
namespace S2S.Forwarder

/-- what a peer's `Recv` can return -/
inductive Ev where
  | data (i : Nat)   -- a well-formed message (replication batch / SyncReplicationState); `i` stands for the payload
  | unknown          -- a message whose `Attributes` is nil or of another kind (consumed like a message)
  | eof              -- clean end: `Recv` returns io.EOF, and does so again on every later call
  | err              -- failure: `Recv` returns a non-EOF error, and does so again on every later call
deriving Repr, DecidableEq

def Ev.sticky : Ev → Bool
  | .eof | .err => true
  | _ => false

def Ev.isData : Ev → Bool
  | .data _ => true
  | _ => false

/-- the payload carried (none for EOF / error / unknown kind) -/
def Ev.ids : Ev → List Nat
  | .data i => [i]
  | _ => []

/-- the two directions: `s` = source → initiator (`forwardReplicationMessages`),
    `i` = initiator → source (`forwardAcks`) -/
inductive D where
  | s | i
deriving Repr, DecidableEq

/-- program counter of a listener goroutine (`startListener`) -/
inductive LPc where
  | top                -- at `for !shutdownChan.IsShutdown()`
  | inRecv             -- blocked in `receiver.Recv()`
  | has (v : Ev)       -- at `select { case ch <- v: ; case <-shutdownChan.Channel(): return }`
  | exited             -- returned (channel closed)
deriving Repr, DecidableEq

/-- program counter of a relay loop (`forwardReplicationMessages` / `forwardAcks`) -/
inductive RPc where
  | waiting            -- at `select { case <-shutdownChan.Channel(): return; case v := <-dataChan: }`
  | holding (v : Ev)   -- received `v`, about to classify it / call `Send`
  | finished           -- left the loop; deferred block not yet run
  | guard              -- FA only: latch set, CS started, at `select { case <-closeSent: ; case <-timeout: }`
  | done               -- `wg.Done()` called
deriving Repr, DecidableEq

/-- program counter of the `CloseSend` goroutine -/
inductive CPc where
  | idle               -- not started
  | calling            -- inside `sourceStreamClient.CloseSend()`
  | signalling         -- at `closeSent <- struct{}{}` (unbuffered)
  | exited
deriving Repr, DecidableEq

/-- program counter of the handler goroutine inside `Run` -/
inductive HPc where
  | waiting            -- in `wg.Wait()`
  | cancelled          -- ran the deferred `cancel()` of the outgoing context
  | returned           -- `StreamWorkflowReplicationMessages` returned
deriving Repr, DecidableEq

/-- assumptions on gRPC / the peers, one switch each (defaults = `GrpcStreamEnv`) -/
structure Env where
  /-- the source cluster answers the proxy's half-close by ending its side (`Recv` then returns EOF) -/
  answersCloseSend   : Bool := true
  /-- cancelling a client stream's context makes its `Recv` return an error -/
  cancelUnblocksRecv : Bool := true
  /-- returning from the handler makes gRPC cancel the server stream's context (its `Recv` returns) -/
  returnCancelsSrv   : Bool := true
  /-- `CloseSend` does not return until the stream context is cancelled (never observed with grpc-go) -/
  closeSendHangs     : Bool := false
  /-- proxy shutdown closes the client connection the stream was opened on
      (`ClusterConnection`: `context.AfterFunc(lifetime, client.Close)`); the handler itself never looks at `lifetime` -/
  shutdownClosesConn : Bool := true
deriving Repr, DecidableEq

/-- one direction: peer → listener → relay loop → other peer -/
structure Dir where
  queue     : List Ev := []     -- what the peer's stream will deliver next (head first); sticky events stay at the head
  lis       : LPc := .top
  loop      : RPc := .waiting
  sendFails : Bool := false     -- the `Send` of THIS direction's loop (to the other peer) fails from now on
  stalled   : Bool := false     -- the peer THIS direction's loop sends to is not reading: a `Send` blocks (gRPC flow control)
  -- histories (ghost state; never read by the machine)
  sent      : List Nat := []    -- every payload the peer put on the stream, oldest first
  delivered : List Nat := []    -- every payload the listener's `Recv` returned
  out       : List Nat := []    -- every payload the other peer received (successful `Send`s)
deriving Repr, DecidableEq

structure State where
  env        : Env := {}
  s          : Dir := {}
  i          : Dir := {}
  latch      : Bool := false    -- `shutdownChan`
  cs         : CPc := .idle
  h          : HPc := .waiting
  outCtx     : Bool := false    -- `cancel()` of the outgoing context ran
  srvCtx     : Bool := false    -- the server stream's context is cancelled (initiator gone, or gRPC after handler return)
  connClosed : Bool := false    -- the client connection was closed (proxy shutdown)
deriving Repr, DecidableEq

/-- the state right after `Run` started its two workers -/
def State.init (e : Env) : State := { env := e }

def State.dir (σ : State) : D → Dir
  | .s => σ.s
  | .i => σ.i

def State.setDir (σ : State) (d : D) (x : Dir) : State :=
  match d with
  | .s => { σ with s := x }
  | .i => { σ with i := x }

/-- One atomic step of one goroutine, or of the environment. -/
inductive Act where
  -- environment
  /-- the peer of direction `d` puts `v` on its stream -/
  | push (d : D) (v : Ev)
  /-- the `Send` of direction `d`'s loop starts failing (the receiving peer's stream is broken) -/
  | sendFail (d : D)
  /-- the peer direction `d`'s loop sends to stops reading (`stall .s`: the initiator, `stall .i`: the source):
      from now on a `Send` of that loop blocks (flow control) instead of returning -/
  | stall (d : D)
  /-- that peer reads again: a blocked `Send` goes through -/
  | unstall (d : D)
  /-- the initiator goes away: the server stream's context is cancelled -/
  | iniCancel
  /-- proxy shutdown: the `lifetime` context ends -/
  | shutdown
  /-- 1 s passes while `CloseSend` is still blocked: the guard's `time.After` fires -/
  | tick
  -- listener goroutines
  /-- loop condition: latch set ⇒ exit, otherwise enter `Recv` -/
  | lCheck (d : D)
  /-- `Recv` returns -/
  | lRecv (d : D)
  /-- hand-off over the unbuffered channel (listener's first select case, loop's second) -/
  | lHand (d : D)
  /-- listener's second select case: latch ⇒ return -/
  | lQuit (d : D)
  -- relay loops
  /-- loop's first select case: latch ⇒ return -/
  | rLatch (d : D)
  /-- loop reads the closed data channel (listener gone): zero value, nil message ⇒ unknown kind ⇒ return -/
  | rClosed (d : D)
  /-- classify the held value: EOF / error / unknown ⇒ return; message ⇒ `Send`, error ⇒ return -/
  | rProc (d : D)
  /-- deferred block up to its first blocking point: FR `Shutdown(); wg.Done()`;
      FA `Shutdown()`, start CS, arm the 1 s guard -/
  | rDefer (d : D)
  -- the rest
  /-- `CloseSend` returns -/
  | csReturn
  /-- rendezvous on `closeSent`: CS exits, FA calls `wg.Done()` -/
  | guardRecv
  /-- `wg.Wait()` returns, deferred `cancel()` runs -/
  | hCancel
  /-- the handler returns -/
  | hReturn
deriving Repr, DecidableEq

/-- the stream of direction `d` is cut: its `Recv` returns an error whatever is queued -/
def cut (σ : State) : D → Bool
  | .s => σ.connClosed || ((σ.outCtx || σ.srvCtx) && σ.env.cancelUnblocksRecv)   -- outgoing ctx derives from the server stream's
  | .i => σ.srvCtx

/-- result of `Recv` on direction `d`: the value and the remaining queue; `none` = blocks -/
def recvResult (σ : State) (d : D) : Option (Ev × List Ev) :=
  if cut σ d then some (.err, (σ.dir d).queue)
  else match (σ.dir d).queue with
    | [] => none
    | v :: r => if v.sticky then some (v, v :: r) else some (v, r)

/-- does the `Send` of direction `d`'s loop succeed (once the receiving peer reads: see `Dir.stalled`);
    `false` = the stream is done / broken / its context cancelled: `Send` returns an error AT ONCE, also when it was blocked -/
def sendOk (σ : State) : D → Bool
  | .s => !σ.s.sendFails && !σ.srvCtx
  | .i => !σ.i.sendFails && !σ.srvCtx && !σ.outCtx && !σ.connClosed

/-- `step σ a` : the successor state, or `none` when `a` is not enabled in `σ`. -/
def step (σ : State) : Act → Option State
  | .push d v =>
    let x := σ.dir d
    some (σ.setDir d { x with queue := x.queue ++ [v], sent := x.sent ++ v.ids })
  | .sendFail d => some (σ.setDir d { σ.dir d with sendFails := true })
  | .stall d => some (σ.setDir d { σ.dir d with stalled := true })
  | .unstall d => some (σ.setDir d { σ.dir d with stalled := false })
  | .iniCancel => some { σ with srvCtx := true }
  | .shutdown => some { σ with connClosed := σ.connClosed || σ.env.shutdownClosesConn }
  | .tick =>
    -- timing assumption: the 1 s timer only beats a CloseSend that is really blocked
    if σ.i.loop = .guard ∧ σ.cs = .calling ∧ σ.env.closeSendHangs = true ∧ (σ.outCtx || σ.srvCtx) = false
    then some { σ with i := { σ.i with loop := .done } } else none
  | .lCheck d =>
    let x := σ.dir d
    if x.lis = .top then some (σ.setDir d { x with lis := if σ.latch then .exited else .inRecv }) else none
  | .lRecv d =>
    let x := σ.dir d
    if x.lis = .inRecv then
      match recvResult σ d with
      | none => none
      | some (v, q) =>
        some (σ.setDir d { x with lis := .has v, queue := q, delivered := x.delivered ++ v.ids })
    else none
  | .lHand d =>
    let x := σ.dir d
    match x.lis, x.loop with
    | .has v, .waiting => some (σ.setDir d { x with lis := .top, loop := .holding v })
    | _, _ => none
  | .lQuit d =>
    let x := σ.dir d
    match x.lis with
    | .has _ => if σ.latch then some (σ.setDir d { x with lis := .exited }) else none
    | _ => none
  | .rLatch d =>
    let x := σ.dir d
    if x.loop = .waiting ∧ σ.latch = true then some (σ.setDir d { x with loop := .finished }) else none
  | .rClosed d =>
    let x := σ.dir d
    if x.loop = .waiting ∧ x.lis = .exited then some (σ.setDir d { x with loop := .finished }) else none
  | .rProc d =>
    let x := σ.dir d
    match x.loop with
    | .holding (.data i) =>
      if sendOk σ d then
        -- gRPC `Send` blocks while the receiving peer does not read ("until there is sufficient flow control,
        -- or the stream is done, or the stream breaks"): not enabled; the loop sees neither its channel nor the latch
        (if x.stalled then none
         else some (σ.setDir d { x with loop := .waiting, out := x.out ++ [i] }))
      else some (σ.setDir d { x with loop := .finished })   -- stream done / broken / context cancelled: `Send` returns an error, stalled or not
    | .holding _ => some (σ.setDir d { x with loop := .finished })
    | _ => none
  | .rDefer d =>
    let x := σ.dir d
    if x.loop = .finished then
      match d with
      | .s => some { σ with latch := true, s := { x with loop := .done } }
      | .i => some { σ with latch := true, i := { x with loop := .guard }, cs := .calling }
    else none
  | .csReturn =>
    if σ.cs = .calling then
      if σ.env.closeSendHangs then
        (if σ.outCtx || σ.srvCtx then some { σ with cs := .signalling } else none)
      else
        -- the half-close reaches the source; a well-behaved source ends its side
        some { σ with cs := .signalling,
                      s := if σ.env.answersCloseSend && !σ.s.queue.any Ev.sticky
                           then { σ.s with queue := σ.s.queue ++ [.eof] } else σ.s }
    else none
  | .guardRecv =>
    if σ.cs = .signalling ∧ σ.i.loop = .guard then some { σ with cs := .exited, i := { σ.i with loop := .done } } else none
  | .hCancel =>
    if σ.h = .waiting ∧ σ.s.loop = .done ∧ σ.i.loop = .done then some { σ with h := .cancelled, outCtx := true } else none
  | .hReturn =>
    if σ.h = .cancelled then some { σ with h := .returned, srvCtx := σ.srvCtx || σ.env.returnCancelsSrv } else none

/-- run a list of actions; disabled actions are skipped (they do not happen) -/
def run (σ : State) (acts : List Act) : State :=
  acts.foldl (fun σ a => (step σ a).getD σ) σ

end S2S.Forwarder
