/-
Model of the name-mapping layer (C13, C14):
  collect.NewStaticBiMap / Inverse / Get                 (collect/bimap.go)
  createStringMatcher (exact-match lookup)               (interceptor/translator.go)
  translateIndexedFields (search-attribute key rename)   (interceptor/reflection.go)
  which map each server of a cluster connection uses     (proxy/cluster_connection.go: NewClusterConnection, makeServerOptions)
  NewSearchAttributeTranslator's method filter           (interceptor/search_attribute_translator.go)
CORE LEAN ONLY.  Names are an arbitrary type with decidable equality (strings in the driver).
-/
namespace S2S.NameMap

variable {α : Type} [DecidableEq α]

/-- a Go `map[K]V` built by successive assignment, as an association list (first match wins on lookup;
    `insert` replaces an existing key) -/
def lookup (m : List (α × α)) (k : α) : Option α := (m.find? (fun p => p.1 = k)).map (·.2)

/-- `NewStaticBiMap`: `none` = ConflictError (a key or a value occurs twice) -/
def newBiMap : List (α × α) → Option (List (α × α))
  | [] => some []
  | (k, v) :: rest =>
    match newBiMap rest with
    | none => none
    | some m => if (m.any (fun p => p.1 = k)) || (m.any (fun p => p.2 = v)) then none else some ((k, v) :: m)

/-- what `StringTranslator.AsLocalToRemoteBiMap` accepts at start-up (config/cluster_conn_config.go): no mapping
    entry with an empty name, and the list is one-to-one (`NewStaticBiMap` succeeds) -/
def configAccepts (empty : α) (m : List (α × α)) : Bool :=
  m.all (fun p => !(p.1 = empty) && !(p.2 = empty)) && (newBiMap m).isSome

/-- `Inverse()` -/
def inverse (m : List (α × α)) : List (α × α) := m.map (fun p => (p.2, p.1))

/-- `createStringMatcher(mapping)` applied to one name: exact-match lookup, unmapped names unchanged -/
def translateName (m : List (α × α)) (s : α) : α := (lookup m s).getD s

/-- `translateIndexedFields`: every key goes through the matcher, values are carried over untouched.
    (Go builds a new map; with distinct resulting keys — the property's hypothesis — that is this list.) -/
def renameKeys {β : Type} (m : List (α × α)) (fields : List (α × β)) : List (α × β) :=
  fields.map (fun p => (translateName m p.1, p.2))

/-- which mapping a server applies to requests / responses; `l2r` is the configured local→remote map.
    `NewClusterConnection`: the inbound configuration gets `nsTranslations.Inverse()`, the outbound one the
    map itself; `makeServerOptions` gives the translator `(AsMap(), Inverse().AsMap())` as (request, response). -/
def serverMaps (inbound : Bool) (l2r : List (α × α)) : List (α × α) × List (α × α) :=
  if inbound then (inverse l2r, l2r) else (l2r, inverse l2r)

/-- the search-attribute translator's method filter: WorkflowService methods are excluded -/
inductive Svc where | workflow | admin | other
deriving DecidableEq, Repr
def saApplies (svc : Svc) : Bool := svc != .workflow

end S2S.NameMap
