import S2S.Model.Ring
/-
Model of routing mode (C01–C04): `proxyStreamReceiver` (one per source shard), `proxyStreamSender`
(one per target shard), the delivery registry of `shardManagerImpl` (memberlist off), and the
two clusters as environment.  CORE LEAN ONLY.

One direction is modelled: sources `s : SId` are shards of cluster X whose tasks are routed to
target shards `t : TId` of cluster Y (the other direction is the same machine with the roles
swapped; the two directions share nothing but the stream pairing used for faults).

The machine is FINE-GRAINED: an `Act` is one atomic step of one goroutine between two
synchronisation points (a channel operation, a lock-protected region, one stream Send/Recv).
Theorems quantify over every list of `Act`s, i.e. over every interleaving.  The driver's
big-step ops are compositions of these steps (`settle`).

Each target's proxy-id ring is the abstract log of C05 (`ring : List (Int × SId × Int)`:
proxy id, source, original id-or-watermark), justified by the C05 refinement theorems.
-/
namespace S2S.Routing

abbrev SId := Nat
abbrev TId := Nat

/-- model parameters / defect flags (`cur` mirrors the current tree) -/
structure Cfg where
  chanCap  : Nat := 100          -- capacity of sendMsgChan and ackChan
  seedAcks : Bool := true        -- receiver seeds ackByTarget for targets it routes to (fix for C01)
deriving Repr, DecidableEq

def Cfg.cur : Cfg := {}
def Cfg.preFix : Cfg := { seedAcks := false }

/-- a `RoutedMessage` queued for a target stream -/
inductive Msg where
  | tasks (src : SId) (ids : List Int)       -- original task ids of one sub-batch (non-empty)
  | wm    (src : SId) (high : Int)           -- watermark-only batch
deriving Repr, DecidableEq

def Msg.src : Msg → SId
  | .tasks s _ => s
  | .wm s _ => s

/-- a message as the target cluster receives it (proxy id space) -/
structure Emitted where
  src     : SId
  ids     : List Int        -- proxy task ids (empty for a watermark / keep-alive)
  high    : Int             -- exclusive high watermark in proxy id space
  orig    : List Int        -- the original ids carried (payload identity)
  keepalive : Bool := false
deriving Repr, DecidableEq

/-- program counter of a receiver's `recvReplicationMessages` goroutine -/
inductive RecvPc where
  | idle
  | bcast (high : Int) (todo : List (TId × Nat))         -- non-blocking watermark broadcast in progress: (target, channel incarnation) snapshot
  | deliver (pending : List (TId × List Int))            -- retry loop: sub-batches not yet handed off
deriving Repr, DecidableEq

structure Source where
  active      : Bool := false          -- receiver incarnation running (ack channel registered)
  inc         : Nat := 0               -- incarnation counter
  pc          : RecvPc := .idle
  lastHigh    : Int := 0               -- lastExclusiveHighOriginal
  ackByTarget : List (TId × Int) := []
  lastSentMin : Int := 0
  lastWatermark : Option Int := none
  lastSentAck : Option Int := none     -- keep-alive state
  ackChan     : List (TId × Int) := [] -- RoutedAck FIFO
  graveyard   : List (Nat × Option Int) := []  -- dead incarnations' final lastWatermark (objects still referenced by snapshots)
  -- histories (ghost state; never read by the machine)
  received    : List (Int × TId) := [] -- every task received: (id, owner), oldest first
  acksSent    : List Int := []         -- every InclusiveLowWatermark sent upstream, oldest first
deriving Repr, DecidableEq

/-- program counter of a sender's `recvAck` goroutine -/
inductive AckPc where
  | idle
  | forwarding (todo : List (SId × Int)) (discard : Nat) (recordPrev : Bool)
deriving Repr, DecidableEq

structure Target where
  registered  : Bool := false          -- send channel registered in remoteSendChannels
  started     : Bool := false          -- sender goroutines running
  inc         : Nat := 0
  sendChan    : List Msg := []
  nextProxyId : Int := 0
  ring        : List (Int × SId × Int) := []   -- (proxy id, source, original id / watermark)
  prevAck     : List (SId × Int) := []         -- prevAckBySource
  holding     : Option Emitted := none         -- processed, blocked in Send
  lastSentWm  : Int := 0                       -- lastSentWatermark (keep-alive)
  ackPc       : AckPc := .idle
  replayTodo  : Option (List (SId × Nat)) := none  -- registering goroutine: receivers (with incarnation) still to notify
  -- histories
  handed      : List Msg := []                 -- every message ever handed to this incarnation
  emitted     : List Emitted := []             -- every message the target cluster received
  targetAcks  : List Int := []                 -- every InclusiveLowWatermark the target cluster sent
  assigned    : List (SId × Int × Int) := []   -- (source, original id, proxy id) of every task taken by this incarnation
  confirmed   : List (SId × Int) := []         -- tasks confirmed by ANY incarnation of this target (never reset)
deriving Repr, DecidableEq

structure State where
  sources : List Source
  targets : List Target
deriving Repr, DecidableEq

def State.init (ns nt : Nat) : State :=
  { sources := List.replicate ns {}, targets := List.replicate nt {} }

def State.src (σ : State) (s : SId) : Source := σ.sources.getD s {}
def State.tgt (σ : State) (t : TId) : Target := σ.targets.getD t {}
def State.setSrc (σ : State) (s : SId) (x : Source) : State := { σ with sources := σ.sources.set s x }
def State.setTgt (σ : State) (t : TId) (x : Target) : State := { σ with targets := σ.targets.set t x }

/-- assoc-list helpers (Go maps) -/
def aget {α} (l : List (Nat × α)) (k : Nat) : Option α := (l.find? (fun p => p.1 == k)).map (·.2)
def aset {α} : List (Nat × α) → Nat → α → List (Nat × α)
  | [], k, v => [(k, v)]
  | (k', v') :: r, k, v => if k' == k then (k', v) :: r else (k', v') :: aset r k v

/-- group a batch by owner, keeping source order inside each group (group order is immaterial: Go map) -/
def groupByOwner : List (Int × TId) → List (TId × List Int)
  | [] => []
  | (id, t) :: rest =>
    let g := groupByOwner rest
    match aget g t with
    | some ids => aset g t (id :: ids)
    | none => (t, [id]) :: g

/-- minimum over the values of a non-empty map -/
def minVal : List (TId × Int) → Option Int
  | [] => none
  | (_, v) :: r => match minVal r with
    | none => some v
    | some m => some (if v < m then v else m)

/-- per-source maximum over ring entries with proxy id ≤ w (the C05 `expected`), plus the count -/
def aggInsert : List (SId × Int) → SId → Int → List (SId × Int)
  | [], s, v => [(s, v)]
  | (s', v') :: r, s, v => if s' == s then (s', if v > v' then v else v') :: r else (s', v') :: aggInsert r s v

def aggregate (ring : List (Int × SId × Int)) (w : Int) : List (SId × Int) × Nat :=
  let covered := ring.takeWhile (fun e => e.1 ≤ w)
  (covered.foldl (fun acc e => aggInsert acc e.2.1 e.2.2) [], covered.length)

/-- seeding of `ackByTarget` for targets that never acked (the C01 repair) -/
def seed (m : List (TId × Int)) : List (TId × List Int) → List (TId × Int)
  | [] => m
  | (t, ids) :: rest =>
    let m' := match aget m t with
      | some _ => m
      | none => aset m t (ids.headD 0)
    seed m' rest

/-- One atomic step of one goroutine (or of the environment). -/
inductive Act where
  /-- source cluster sends a batch on stream `s`; the receiver reads it (`Recv` returns) -/
  | recv (s : SId) (tasks : List (Int × TId)) (high : Int)
  /-- one non-blocking broadcast attempt of the watermark to target `t` -/
  | bcastStep (s : SId) (t : TId)
  /-- hand-off of the pending sub-batch for `t` into `t`'s channel (blocking send succeeds) -/
  | deliver (s : SId) (t : TId)
  /-- sender `t` dequeues a message, allocates proxy ids, appends to the ring -/
  | take (t : TId)
  /-- the blocked `Send` of sender `t` returns -/
  | emit (t : TId)
  /-- target cluster sends SyncReplicationState(w); `recvAck` aggregates -/
  | tack (t : TId) (w : Int)
  /-- `recvAck` delivers one aggregated / fallback ack to source `s`'s ack channel -/
  | ackFwd (t : TId) (s : SId)
  /-- `recvAck` finishes: discard covered ring entries -/
  | ackFin (t : TId)
  /-- receiver `s` `sendAck` dequeues one routed ack, aggregates, maybe sends upstream -/
  | rack (s : SId)
  /-- source stream `s` is opened (receiver incarnation starts) -/
  | openSrc (s : SId)
  /-- target stream `t` is opened: its channel becomes visible in the registry (`SetRemoteSendChan`) -/
  | openTgt (t : TId)
  /-- `RegisterShard` → `notifyReceiversOfNewShard` snapshots the active receivers -/
  | startTgt (t : TId)
  /-- one receiver of the snapshot is notified: non-blocking send of its last watermark into the new channel -/
  | replayStep (t : TId) (s : SId)
  /-- all receivers notified: the sender goroutines start -/
  | replayDone (t : TId)
  /-- 1 s keep-alive tickers of every sender and receiver fire -/
  | tick
  /-- FAULTS (C04): target stream `t` breaks (its sender incarnation dies) -/
  | breakTgt (t : TId)
  /-- source stream `s` breaks (its receiver incarnation dies) -/
  | breakSrc (s : SId)
deriving Repr, DecidableEq

/-- room in a bounded channel -/
def hasRoom (c : Cfg) {α} (ch : List α) : Bool := ch.length < c.chanCap

/-- sender processing of one dequeued message (`sendReplicationMessages`, up to the Send) -/
def process (tg : Target) (m : Msg) : Target :=
  match m with
  | .tasks s ids =>
    let n := ids.length
    let first := tg.nextProxyId + 1
    let pids := (List.range n).map (fun (i : Nat) => first + (i : Int))
    let entries := (ids.zip pids).map (fun (o, p) => (p, s, o))
    let last := tg.nextProxyId + (n : Int)
    { tg with
      nextProxyId := last
      ring := tg.ring ++ entries
      assigned := tg.assigned ++ (ids.zip pids).map (fun (o, p) => (s, o, p))
      holding := some { src := s, ids := pids, high := last + 1, orig := ids } }
  | .wm s h =>
    let p := tg.nextProxyId + 1
    { tg with
      nextProxyId := p
      ring := tg.ring ++ [(p, s, h)]
      holding := some { src := s, ids := [], high := p, orig := [] } }

/-- `step c σ a` : the successor state, or `none` when `a` is not enabled in `σ`. -/
def step (c : Cfg) (σ : State) : Act → Option State
  | .recv s tasks high =>
    let x := σ.src s
    if !x.active || x.pc != .idle then none
    else
      let x := { x with lastHigh := high, received := x.received ++ tasks }
      if tasks.isEmpty then
        let regs := ((List.range σ.targets.length).filter (fun t => (σ.tgt t).registered)).map (fun t => (t, (σ.tgt t).inc))
        some (σ.setSrc s { x with lastWatermark := some high, pc := if regs.isEmpty then .idle else .bcast high regs })
      else
        let groups := groupByOwner tasks
        let abt := if c.seedAcks then seed x.ackByTarget groups else x.ackByTarget
        some (σ.setSrc s { x with ackByTarget := abt, pc := .deliver groups })
  | .bcastStep s t =>
    let x := σ.src s
    match x.pc with
    | .bcast high todo =>
      match aget todo t with
      | none => none
      | some inc =>
        let todo' := todo.filter (fun p => p.1 != t)
        let x' := { x with pc := if todo'.isEmpty then .idle else .bcast high todo' }
        let tg := σ.tgt t
        -- the channel snapshot was taken at `recv`; a channel closed meanwhile is caught by `recover` (or the
        -- message dies in the dead channel), a full channel takes the `default` branch: all drop the watermark
        if tg.registered && tg.inc == inc && hasRoom c tg.sendChan then
          some ((σ.setSrc s x').setTgt t { tg with sendChan := tg.sendChan ++ [.wm s high], handed := tg.handed ++ [.wm s high] })
        else some (σ.setSrc s x')
    | _ => none
  | .deliver s t =>
    let x := σ.src s
    match x.pc with
    | .deliver pending =>
      match aget pending t with
      | none => none
      | some ids =>
        let tg := σ.tgt t
        if !(tg.registered && hasRoom c tg.sendChan) then none
        else
          let pending' := pending.filter (fun p => p.1 != t)
          let x' := { x with pc := if pending'.isEmpty then .idle else .deliver pending' }
          some ((σ.setSrc s x').setTgt t { tg with sendChan := tg.sendChan ++ [.tasks s ids], handed := tg.handed ++ [.tasks s ids] })
    | _ => none
  | .take t =>
    let tg := σ.tgt t
    if !tg.started || tg.holding.isSome then none
    else match tg.sendChan with
      | [] => none
      | m :: rest => some (σ.setTgt t (process { tg with sendChan := rest } m))
  | .emit t =>
    let tg := σ.tgt t
    match tg.holding with
    | none => none
    | some e => some (σ.setTgt t { tg with holding := none, emitted := tg.emitted ++ [e], lastSentWm := e.high })
  | .tack t w =>
    let tg := σ.tgt t
    if !tg.started || tg.ackPc != .idle then none
    else
      let (agg, count) := aggregate tg.ring w
      let newly := (tg.assigned.filter (fun a => a.2.2 < w)).map (fun a => (a.1, a.2.1))
      let tg := { tg with targetAcks := tg.targetAcks ++ [w], confirmed := tg.confirmed ++ newly }
      if agg.isEmpty then
        some (σ.setTgt t { tg with ackPc := if tg.prevAck.isEmpty && count == 0 then .idle else .forwarding tg.prevAck count false })
      else some (σ.setTgt t { tg with ackPc := .forwarding agg count true })
  | .ackFwd t s =>
    let tg := σ.tgt t
    match tg.ackPc with
    | .forwarding todo discard rec =>
      match aget todo s with
      | none => none
      | some v =>
        let x := σ.src s
        if !(x.active && hasRoom c x.ackChan) then none
        else
          let todo' := todo.filter (fun p => p.1 != s)
          let tg' := { tg with ackPc := .forwarding todo' discard rec, prevAck := if rec then aset tg.prevAck s v else tg.prevAck }
          some ((σ.setTgt t tg').setSrc s { x with ackChan := x.ackChan ++ [(t, v)] })
    | _ => none
  | .ackFin t =>
    let tg := σ.tgt t
    match tg.ackPc with
    | .forwarding [] discard _ => some (σ.setTgt t { tg with ackPc := .idle, ring := tg.ring.drop discard })
    | _ => none
  | .rack s =>
    let x := σ.src s
    if !x.active then none
    else match x.ackChan with
      | [] => none
      | (t, v) :: rest =>
        let abt := aset x.ackByTarget t v
        let x := { x with ackChan := rest, ackByTarget := abt }
        match minVal abt with
        | none => some (σ.setSrc s x)
        | some m =>
          if m ≥ x.lastSentMin then
            let m' := if x.lastHigh > 0 && m > x.lastHigh then x.lastHigh else m
            some (σ.setSrc s { x with acksSent := x.acksSent ++ [m'], lastSentMin := m', lastSentAck := some m' })
          else some (σ.setSrc s x)
  | .openSrc s =>
    let x := σ.src s
    if x.active || s ≥ σ.sources.length then none
    else some (σ.setSrc s { active := true, inc := x.inc + 1, received := x.received, acksSent := x.acksSent, graveyard := x.graveyard })
  | .openTgt t =>
    let tg := σ.tgt t
    if tg.registered || t ≥ σ.targets.length then none
    else some (σ.setTgt t { registered := true, started := false, inc := tg.inc + 1, emitted := tg.emitted, confirmed := tg.confirmed })
  | .startTgt t =>
    let tg := σ.tgt t
    if !tg.registered || tg.started || tg.replayTodo.isSome then none
    else
      let snap := ((List.range σ.sources.length).filter (fun s => (σ.src s).active)).map (fun s => (s, (σ.src s).inc))
      some (σ.setTgt t { tg with replayTodo := some snap })
  | .replayStep t s =>
    let tg := σ.tgt t
    match tg.replayTodo with
    | none => none
    | some todo =>
      match aget todo s with
      | none => none
      | some inc =>
        let todo' := todo.filter (fun p => p.1 != s)
        let x := σ.src s
        -- `sendPendingWatermarkToShard` reads the receiver object's lastWatermark now; a receiver that died
        -- after the snapshot still answers with its final value
        let wm : Option Int := if x.active && x.inc == inc then x.lastWatermark else (aget x.graveyard inc).getD none
        let tg' := { tg with replayTodo := some todo' }
        match wm with
        | some h =>
          if h != 0 && hasRoom c tg.sendChan then
            some (σ.setTgt t { tg' with sendChan := tg.sendChan ++ [.wm s h], handed := tg.handed ++ [.wm s h] })
          else some (σ.setTgt t tg')
        | none => some (σ.setTgt t tg')
  | .replayDone t =>
    let tg := σ.tgt t
    match tg.replayTodo with
    | some [] => some (σ.setTgt t { tg with replayTodo := none, started := true })
    | _ => none
  | .tick =>
    let srcs := σ.sources.map (fun x =>
      if x.active then (match x.lastSentAck with
        | some a => { x with acksSent := x.acksSent ++ [a] }
        | none => x) else x)
    let tgts := σ.targets.map (fun tg =>
      if tg.started && tg.holding.isNone && tg.lastSentWm > 0 then
        { tg with emitted := tg.emitted ++ [{ src := 0, ids := [], high := tg.lastSentWm, orig := [], keepalive := true }] }
      else tg)
    some { sources := srcs, targets := tgts }
  | .breakTgt t =>
    let tg := σ.tgt t
    if !tg.registered then none
    else some (σ.setTgt t { inc := tg.inc, emitted := tg.emitted, confirmed := tg.confirmed })
  | .breakSrc s =>
    let x := σ.src s
    if !x.active then none
    else some (σ.setSrc s { inc := x.inc, received := x.received, acksSent := x.acksSent, graveyard := x.graveyard ++ [(x.inc, x.lastWatermark)] })

/-- run a list of actions; disabled actions are skipped (they do not happen) -/
def run (c : Cfg) (σ : State) (acts : List Act) : State :=
  acts.foldl (fun σ a => (step c σ a).getD σ) σ

end S2S.Routing
