/-
Model of the LCM-mode shard arithmetic (C07):
  common.GCD / common.LCM                      (common/common.go, int32)
  servercommon.MapShardID                      (go.temporal.io/server v1.31.2 common/util.go)
  mapShardIDUnique, handleStream's LCM branch  (proxy/admin_stream_transfer.go)
  getLCMParameters                             (proxy/cluster_connection.go)
  DescribeCluster shard-count override         (proxy/adminservice.go)
CORE LEAN ONLY.  int32 arithmetic is modelled exactly: every `+ - *` result goes through
`wrap32`, `/` and `%` are Go's truncated division (`Int.tdiv` / `Int.tmod`), division by zero and
the explicit `panic`s are `none`.
-/
namespace S2S.Shard

def two31 : Int := 2147483648
def two32 : Int := 4294967296

/-- two's-complement int32 wrap of an exact integer result -/
def wrap32 (x : Int) : Int := (x + two31) % two32 - two31

/-- the loop `for b != 0 { a, b = b, a%b }` (fuel ≥ |b| + 1 suffices; see `Proofs/Shard`) -/
def gcdLoop : Nat → Int → Int → Int
  | 0, a, _ => a
  | fuel + 1, a, b => if b = 0 then a else gcdLoop fuel b (Int.tmod a b)

/-- `common.GCD` -/
def gcd32 (a b : Int) : Int :=
  if a = 0 ∨ b = 0 then 0
  else
    let (a, b) := if a > b then (b, a) else (a, b)
    gcdLoop (b.natAbs + 2) a b

/-- `common.LCM`: `a * b / GCD(a, b)` in int32 -/
def lcm32 (a b : Int) : Int :=
  if a = 0 ∨ b = 0 then 0
  else wrap32 (Int.tdiv (wrap32 (a * b)) (gcd32 a b))

/-- `servercommon.MapShardID`; `none` = panic (explicit, division by zero, or negative `make`) -/
def mapShardID (src tgt sid : Int) : Option (List Int) :=
  if tgt = 0 then none                                   -- src % tgt divides by zero
  else if Int.tmod src tgt ≠ 0 ∧ Int.tmod tgt src ≠ 0 then none
  else
    let sid := wrap32 (sid - 1)
    if src < tgt then
      if src = 0 then none                               -- tgt / src divides by zero
      else
        let ratio := Int.tdiv tgt src
        if ratio < 0 then none                           -- make([]int32, negative) panics
        else some ((List.range ratio.toNat).map fun (i : Nat) =>
          wrap32 (wrap32 (sid + wrap32 ((i : Int) * src)) + 1))
    else if src > tgt then some [wrap32 (Int.tmod sid tgt + 1)]
    else some [wrap32 (sid + 1)]

/-- `mapShardIDUnique`; `none` = panic -/
def mapShardIDUnique (src tgt sid : Int) : Option Int :=
  match mapShardID src tgt sid with
  | some [x] => some x
  | _ => none

inductive Mode where
  | default | lcm | routing
deriving DecidableEq, Repr

structure LCMParams where
  lcm : Int
  targetShardCount : Int
deriving DecidableEq, Repr

/-- `getLCMParameters(shardCountConfig, inverse)`; `inverse = true` is the inbound server -/
def lcmParams (mode : Mode) (localCount remoteCount : Int) (inverse : Bool) : LCMParams :=
  if mode ≠ .lcm then ⟨0, 0⟩
  else ⟨lcm32 localCount remoteCount, if inverse then localCount else remoteCount⟩

/-- (client cluster, client shard, server cluster, server shard) stream-open metadata -/
structure StreamMD where
  clientCluster : Int
  clientShard   : Int
  serverCluster : Int
  serverShard   : Int
deriving DecidableEq, Repr

/-- The LCM branch of `handleStream`: the metadata of the stream the proxy opens towards the
    serving cluster, given the metadata of the stream it received.  `source = server`,
    `target = client` (see `StreamWorkflowReplicationMessages`).  `none` = panic. -/
def lcmForward (p : LCMParams) (md : StreamMD) : Option StreamMD :=
  match mapShardIDUnique p.lcm p.targetShardCount md.serverShard with
  | none => none
  | some real => some
    { clientCluster := md.clientCluster
      clientShard   := md.serverShard          -- the initiator's shard id is the LCM shard itself
      serverCluster := md.serverCluster
      serverShard   := real }

/-- `DescribeCluster`: HistoryShardCount returned to the caller -/
def describeShardCount (mode : Mode) (p : LCMParams) (overrideShardCount : Int)
    (translationDisabled : Bool) (backendCount : Int) : Int :=
  if translationDisabled then backendCount
  else match mode with
    | .lcm => p.lcm
    | .routing => if overrideShardCount > 0 then overrideShardCount else backendCount
    | .default => backendCount

end S2S.Shard
