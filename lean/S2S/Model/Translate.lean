/-
Model of the reflective namespace visitor at the level of STRUCTURAL PATHS (C12, C16), and of
the table-driven decisions it makes (interceptor/reflection.go: visitNamespace, visitDataBlobs,
isSkippableForNamespaceTranslation, getParentFieldType).  CORE LEAN ONLY.

The Go type graph (`Graph`) and the code's tables (`Tables`) are REGENERATED from /repo on every
run (`S2S/Gen/TypeGraph*.lean`, written by go/eng/extract_test.go): types are the generated
protobuf structs exactly as `visit.Values` walks them (exported fields; pointers, slices, maps
and oneof wrapper structs followed), names are interned as `Nat`s so that every check below is
kernel-evaluable.

`visit.Values` descends into every exported field of every struct it reaches, so a value at the
end of a structural path is always *reached*; whether a namespace string there is *translated*
depends only on (1) the Go name of the leaf field being in `namespaceFieldNames` and the field
being a plain Go `string` (or the leaf being `NamespaceInfo.Name`), (2) every DataBlob crossed on
the way having a field name in `dataBlobFieldNames`, and (3) no history event on the way having
been skipped by the `isSkippableForNamespaceTranslation` shortcut.
-/
namespace S2S.Translate

structure FieldD where
  go       : Nat          -- interned Go field name
  oracleNs : Bool         -- descriptor oracle: string field whose proto name is `namespace` / `*_namespace`
  goString : Bool         -- Go type is exactly `string`
  blob     : Bool         -- Go type `*DataBlob` or `[]*DataBlob`
  sa       : Bool         -- search-attribute container (`*SearchAttributes` or `map[string]*Payload` named search_attributes)
  targets  : List Nat     -- struct types reachable through the field
deriving Repr, DecidableEq

structure TypeD where
  id     : Nat
  fields : List FieldD
deriving Repr, DecidableEq

structure Graph where
  types         : List TypeD
  eventType     : Nat       -- history.v1.HistoryEvent
  historyType   : Nat       -- history.v1.History
  namespaceInfo : Nat       -- namespace.v1.NamespaceInfo
  nameField     : Nat       -- interned "Name"
  attributesField : Nat     -- interned "Attributes" (HistoryEvent's oneof)
  linksField    : Nat       -- interned "Links"
deriving Repr

structure Tables where
  ns    : List Nat                 -- namespaceFieldNames
  blob  : List Nat                 -- dataBlobFieldNames
  sa    : List Nat                 -- searchAttributeFieldNames
  skipAttr : List Nat              -- attribute struct types of the skippable event types
  reviewedNonEventBlob : List (Nat × Nat)   -- (type, field name): DataBlob fields that do not hold history events
deriving Repr

/-- type ids are positions in the table (checked: `idsOK`) -/
def Graph.typeD (g : Graph) (t : Nat) : TypeD := g.types[t]?.getD ⟨t, []⟩
def Graph.field? (g : Graph) (t i : Nat) : Option FieldD := (g.typeD t).fields[i]?

/-- one step of a structural path -/
inductive Step where
  | field (ty idx next : Nat)   -- from struct `ty` through its field number `idx` into struct `next`
  | blob (ty idx : Nat)         -- from struct `ty` through its DataBlob field `idx` into the decoded `[]*HistoryEvent`
deriving Repr, DecidableEq

/-- a structural path to a namespace-name leaf: steps, then the leaf field `(ty, idx)` -/
structure Path where
  steps : List Step
  leafTy : Nat
  leafIdx : Nat
deriving Repr, DecidableEq

/-- does the visitor translate a namespace name sitting at the leaf field? -/
def leafTranslated (g : Graph) (tb : Tables) (ty idx : Nat) : Bool :=
  match g.field? ty idx with
  | none => false
  | some f =>
    (ty == g.namespaceInfo && f.go == g.nameField && f.goString) ||   -- NamespaceInfo.Name, by type
    (f.goString && tb.ns.contains f.go)                                 -- namespaceFieldNames, by Go field name

/-- after the `Attributes` step out of an event, the next step enters the attributes message:
    is that message the attributes type of a skippable event type? -/
def entersSkippable (tb : Tables) : List Step → Bool
  | .field _ _ attr :: _ => tb.skipAttr.contains attr
  | _ => false

/-- walk the steps; `inEvents` = the current struct is an element of a history-event list on which the
    visitor applies the skip shortcut: an element of `History.Events` (each event is visited through a
    recursive `visitNamespace` call) or the single event of a decoded blob -/
def walk (g : Graph) (tb : Tables) : List Step → Bool → Bool
  | [], _ => true
  | .field ty idx next :: rest, inEvents =>
    match g.field? ty idx with
    | none => false
    | some f =>
      if !f.targets.contains next then false
      -- the shortcut: a skippable event (no namespace in its links on this path) is not walked at all
      else if inEvents && ty == g.eventType && f.go == g.attributesField && entersSkippable tb rest then false
      else walk g tb rest (ty == g.historyType && next == g.eventType)
  | .blob ty idx :: rest, _ =>
    match g.field? ty idx with
    | none => false
    | some f => if f.blob && tb.blob.contains f.go then walk g tb rest true else false

def translates (g : Graph) (tb : Tables) (p : Path) : Bool :=
  walk g tb p.steps false && leafTranslated g tb p.leafTy p.leafIdx

end S2S.Translate
