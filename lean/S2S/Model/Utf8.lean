/-
Model for C17 (UTF-8 repair is invisible on valid data and faithful on invalid data).  CORE LEAN ONLY.

 (i)   `validUtf8` / `toValidUtf8` mirror Go's `utf8.ValidString` / `strings.ToValidUTF8(s, "�")`
       (go1.26 `unicode/utf8/utf8.go`: tables `first` / `acceptRanges`, `decodeRuneInStringSlow`;
       `strings/strings.go`: `ToValidUTF8`).
 (ii)  `repairFailureChain` mirrors `repairInvalidUTF8InFailure` (/repo/proto/compat/repair_utf8.go).
 (iii) `codecUnmarshal` mirrors the decision logic of `RepairUTF8Codec.Unmarshal` +
       `convertAndRepairInvalidUTF8` (/repo/proto/compat/codec.go, repair_utf8.go) as a function of
       the outcomes of its stages; `blobTranslate` does the same for `translateOneDataBlob` +
       `tryRepairInvalidUTF8InBlob` (/repo/interceptor/reflection.go).
The protobuf codecs, the legacy (gogo) round trip and the serializer are parameters (stage outcomes):
modelled, not verified; the harness validates them on the real code.
-/
namespace S2S.Utf8

abbrev Bytes := List UInt8

/-! ## (i) Go's UTF-8 decoding -/

/-- `utf8.first[b]` together with `acceptRanges[first[b]>>4]`, as (size, lo, hi) for the second byte.
    size 1 = ASCII (`as`), size 0 = illegal starter byte (`xx`). -/
def first (b : UInt8) : Nat × Nat × Nat :=
  let n := b.toNat
  if n < 0x80 then (1, 0, 0)                 -- as
  else if n < 0xC2 then (0, 0, 0)            -- xx: continuation bytes, C0, C1
  else if n < 0xE0 then (2, 0x80, 0xBF)      -- s1
  else if n = 0xE0 then (3, 0xA0, 0xBF)      -- s2 (no overlong 3-byte forms)
  else if n = 0xED then (3, 0x80, 0x9F)      -- s4 (no surrogates D800-DFFF)
  else if n < 0xF0 then (3, 0x80, 0xBF)      -- s3
  else if n = 0xF0 then (4, 0x90, 0xBF)      -- s5 (no overlong 4-byte forms)
  else if n < 0xF4 then (4, 0x80, 0xBF)      -- s6
  else if n = 0xF4 then (4, 0x80, 0x8F)      -- s7 (nothing above U+10FFFF)
  else (0, 0, 0)                             -- xx: F5..FF

def inRange (lo hi : Nat) (b : UInt8) : Bool := lo ≤ b.toNat && b.toNat ≤ hi

/-- continuation byte `locb ≤ b ≤ hicb` -/
def isCont (b : UInt8) : Bool := inRange 0x80 0xBF b

/-- `utf8.DecodeRuneInString(s)` reduced to what `ValidString` / `ToValidUTF8` use: the width of the
    well-formed rune at the head of `s`, or `0` when Go returns `(RuneError, 1)` for an ill-formed or
    truncated head (or `s` is empty).  A well-formed U+FFFD (EF BF BD) has width 3, so "width 1 and
    RuneError" in Go is exactly `runeLen = 0` on a non-empty input. -/
def runeLen : Bytes → Nat
  | [] => 0
  | b0 :: rest =>
    match first b0 with
    | (1, _, _) => 1
    | (2, lo, hi) =>
      match rest with
      | b1 :: _ => if inRange lo hi b1 then 2 else 0
      | _ => 0
    | (3, lo, hi) =>
      match rest with
      | b1 :: b2 :: _ => if inRange lo hi b1 && isCont b2 then 3 else 0
      | _ => 0
    | (4, lo, hi) =>
      match rest with
      | b1 :: b2 :: b3 :: _ => if inRange lo hi b1 && isCont b2 && isCont b3 then 4 else 0
      | _ => 0
    | _ => 0

/-- `utf8.ValidString` with explicit fuel (one unit per rune; `s.length` always suffices). -/
def validGo : Nat → Bytes → Bool
  | _, [] => true
  | 0, _ :: _ => false
  | fuel + 1, s@(_ :: _) =>
    let n := runeLen s
    if n = 0 then false else validGo fuel (s.drop n)

def validUtf8 (s : Bytes) : Bool := validGo s.length s

/-- the replacement string "�" -/
def repl : Bytes := [0xEF, 0xBF, 0xBD]

/-- The second loop of `strings.ToValidUTF8` (`invalid` = "previous byte was from an invalid UTF-8
    sequence"), with explicit fuel. The first loop / fast path only decides whether the input is
    returned unchanged; `toValidUtf8_of_valid` proves the second loop does the same on valid input. -/
def toValidGo : Nat → Bool → Bytes → Bytes
  | _, _, [] => []
  | 0, _, _ :: _ => []
  | fuel + 1, invalid, s@(_ :: rest) =>
    let n := runeLen s
    if n = 0 then
      (if invalid then [] else repl) ++ toValidGo fuel true rest
    else
      s.take n ++ toValidGo fuel false (s.drop n)

def toValidUtf8 (s : Bytes) : Bytes := toValidGo s.length false s

/-! ## (ii) `repairInvalidUTF8InFailure` -/

def maxFailureDepth : Nat := 10

inductive Err where
  | maxDepth     -- "reached maximum failure chain depth"
deriving DecidableEq, Repr

/-- The `for count := 0; failure != nil && count < maxFailureDepth; count++` loop over the chain
    (outermost message first).  Returns (changed, chain after the in-place updates, rest not visited?). -/
def repairLoop : Nat → List Bytes → Bool × List Bytes × Bool
  | _, [] => (false, [], false)
  | 0, rest@(_ :: _) => (false, rest, true)
  | budget + 1, m :: rest =>
    let (c, rest', over) := repairLoop budget rest
    if validUtf8 m then (c, m :: rest', over) else (true, toValidUtf8 m :: rest', over)

/-- What a call of `repairInvalidUTF8InFailure` leaves behind: the returned `changed`, the returned
    error, and the chain as mutated in place (the first `depthBound` messages are repaired even when
    the error is returned). -/
structure ChainOutcome where
  changed : Bool
  chain   : List Bytes
  err     : Option Err
deriving DecidableEq, Repr

def repairFailureChainFull (chain : List Bytes) (depthBound : Nat := maxFailureDepth) : ChainOutcome :=
  let (c, ch, over) := repairLoop depthBound chain
  { changed := c, chain := ch, err := if over then some .maxDepth else none }

/-- The function's result as a value: error when the chain is longer than the bound. -/
def repairFailureChain (chain : List Bytes) (depthBound : Nat := maxFailureDepth) : Except Err (Bool × List Bytes) :=
  let o := repairFailureChainFull chain depthBound
  match o.err with
  | some e => .error e
  | none => .ok (o.changed, o.chain)

/-! ## (iii) the codec's decision logic -/

/-- `c.delegate.Unmarshal(data, v)` seen through `common.IsInvalidUTF8Error` -/
inductive Delegate where
  | ok | invalidUtf8 | otherErr
deriving DecidableEq, Repr

/-- `RepairInvalidUTF8(msg122)`: `(changed, err)`; an error wins over `changed` -/
inductive RepairRes where
  | changed | unchanged | err
deriving DecidableEq, Repr

/-- outcomes of the stages of `Unmarshal` + `convertAndRepairInvalidUTF8`, in program order -/
structure Stages where
  delegate    : Delegate
  marshaler   : Bool        -- `v.(common.Marshaler)` succeeds
  convertible : Bool        -- `adminConvertTo122(v)` or `frontendConvertTo122(v)` has a case
  legacy      : Bool        -- `msg122.Unmarshal(data)` succeeds
  repair      : RepairRes
  remarshal   : Bool        -- `msg122.Marshal()` succeeds
  reunmarshal : Bool        -- `vMarshaler.Unmarshal(repaired)` succeeds
deriving DecidableEq, Repr

/-- where `convertAndRepairInvalidUTF8` stopped -/
inductive RepairStage where
  | notMarshaler | notConvertible | legacyUnmarshal | repairError | nothingRepaired | remarshal | reunmarshal
  | repaired
deriving DecidableEq, Repr

/-- `convertAndRepairInvalidUTF8`: `repaired` = returned nil -/
def convertAndRepair (s : Stages) : RepairStage :=
  if !s.marshaler then .notMarshaler
  else if !s.convertible then .notConvertible
  else if !s.legacy then .legacyUnmarshal
  else match s.repair with
    | .err => .repairError
    | .unchanged => .nothingRepaired
    | .changed =>
      if !s.remarshal then .remarshal
      else if !s.reunmarshal then .reunmarshal
      else .repaired

inductive CodecResult where
  | okDelegate                         -- nil, `v` filled by the delegate
  | okRepaired                         -- nil, `v` filled from the repaired legacy message
  | errOther                           -- the delegate's (non UTF-8) error, returned as is
  | errInvalidUtf8 (stage : RepairStage)  -- the delegate's invalid-UTF-8 error; repair stopped at `stage`
deriving DecidableEq, Repr

/-- `RepairUTF8Codec.Unmarshal`; second component: was the repair path entered? -/
def codecUnmarshal (s : Stages) : CodecResult × Bool :=
  match s.delegate with
  | .ok => (.okDelegate, false)
  | .otherErr => (.errOther, false)
  | .invalidUtf8 =>
    match convertAndRepair s with
    | .repaired => (.okRepaired, true)
    | st => (.errInvalidUtf8 st, true)

def CodecResult.isOk : CodecResult → Bool
  | .okDelegate | .okRepaired => true
  | _ => false

/-! ## (iii') `translateOneDataBlob` + `tryRepairInvalidUTF8InBlob` (history blobs) -/

structure BlobStages where
  empty        : Bool        -- blob nil or no data
  deserialize  : Delegate    -- `serializer.DeserializeEvents`
  legacy       : Bool        -- `gogoSerializer.DeserializeEvents`
  repair       : RepairRes   -- `validateAndRepairHistoryEvents`
  reserialize  : Bool        -- `gogoSerializer.SerializeEvents`
  redeserialize : Bool       -- `serializer.DeserializeEvents` of the repaired blob
  visitor      : Option Bool -- `visitor(events)`: none = error, some matched
  serialize    : Bool        -- `serializer.SerializeEvents` (only when matched or changed)
deriving DecidableEq, Repr

inductive BlobResult where
  | unchanged            -- the input blob is returned, no error
  | rewritten            -- a re-serialised blob is returned (events translated and/or repaired)
  | error                -- an error is returned (with the input blob)
deriving DecidableEq, Repr

/-- Deviation of the current code from the property (defect flag, DESIGN §4): when the legacy
    reading of the blob holds nothing the repair can fix, `tryRepairInvalidUTF8InBlob` returns
    `(nil, false, nil)` and `translateOneDataBlob` carries on with the events of the failed
    deserialisation, so the undecodable blob is passed on without an error.
    `asIs` mirrors the PINNED tree (before the `fix:` commit); `fixed` is the current code: it reports that case as an error (like the codec's
    "nothing was repaired"). -/
structure BlobDefects where
  unrepairablePassedSilently : Bool
deriving DecidableEq, Repr

def BlobDefects.asIs : BlobDefects := ⟨true⟩
def BlobDefects.fixed : BlobDefects := ⟨false⟩

/-- `tryRepairInvalidUTF8InBlob`: (events available?, changed, err?) -/
def tryRepairBlob (s : BlobStages) (d : BlobDefects := .fixed) : Bool × Bool × Bool :=
  if !s.legacy then (false, false, true)
  else match s.repair with
    | .err => (false, false, true)          -- (nil, changed, err): the caller returns on err
    | .unchanged => (false, false, !d.unrepairablePassedSilently)
    | .changed =>
      if !s.reserialize then (false, true, true)
      else if !s.redeserialize then (false, true, true)
      else (true, true, false)

/-- `translateOneDataBlob`: (result, matched, changed, repair path entered) -/
def blobTranslate (s : BlobStages) (d : BlobDefects := .fixed) : BlobResult × Bool × Bool × Bool :=
  if s.empty then (.unchanged, false, false, false)
  else
    let fin (changed entered : Bool) : BlobResult × Bool × Bool × Bool :=
      match s.visitor with
      | none => (.error, false, changed, entered)
      | some m =>
        if m || changed then
          (if s.serialize then .rewritten else .error, m, changed, entered)
        else (.unchanged, m, changed, entered)
    match s.deserialize with
    | .ok => fin false false
    | .otherErr => (.error, false, false, false)
    | .invalidUtf8 =>
      let (_, changed, err) := tryRepairBlob s d
      if err then (.error, false, changed, true)
      else fin changed true

end S2S.Utf8
