import S2S.Spec.RoutingFaults
/-!
C04 modulo the recorded findings, TIGHT form (core Lean only).

`Spec/RoutingFaults.lean` excuses every task that was handed to an incarnation of its target stream that has broken
since. That identifies finding `C04-target-break-loses-inflight` by the category of the task only. The recorded defect
has a narrower mechanism: the lost task is acknowledged because a LATER incarnation of the same target stream takes a
message of the SAME source stream whose watermark lies above the task (a replayed or new watermark, or later tasks), and
confirms that. This file states the property with exactly that excuse, so that a different way of acknowledging a lost
task (for example one that needs no later message of that source at all) is not excused.
-/
namespace S2S.Routing

/-- the largest task id / the watermark a queued message carries -/
def msgHigh : Msg → Int
  | .tasks _ ids => ids.getLast?.getD 0
  | .wm _ h => h

def msgSrc : Msg → SId
  | .tasks s _ => s
  | .wm s _ => s

/-- ghost bookkeeping of the tight statement: `Ghost` plus, per target stream, the lost tasks that a LATER incarnation of
    that target stream has since "passed": it took a message of the same source stream carrying a larger id / watermark -/
structure GhostT where
  g : Ghost := {}
  passed : List (TId × List (SId × Int)) := []
deriving Repr, DecidableEq

def GhostT.passedOf (γ : GhostT) (t : TId) : List (SId × Int) := (aget γ.passed t).getD []

def GhostT.next (c : Cfg) (σ : State) (γ : GhostT) (a : Act) : GhostT :=
  let g' := γ.g.next c σ a
  match step c σ a with
  | none => γ
  | some _ =>
    match a with
    | .take t =>
      match (σ.tgt t).sendChan with
      | [] => { γ with g := g' }
      | m :: _ =>
        let newly := (γ.g.lostOf t).filter fun p => p.1 == msgSrc m && p.2 < msgHigh m
        { g := g', passed := aset γ.passed t (γ.passedOf t ++ newly) }
    | _ => { γ with g := g' }

/-- the environment hypothesis is the one of `Spec/RoutingFaults.lean` (the extra ghost field plays no part in it) -/
def EnvOKT (c : Cfg) : State → GhostT → List Act → Prop
  | _, _, [] => True
  | σ, γ, a :: rest =>
    (match a with
     | .recv s tasks high => RecvOK σ.targets.length (σ.src s) tasks high ∧ RecvFresh σ γ.g s tasks
     | _ => True) ∧ EnvOKT c ((step c σ a).getD σ) (γ.next c σ a) rest

instance EnvOKT.dec (c : Cfg) : (σ : State) → (γ : GhostT) → (acts : List Act) → Decidable (EnvOKT c σ γ acts)
  | _, _, [] => isTrue trivial
  | σ, γ, a :: rest => by
    unfold EnvOKT
    have := EnvOKT.dec c ((step c σ a).getD σ) (γ.next c σ a) rest
    cases a <;> exact inferInstance

/-- tight excuse: (b) as before — the task was (also) received by an earlier incarnation of the source stream; (a) the
    task was lost with an incarnation of its target stream AND a later incarnation of that target stream has taken a
    message of the same source stream that lies above it -/
def ExcusedT (σ : State) (γ : GhostT) (s : SId) (p : Int × TId) : Prop :=
  p ∈ (σ.src s).received.take (γ.g.baseOf s) ∨ (s, p.1) ∈ γ.passedOf p.2

instance (σ : State) (γ : GhostT) (s : SId) (p : Int × TId) : Decidable (ExcusedT σ γ s p) := by
  unfold ExcusedT; exact inferInstance

def AckStepSafeT (σ σ' : State) (γ' : GhostT) : Prop :=
  ∀ s, s < σ'.sources.length → ∀ v ∈ newAcks σ σ' s,
    ∀ p ∈ (σ'.src s).received, p.1 < v → Confirmed σ' s p.1 p.2 ∨ ExcusedT σ' γ' s p

instance (σ σ' : State) (γ' : GhostT) : Decidable (AckStepSafeT σ σ' γ') := by
  unfold AckStepSafeT; exact inferInstance

def AcksSafeTAlong (c : Cfg) : State → GhostT → List Act → Prop
  | _, _, [] => True
  | σ, γ, a :: rest =>
    match step c σ a with
    | some σ' => AckStepSafeT σ σ' (γ.next c σ a) ∧ AcksSafeTAlong c σ' (γ.next c σ a) rest
    | none => AcksSafeTAlong c σ γ rest

instance AcksSafeTAlong.dec (c : Cfg) : (σ : State) → (γ : GhostT) → (acts : List Act) → Decidable (AcksSafeTAlong c σ γ acts)
  | _, _, [] => isTrue trivial
  | σ, γ, a :: rest => by
    unfold AcksSafeTAlong
    cases h : step c σ a with
    | none => simp only; exact AcksSafeTAlong.dec c σ γ rest
    | some σ' => simp only; have := AcksSafeTAlong.dec c σ' (γ.next c σ a) rest; exact inferInstance

end S2S.Routing
