import S2S.Spec.RoutingFaults
/-!
C03's safety half for runs WITH faults (core Lean only). With stream breaks an acknowledgement sequence may restart lower
after a source stream restart (a new receiver incarnation starts from `lastSentMin = 0`); what must still hold is
monotonicity and boundedness WITHIN one incarnation of the source stream, whatever the targets do (break, reconnect,
re-acknowledge lower levels).
-/
namespace S2S.Routing

/-- ghost: per source stream, how many acknowledgements had been sent when its current incarnation opened -/
structure AckGhost where
  ackBase : List (SId × Nat) := []
deriving Repr, DecidableEq

def AckGhost.baseOf (γ : AckGhost) (s : SId) : Nat := (aget γ.ackBase s).getD 0

def AckGhost.next (c : Cfg) (σ : State) (γ : AckGhost) (a : Act) : AckGhost :=
  match step c σ a with
  | none => γ
  | some _ =>
    match a with
    | .openSrc s => { ackBase := aset γ.ackBase s (σ.src s).acksSent.length }
    | _ => γ

/-- thread the ghost along a run -/
def runAG (c : Cfg) : State → AckGhost → List Act → State × AckGhost
  | σ, γ, [] => (σ, γ)
  | σ, γ, a :: rest => runAG c ((step c σ a).getD σ) (γ.next c σ a) rest

/-- the acknowledgements the CURRENT incarnation of source stream `s` has sent -/
def curAcks (σ : State) (γ : AckGhost) (s : SId) : List Int := (σ.src s).acksSent.drop (γ.baseOf s)

end S2S.Routing
