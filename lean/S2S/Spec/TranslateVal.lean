import S2S.Model.TranslateVal
/-!
Specification vocabulary for the value-level theorems (C12V / C13V / C14V), core Lean only:

* `unflag`     forget the "re-encoded" marks of blobs (they are not part of the Go value);
* `eraseV`     blank every namespace-name leaf (every string the visitor COULD assign: plain-string field whose Go name is
               in `namespaceFieldNames` and not in `dataBlobFieldNames`, and `NamespaceInfo.Name`), everywhere in the tree
               (also inside events the shortcut skips and blobs it does not open) and forget the re-encoded marks;
* `namesV`     the names the namespace visitor offers to the matcher (respecting the skip shortcut, blob recognition, the
               `History` recursion);
* `shape`      the tree with every string collapsed to "empty / non-empty" (what the skip shortcut can see of names);
* `saSpecV`    the simultaneous renaming of the keys of every search-attribute container the visitor reaches;
* `saKeysV`    the keys of those containers.
-/
namespace S2S.TranslateVal
open S2S.Translate S2S.NameMap

variable {α : Type} [DecidableEq α]

/-- the direct sub-lists of a value (for induction) -/
def Val.kids : Val α → List (Val α)
  | .msg _ l => l
  | .list l => l
  | .map l => l
  | .blobEv _ l => l
  | _ => []

mutual
def unflag : Val α → Val α
  | .msg ty fs => .msg ty (unflagL fs)
  | .list l => .list (unflagL l)
  | .map l => .map (unflagL l)
  | .kv k v => .kv k (unflag v)
  | .blobEv _ evs => .blobEv false (unflagL evs)
  | .str s => .str s
  | .tok t => .tok t
  | .payload t => .payload t
  | .nil k => .nil k
  | .blobRaw e t => .blobRaw e t
def unflagL : List (Val α) → List (Val α)
  | [] => []
  | v :: vs => unflag v :: unflagL vs
end

section
variable (g : Graph) (tb : Tables) (X : Ext α)

/-- the visitor can assign to this field of a struct (`ni`: the struct is a NamespaceInfo) -/
def nsLeafOf (ni : Bool) (f : FieldD) : Bool :=
  (ni && f.go == g.nameField && f.goString) || isNsLeafField tb f

variable (c : α → α)
mutual
def eraseV (fc : Option FieldD) : Val α → Val α
  | .str s =>
    match fc with
    | some f => if isNsLeafField tb f then .str (c s) else .str s
    | none => .str s
  | .msg ty fs => .msg ty (eraseFields (ty == g.namespaceInfo) (g.typeD ty).fields fs)
  | .list l => .list (eraseItems l)
  | .map l => .map (eraseItems l)
  | .kv k v => .kv k (eraseV none v)
  | .blobEv _ evs => .blobEv false (eraseItems evs)
  | .tok t => .tok t
  | .payload t => .payload t
  | .nil k => .nil k
  | .blobRaw e t => .blobRaw e t
def eraseFields (ni : Bool) : List FieldD → List (Val α) → List (Val α)
  | f :: fds, v :: vs =>
    (match v with
     | .str s => if nsLeafOf g tb ni f then Val.str (c s) else .str s
     | w => eraseV (some f) w) :: eraseFields ni fds vs
  | [], vs => vs
  | _ :: _, [] => []
def eraseItems : List (Val α) → List (Val α)
  | [] => []
  | v :: vs => eraseV none v :: eraseItems vs
end

/-! names offered to the matcher -/
mutual
def namesV (fc : Option FieldD) : Val α → List α
  | .str s =>
    match fc with
    | some f => if isNsLeafField tb f then [s] else []
    | none => []
  | .msg ty fs =>
    let mode : FMode := if ty == g.historyType then .hist else if ty == g.namespaceInfo then .nsInfo else .plain
    namesFields mode (g.typeD ty).fields fs
  | .list items => namesItems (if blobCtx tb fc then .blobs else .plain) items
  | .map es => namesItems .plain es
  | .kv _ v => namesV none v
  | .blobEv _ evs => if blobCtx tb fc && !listSkippable g tb X evs then namesItems .plain evs else []
  | _ => []
def namesFields (mode : FMode) : List FieldD → List (Val α) → List α
  | f :: fds, v :: vs =>
    (match mode with
     | .hist => (match v with
                 | .list items => if f.go == X.eventsField then namesItems .events items else []
                 | _ => [])
     | .nsInfo => (match v with
                   | .str s => if nsLeafOf g tb true f then [s] else []
                   | w => namesV (some f) w)
     | .plain => namesV (some f) v) ++ namesFields mode fds vs
  | _, _ => []
def namesItems (mode : IMode) : List (Val α) → List α
  | [] => []
  | v :: vs =>
    (match mode with
     | .events => if evSkippable g tb X v then [] else namesV none v
     | .blobs => (match v with
                  | .blobEv _ evs => if listSkippable g tb X evs then [] else namesItems .plain evs
                  | w => namesV none w)
     | .plain => namesV none v) ++ namesItems mode vs
end

/-- the names `visitNamespace` offers to the matcher -/
def visitedNames (v : Val α) : List α := if rootSkippable g tb X v then [] else namesV g tb X none v

end

/-! `shape`: strings collapsed to empty (`none`) / non-empty (`some e`), every other atom kept -/
def shapeStr (e : α) (s : α) : Option α := if s = e then none else some e

mutual
def shape (e : α) : Val α → Val (Option α)
  | .str s => .str (shapeStr e s)
  | .tok t => .tok (some t)
  | .payload t => .payload (some t)
  | .nil k => .nil k
  | .msg ty fs => .msg ty (shapeL e fs)
  | .list l => .list (shapeL e l)
  | .map l => .map (shapeL e l)
  | .kv k v => .kv (some k) (shape e v)
  | .blobRaw b t => .blobRaw b (some t)
  | .blobEv _ evs => .blobEv false (shapeL e evs)
def shapeL (e : α) : List (Val α) → List (Val (Option α))
  | [] => []
  | v :: vs => shape e v :: shapeL e vs
end

/-- the `Ext` seen through `shape` -/
def Ext.shaped (X : Ext α) : Ext (Option α) :=
  { X with empty := none, evAttr := fun o => o.bind X.evAttr }

/-! search attributes -/
section
variable (g : Graph) (tb : Tables) (X : Ext α) (ρ : α → α)

mutual
def saSpecV (fc : Option FieldD) : Val α → Val α
  | .msg ty fs => .msg ty (saSpecFields (saNamed tb fc && saTyped fc) (g.typeD ty).fields fs)
  | .map es => .map (saSpecItems (if saNamed tb fc && saTyped fc then .ren else .plain) es)
  | .list items => .list (saSpecItems (if blobCtx tb fc then .blobs else .plain) items)
  | .kv k v => .kv k (saSpecV none v)
  | .blobEv re evs => if blobCtx tb fc then .blobEv re (saSpecItems .plain evs) else .blobEv re evs
  | .str s => .str s
  | .tok t => .tok t
  | .payload t => .payload t
  | .nil k => .nil k
  | .blobRaw e t => .blobRaw e t
def saSpecFields (cont : Bool) : List FieldD → List (Val α) → List (Val α)
  | f :: fds, v :: vs =>
    (match v with
     | .map es => Val.map (saSpecItems (if saRenField tb X cont f then .ren else .plain) es)
     | w => saSpecV (some f) w) :: saSpecFields cont fds vs
  | [], vs => vs
  | _ :: _, [] => []
def saSpecItems (mode : SMode) : List (Val α) → List (Val α)
  | [] => []
  | v :: vs =>
    (match mode with
     | .ren => (match v with
                | .kv k w => Val.kv (ρ k) (saSpecV none w)
                | w => saSpecV none w)
     | .blobs => (match v with
                  | .blobEv re evs => Val.blobEv re (saSpecItems .plain evs)
                  | w => saSpecV none w)
     | .plain => saSpecV none v) :: saSpecItems mode vs
end

/- the keys of the containers the search-attribute visitor rebuilds -/
mutual
def saKeysV (fc : Option FieldD) : Val α → List α
  | .msg ty fs => saKeysFields (saNamed tb fc && saTyped fc) (g.typeD ty).fields fs
  | .map es => saKeysItems (if saNamed tb fc && saTyped fc then .ren else .plain) es
  | .list items => saKeysItems (if blobCtx tb fc then .blobs else .plain) items
  | .kv _ v => saKeysV none v
  | .blobEv _ evs => if blobCtx tb fc then saKeysItems .plain evs else []
  | _ => []
def saKeysFields (cont : Bool) : List FieldD → List (Val α) → List α
  | f :: fds, v :: vs =>
    (match v with
     | .map es => saKeysItems (if saRenField tb X cont f then .ren else .plain) es
     | w => saKeysV (some f) w) ++ saKeysFields cont fds vs
  | _, _ => []
def saKeysItems (mode : SMode) : List (Val α) → List α
  | [] => []
  | v :: vs =>
    (match mode with
     | .ren => (match v with
                | .kv k w => k :: saKeysV none w
                | w => saKeysV none w)
     | .blobs => (match v with
                  | .blobEv _ evs => saKeysItems .plain evs
                  | w => saKeysV none w)
     | .plain => saKeysV none v) ++ saKeysItems mode vs
end
end

end S2S.TranslateVal
