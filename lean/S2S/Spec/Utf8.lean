import S2S.Model.Utf8
/-!
Spec vocabulary for C17 (core Lean only): the decomposition of a byte string into maximal valid
segments and maximal runs of ill-formed bytes, and the codec environment (the libraries the codec is
built from, as parameters).
-/
namespace S2S.Utf8

/-- a segment of the input: a maximal stretch of well-formed runes, or a maximal run of ill-formed bytes -/
inductive Seg where
  | good (b : Bytes)
  | bad (b : Bytes)
deriving DecidableEq, Repr

def Seg.bytes : Seg → Bytes
  | .good b => b
  | .bad b => b

/-- what `strings.ToValidUTF8(s, "�")` must make of a segment -/
def Seg.render : Seg → Bytes
  | .good b => b
  | .bad _ => repl

def flatten (l : List Seg) : Bytes := (l.map Seg.bytes).flatten
def render (l : List Seg) : Bytes := (l.map Seg.render).flatten

/-- `Decomp s segs`: `segs` cuts `s` into maximal valid segments and maximal invalid runs.
    * a `good` segment is non-empty valid UTF-8 and cannot be extended: what follows is the end of
      the input or an ill-formed head (`runeLen rest = 0` covers both);
    * a `bad` segment is non-empty, every one of its bytes is an ill-formed head *in its context*
      (Go decodes it as RuneError of width 1), and it cannot be extended: what follows is the end of
      the input or a well-formed rune. -/
inductive Decomp : Bytes → List Seg → Prop where
  | nil : Decomp [] []
  | good (g rest : Bytes) (segs : List Seg) :
      g ≠ [] → validUtf8 g = true → runeLen rest = 0 → Decomp rest segs →
      Decomp (g ++ rest) (.good g :: segs)
  | bad (b rest : Bytes) (segs : List Seg) :
      b ≠ [] → (∀ k, k < b.length → runeLen (b.drop k ++ rest) = 0) → (rest = [] ∨ 0 < runeLen rest) →
      Decomp rest segs →
      Decomp (b ++ rest) (.bad b :: segs)

/-- the libraries the codec is built from: standard decode (`none` = error, `stdUtf8` tells whether
    that error is an invalid-UTF-8 one), legacy decode, the generated repair visitor, legacy encode -/
structure CodecEnv (W M L : Type) where
  std        : W → Option M
  stdUtf8    : W → Bool
  marshaler  : Bool
  toLegacy   : Option (W → Option L)     -- `none`: no case in the conversion tables
  repair     : L → RepairRes × L
  fromLegacy : L → Option W

/-- `Unmarshal` with the stages executed on real values -/
def codecRun {W M L : Type} (env : CodecEnv W M L) (w : W) : Option M :=
  match env.std w with
  | some m => some m
  | none =>
    if !env.stdUtf8 w then none
    else if !env.marshaler then none
    else match env.toLegacy with
      | none => none
      | some dec =>
        match dec w with
        | none => none
        | some l =>
          match env.repair l with
          | (.changed, l') =>
            match env.fromLegacy l' with
            | none => none
            | some w' => env.std w'
          | _ => none

/-- `w'` is the re-encoding of the repaired legacy reading of `w` -/
def SanitisedCopy {W M L : Type} (env : CodecEnv W M L) (w w' : W) : Prop :=
  ∃ dec l l', env.toLegacy = some dec ∧ dec w = some l ∧ env.repair l = (.changed, l') ∧ env.fromLegacy l' = some w'

/-! ### standard UTF-8 (RFC 3629), as the reference the decoder model is compared with -/

/-- Unicode scalar value: a code point that is not a surrogate -/
def isScalar (c : Nat) : Bool := c < 0xD800 || (0xE000 ≤ c && c ≤ 0x10FFFF)

/-- the standard UTF-8 encoding of a code point (RFC 3629, shortest form) -/
def encodeRune (c : Nat) : Bytes :=
  if c < 0x80 then [UInt8.ofNat c]
  else if c < 0x800 then [UInt8.ofNat (0xC0 + c / 64), UInt8.ofNat (0x80 + c % 64)]
  else if c < 0x10000 then
    [UInt8.ofNat (0xE0 + c / 4096), UInt8.ofNat (0x80 + c / 64 % 64), UInt8.ofNat (0x80 + c % 64)]
  else
    [UInt8.ofNat (0xF0 + c / 262144), UInt8.ofNat (0x80 + c / 4096 % 64), UInt8.ofNat (0x80 + c / 64 % 64),
     UInt8.ofNat (0x80 + c % 64)]

end S2S.Utf8
