import S2S.Model.Translate
/-!
Specification vocabulary for C12 / C16 (core Lean only): the descriptor-side oracle for
"this leaf carries a namespace name", well-formed structural paths of the regenerated type
graph, and the finite coverage obligations (`typeOK`, `Covers`) that are discharged by
`decide +kernel` over the regenerated facts, one chunk of types per module.
-/
namespace S2S.Translate

/-- the oracle, independent of the code's tables: the leaf field carries a namespace name -/
def isNsLeaf (g : Graph) (ty idx : Nat) : Bool :=
  match g.field? ty idx with
  | some f => f.oracleNs || (ty == g.namespaceInfo && f.go == g.nameField)
  | none => false

/-- the steps form a path of the type graph from `cur` to `leafTy`; a DataBlob is only crossed where it
    holds serialized history events (i.e. it is not one of the reviewed non-event blobs) -/
def chain (g : Graph) (tb : Tables) : List Step → Nat → Nat → Bool
  | [], cur, leafTy => cur == leafTy
  | .field ty idx next :: rest, cur, leafTy =>
    ty == cur &&
    (match g.field? ty idx with
     | some f => f.targets.contains next
     | none => false) && chain g tb rest next leafTy
  | .blob ty idx :: rest, cur, leafTy =>
    ty == cur &&
    (match g.field? ty idx with
     | some f => f.blob && !tb.reviewedNonEventBlob.contains (ty, f.go)
     | none => false) && chain g tb rest g.eventType leafTy

/-- a structural path (any length, any nesting) from `root` to a namespace-name leaf -/
def WellFormed (g : Graph) (tb : Tables) (root : Nat) (p : Path) : Prop :=
  chain g tb p.steps root p.leafTy = true ∧ isNsLeaf g p.leafTy p.leafIdx = true

/-- per-type coverage obligation.  `mask` is the certificate for the skip shortcut: a set of types (bit
    set) that contains the attributes types of all skippable events, is closed under field targets, and
    contains no type that bears a namespace name or an event blob. -/
def typeOK (g : Graph) (tb : Tables) (mask : Nat) (t : TypeD) : Bool :=
  -- every namespace-name field is a plain Go string whose Go name is in namespaceFieldNames
  t.fields.all (fun f => !f.oracleNs || (f.goString && tb.ns.contains f.go)) &&
  -- NamespaceInfo.Name is a plain string (the visitor handles it by type)
  (t.id != g.namespaceInfo || t.fields.all (fun f => f.go != g.nameField || f.goString)) &&
  -- every DataBlob field is a recognised event blob or a reviewed non-event blob
  t.fields.all (fun f => !f.blob || tb.blob.contains f.go || tb.reviewedNonEventBlob.contains (t.id, f.go)) &&
  -- skip-shortcut certificate
  (!mask.testBit t.id ||
    (t.id != g.namespaceInfo &&
     t.fields.all (fun f => !f.oracleNs && f.targets.all mask.testBit &&
                            (!f.blob || tb.reviewedNonEventBlob.contains (t.id, f.go)))))

/-- type ids are the positions in the table (so `typeD` finds the declared entry) -/
def idsOK (types : List TypeD) : Bool := (List.range types.length).all (fun i => (types[i]?.map (·.id)) == some i)

def Covers (g : Graph) (tb : Tables) (mask : Nat) : Bool :=
  idsOK g.types && tb.skipAttr.all mask.testBit && g.types.all (typeOK g tb mask)

end S2S.Translate
