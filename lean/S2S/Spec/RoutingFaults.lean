import S2S.Spec.Routing
/-!
Specification vocabulary for the fault part of C04 (core Lean only): the statement
"every acknowledgement sent upstream covers only confirmed tasks — EXCEPT in the two recorded ways"
(`C04-target-break-loses-inflight`, `C04-source-restart-forgets-targets`), over runs with stream
breaks and re-opens at any position.

Ghost bookkeeping is kept OUTSIDE the machine (the model is not touched): it is a fold over the
same action list.
-/
namespace S2S.Routing

/-- tasks carried by a list of queued messages -/
def tasksOf (msgs : List Msg) : List (SId × Int) :=
  msgs.flatMap fun m => match m with
    | .tasks s ids => ids.map fun i => (s, i)
    | .wm _ _ => []

/-- ghost bookkeeping along a run -/
structure Ghost where
  /-- `base s` = number of tasks source stream `s` had received when its current incarnation opened -/
  base : List (SId × Nat) := []
  /-- `maxHigh s` = largest exclusive high watermark any incarnation of source stream `s` has announced -/
  maxHigh : List (SId × Int) := []
  /-- `lost t` = every task that was handed to an incarnation of target stream `t` that has broken since -/
  lost : List (TId × List (SId × Int)) := []
deriving Repr, DecidableEq

def Ghost.baseOf (γ : Ghost) (s : SId) : Nat := (aget γ.base s).getD 0
def Ghost.maxHighOf (γ : Ghost) (s : SId) : Int := (aget γ.maxHigh s).getD 0
def Ghost.lostOf (γ : Ghost) (t : TId) : List (SId × Int) := (aget γ.lost t).getD []

/-- ghost update for action `a` taken in state `σ` (only when the action is enabled) -/
def Ghost.next (c : Cfg) (σ : State) (γ : Ghost) (a : Act) : Ghost :=
  match step c σ a with
  | none => γ
  | some _ =>
    match a with
    | .openSrc s => { γ with base := aset γ.base s (σ.src s).received.length }
    | .recv s _ high => { γ with maxHigh := aset γ.maxHigh s (if high > γ.maxHighOf s then high else γ.maxHighOf s) }
    | .breakTgt t => { γ with lost := aset γ.lost t (γ.lostOf t ++ tasksOf (σ.tgt t).handed) }
    | _ => γ

/-- what Temporal's stream sender guarantees ACROSS restarts of a source stream, in addition to `RecvOK`:
    a restarted stream re-sends tasks it sent before (same owner) or sends tasks at or above every
    watermark it has already announced — it never invents a task below an announced watermark. -/
def RecvFresh (σ : State) (γ : Ghost) (s : SId) (tasks : List (Int × TId)) : Prop :=
  ∀ p ∈ tasks, p ∈ (σ.src s).received ∨ γ.maxHighOf s ≤ p.1

instance (σ : State) (γ : Ghost) (s : SId) (tasks : List (Int × TId)) : Decidable (RecvFresh σ γ s tasks) := by
  unfold RecvFresh; exact inferInstance

/-- environment hypothesis along a run with faults -/
def EnvOKF (c : Cfg) : State → Ghost → List Act → Prop
  | _, _, [] => True
  | σ, γ, a :: rest =>
    (match a with
     | .recv s tasks high => RecvOK σ.targets.length (σ.src s) tasks high ∧ RecvFresh σ γ s tasks
     | _ => True) ∧ EnvOKF c ((step c σ a).getD σ) (γ.next c σ a) rest

instance EnvOKF.dec (c : Cfg) : (σ : State) → (γ : Ghost) → (acts : List Act) → Decidable (EnvOKF c σ γ acts)
  | _, _, [] => isTrue trivial
  | σ, γ, a :: rest => by
    unfold EnvOKF
    have := EnvOKF.dec c ((step c σ a).getD σ) (γ.next c σ a) rest
    cases a <;> exact inferInstance

/-- the task `(id, t)` of source stream `s` is out of reach of the current incarnations in one of the two
    recorded ways: (b) it was (also) received by an earlier incarnation of the source stream, or
    (a) it was handed to an incarnation of its target stream that has broken since -/
def Excused (σ : State) (γ : Ghost) (s : SId) (p : Int × TId) : Prop :=
  p ∈ (σ.src s).received.take (γ.baseOf s) ∨ (s, p.1) ∈ γ.lostOf p.2

instance (σ : State) (γ : Ghost) (s : SId) (p : Int × TId) : Decidable (Excused σ γ s p) := by
  unfold Excused; exact inferInstance

/-- **C04 modulo the recorded findings, at one step** -/
def AckStepSafeF (σ σ' : State) (γ' : Ghost) : Prop :=
  ∀ s, s < σ'.sources.length → ∀ v ∈ newAcks σ σ' s,
    ∀ p ∈ (σ'.src s).received, p.1 < v → Confirmed σ' s p.1 p.2 ∨ Excused σ' γ' s p

instance (σ σ' : State) (γ' : Ghost) : Decidable (AckStepSafeF σ σ' γ') := by
  unfold AckStepSafeF; exact inferInstance

def AcksSafeFAlong (c : Cfg) : State → Ghost → List Act → Prop
  | _, _, [] => True
  | σ, γ, a :: rest =>
    match step c σ a with
    | some σ' => AckStepSafeF σ σ' (γ.next c σ a) ∧ AcksSafeFAlong c σ' (γ.next c σ a) rest
    | none => AcksSafeFAlong c σ γ rest

instance AcksSafeFAlong.dec (c : Cfg) : (σ : State) → (γ : Ghost) → (acts : List Act) → Decidable (AcksSafeFAlong c σ γ acts)
  | _, _, [] => isTrue trivial
  | σ, γ, a :: rest => by
    unfold AcksSafeFAlong
    cases h : step c σ a with
    | none => simp only; exact AcksSafeFAlong.dec c σ γ rest
    | some σ' => simp only; have := AcksSafeFAlong.dec c σ' (γ.next c σ a) rest; exact inferInstance

end S2S.Routing
