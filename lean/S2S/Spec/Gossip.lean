import S2S.Model.Gossip
/-!
Vocabulary of the C09 theorems: what "reached", "settled", "newest claim" and "owned only by" mean
over a state of the gossip machine.  All hypotheses are decidable predicates over the finite
histories the machine records (`claims`, `adds`, `ended`, `delivered`, `emitted`).  CORE LEAN ONLY.
-/
namespace S2S.Gossip

/-- the register announcement of claim `k` as addressed to `dst` -/
def regItem (k : Claim) (dst : NodeId) : Item := .ann .register k.node k.shard k.stamp dst

/-- a register announcement for shard `s` stamped `t` has been delivered to node `m` -/
def SawClaim (σ : State) (m : NodeId) (s : ShardId) (t : Time) : Prop :=
  ∃ src, Item.ann .register src s t m ∈ σ.delivered

/-- everything that was ever put in flight has been delivered at least once -/
def EmittedDelivered (σ : State) : Prop := ∀ it ∈ σ.emitted, it ∈ σ.delivered

def isRegister : Item → Bool
  | .ann .register _ _ _ _ => true
  | _ => false

/-- every register announcement that was emitted has been delivered to its addressee at least once -/
def RegistersDelivered (σ : State) : Prop := ∀ it ∈ σ.emitted, isRegister it = true → it ∈ σ.delivered

/-- no `RegisterShard(s)` is parked between `addLocalShard` and its broadcast -/
def AllAnnounced (σ : State) (s : ShardId) : Prop :=
  ∀ a ∈ σ.adds, a.2.1 = s → ∃ k ∈ σ.claims, k.node = a.1 ∧ k.shard = s ∧ k.created = a.2.2

/-- the announcement of every claim of `s` reached every other claimant of `s` at least once -/
def AllDelivered (σ : State) (s : ShardId) : Prop :=
  ∀ k ∈ σ.claims, ∀ k' ∈ σ.claims, k.shard = s → k'.shard = s → k.node ≠ k'.node →
    regItem k k'.node ∈ σ.delivered

/-- no stream of `s` ended on its own (`UnregisterShard` from the stream's exit path removed nothing) -/
def NoStreamEnd (σ : State) (s : ShardId) : Prop := ∀ e ∈ σ.ended, e.2.1 ≠ s

/-- the situation the ownership clause speaks about: the shard was claimed, every claim is announced
    and has reached the other claimants, and no claimant's stream has ended -/
structure Settled (σ : State) (s : ShardId) : Prop where
  claimed   : ∃ k ∈ σ.claims, k.shard = s
  announced : AllAnnounced σ s
  delivered : AllDelivered σ s
  noEnd     : NoStreamEnd σ s

/-- there is a unique newest claim: claims of different nodes never share a `Created` stamp -/
def DistinctCreated (σ : State) (s : ShardId) : Prop :=
  ∀ k ∈ σ.claims, ∀ k' ∈ σ.claims, k.shard = s → k'.shard = s → k.node ≠ k'.node → k.created ≠ k'.created

/-- claim windows `[Created, stamp]` of different nodes are disjoint (strictly: this also makes their stamps distinct) -/
def DisjointWindows (σ : State) (s : ShardId) : Prop :=
  ∀ k ∈ σ.claims, ∀ k' ∈ σ.claims, k.shard = s → k'.shard = s → k.node ≠ k'.node →
    k.stamp < k'.created ∨ k'.stamp < k.created

/-- `k` is a newest claim of `s` (largest `Created`) -/
def IsNewest (σ : State) (s : ShardId) (k : Claim) : Prop :=
  k ∈ σ.claims ∧ k.shard = s ∧ ∀ k' ∈ σ.claims, k'.shard = s → k'.created ≤ k.created

/-- node `n` holds `s` (registered at `c`) and nobody else holds it -/
def OwnersAre (σ : State) (s : ShardId) (n : NodeId) (c : Time) : Prop :=
  ∀ m, aget (σ.node m).locals s = if m = n then some c else none

/-- nobody holds `s` -/
def Unowned (σ : State) (s : ShardId) : Prop := ∀ m, aget (σ.node m).locals s = none

instance (σ s) : Decidable (AllAnnounced σ s) := by unfold AllAnnounced; infer_instance
instance (σ s) : Decidable (AllDelivered σ s) := by unfold AllDelivered; infer_instance
instance (σ s) : Decidable (NoStreamEnd σ s) := by unfold NoStreamEnd; infer_instance
instance (σ s) : Decidable (DistinctCreated σ s) := by unfold DistinctCreated; infer_instance
instance (σ s) : Decidable (DisjointWindows σ s) := by unfold DisjointWindows; infer_instance
instance (σ) : Decidable (EmittedDelivered σ) := by unfold EmittedDelivered; infer_instance
instance (σ) : Decidable (RegistersDelivered σ) := by unfold RegistersDelivered; infer_instance
instance (σ s) : Decidable (Settled σ s) :=
  if h : (∃ k ∈ σ.claims, k.shard = s) ∧ AllAnnounced σ s ∧ AllDelivered σ s ∧ NoStreamEnd σ s then
    isTrue ⟨h.1, h.2.1, h.2.2.1, h.2.2.2⟩
  else isFalse fun s => h ⟨s.claimed, s.announced, s.delivered, s.noEnd⟩

/-- the action merges a snapshot of `n` into `m` (push/pull now, or a delayed one arriving) -/
def mergesFrom (n m : NodeId) : Act → Bool
  | .snapshot a b => a == n && b == m
  | .deliver (.snap a _ b) _ => a == n && b == m
  | _ => false

/-- the schedule never merges a snapshot of `n` into `m` -/
def NoMergeFrom (n m : NodeId) (acts : List Act) : Prop := ∀ a ∈ acts, mergesFrom n m a = false

/-- the action takes a snapshot of `n`'s state (only a running `n` can do that) -/
def snapshotsOf (n : NodeId) : Act → Bool
  | .snapshot a _ => a == n
  | .snapSend a _ => a == n
  | _ => false

/-- node `n` does nothing any more (it left): no snapshot of it is taken -/
def Silent (n : NodeId) (acts : List Act) : Prop := ∀ a ∈ acts, snapshotsOf n a = false

def isSnapFromTo (n m : NodeId) : Item → Bool
  | .snap a _ b => a == n && b == m
  | _ => false

/-- no snapshot of `n` is in flight towards `m` -/
def NoSnapInFlight (σ : State) (n m : NodeId) : Prop := ∀ it ∈ σ.net, isSnapFromTo n m it = false

instance (n m acts) : Decidable (NoMergeFrom n m acts) := by unfold NoMergeFrom; infer_instance
instance (n acts) : Decidable (Silent n acts) := by unfold Silent; infer_instance
instance (σ n m) : Decidable (NoSnapInFlight σ n m) := by unfold NoSnapInFlight; infer_instance

end S2S.Gossip
