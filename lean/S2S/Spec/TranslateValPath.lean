import S2S.Spec.TranslateVal
/-!
Structural paths (`S2S.Translate.Path`, the path model of C12) REALISED in a value tree: which value sits at the end of
a path, given a positional choice (`Pick`) at every step (element of a slice, entry of a map, blob of a `[]*DataBlob`,
event of a blob).  Core Lean only.
-/
namespace S2S.TranslateVal
open S2S.Translate S2S.NameMap
variable {α : Type} [DecidableEq α]

structure Pick where
  i : Nat     -- element of the slice / entry of the map / blob of the `[]*DataBlob` (ignored for a plain pointer)
  j : Nat     -- blob steps: the event inside the blob
deriving Repr, DecidableEq

/-- the struct a field value leads to: the pointer's target, the `i`-th element of a slice, the value of the `i`-th entry of a map -/
def pickChild (fv : Val α) (i : Nat) : Option (Val α) :=
  match fv with
  | .msg ty fs => some (.msg ty fs)
  | .list items => items[i]?
  | .map es => (match es[i]? with
                | some (.kv _ v) => some v
                | _ => none)
  | _ => none

/-- the decoded events of the blob a field value leads to (`*DataBlob`, or the `i`-th of a `[]*DataBlob`) -/
def pickEvents (fv : Val α) (i : Nat) : Option (List (Val α)) :=
  match fv with
  | .blobEv _ evs => some evs
  | .list items => (match items[i]? with
                    | some (.blobEv _ evs) => some evs
                    | _ => none)
  | _ => none

def asMsgOf (ty : Nat) (c : Val α) : Option (Val α) :=
  match c with
  | .msg n fs => if n = ty then some (.msg n fs) else none
  | _ => none

section
variable (g : Graph)

/-- one step of a structural path, taken in a value tree -/
def stepInto (v : Val α) (s : Step) (p : Pick) : Option (Val α) :=
  match v with
  | .msg ty' fs =>
    (match s with
     | .field ty idx next =>
       if ty' = ty then ((fs[idx]?).bind (fun fv => pickChild fv p.i)).bind (asMsgOf next) else none
     | .blob ty idx =>
       if ty' = ty then (((fs[idx]?).bind (fun fv => pickEvents fv p.i)).bind (fun evs => evs[p.j]?)).bind (asMsgOf g.eventType) else none)
  | _ => none

/-- the string at the end of the path (`none`: the path is not realised in this tree with these picks) -/
def leafAt (leafTy leafIdx : Nat) : Val α → List Step → List Pick → Option α
  | v, [], _ =>
    (match v with
     | .msg ty fs => if ty = leafTy then (match fs[leafIdx]? with
                                          | some (.str s) => some s
                                          | _ => none) else none
     | _ => none)
  | v, s :: rest, p :: ps => (stepInto g v s p).bind (fun c => leafAt leafTy leafIdx c rest ps)
  | _, _ :: _, [] => none

variable (tb : Tables) (X : Ext α)

/-- a `History` is left through its `Events` slice into an event (the only thing the code walks there) -/
def histOK (ty : Nat) (fs : List (Val α)) (next : List Step) : Bool :=
  match next with
  | .field _ idx nx :: _ =>
    (match g.field? ty idx with
     | some f => f.go == X.eventsField
     | none => false) && nx == g.eventType &&
    (match fs[idx]? with
     | some (.list _) => true
     | _ => false)
  | _ => false

/-- the path model blocks the path at an event of an event list: it leaves through `Attributes` into the attributes of
    a skippable event type -/
def blockedAt (next : List Step) : Bool :=
  match next with
  | .field ty' idx _ :: rest =>
    (match g.field? ty' idx with
     | some f => ty' == g.eventType && f.go == g.attributesField && entersSkippable tb rest
     | none => false)
  | _ => false

/-- side conditions at one node of a realised path (`next`: the remaining steps) under which the PATH model's reading of
    the tree is right:
    * `histOK`;
    * an event that the shortcut skips (decided on the VALUES: event-type field and link namespaces) is an event where the
      path model blocks the path (decided on the TYPE of the attributes the path enters) — true whenever the event's type
      field agrees with its attributes and the path does not end in an empty link namespace. -/
def nodeOK (v : Val α) (inEv : Bool) (next : List Step) : Bool :=
  match v with
  | .msg ty fs =>
    (ty != g.historyType || histOK g X ty fs next) &&
    (!(inEv && evSkippable g tb X (.msg ty fs)) || blockedAt g tb next)
  | _ => true

/-- `inEvents` of the path model after a step -/
def inEvAfter (s : Step) : Bool :=
  match s with
  | .blob _ _ => true
  | .field ty _ next => ty == g.historyType && next == g.eventType

def pathOK : Val α → List Step → List Pick → Bool → Bool
  | v, [], _, inEv => nodeOK g tb X v inEv []
  | v, s :: rest, p :: ps, inEv =>
    nodeOK g tb X v inEv (s :: rest) &&
    (match stepInto g v s p with
     | some c => pathOK c rest ps (inEvAfter g s)
     | none => true)
  | _, _ :: _, [], _ => false

/-- the two tables do not overlap (the visitor tests `dataBlobFieldNames` first) -/
def tablesDisjoint : Bool := tb.ns.all (fun n => !tb.blob.contains n)

end
end S2S.TranslateVal
