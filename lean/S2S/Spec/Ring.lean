import S2S.Model.Ring
/-!
Specification vocabulary for C05 (core Lean only): the history-defined reference `Ref`, the
property's hypotheses `Good`, the expected aggregation, and the ring's structural invariant.
-/
namespace S2S.Ring

/-- structural invariant of the physical ring -/
def Buf.WF (b : Buf) : Prop := 0 < b.cap ∧ b.size ≤ b.cap ∧ b.head < b.cap

/-- non-hole logical contents tagged with their proxy ids (slot `i` holds id `start + i`) -/
def Buf.pairs (b : Buf) : List (Int × Entry) :=
  (List.range b.size).filterMap (fun i => if (b.at i).isHole then none else some (b.start + (i : Int), b.at i))

/-- Reference state computed from the op history only. `[lo, hi)` is the outstanding slot window. -/
structure Ref where
  out : List (Int × Entry) := []
  lo  : Int := 0
  hi  : Int := 0
deriving Repr

def Ref.step (r : Ref) : Op → Ref
  | .append p e => { out := r.out ++ [(p, e)], lo := if r.hi = r.lo then p else r.lo, hi := p + 1 }
  | .aggregate _ => r
  | .discard n =>
    if n ≤ 0 then r
    else
      let c := if n > r.hi - r.lo then r.hi - r.lo else n
      { out := r.out.filter (fun x => decide (r.lo + c ≤ x.1)), lo := r.lo + c, hi := r.hi }

def Ref.run (ops : List Op) : Ref := ops.foldl Ref.step {}

/-- the property's hypotheses on a history: ids strictly increase, shards are real -/
def Good : Ref → List Op → Prop
  | _, [] => True
  | r, .append p e :: rest => (r.hi = r.lo ∨ r.hi ≤ p) ∧ e.isHole = false ∧ Good (r.step (.append p e)) rest
  | r, op :: rest => Good (r.step op) rest

instance Good.dec : (r : Ref) → (ops : List Op) → Decidable (Good r ops)
  | _, [] => isTrue trivial
  | r, .append p e :: rest =>
    have := Good.dec (r.step (.append p e)) rest
    by unfold Good; exact inferInstance
  | r, .aggregate w :: rest => by unfold Good; exact Good.dec _ rest
  | r, .discard n :: rest => by unfold Good; exact Good.dec _ rest

/-- what the property says an acknowledgement at `w` maps to for shard `k` -/
def Ref.expected (r : Ref) (w : Int) (k : Key) : Option Int :=
  ((r.out.filter (fun x => decide (x.1 ≤ w) && decide (x.2.key = k))).map (fun x => x.2.task)).max?

/-- number of outstanding slots with proxy id `≤ w` -/
def Ref.expectedCount (r : Ref) (w : Int) : Nat :=
  if w < r.lo then 0 else if w - r.lo + 1 > r.hi - r.lo then (r.hi - r.lo).toNat else (w - r.lo + 1).toNat

/-- the only arithmetic the code does on caller-supplied values that could leave int64 -/
def NoOverflow (r : Ref) (w : Int) : Prop := w - r.lo + 1 < two63 ∧ -two63 ≤ w - r.lo + 1

instance (r : Ref) (w : Int) : Decidable (NoOverflow r w) := by unfold NoOverflow; exact inferInstance

end S2S.Ring
