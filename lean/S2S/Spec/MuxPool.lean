import S2S.Model.MuxPool
/-!
Vocabulary of the C10 theorems: the benign ("peer reachable and healthy") continuation and its
termination measure, what it means for an execution to be maximal after `Cancel`, and which steps
abandon an open resource.  CORE LEAN ONLY.
-/
namespace S2S.MuxPool

def wsum (w : Conn → Nat) : List Conn → Nat
  | [] => 0
  | x :: r => w x + wsum w r

/-! ### healing continuation (progress) -/

/-- the actions of a continuation in which `NewConnection`, `sessionFn` and `Ping` succeed and pending
    clean-ups complete; an attempt that is already doomed (the peer shut its session down before the
    ping came back) is allowed to fail — once, since the next attempt succeeds -/
def healing (σ : St) : Act → Bool
  | .acquire | .connOk | .sessOk | .pingOk | .add | .cleanup _ | .release _ => true
  | .pingErr _ => match σ.phase with
    | .haveSession c => !(σ.conn c).sessOpen
    | _ => false
  | _ => false

/-- `acts` is a run of enabled healing actions from `σ` -/
def healRun (d : Defects) : St → List Act → Bool
  | _, [] => true
  | σ, a :: r => healing σ a && (match step d σ a with | some σ' => healRun d σ' r | none => false)

def Phase.healRank : Phase → Nat
  | .idle => 0 | .pinged _ => 1 | .haveSession _ => 2 | .haveConn _ => 3 | .acquired => 4 | .exited => 0

/-- the in-flight attempt cannot succeed any more -/
def St.doomed (σ : St) : Bool :=
  match σ.phase with
  | .haveSession c | .pinged c => !(σ.conn c).sessOpen
  | _ => false

def healWeight (x : Conn) : Nat :=
  match x.stage with
  | .cleaned _ => 6
  | .registered _ => if x.dying true then 7 else 0
  | _ => 0

/-- termination measure of healing continuations -/
def healMeasure (σ : St) : Nat :=
  5 * σ.permits + σ.phase.healRank + (if σ.doomed then 7 else 0) + wsum healWeight σ.conns

/-- every registered session is healthy: open, context alive -/
def St.allHealthy (σ : St) : Bool :=
  σ.conns.all fun x => !x.stage.isRegistered || !x.dying σ.live

/-! ### shutdown -/

/-- everything except the environment's optional moves (a peer closing, a caller closing a session,
    the cancellation itself): the steps a maximal execution must have exhausted.  `connOk`/`connErr`,
    `sessOk`/`sessErr`, `pingOk`/`pingErr` count as obligatory because `NewConnection`, `sessionFn`
    and `Ping` always return. -/
def obligatory : Act → Bool
  | .peerClose _ | .localClose _ | .cancel => false
  | _ => true

/-- no obligatory step is enabled: the execution cannot be extended except by the environment -/
def Maximal (d : Defects) (σ : St) : Prop := ∀ a, obligatory a = true → step d σ a = none

def Conn.isOpen (x : Conn) : Bool := x.connOpen || x.sessOpen

/-- the step abandons a connection or session that is still open without closing it -/
def leakStep (d : Defects) (σ : St) : Act → Bool
  | .sessErr => match σ.phase with
    | .haveConn c => (if σ.live then d.sessErrLeavesConn else d.exitLeaksAttempt) && (σ.conn c).isOpen
    | _ => false
  | .pingErr _ => match σ.phase with
    | .haveSession c => !σ.live && d.exitLeaksAttempt && (σ.conn c).isOpen
    | _ => false
  | .add => match σ.phase with
    | .pinged c => !σ.live && d.lateAddLeaks && (σ.conn c).isOpen
    | _ => false
  | _ => false

/-- no step of the run abandons an open resource: no `addNewMux` of a live session after `Cancel`,
    no `sessionFn` error, no ping failure after `Cancel` that leaves the session running -/
def noLeakAlong (d : Defects) : St → List Act → Bool
  | _, [] => true
  | σ, a :: r => !leakStep d σ a && noLeakAlong d ((step d σ a).getD σ) r

def Phase.shutRank : Phase → Nat
  | .exited => 0 | .idle => 1 | .pinged _ => 3 | .haveSession _ => 4 | .haveConn _ => 6 | .acquired => 7

def shutWeight (x : Conn) : Nat :=
  (match x.stage with
   | .registered _ => 2 + (if x.ctxDone then 0 else 1)
   | .cleaned _ => 1
   | _ => 0) + (if x.sessOpen then 1 else 0)

/-- termination measure after `Cancel` (every step, the environment's included, decreases it) -/
def shutMeasure (σ : St) : Nat :=
  σ.phase.shutRank + (if σ.mgrClosed then 0 else 1) + wsum shutWeight σ.conns

/-- decidable description of a maximal state after `Cancel` (`maximal_of_terminal` shows it implies
    `Maximal`): provider returned, manager closed, nothing registered or awaiting its release -/
def St.terminal (σ : St) : Bool :=
  σ.phase == .exited && σ.mgrClosed && !σ.live && σ.conns.all fun x => !x.stage.isRegistered && !x.stage.isCleaned

/-- number of enabled (non-stuttering) steps of a run -/
def effectiveSteps (d : Defects) : St → List Act → Nat
  | _, [] => 0
  | σ, a :: r => match step d σ a with
    | some σ' => 1 + effectiveSteps d σ' r
    | none => effectiveSteps d σ r

end S2S.MuxPool
