import S2S.Model.Registry
/-!
Specification vocabulary for C08 (core Lean only): what "quiescent", "live", "exactly the newest
live incarnation is registered" and "nothing remains" mean for a state of `S2S.Registry`, and the
explicit, decidable hypotheses on runs under which the partial theorems hold.  Each hypothesis
excludes one interleaving window; `Props/C08.lean` shows by a kernel-checked witness that each
window really breaks the property, and the harness replays every witness on the real code.
-/
namespace S2S.Registry

/-! ### quiescence, liveness, exactness -/

/-- a sender that waits undisturbed for its stream to end -/
def Inc.sLive (σ : State) (i : Tok) : Prop :=
  (σ.inc i).spc = .running ∧ σ.down i = false ∧ (σ.inc i).broken = false

def Inc.rLive (σ : State) (i : Tok) : Prop :=
  (σ.inc i).rpc = .running ∧ σ.down i = false ∧ (σ.inc i).cancelled = false

instance (σ : State) (i : Tok) : Decidable (Inc.sLive σ i) := by unfold Inc.sLive; exact inferInstance
instance (σ : State) (i : Tok) : Decidable (Inc.rLive σ i) := by unfold Inc.rLive; exact inferInstance

/-- **quiescent**: every worker of every incarnation either runs undisturbed or has ended (no internal step is enabled) -/
def Quiescent (σ : State) : Prop :=
  ∀ i, i < σ.next → ((σ.inc i).spc = .done ∨ Inc.sLive σ i) ∧ ((σ.inc i).rpc = .done ∨ Inc.rLive σ i)

instance (σ : State) : Decidable (Quiescent σ) := by unfold Quiescent; exact inferInstance

/-- the newest (largest token) incarnation below `n` satisfying `p` -/
def newest (p : Tok → Bool) : Nat → Option Tok
  | 0 => none
  | n + 1 => if p n then some n else newest p n

/-- the newest incarnation of shard `c` whose sender / receiver is live -/
def liveSender (σ : State) (c : Shard) : Option Tok :=
  newest (fun i => decide ((σ.inc i).shard = c ∧ (σ.inc i).spc = .running)) σ.next
def liveReceiver (σ : State) (c : Shard) : Option Tok :=
  newest (fun i => decide ((σ.inc i).shard = c ∧ (σ.inc i).rpc = .running)) σ.next

/-- the five registries hold, for shard `c`, exactly the newest live incarnation (or nothing when none is live) -/
def ExactAt (σ : State) (c : Shard) : Prop :=
  (aget σ.localShards c).map (·.1) = liveSender σ c ∧
  aget σ.sendChans c = liveSender σ c ∧
  aget σ.ackChans c = liveReceiver σ c ∧
  aget σ.cancels c = liveReceiver σ c ∧
  aget σ.actives c = liveReceiver σ c

instance (σ : State) (c : Shard) : Decidable (ExactAt σ c) := by unfold ExactAt; exact inferInstance

def Exact (σ : State) : Prop := ∀ c, ExactAt σ c

/-- every incarnation has ended -/
def AllDone (σ : State) : Prop := ∀ i, i < σ.next → (σ.inc i).spc = .done ∧ (σ.inc i).rpc = .done

instance (σ : State) : Decidable (AllDone σ) := by unfold AllDone; exact inferInstance

/-- nothing is registered for shard `c` -/
def EmptyAt (σ : State) (c : Shard) : Prop :=
  aget σ.localShards c = none ∧ aget σ.sendChans c = none ∧ aget σ.ackChans c = none ∧
  aget σ.cancels c = none ∧ aget σ.actives c = none

instance (σ : State) (c : Shard) : Decidable (EmptyAt σ c) := by unfold EmptyAt; exact inferInstance

def Empty (σ : State) : Prop := ∀ c, EmptyAt σ c

/-- **the full property** at the end of a run -/
def Good (σ : State) : Prop :=
  σ.crashed = false ∧ σ.stolen = [] ∧ (Quiescent σ → Exact σ) ∧ (AllDone σ → Empty σ)

/-! ### sections of the two life cycles -/

/-- the sender is inside `RegisterShard` (channel set, receivers not yet all notified) -/
def SPc.registering : SPc → Bool
  | .start => false | .set => true | .added => true | .notify _ _ => true | .running => false
  | .closed => false | .unreg => false | .rmChan => false | .done => false

/-- the sender's channel is closed but still registered -/
def SPc.closing : SPc → Bool
  | .start => false | .set => false | .added => false | .notify _ _ => false | .running => false
  | .closed => true | .unreg => true | .rmChan => true | .done => false

/-- `addLocalShard` has run -/
def SPc.stamped : SPc → Bool
  | .start => false | .set => false | .added => true | .notify _ _ => true | .running => true
  | .closed => true | .unreg => true | .rmChan => true | .done => true

/-- the sender's entry may be in the local shard table -/
def SPc.holdsLocal : SPc → Bool
  | .start => false | .set => false | .added => true | .notify _ _ => true | .running => true
  | .closed => true | .unreg => false | .rmChan => false | .done => false

/-- the receiver is inside its start-up (predecessor looked up, own entries not yet all registered) -/
def RPc.starting : RPc → Bool
  | .start => false | .term _ => true | .termRm => true | .termAck => true | .opening => true | .opened => true
  | .ackSet => true | .cancelSet => true | .running => false | .cleanCheck => false | .cleanCancel => false
  | .cleanActive => false | .done => false

/-- the receiver passed its context check and is about to remove cancel function and active receiver -/
def RPc.cleaning : RPc → Bool
  | .start => false | .term _ => false | .termRm => false | .termAck => false | .opening => false | .opened => false
  | .ackSet => false | .cancelSet => false | .running => false | .cleanCheck => false | .cleanCancel => true
  | .cleanActive => true | .done => false

/-- every OTHER incarnation of `i`'s shard satisfies `p` -/
def Others (σ : State) (i : Tok) (p : Inc → Bool) : Prop :=
  ∀ j, j < σ.next → j ≠ i → (σ.inc j).shard = (σ.inc i).shard → p (σ.inc j) = true

instance (σ : State) (i : Tok) (p : Inc → Bool) : Decidable (Others σ i p) := by unfold Others; exact inferInstance

/-- every NEWER incarnation of `i`'s shard satisfies `p` -/
def Newer (σ : State) (i : Tok) (p : Inc → Bool) : Prop :=
  ∀ j, j < σ.next → i < j → (σ.inc j).shard = (σ.inc i).shard → p (σ.inc j) = true

instance (σ : State) (i : Tok) (p : Inc → Bool) : Decidable (Newer σ i p) := by unfold Newer; exact inferInstance

/-! ### hypotheses: `H σ a` says that action `a` may happen in state `σ` -/

/-- **distinct stamps** (environment): two registrations of one shard never see the same clock value.
    (`UnregisterShard` tells registrations apart by their time stamp only.) -/
def StampsOK (σ : State) : Act → Prop
  | .sAdd i => Others σ i (fun y => !y.spc.stamped || y.stamp != σ.clock)
  | _ => True

/-- **window (ii), closed by the fix of C08-unregister-double-delete** (no hypothesis of a current theorem; used to
    describe the before-fix witness): no `addLocalShard` of a shard between the two deletes of an `UnregisterShard`
    of the same shard -/
def UnregOK (σ : State) : Act → Prop
  | .sAdd i => Others σ i (fun y => y.spc != .unreg)
  | _ => True

/-- **window (iii), closed by the fix of C08-replay-send-on-closed-channel** (no hypothesis of a current theorem; used
    to describe the before-fix witness): no other incarnation replaces the shard's channel while a `RegisterShard` of
    the shard is in progress, and no announcement of a remote owner arrives while the local channel is closed but
    still registered -/
def ReplayOK (σ : State) : Act → Prop
  | .sSet i => Others σ i (fun y => !y.spc.registering)
  | .replay _ c => ∀ j, j < σ.next → (σ.inc j).shard = c → (σ.inc j).spc.closing = false
  | _ => True

/-- **windows (iv), (vii)**: the receiver start-ups and the (un-cancelled) receiver clean-ups of one shard are serial -/
def RecvOK (σ : State) : Act → Prop
  | .rGet i => Others σ i (fun y => !y.rpc.starting && !y.rpc.cleaning)
  | .rCheck i => (σ.inc i).cancelled = true ∨ Others σ i (fun y => !y.rpc.starting && !y.rpc.cleaning)
  | _ => True

/-- **window (v)**: the receiver's client stream can be opened -/
def OpenOK (_ : State) : Act → Prop
  | .rOpen _ ok => ok = true
  | _ => True

/-- **windows (vi), (viii)**: the incarnations of a shard start in the order in which their streams were opened -/
def OrderOK (σ : State) : Act → Prop
  | .sSet i => Newer σ i (fun y => y.spc == .start)
  | .sAdd i => Newer σ i (fun y => y.spc == .start || y.spc == .set)
  | .rGet i => Newer σ i (fun y => y.rpc == .start)
  | _ => True

instance (σ : State) (a : Act) : Decidable (StampsOK σ a) := by cases a <;> unfold StampsOK <;> exact inferInstance
instance (σ : State) (a : Act) : Decidable (UnregOK σ a) := by cases a <;> unfold UnregOK <;> exact inferInstance
instance (σ : State) (a : Act) : Decidable (ReplayOK σ a) := by cases a <;> unfold ReplayOK <;> exact inferInstance
instance (σ : State) (a : Act) : Decidable (RecvOK σ a) := by cases a <;> unfold RecvOK <;> exact inferInstance
instance (σ : State) (a : Act) : Decidable (OpenOK σ a) := by cases a <;> unfold OpenOK <;> exact inferInstance
instance (σ : State) (a : Act) : Decidable (OrderOK σ a) := by cases a <;> unfold OrderOK <;> exact inferInstance

/-- a hypothesis threaded along a run: it holds for every action that happens -/
def Along (c : Cfg) (H : State → Act → Prop) : State → List Act → Prop
  | _, [] => True
  | σ, a :: rest =>
    match step c σ a with
    | some σ' => H σ a ∧ Along c H σ' rest
    | none => Along c H σ rest

instance Along.dec (c : Cfg) (H : State → Act → Prop) [∀ σ a, Decidable (H σ a)] :
    (σ : State) → (acts : List Act) → Decidable (Along c H σ acts)
  | _, [] => isTrue trivial
  | σ, a :: rest => by
    unfold Along
    cases h : step c σ a with
    | none => simp only; exact Along.dec c H σ rest
    | some σ' => simp only; have := Along.dec c H σ' rest; exact inferInstance

end S2S.Registry
