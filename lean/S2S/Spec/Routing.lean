import S2S.Model.Routing
/-!
Specification vocabulary for C01–C04 (core Lean only): environment hypotheses on action
lists, and the properties stated over reachable states / steps of `S2S.Routing.step`.
-/
namespace S2S.Routing

/-- strictly increasing list of ints -/
def StrictInc : List Int → Prop
  | [] => True
  | [_] => True
  | a :: b :: r => a < b ∧ StrictInc (b :: r)

instance : (l : List Int) → Decidable (StrictInc l)
  | [] => isTrue trivial
  | [_] => isTrue trivial
  | a :: b :: r => by
    unfold StrictInc
    have := instDecidableStrictInc (b :: r)
    exact inferInstance

/-- `TemporalSourceWF` for one `recv`: what Temporal's stream sender guarantees on a source stream
    (service/history/replication/stream_sender.go, v1.31.2), relative to the receiver state `x`. -/
def RecvOK (nt : Nat) (x : Source) (tasks : List (Int × TId)) (high : Int) : Prop :=
  StrictInc (tasks.map (·.1)) ∧
  (∀ p ∈ tasks, 1 ≤ p.1 ∧ x.lastHigh ≤ p.1 ∧ p.1 < high ∧ p.2 < nt) ∧
  1 ≤ high ∧ x.lastHigh ≤ high

instance (nt : Nat) (x : Source) (tasks : List (Int × TId)) (high : Int) : Decidable (RecvOK nt x tasks high) := by
  unfold RecvOK; exact inferInstance

/-- an action of the fault-free fragment (C01–C03): no stream breaks; streams are opened once -/
def Act.isFault : Act → Bool
  | .breakTgt _ => true
  | .breakSrc _ => true
  | _ => false

/-- environment hypothesis threaded along a run: every `recv` that happens is well-formed -/
def EnvOK (c : Cfg) : State → List Act → Prop
  | _, [] => True
  | σ, a :: rest =>
    (match a with
     | .recv s tasks high => RecvOK σ.targets.length (σ.src s) tasks high
     | _ => True) ∧ EnvOK c ((step c σ a).getD σ) rest

instance EnvOK.dec (c : Cfg) : (σ : State) → (acts : List Act) → Decidable (EnvOK c σ acts)
  | _, [] => isTrue trivial
  | σ, a :: rest => by
    unfold EnvOK
    have := EnvOK.dec c ((step c σ a).getD σ) rest
    cases a <;> exact inferInstance

def NoFaults (acts : List Act) : Prop := ∀ a ∈ acts, a.isFault = false

instance (acts : List Act) : Decidable (NoFaults acts) := by unfold NoFaults; exact inferInstance

/-- task `id` of source `s` has been acknowledged by (some incarnation of) the target stream `t` -/
def Confirmed (σ : State) (s : SId) (id : Int) (t : TId) : Prop := (s, id) ∈ (σ.tgt t).confirmed

instance (σ : State) (s : SId) (id : Int) (t : TId) : Decidable (Confirmed σ s id t) := by
  unfold Confirmed; exact inferInstance

/-- the acknowledgements a step sent upstream on source stream `s` (`acksSent` only ever grows) -/
def newAcks (σ σ' : State) (s : SId) : List Int := (σ'.src s).acksSent.drop (σ.src s).acksSent.length

/-- **the C01 / C04 statement at one step**: every acknowledgement this step sends upstream on any
    source stream covers only tasks (received so far on that stream) that their target stream confirmed. -/
def AckStepSafe (σ σ' : State) : Prop :=
  ∀ s, s < σ'.sources.length → ∀ v ∈ newAcks σ σ' s,
    ∀ p ∈ (σ'.src s).received, p.1 < v → Confirmed σ' s p.1 p.2

instance (σ σ' : State) : Decidable (AckStepSafe σ σ') := by unfold AckStepSafe; exact inferInstance

/-- the statement over a whole run: it holds at every step of `acts` from `σ₀` -/
def AcksSafeAlong (c : Cfg) : State → List Act → Prop
  | _, [] => True
  | σ, a :: rest =>
    match step c σ a with
    | some σ' => AckStepSafe σ σ' ∧ AcksSafeAlong c σ' rest
    | none => AcksSafeAlong c σ rest

instance AcksSafeAlong.dec (c : Cfg) : (σ : State) → (acts : List Act) → Decidable (AcksSafeAlong c σ acts)
  | _, [] => isTrue trivial
  | σ, a :: rest => by
    unfold AcksSafeAlong
    cases h : step c σ a with
    | none => simp only; exact AcksSafeAlong.dec c σ rest
    | some σ' => simp only; have := AcksSafeAlong.dec c σ' rest; exact inferInstance

/-- C03 safety at one step: a newly sent ack is ≤ the last source high and ≥ every earlier ack -/
def AckStepMonoBounded (σ σ' : State) : Prop :=
  ∀ s, s < σ'.sources.length → ∀ v ∈ newAcks σ σ' s,
    v ≤ (σ'.src s).lastHigh ∧ ∀ u ∈ (σ.src s).acksSent, u ≤ v

def MonoBoundedAlong (c : Cfg) : State → List Act → Prop
  | _, [] => True
  | σ, a :: rest =>
    match step c σ a with
    | some σ' => AckStepMonoBounded σ σ' ∧ MonoBoundedAlong c σ' rest
    | none => MonoBoundedAlong c σ rest

/-- every task message a target received: (proxy ids, high) sequence of its emitted non-keepalive messages -/
def Target.stream (tg : Target) : List Emitted := tg.emitted.filter (fun e => !e.keepalive)

/-- C02 (d): well-formedness of one target stream — what Temporal's `TrackTasks` needs to accept every task -/
def StreamWF : Int → Int → List Emitted → Prop      -- last id, max high so far
  | _, _, [] => True
  | lastId, maxHigh, e :: rest =>
    (if e.ids.isEmpty then StreamWF lastId (if e.high > maxHigh then e.high else maxHigh) rest
     else
       StrictInc e.ids ∧ (∀ p ∈ e.ids, lastId < p) ∧
       (∀ p ∈ e.ids, p < e.high) ∧ maxHigh < e.high ∧
       StreamWF (e.ids.getLast?.getD lastId) e.high rest)

/-- original ids of source `s` delivered on a target stream, in stream order -/
def Target.deliveredOf (tg : Target) (s : SId) : List Int :=
  (tg.stream.filter (fun e => e.src == s)).flatMap (·.orig)

/-- tasks of source `s` owned by target `t`, in the order the source sent them -/
def Source.sentTo (x : Source) (t : TId) : List Int :=
  (x.received.filter (fun p => p.2 == t)).map (·.1)

def Msg.isWm : Msg → Bool
  | .wm _ _ => true
  | .tasks _ _ => false

/-- quiescent for (s,t): no task of `s` for `t` is still on its way (pending hand-off, queued, or in hand) -/
def drained (σ : State) (s : SId) (t : TId) : Bool :=
  (match (σ.src s).pc with
   | .deliver pending => (aget pending t).isNone
   | _ => true) &&
  (σ.tgt t).sendChan.all (fun m => m.src != s || m.isWm) &&
  (match (σ.tgt t).holding with
   | some e => e.src != s || e.ids.isEmpty
   | none => true)

def Drained (σ : State) (s : SId) (t : TId) : Prop := drained σ s t = true

instance (σ : State) (s : SId) (t : TId) : Decidable (Drained σ s t) := by unfold Drained; exact inferInstance

/-- the eager internal actions: everything the proxy's goroutines do on their own until they block
    (`gates t = true`: the target cluster is not reading, `Send` on stream `t` blocks) -/
def eagerActs (σ : State) (gates : List Bool) : List Act :=
  let ns := σ.sources.length
  let nt := σ.targets.length
  let replayActs := (List.range nt).flatMap fun t =>
    match (σ.tgt t).replayTodo with
    | some todo => (todo.map fun p => Act.replayStep t p.1) ++ [Act.replayDone t]
    | none => []
  let srcActs := (List.range ns).flatMap fun s =>
    [Act.rack s] ++
    (match (σ.src s).pc with
     | .bcast _ todo => todo.map fun p => Act.bcastStep s p.1
     | .deliver pending => pending.map fun p => Act.deliver s p.1
     | .idle => [])
  let tgtActs := (List.range nt).flatMap fun t =>
    (if gates.getD t false then [] else [Act.emit t]) ++ [Act.take t] ++
    (match (σ.tgt t).ackPc with
     | .forwarding todo _ _ => (todo.map fun p => Act.ackFwd t p.1) ++ [Act.ackFin t]
     | .idle => [])
  replayActs ++ srcActs ++ tgtActs

def firstEnabled (c : Cfg) (σ : State) : List Act → Option State
  | [] => none
  | a :: rest => match step c σ a with
    | some σ' => some σ'
    | none => firstEnabled c σ rest

/-- run the eager actions to quiescence (fuelled) -/
def settle (c : Cfg) (gates : List Bool) : Nat → State → State
  | 0, σ => σ
  | fuel + 1, σ => match firstEnabled c σ (eagerActs σ gates) with
    | some σ' => settle c gates fuel σ'
    | none => σ

/-- nothing eager is enabled -/
def Quiescent (c : Cfg) (gates : List Bool) (σ : State) : Prop := firstEnabled c σ (eagerActs σ gates) = none

/-- one fair round for source `s` with final watermark `H` (C03): the source re-sends its watermark,
    everything drains, every target acknowledges everything it has received, everything drains. -/
def ackEverything (c : Cfg) (fuel : Nat) (σ : State) : State :=
  (List.range σ.targets.length).foldl (fun σ t =>
    match (σ.tgt t).stream.getLast? with
    | some e => settle c [] fuel ((step c σ (.tack t e.high)).getD σ)
    | none => σ) σ

def fairRound (c : Cfg) (fuel : Nat) (s : SId) (H : Int) (σ : State) : State :=
  ackEverything c fuel (settle c [] fuel ((step c σ (.recv s [] H)).getD σ))

end S2S.Routing
