import S2S.Model.Forwarder
/-!
Specification vocabulary for C06 (core Lean only): the environment hypothesis `GrpcStreamEnv`,
"an ending has happened" (`Ending`), "everything ended together" (`Done`), the internal
(proxy-side + gRPC-reaction) actions, quiescence, the deterministic scheduler `settle`, the
termination measure `mu`, and the history accounting used by the faithfulness theorems.
-/
namespace S2S.Forwarder

/-- what the liveness theorem assumes of gRPC (DESIGN.md §3 `GrpcStreamEnv`).  Whether the source
    answers the half-close (`answersCloseSend`) is NOT assumed: the forwarder does not depend on it. -/
def GrpcStreamEnv (e : Env) : Prop :=
  e.cancelUnblocksRecv = true ∧ e.returnCancelsSrv = true ∧ e.closeSendHangs = false

instance (e : Env) : Decidable (GrpcStreamEnv e) := by unfold GrpcStreamEnv; exact inferInstance

/-- actions of the proxy's goroutines and gRPC's reactions to them (everything but the peers,
    the operator and the clock) -/
def Act.isInternal : Act → Bool
  | .push _ _ | .sendFail _ | .stall _ | .unstall _ | .iniCancel | .shutdown | .tick => false
  | _ => true

/-- every internal action, in the priority order `settle` tries them -/
def internalActs : List Act :=
  [.rDefer .s, .rDefer .i, .rLatch .s, .rLatch .i, .rClosed .s, .rClosed .i,
   .lQuit .s, .lQuit .i, .rProc .s, .rProc .i, .lHand .s, .lHand .i,
   .lRecv .s, .lRecv .i, .lCheck .s, .lCheck .i,
   .csReturn, .guardRecv, .hCancel, .hReturn]

def firstEnabled (σ : State) : List Act → Option State
  | [] => none
  | a :: rest => match step σ a with
    | some σ' => some σ'
    | none => firstEnabled σ rest

/-- run internal actions to quiescence (fuelled; `mu σ` is always enough fuel) -/
def settle : Nat → State → State
  | 0, σ => σ
  | fuel + 1, σ => match firstEnabled σ internalActs with
    | some σ' => settle fuel σ'
    | none => σ

/-- no internal action is enabled: every goroutine still alive is blocked -/
def Quiescent (σ : State) : Prop := ∀ a, a.isInternal = true → step σ a = none

/-- no peer is stalled: every `Send` returns (with success or an error) -/
def Unstalled (σ : State) : Prop := σ.s.stalled = false ∧ σ.i.stalled = false

instance (σ : State) : Decidable (Unstalled σ) := by unfold Unstalled; exact inferInstance

/-- no `Send` can block: every stalled peer's stream is already done / broken / cancelled, so a `Send`
    to it returns an error at once (weaker than `Unstalled`; e.g. after the initiator went away) -/
def NoSendCanBlock (σ : State) : Prop :=
  (σ.s.stalled = true → sendOk σ .s = false) ∧ (σ.i.stalled = true → sendOk σ .i = false)

instance (σ : State) : Decidable (NoSendCanBlock σ) := by unfold NoSendCanBlock; exact inferInstance

/-- the relay loop of direction `d` sits in a `Send` that does not return: it holds a message, the
    receiving peer is not reading, and nothing has broken / ended / cancelled that peer's stream -/
def blockedInSend (σ : State) (d : D) : Bool :=
  (σ.dir d).stalled && sendOk σ d && (match (σ.dir d).loop with | .holding v => v.isData | _ => false)

/-- is the relay loop still relaying -/
def RPc.alive : RPc → Bool
  | .waiting => true
  | .holding v => v.isData
  | _ => false

/-- a message of this direction is still on its way through the proxy or the stream -/
def Dir.pendingData (x : Dir) : Bool :=
  x.queue.any Ev.isData ||
  (match x.lis with | .has v => v.isData | _ => false) ||
  (match x.loop with | .holding v => v.isData | _ => false)

/-- direction `x` has ended or is bound to: its peer delivered / will deliver EOF, an error or an
    unknown kind; its listener or loop already stopped; or its `Send` fails and a message is on its way -/
def Dir.ending (x : Dir) : Bool :=
  x.queue.any (fun v => !v.isData) ||
  (match x.lis with | .has v => !v.isData | .exited => true | _ => false) ||
  !x.loop.alive ||
  (x.sendFails && x.pendingData)

/-- **either side has ended**, in any of the ways of the property: clean EOF, error, unknown
    message kind (queued at any position, in a listener's or a loop's hand), send failure with a
    message to hit it, cancelled context (initiator gone / outgoing context), proxy shutdown
    (client connection closed), or the proxy already noticed (latch, a stopped worker). -/
def ending (σ : State) : Bool :=
  σ.latch || σ.srvCtx || σ.connClosed || σ.outCtx || σ.s.ending || σ.i.ending

def Ending (σ : State) : Prop := ending σ = true

instance (σ : State) : Decidable (Ending σ) := by unfold Ending; exact inferInstance

/-- **ended together**: both relay loops finished, latch set, `CloseSend` attempted, outgoing
    context cancelled, handler returned, and all six goroutines gone (nothing left blocked). -/
def Done (σ : State) : Prop :=
  σ.s.loop = .done ∧ σ.i.loop = .done ∧ σ.latch = true ∧ σ.cs ≠ .idle ∧ σ.outCtx = true ∧
  σ.h = .returned ∧ σ.s.lis = .exited ∧ σ.i.lis = .exited ∧ σ.cs = .exited

instance (σ : State) : Decidable (Done σ) := by unfold Done; exact inferInstance

/-- number of the stream's goroutines still alive (H, FR, FA, LS, LT, CS) -/
def aliveCount (σ : State) : Nat :=
  (if σ.h = .returned then 0 else 1) + (if σ.s.loop = .done then 0 else 1) + (if σ.i.loop = .done then 0 else 1) +
  (if σ.s.lis = .exited then 0 else 1) + (if σ.i.lis = .exited then 0 else 1) +
  (if σ.cs = .calling ∨ σ.cs = .signalling then 1 else 0)

/-! ### history accounting -/

def dataIds : List Ev → List Nat
  | [] => []
  | v :: r => v.ids ++ dataIds r

def LPc.hand : LPc → List Nat
  | .has v => v.ids
  | _ => []

def RPc.hand : RPc → List Nat
  | .holding v => v.ids
  | _ => []

/-- the direction is relaying: its loop is alive and its listener has not been told to stop -/
def Dir.running (x : Dir) : Bool := x.loop.alive && x.lis != .exited

/-! ### termination measure -/

def muL : LPc → Nat
  | .exited => 0
  | .has v => if v.sticky then 1 else 6
  | .inRecv => 2
  | .top => 3

def muR : RPc → Nat
  | .waiting => 10
  | .holding v => if v.isData then 11 else 4
  | .finished => 3
  | .guard => 2
  | .done => 0

def muC : CPc → Nat
  | .idle => 8
  | .calling => 7
  | .signalling => 1
  | .exited => 0

def muH : HPc → Nat
  | .waiting => 2
  | .cancelled => 1
  | .returned => 0

def muD (x : Dir) : Nat := 5 * x.queue.length + muL x.lis + muR x.loop

/-- strictly decreased by every internal action (`Proofs/ForwarderLive.lean`) -/
def mu (σ : State) : Nat := muD σ.s + muD σ.i + muC σ.cs + muH σ.h

end S2S.Forwarder
