import S2S.Model.Gossip
/-! Association-list and frame lemmas for the gossip model (C09). -/
namespace S2S.Gossip

theorem aget_cons {α} (q : Nat × α) (t : List (Nat × α)) (k' : Nat) :
    aget (q :: t) k' = if q.1 = k' then some q.2 else aget t k' := by
  by_cases h : q.1 = k' <;> simp [aget, h]

theorem aget_aerase {α} (l : List (Nat × α)) (k k' : Nat) :
    aget (aerase l k) k' = if k' = k then none else aget l k' := by
  induction l with
  | nil => simp [aget, aerase]
  | cons p r ih =>
    have e1 : aerase (p :: r) k = if p.1 = k then aerase r k else p :: aerase r k := by
      by_cases h : p.1 = k <;> simp [aerase, h]
    rw [e1, aget_cons]
    by_cases h : p.1 = k
    · rw [if_pos h, ih]
      by_cases hk : k' = k
      · simp [hk]
      · have : ¬ p.1 = k' := fun h2 => hk (h2 ▸ h)
        simp [hk, this]
    · rw [if_neg h, aget_cons, ih]
      by_cases hk : k' = k
      · subst hk; simp [h]
      · simp [hk]

theorem aget_aset {α} (l : List (Nat × α)) (k k' : Nat) (v : α) :
    aget (aset l k v) k' = if k' = k then some v else aget l k' := by
  unfold aset
  rw [aget_cons, aget_aerase]
  by_cases hk : k' = k
  · simp [hk]
  · have : ¬ k = k' := fun h => hk h.symm
    simp [hk, this]

@[simp] theorem setNode_node (σ : State) (n : NodeId) (x : Node) (m : NodeId) :
    (σ.setNode n x).node m = if m = n then x else σ.node m := rfl

@[simp] theorem setNode_net (σ : State) (n x) : (σ.setNode n x).net = σ.net := rfl
@[simp] theorem setNode_clock (σ : State) (n x) : (σ.setNode n x).clock = σ.clock := rfl
@[simp] theorem setNode_adds (σ : State) (n x) : (σ.setNode n x).adds = σ.adds := rfl
@[simp] theorem setNode_claims (σ : State) (n x) : (σ.setNode n x).claims = σ.claims := rfl
@[simp] theorem setNode_evicted (σ : State) (n x) : (σ.setNode n x).evicted = σ.evicted := rfl
@[simp] theorem setNode_ended (σ : State) (n x) : (σ.setNode n x).ended = σ.ended := rfl
@[simp] theorem setNode_emitted (σ : State) (n x) : (σ.setNode n x).emitted = σ.emitted := rfl
@[simp] theorem setNode_delivered (σ : State) (n x) : (σ.setNode n x).delivered = σ.delivered := rfl

@[simp] theorem send_node (σ : State) (l) : (σ.send l).node = σ.node := rfl
@[simp] theorem send_net (σ : State) (l) : (σ.send l).net = σ.net ++ l := rfl
@[simp] theorem send_clock (σ : State) (l) : (σ.send l).clock = σ.clock := rfl
@[simp] theorem send_adds (σ : State) (l) : (σ.send l).adds = σ.adds := rfl
@[simp] theorem send_claims (σ : State) (l) : (σ.send l).claims = σ.claims := rfl
@[simp] theorem send_evicted (σ : State) (l) : (σ.send l).evicted = σ.evicted := rfl
@[simp] theorem send_ended (σ : State) (l) : (σ.send l).ended = σ.ended := rfl
@[simp] theorem send_emitted (σ : State) (l) : (σ.send l).emitted = σ.emitted ++ l := rfl
@[simp] theorem send_delivered (σ : State) (l) : (σ.send l).delivered = σ.delivered := rfl

theorem mem_emit {kind n s t x it} (h : it ∈ emit kind n s t x) :
    ∃ d, d ≠ n ∧ it = Item.ann kind n s t d := by
  unfold emit at h
  simp only [List.mem_map, List.mem_filter] at h
  obtain ⟨d, ⟨_, hd⟩, rfl⟩ := h
  exact ⟨d, by simpa using hd, rfl⟩

theorem run_append (cfg : Cfg) (σ : State) (a b : List Act) : run cfg σ (a ++ b) = run cfg (run cfg σ a) b := by
  simp [run, List.foldl_append]

theorem run_cons (cfg : Cfg) (σ : State) (a : Act) (l : List Act) : run cfg σ (a :: l) = run cfg (step cfg σ a) l := rfl

theorem run_snoc (cfg : Cfg) (σ : State) (l : List Act) (a : Act) : run cfg σ (l ++ [a]) = step cfg (run cfg σ l) a := by
  simp [run, List.foldl_append]

end S2S.Gossip
