import S2S.Proofs.Utf8Decomp
/-!
`validUtf8` (the model of Go's table-driven decoder) accepts exactly the concatenations of standard
(RFC 3629) encodings of Unicode scalar values.  Core Lean only.
-/
namespace S2S.Utf8

theorem toNat_ofNat_lt {n : Nat} (h : n < 256) : (UInt8.ofNat n).toNat = n := by
  simp; omega

/-- the encoding of a scalar value decodes as one well-formed rune of the same width, in any context -/
theorem runeLen_encodeRune (c : Nat) (t : Bytes) (h : isScalar c = true) :
    runeLen (encodeRune c ++ t) = (encodeRune c).length := by
  simp only [isScalar, Bool.or_eq_true, Bool.and_eq_true, decide_eq_true_eq] at h
  unfold encodeRune
  by_cases h1 : c < 0x80
  · simp only [h1, if_true, List.cons_append, List.nil_append, List.length_cons, List.length_nil]
    simp [runeLen, first, toNat_ofNat_lt (by omega : c < 256), h1]
  · by_cases h2 : c < 0x800
    · simp only [h1, h2, if_true, if_false, List.cons_append, List.nil_append, List.length_cons, List.length_nil]
      have a0 : (UInt8.ofNat (0xC0 + c / 64)).toNat = 0xC0 + c / 64 := toNat_ofNat_lt (by omega)
      have a1 : (UInt8.ofNat (0x80 + c % 64)).toNat = 0x80 + c % 64 := toNat_ofNat_lt (by omega)
      have f : first (UInt8.ofNat (0xC0 + c / 64)) = (2, 0x80, 0xBF) := by
        simp only [first, a0]
        rw [if_neg (by omega), if_neg (by omega), if_pos (by omega)]
      simp only [runeLen, f, inRange, a1]
      rw [if_pos (by simp; omega)]
    · by_cases h3 : c < 0x10000
      · simp only [h1, h2, h3, if_true, if_false, List.cons_append, List.nil_append, List.length_cons, List.length_nil]
        have a0 : (UInt8.ofNat (0xE0 + c / 4096)).toNat = 0xE0 + c / 4096 := toNat_ofNat_lt (by omega)
        have a1 : (UInt8.ofNat (0x80 + c / 64 % 64)).toNat = 0x80 + c / 64 % 64 := toNat_ofNat_lt (by omega)
        have a2 : (UInt8.ofNat (0x80 + c % 64)).toNat = 0x80 + c % 64 := toNat_ofNat_lt (by omega)
        have f : ∃ lo hi, first (UInt8.ofNat (0xE0 + c / 4096)) = (3, lo, hi) ∧ lo ≤ 0x80 + c / 64 % 64 ∧ 0x80 + c / 64 % 64 ≤ hi := by
          simp only [first, a0]
          by_cases e0 : c / 4096 = 0
          · refine ⟨0xA0, 0xBF, ?_, by omega, by omega⟩
            rw [if_neg (by omega), if_neg (by omega), if_neg (by omega), if_pos (by omega)]
          · by_cases ed : c / 4096 = 13
            · refine ⟨0x80, 0x9F, ?_, by omega, by omega⟩
              rw [if_neg (by omega), if_neg (by omega), if_neg (by omega), if_neg (by omega), if_pos (by omega)]
            · refine ⟨0x80, 0xBF, ?_, by omega, by omega⟩
              rw [if_neg (by omega), if_neg (by omega), if_neg (by omega), if_neg (by omega), if_neg (by omega), if_pos (by omega)]
        obtain ⟨lo, hi, f, hlo, hhi⟩ := f
        simp only [runeLen, f, inRange, isCont, a1, a2]
        rw [if_pos (by simp; omega)]
      · simp only [h1, h2, h3, if_false, List.cons_append, List.nil_append, List.length_cons, List.length_nil]
        have a0 : (UInt8.ofNat (0xF0 + c / 262144)).toNat = 0xF0 + c / 262144 := toNat_ofNat_lt (by omega)
        have a1 : (UInt8.ofNat (0x80 + c / 4096 % 64)).toNat = 0x80 + c / 4096 % 64 := toNat_ofNat_lt (by omega)
        have a2 : (UInt8.ofNat (0x80 + c / 64 % 64)).toNat = 0x80 + c / 64 % 64 := toNat_ofNat_lt (by omega)
        have a3 : (UInt8.ofNat (0x80 + c % 64)).toNat = 0x80 + c % 64 := toNat_ofNat_lt (by omega)
        have f : ∃ lo hi, first (UInt8.ofNat (0xF0 + c / 262144)) = (4, lo, hi) ∧ lo ≤ 0x80 + c / 4096 % 64 ∧ 0x80 + c / 4096 % 64 ≤ hi := by
          simp only [first, a0]
          by_cases e0 : c / 262144 = 0
          · refine ⟨0x90, 0xBF, ?_, by omega, by omega⟩
            rw [if_neg (by omega), if_neg (by omega), if_neg (by omega), if_neg (by omega), if_neg (by omega),
              if_neg (by omega), if_pos (by omega)]
          · by_cases e4 : c / 262144 = 4
            · refine ⟨0x80, 0x8F, ?_, by omega, by omega⟩
              rw [if_neg (by omega), if_neg (by omega), if_neg (by omega), if_neg (by omega), if_neg (by omega),
                if_neg (by omega), if_neg (by omega), if_neg (by omega), if_pos (by omega)]
            · refine ⟨0x80, 0xBF, ?_, by omega, by omega⟩
              rw [if_neg (by omega), if_neg (by omega), if_neg (by omega), if_neg (by omega), if_neg (by omega),
                if_neg (by omega), if_neg (by omega), if_pos (by omega)]
        obtain ⟨lo, hi, f, hlo, hhi⟩ := f
        simp only [runeLen, f, inRange, isCont, a1, a2, a3]
        rw [if_pos (by simp; omega)]


/-! ### converse: every well-formed head is the encoding of a scalar value -/

theorem first_1 {b : UInt8} {lo hi : Nat} (h : first b = (1, lo, hi)) : b.toNat < 0x80 := by
  unfold first at h
  simp only at h
  repeat' split at h
  all_goals simp_all

theorem first_2 {b : UInt8} {lo hi : Nat} (h : first b = (2, lo, hi)) :
    0xC2 ≤ b.toNat ∧ b.toNat < 0xE0 ∧ lo = 0x80 ∧ hi = 0xBF := by
  unfold first at h
  simp only at h
  repeat' split at h
  all_goals simp_all
  all_goals omega

theorem first_3 {b : UInt8} {lo hi : Nat} (h : first b = (3, lo, hi)) :
    0xE0 ≤ b.toNat ∧ b.toNat < 0xF0 ∧
    (b.toNat = 0xE0 → lo = 0xA0 ∧ hi = 0xBF) ∧ (b.toNat = 0xED → lo = 0x80 ∧ hi = 0x9F) ∧
    (b.toNat ≠ 0xE0 → b.toNat ≠ 0xED → lo = 0x80 ∧ hi = 0xBF) := by
  unfold first at h
  simp only at h
  repeat' split at h
  all_goals simp_all
  all_goals omega

theorem first_4 {b : UInt8} {lo hi : Nat} (h : first b = (4, lo, hi)) :
    0xF0 ≤ b.toNat ∧ b.toNat ≤ 0xF4 ∧
    (b.toNat = 0xF0 → lo = 0x90 ∧ hi = 0xBF) ∧ (b.toNat = 0xF4 → lo = 0x80 ∧ hi = 0x8F) ∧
    (b.toNat ≠ 0xF0 → b.toNat ≠ 0xF4 → lo = 0x80 ∧ hi = 0xBF) := by
  unfold first at h
  simp only at h
  repeat' split at h
  all_goals simp_all
  all_goals omega

theorem ofNat_eq_of_toNat {b : UInt8} {n : Nat} (h : n = b.toNat) : UInt8.ofNat n = b := by
  rw [h]; exact UInt8.ofNat_toNat

theorem inRange_iff {lo hi : Nat} {b : UInt8} : inRange lo hi b = true ↔ lo ≤ b.toNat ∧ b.toNat ≤ hi := by
  simp [inRange]

/-- a well-formed head is the standard encoding of a Unicode scalar value -/
theorem runeLen_is_scalar (s : Bytes) (h : 0 < runeLen s) :
    ∃ c, isScalar c = true ∧ s.take (runeLen s) = encodeRune c := by
  cases s with
  | nil => simp [runeLen] at h
  | cons b0 rest =>
    unfold runeLen at h ⊢
    simp only at h ⊢
    split at h
    · rename_i heq
      have h0 := first_1 heq
      refine ⟨b0.toNat, by simp [isScalar]; omega, ?_⟩
      simp [encodeRune, h0, UInt8.ofNat_toNat]
    · rename_i _ lo hi heq
      obtain ⟨h0, h0', rfl, rfl⟩ := first_2 heq
      cases rest with
      | nil => simp at h
      | cons b1 r =>
        simp only at h ⊢
        by_cases hc : inRange 0x80 0xBF b1 = true
        · have ⟨c1, c1'⟩ := inRange_iff.mp hc
          refine ⟨(b0.toNat - 0xC0) * 64 + (b1.toNat - 0x80), by simp [isScalar]; omega, ?_⟩
          simp only [hc, if_true, List.take_succ_cons, List.take_zero]
          unfold encodeRune
          rw [if_neg (by omega), if_pos (by omega)]
          rw [ofNat_eq_of_toNat (b := b0) (by omega), ofNat_eq_of_toNat (b := b1) (by omega)]
        · simp [hc] at h
    · rename_i _ lo hi heq
      obtain ⟨h0, h0', hE0, hED, hoth⟩ := first_3 heq
      match rest, h with
      | b1 :: b2 :: r, h =>
        simp only at h ⊢
        by_cases hc : (inRange lo hi b1 && isCont b2) = true
        · simp only [Bool.and_eq_true] at hc
          have ⟨c1, c1'⟩ := inRange_iff.mp hc.1
          have ⟨c2, c2'⟩ := inRange_iff.mp hc.2
          have hc' : (inRange lo hi b1 && isCont b2) = true := by simp [hc.1, hc.2]
          refine ⟨(b0.toNat - 0xE0) * 4096 + (b1.toNat - 0x80) * 64 + (b2.toNat - 0x80), ?_, ?_⟩
          · simp only [isScalar, Bool.or_eq_true, Bool.and_eq_true, decide_eq_true_eq]
            by_cases e0 : b0.toNat = 0xE0
            · have := hE0 e0; omega
            · by_cases ed : b0.toNat = 0xED
              · have := hED ed; omega
              · have := hoth e0 ed; omega
          · simp only [hc', if_true, List.take_succ_cons, List.take_zero]
            have hlo : 0x80 ≤ lo := by
              by_cases e0 : b0.toNat = 0xE0
              · have := hE0 e0; omega
              · by_cases ed : b0.toNat = 0xED
                · have := hED ed; omega
                · have := hoth e0 ed; omega
            have hhi : hi ≤ 0xBF := by
              by_cases e0 : b0.toNat = 0xE0
              · have := hE0 e0; omega
              · by_cases ed : b0.toNat = 0xED
                · have := hED ed; omega
                · have := hoth e0 ed; omega
            have hge : 0x800 ≤ (b0.toNat - 0xE0) * 4096 + (b1.toNat - 0x80) * 64 + (b2.toNat - 0x80) := by
              by_cases e0 : b0.toNat = 0xE0
              · have := hE0 e0; omega
              · omega
            unfold encodeRune
            rw [if_neg (by omega), if_neg (by omega), if_pos (by omega)]
            rw [ofNat_eq_of_toNat (b := b0) (by omega), ofNat_eq_of_toNat (b := b1) (by omega),
              ofNat_eq_of_toNat (b := b2) (by omega)]
        · simp [hc] at h
    · rename_i _ lo hi heq
      obtain ⟨h0, h0', hF0, hF4, hoth⟩ := first_4 heq
      match rest, h with
      | b1 :: b2 :: b3 :: r, h =>
        simp only at h ⊢
        by_cases hc : (inRange lo hi b1 && isCont b2 && isCont b3) = true
        · simp only [Bool.and_eq_true] at hc
          have ⟨c1, c1'⟩ := inRange_iff.mp hc.1.1
          have ⟨c2, c2'⟩ := inRange_iff.mp hc.1.2
          have ⟨c3, c3'⟩ := inRange_iff.mp hc.2
          have hc' : (inRange lo hi b1 && isCont b2 && isCont b3) = true := by simp [hc.1.1, hc.1.2, hc.2]
          have hlo : 0x80 ≤ lo ∧ hi ≤ 0xBF ∧ (b0.toNat = 0xF0 → 0x90 ≤ lo) ∧ (b0.toNat = 0xF4 → hi ≤ 0x8F) := by
            by_cases e0 : b0.toNat = 0xF0
            · have := hF0 e0; omega
            · by_cases e4 : b0.toNat = 0xF4
              · have := hF4 e4; omega
              · have := hoth e0 e4; omega
          refine ⟨(b0.toNat - 0xF0) * 262144 + (b1.toNat - 0x80) * 4096 + (b2.toNat - 0x80) * 64 + (b3.toNat - 0x80), ?_, ?_⟩
          · simp only [isScalar, Bool.or_eq_true, Bool.and_eq_true, decide_eq_true_eq]
            omega
          · simp only [hc', if_true, List.take_succ_cons, List.take_zero]
            unfold encodeRune
            rw [if_neg (by omega), if_neg (by omega), if_neg (by omega)]
            rw [ofNat_eq_of_toNat (b := b0) (by omega), ofNat_eq_of_toNat (b := b1) (by omega),
              ofNat_eq_of_toNat (b := b2) (by omega), ofNat_eq_of_toNat (b := b3) (by omega)]
        · simp [hc] at h
    · simp at h


theorem encodeRune_length_pos (c : Nat) : 0 < (encodeRune c).length := by
  unfold encodeRune
  split
  · simp
  · split
    · simp
    · split <;> simp

/-- `validUtf8` accepts exactly the concatenations of standard encodings of Unicode scalar values -/
theorem validUtf8_iff_scalars (s : Bytes) :
    validUtf8 s = true ↔ ∃ cs : List Nat, (∀ c ∈ cs, isScalar c = true) ∧ s = (cs.map encodeRune).flatten := by
  constructor
  · induction s using bytes_strong_induction with
    | _ s ih =>
      intro hv
      by_cases hne : s = []
      · exact ⟨[], by simp, by simp [hne]⟩
      · have hp := valid_ne_nil_runeLen_pos hne hv
        rw [validUtf8_step hp] at hv
        obtain ⟨cs, hcs, hs⟩ := ih _ (drop_runeLen_lt hp) hv
        obtain ⟨c, hc, hc'⟩ := runeLen_is_scalar s hp
        refine ⟨c :: cs, ?_, ?_⟩
        · intro x hx
          rcases List.mem_cons.mp hx with rfl | hx
          · exact hc
          · exact hcs x hx
        · rw [List.map_cons, List.flatten_cons, ← hc', ← hs, List.take_append_drop]
  · rintro ⟨cs, hcs, rfl⟩
    induction cs with
    | nil => rfl
    | cons c cs ih =>
      have hc := hcs c (by simp)
      rw [List.map_cons, List.flatten_cons]
      have hr := runeLen_encodeRune c ((cs.map encodeRune).flatten) hc
      have hpos := encodeRune_length_pos c
      rw [validUtf8_step (by omega), hr, List.drop_left]
      exact ih (fun x hx => hcs x (by simp [hx]))

end S2S.Utf8
