import S2S.Proofs.RoutingRingStep
import S2S.Proofs.Ring
/-!
C05R: the cases `NoOverflow` does not cover.  When the acknowledged watermark lies below the window
(or the window is empty) both the physical `AggregateUpTo` and the abstract `aggregate` return
`(∅, 0)` before any int64 arithmetic is done.
-/
namespace S2S.Routing

open S2S.Ring (Op Entry Key Ref Good NoOverflow two63 Buf Rel)

theorem phys_aggregate_below {b : Buf} {r : Ref} (h : Rel b r) (w : Int) (hw : w < r.lo ∨ r.hi = r.lo) :
    b.aggregate w = ([], 0) := by
  unfold Buf.aggregate
  have h1 := h.start
  have h2 := h.size
  by_cases h0 : b.size = 0
  · rw [if_pos h0]
  · rw [if_neg h0]
    have : w < b.start := by
      rcases hw with hw | hw
      · omega
      · exfalso; apply h0; omega
    rw [if_pos this]

theorem abs_aggregate_below {ring : ARing} {npid : Int} {r : Ref} (h : RRel ring npid r) (w : Int)
    (hw : w < r.lo ∨ r.hi = r.lo) : aggregate ring w = ([], 0) := by
  have : ring.takeWhile (fun e => decide (e.1 ≤ w)) = [] := by
    rw [contig_takeWhile h.contig, List.filter_eq_nil_iff]
    intro e he
    have h1 := contig_mem_ge h.contig e he
    have h2 := h.hi
    have h3 : 0 < ring.length := List.length_pos_of_mem he
    simp only [decide_eq_true_eq]
    omega
  simp only [aggregate, this]
  rfl

end S2S.Routing
