import S2S.Proofs.RoutingInvMain
import S2S.Spec.RoutingFaults
/-!
The invariant for "C04 modulo the recorded findings" (runs WITH stream breaks and re-opens).

It is the C01 invariant (`RoutingInvDef.lean`) relativised to the tasks the *current* incarnations are
responsible for (`Need`): tasks of source `s` owned by `t` that were received by the current incarnation
of `s` only (not by an earlier one) and were not handed to an incarnation of `t` that broke; every bound
that was `≤ lastHigh` becomes `≤ maxHigh s` (the ghost maximum over all incarnations of `s`), because stale
values of earlier incarnations survive in the targets' channels / rings / `prevAck`.
-/
namespace S2S.Routing

/-- effective base: between `breakSrc` and the next `openSrc` every received task belongs to a dead incarnation -/
def ebase (γ : Ghost) (s : SId) (x : Source) : Nat :=
  if x.active then γ.baseOf s else x.received.length

/-- the tasks of `s` owned by `t` that the current incarnations answer for -/
def Need (γ : Ghost) (s : SId) (t : TId) (x : Source) (id : Int) : Prop :=
  (id, t) ∈ x.received ∧ (id, t) ∉ x.received.take (ebase γ s x) ∧ (s, id) ∉ γ.lostOf t

/-- every needed task with id `< v` is confirmed on `tg` -/
def SafeN (N : Int → Prop) (s : SId) (tg : Target) (v : Int) : Prop :=
  ∀ id, N id → id < v → (s, id) ∈ tg.confirmed

def FlatRelN (N : Int → Prop) (y z : Int × Bool) : Prop := z.2 = true → N z.1 → y.1 ≤ z.1

/-- `N` = the needed tasks of the pair, `M` = `maxHigh s` -/
structure PairF (N : Int → Prop) (M : Int) (s : SId) (t : TId) (x : Source) (tg : Target) : Prop where
  cover : ∀ id, N id → (∃ p, (s, id, p) ∈ tg.assigned) ∨ (id, true) ∈ flat s t x tg
  sorted : (flat s t x tg).Pairwise (FlatRelN N)
  flat_le : ∀ y ∈ flat s t x tg, y.1 ≤ M
  ring_ok : ∀ p o, (p, s, o) ∈ tg.ring → ∀ id, N id → id < o →
    ∃ p', p' < p ∧ (s, id, p') ∈ tg.assigned
  ring_le : ∀ p o, (p, s, o) ∈ tg.ring → o ≤ M
  todo_safe : ∀ todo d r, tg.ackPc = .forwarding todo d r → ∀ v, (s, v) ∈ todo →
    SafeN N s tg v ∧ v ≤ M
  prev_safe : ∀ v, (s, v) ∈ tg.prevAck → SafeN N s tg v ∧ v ≤ M
  chan_safe : ∀ v, (t, v) ∈ x.ackChan → SafeN N s tg v ∧ v ≤ M
  abt_safe : ∀ v, (t, v) ∈ x.ackByTarget → SafeN N s tg v ∧ v ≤ M
  last_safe : ∀ a, x.lastSentAck = some a → SafeN N s tg a
  seeded : ∀ id, N id → (aget x.ackByTarget t).isSome = true
  cur_lt : ∀ id, N id → id < x.lastHigh
  grave_low : ∀ i h, (i, some h) ∈ x.graveyard → ∀ id, N id → h ≤ id

structure SrcF (M : Int) (x : Source) : Prop where
  wm_le : ∀ h, x.lastWatermark = some h → h ≤ x.lastHigh
  wm_pend : ∀ h, x.lastWatermark = some h → ∀ t, ∀ y ∈ pendVals x.pc t, h ≤ y.1
  bcast_le : ∀ high todo, x.pc = .bcast high todo → high ≤ x.lastHigh
  high_le : x.lastHigh ≤ M
  last_le : ∀ a, x.lastSentAck = some a → a ≤ M
  last_active : ∀ a, x.lastSentAck = some a → x.active = true
  grave_le : ∀ i h, (i, some h) ∈ x.graveyard → h ≤ M
  m_nonneg : 0 ≤ M

def Target.reset (tg : Target) : Target :=
  { inc := tg.inc, emitted := tg.emitted, confirmed := tg.confirmed }

structure TgtF (tg : Target) : Prop where
  unreg : tg.registered = false → tg = tg.reset
  asg_le : ∀ s id p, (s, id, p) ∈ tg.assigned → p ≤ tg.nextProxyId
  chan_handed : ∀ m, m ∈ tg.sendChan → m ∈ tg.handed
  asg_handed : ∀ s id p, (s, id, p) ∈ tg.assigned → (s, id) ∈ tasksOf tg.handed

structure InvF (σ : State) (γ : Ghost) : Prop where
  src : ∀ s, SrcF (γ.maxHighOf s) (σ.src s)
  tgt : ∀ t, TgtF (σ.tgt t)
  pair : ∀ s t, PairF (Need γ s t (σ.src s)) (γ.maxHighOf s) s t (σ.src s) (σ.tgt t)

/-! ### monotonicity -/

theorem SafeN.mono {N N' : Int → Prop} {s : SId} {tg tg' : Target} {v : Int} (h : SafeN N s tg v)
    (hN : ∀ id, N' id → N id) (hc : ∀ a, a ∈ tg.confirmed → a ∈ tg'.confirmed) : SafeN N' s tg' v :=
  fun id hn hlt => hc _ (h id (hN id hn) hlt)

theorem PairF.mono {N N' : Int → Prop} {M M' : Int} {s : SId} {t : TId} {x : Source} {tg : Target}
    (h : PairF N M s t x tg) (hN : ∀ id, N' id → N id) (hM : M ≤ M') : PairF N' M' s t x tg := by
  have hs : ∀ v, SafeN N s tg v ∧ v ≤ M → SafeN N' s tg v ∧ v ≤ M' :=
    fun v hv => ⟨hv.1.mono hN (fun _ ha => ha), Int.le_trans hv.2 hM⟩
  refine ⟨fun id hn => h.cover id (hN id hn), h.sorted.imp (fun hr hz hn => hr hz (hN _ hn)),
    fun y hy => Int.le_trans (h.flat_le y hy) hM, fun p o hm id hn => h.ring_ok p o hm id (hN id hn),
    fun p o hm => Int.le_trans (h.ring_le p o hm) hM,
    fun todo d r e v hv => hs v (h.todo_safe todo d r e v hv),
    fun v hv => hs v (h.prev_safe v hv), fun v hv => hs v (h.chan_safe v hv),
    fun v hv => hs v (h.abt_safe v hv), fun a ha => (h.last_safe a ha).mono hN (fun _ ha => ha),
    fun id hn => h.seeded id (hN id hn), fun id hn => h.cur_lt id (hN id hn),
    fun i g hg id hn => h.grave_low i g hg id (hN id hn)⟩

theorem SrcF.mono {M M' : Int} {x : Source} (h : SrcF M x) (hM : M ≤ M') : SrcF M' x :=
  ⟨h.wm_le, h.wm_pend, h.bcast_le, Int.le_trans h.high_le hM, fun a ha => Int.le_trans (h.last_le a ha) hM,
    h.last_active, fun i g hg => Int.le_trans (h.grave_le i g hg) hM, Int.le_trans h.m_nonneg hM⟩

/-! ### the ghost -/

def Ghost.upd (σ : State) (γ : Ghost) : Act → Ghost
  | .openSrc s => { γ with base := aset γ.base s (σ.src s).received.length }
  | .recv s _ high => { γ with maxHigh := aset γ.maxHigh s (if high > γ.maxHighOf s then high else γ.maxHighOf s) }
  | .breakTgt t => { γ with lost := aset γ.lost t (γ.lostOf t ++ tasksOf (σ.tgt t).handed) }
  | _ => γ

theorem ghost_next_of_step {c : Cfg} {σ σ' : State} (γ : Ghost) {a : Act} (h : step c σ a = some σ') :
    γ.next c σ a = γ.upd σ a := by
  unfold Ghost.next; rw [h]; cases a <;> rfl

theorem ghost_next_none {c : Cfg} {σ : State} (γ : Ghost) {a : Act} (h : step c σ a = none) :
    γ.next c σ a = γ := by
  unfold Ghost.next; rw [h]

theorem Need.of_eq {γ γ' : Ghost} {s : SId} {t : TId} {x x' : Source} {id : Int}
    (h : Need γ' s t x' id) (hr : x'.received = x.received) (hb : ebase γ' s x' = ebase γ s x)
    (hl : γ'.lostOf t = γ.lostOf t) : Need γ s t x id := by
  unfold Need at h ⊢
  rw [hr, hb, hl] at h; exact h

/-! ### initial state -/

theorem pairF_default (N : Int → Prop) (M : Int) (s : SId) (t : TId) (hN : ∀ id, ¬ N id) : PairF N M s t {} {} := by
  refine ⟨?_, ?_, ?_, ?_, ?_, ?_, ?_, ?_, ?_, ?_, ?_, ?_, ?_⟩
  · intro id h; exact absurd h (hN id)
  · exact List.Pairwise.nil
  · intro y h; cases h
  · intro p o h; cases h
  · intro p o h; cases h
  · intro todo d r h; cases h
  · intro v h; cases h
  · intro v h; cases h
  · intro v h; cases h
  · intro a h; cases h
  · intro id h; exact absurd h (hN id)
  · intro id h; exact absurd h (hN id)
  · intro i g h; cases h

theorem srcF_default : SrcF 0 {} := by
  refine ⟨?_, ?_, ?_, Int.le_refl _, ?_, ?_, ?_, Int.le_refl _⟩
  · intro h e; cases e
  · intro h e; cases e
  · intro h todo e; cases e
  · intro a e; cases e
  · intro a e; cases e
  · intro i g e; cases e

theorem tgtF_default : TgtF {} := by
  refine ⟨fun _ => rfl, ?_, ?_, ?_⟩
  · intro s id p h; cases h
  · intro m h; cases h
  · intro s id p h; cases h

theorem invF_init (ns nt : Nat) : InvF (State.init ns nt) {} := by
  refine ⟨?_, ?_, ?_⟩
  · intro s; rw [src_init]; exact srcF_default
  · intro t; rw [tgt_init]; exact tgtF_default
  · intro s t; rw [src_init, tgt_init]
    exact pairF_default _ _ s t (fun id h => by cases h.1)

/-! ### lifting record-level facts to states (ghost unchanged) -/

theorem invF_setSrc {σ : State} {γ : Ghost} (hI : InvF σ γ) (s : SId) (x' : Source)
    (hs : SrcF (γ.maxHighOf s) x')
    (hp : ∀ t, PairF (Need γ s t x') (γ.maxHighOf s) s t x' (σ.tgt t)) : InvF (σ.setSrc s x') γ := by
  refine ⟨?_, ?_, ?_⟩
  · intro s'; rw [src_setSrc]; split
    · rename_i h; rw [h.1]; exact hs
    · exact hI.src s'
  · intro t; exact hI.tgt t
  · intro s' t; rw [src_setSrc, tgt_setSrc]; split
    · rename_i h; rw [h.1]; exact hp t
    · exact hI.pair s' t

theorem invF_setTgt {σ : State} {γ : Ghost} (hI : InvF σ γ) (t : TId) (tg' : Target) (ht : TgtF tg')
    (hp : ∀ s, PairF (Need γ s t (σ.src s)) (γ.maxHighOf s) s t (σ.src s) tg') : InvF (σ.setTgt t tg') γ := by
  refine ⟨?_, ?_, ?_⟩
  · intro s; exact hI.src s
  · intro t'; rw [tgt_setTgt]; split
    · exact ht
    · exact hI.tgt t'
  · intro s t'; rw [tgt_setTgt, src_setTgt]; split
    · rename_i h; rw [h.1]; exact hp s
    · exact hI.pair s t'

theorem invF_setBoth {σ : State} {γ : Ghost} (hI : InvF σ γ) (s : SId) (t : TId) (x' : Source) (tg' : Target)
    (hsl : s < σ.sources.length) (htl : t < σ.targets.length)
    (hs : SrcF (γ.maxHighOf s) x') (ht : TgtF tg')
    (h1 : PairF (Need γ s t x') (γ.maxHighOf s) s t x' tg')
    (h2 : ∀ t', t' ≠ t → PairF (Need γ s t' x') (γ.maxHighOf s) s t' x' (σ.tgt t'))
    (h3 : ∀ s', s' ≠ s → PairF (Need γ s' t (σ.src s')) (γ.maxHighOf s') s' t (σ.src s') tg') :
    InvF ((σ.setSrc s x').setTgt t tg') γ := by
  refine ⟨?_, ?_, ?_⟩
  · intro s'; rw [src_setTgt, src_setSrc]; split
    · rename_i h; rw [h.1]; exact hs
    · exact hI.src s'
  · intro t'; rw [tgt_setTgt]; split
    · exact ht
    · exact hI.tgt t'
  · intro s' t'
    rw [tgt_setTgt, src_setTgt, src_setSrc, tgt_setSrc]
    by_cases e1 : s' = s <;> by_cases e2 : t' = t
    · subst e1; subst e2; simp [hsl, htl, h1]
    · subst e1; simp [hsl, e2, h2 t' e2]
    · subst e2; simp [htl, e1, h3 s' e1]
    · simp [e1, e2, hI.pair s' t']

theorem src_active_lt (σ : State) {s : SId} (h : (σ.src s).active = true) : s < σ.sources.length := by
  apply src_lt_of_ne; intro e; rw [e] at h; cases h

theorem tgt_registered_lt (σ : State) {t : TId} (h : (σ.tgt t).registered = true) : t < σ.targets.length := by
  apply tgt_lt_of_ne; intro e; rw [e] at h; cases h

theorem TgtF.registered_of_ne_reset {tg : Target} (h : TgtF tg) (hne : tg ≠ tg.reset) : tg.registered = true := by
  cases hr : tg.registered with
  | true => rfl
  | false => exact absurd (h.unreg hr) hne

end S2S.Routing
