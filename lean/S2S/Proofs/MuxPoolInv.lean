import S2S.Proofs.MuxPoolBasic
/-! The inductive invariant of the mux pool model and its preservation by every step (any defects). -/
namespace S2S.MuxPool

def Phase.sessInflight : Phase → Nat | .haveSession _ | .pinged _ => 1 | _ => 0
def Phase.rawInflight : Phase → Nat | .haveConn _ => 1 | _ => 0

structure Inv (σ : St) : Prop where
  cons   : σ.permits + σ.phase.inflight + σ.cntS Stage.isHeld + σ.lostPermits = σ.cap
  nRaw   : σ.cntS Stage.isRaw = σ.phase.rawInflight
  nSess  : σ.cntS Stage.isSessioned = σ.phase.sessInflight
  nLost  : σ.cntS Stage.isLost ≤ σ.lostPermits
  pRaw   : ∀ c, σ.phase = .haveConn c → c < σ.conns.length ∧ (σ.conn c).stage = .raw
  pSess  : ∀ c, σ.phase = .haveSession c ∨ σ.phase = .pinged c → c < σ.conns.length ∧ (σ.conn c).stage = .sessioned
  sessSt : ∀ x ∈ σ.conns, x.sessOpen = true → x.stage.maySess = true
  liveOk : σ.live = true → σ.lostPermits = 0 ∧ σ.phase ≠ .exited ∧ σ.mgrClosed = false

theorem inv_init (n : Nat) (r : Role) : Inv (St.init n r) := by
  constructor <;> simp [St.init, St.cntS, Phase.inflight, Phase.rawInflight, Phase.sessInflight]

/-- all stage counts after replacing connection `c` -/
theorem set_counts (σ : St) (c : Nat) (h : c < σ.conns.length) (f : Stage → Bool) (x : Conn) :
    (σ.conns.set c x).countP (fun y => f y.stage) + (f (σ.conn c).stage).toNat
      = σ.conns.countP (fun y => f y.stage) + (f x.stage).toNat := by
  have := cntS_setConn σ c x f h
  simpa [St.cntS, St.setConn] using this

theorem mem_set {σ : St} {c : Nat} {x y : Conn} (h : y ∈ σ.conns.set c x) : y = x ∨ y ∈ σ.conns := by
  rcases List.mem_or_eq_of_mem_set h with h | h
  · exact .inr h
  · exact .inl h

theorem getD_set_same (l : List Conn) (c : Nat) (x : Conn) (h : c < l.length) : (l.set c x).getD c {} = x := by
  simp [List.getD, h]


/-- shape 1: one connection replaced, scalar fields changed -/
theorem inv_set (σ : St) (hi : Inv σ) (c : Nat) (hlen : c < σ.conns.length) (x' : Conn)
    (ph' : Phase) (p' l' ms' : Nat) (lv' mc' : Bool)
    (hcons : p' + ph'.inflight + (Stage.isHeld x'.stage).toNat + l'
              = σ.permits + σ.phase.inflight + (Stage.isHeld (σ.conn c).stage).toNat + σ.lostPermits)
    (hraw : ph'.rawInflight + (Stage.isRaw (σ.conn c).stage).toNat = σ.phase.rawInflight + (Stage.isRaw x'.stage).toNat)
    (hsess : ph'.sessInflight + (Stage.isSessioned (σ.conn c).stage).toNat = σ.phase.sessInflight + (Stage.isSessioned x'.stage).toNat)
    (hlost : (Stage.isLost x'.stage).toNat + σ.lostPermits ≤ l' + (Stage.isLost (σ.conn c).stage).toNat)
    (hpraw : ∀ c', ph' = .haveConn c' → (c' = c ∧ x'.stage = .raw) ∨ (c' ≠ c ∧ σ.phase = .haveConn c'))
    (hpsess : ∀ c', ph' = .haveSession c' ∨ ph' = .pinged c' →
        (c' = c ∧ x'.stage = .sessioned) ∨ (c' ≠ c ∧ (σ.phase = .haveSession c' ∨ σ.phase = .pinged c')))
    (hso : x'.sessOpen = true → x'.stage.maySess = true)
    (hlive : lv' = true → σ.live = true ∧ l' = σ.lostPermits ∧ ph' ≠ .exited ∧ mc' = σ.mgrClosed) :
    Inv { cap := σ.cap, permits := p', phase := ph', conns := σ.conns.set c x', muxSeq := ms', live := lv',
          mgrClosed := mc', lostPermits := l', role := σ.role } := by
  have H := set_counts σ c hlen
  have h1 := H Stage.isHeld x'
  have h2 := H Stage.isRaw x'
  have h3 := H Stage.isSessioned x'
  have h4 := H Stage.isLost x'
  have ⟨i1, i2, i3, i4, i5, i6, i7, i8⟩ := hi
  simp only [St.cntS] at i1 i2 i3 i4
  constructor
  · dsimp only [St.cntS]; omega
  · dsimp only [St.cntS]; omega
  · dsimp only [St.cntS]; omega
  · dsimp only [St.cntS]; omega
  · intro c' hc'
    simp only [List.length_set]
    rcases hpraw c' hc' with ⟨rfl, hx⟩ | ⟨hne, hp⟩
    · exact ⟨hlen, by simp [St.conn, List.getD, hlen, hx]⟩
    · obtain ⟨a, b⟩ := i5 c' hp
      refine ⟨a, ?_⟩
      simp only [St.conn, List.getD, List.getElem?_set, if_neg (Ne.symm hne)] at b ⊢
      exact b
  · intro c' hc'
    simp only [List.length_set]
    rcases hpsess c' hc' with ⟨rfl, hx⟩ | ⟨hne, hp⟩
    · exact ⟨hlen, by simp [St.conn, List.getD, hlen, hx]⟩
    · obtain ⟨a, b⟩ := i6 c' hp
      refine ⟨a, ?_⟩
      simp only [St.conn, List.getD, List.getElem?_set, if_neg (Ne.symm hne)] at b ⊢
      exact b
  · intro y hy
    rcases mem_set hy with rfl | hy
    · exact hso
    · exact i7 y hy
  · intro hl
    obtain ⟨a, b, c1, d1⟩ := hlive hl
    obtain ⟨e, f, g⟩ := i8 a
    exact ⟨by show l' = 0; omega, c1, by show mc' = false; rw [d1]; exact g⟩

/-- shape 2: connections untouched -/
theorem inv_same (σ : St) (hi : Inv σ) (ph' : Phase) (p' l' ms' : Nat) (lv' mc' : Bool)
    (hcons : p' + ph'.inflight + l' = σ.permits + σ.phase.inflight + σ.lostPermits)
    (hraw : ph'.rawInflight = σ.phase.rawInflight)
    (hsess : ph'.sessInflight = σ.phase.sessInflight)
    (hlost : σ.lostPermits ≤ l')
    (hpraw : ∀ c', ph' = .haveConn c' → σ.phase = .haveConn c')
    (hpsess : ∀ c', ph' = .haveSession c' ∨ ph' = .pinged c' → (σ.phase = .haveSession c' ∨ σ.phase = .pinged c'))
    (hlive : lv' = true → σ.live = true ∧ l' = σ.lostPermits ∧ ph' ≠ .exited ∧ mc' = σ.mgrClosed) :
    Inv { cap := σ.cap, permits := p', phase := ph', conns := σ.conns, muxSeq := ms', live := lv',
          mgrClosed := mc', lostPermits := l', role := σ.role } := by
  have ⟨i1, i2, i3, i4, i5, i6, i7, i8⟩ := hi
  simp only [St.cntS] at i1 i2 i3 i4
  constructor
  · dsimp only [St.cntS]; omega
  · dsimp only [St.cntS]; omega
  · dsimp only [St.cntS]; omega
  · dsimp only [St.cntS]; omega
  · intro c' hc'; exact i5 c' (hpraw c' hc')
  · intro c' hc'; exact i6 c' (hpsess c' hc')
  · exact i7
  · intro hl
    obtain ⟨a, b, c1, d1⟩ := hlive hl
    obtain ⟨e, f, g⟩ := i8 a
    exact ⟨by show l' = 0; omega, c1, by show mc' = false; rw [d1]; exact g⟩


/-- shape 3: a fresh raw connection appended (`NewConnection` succeeded) -/
theorem inv_push (σ : St) (hi : Inv σ) (hph : σ.phase = .acquired) :
    Inv { σ with phase := .haveConn σ.conns.length, conns := σ.conns ++ [{}] } := by
  have ⟨i1, i2, i3, i4, i5, i6, i7, i8⟩ := hi
  simp only [St.cntS, hph, Phase.inflight, Phase.rawInflight, Phase.sessInflight] at i1 i2 i3 i4
  have e1 : Stage.isHeld Stage.raw = false := rfl
  have e2 : Stage.isRaw Stage.raw = true := rfl
  have e3 : Stage.isSessioned Stage.raw = false := rfl
  have e4 : Stage.isLost Stage.raw = false := rfl
  constructor
  · simp [St.cntS, Phase.inflight, e1]; omega
  · simp only [St.cntS, Phase.rawInflight, List.countP_append, List.countP_cons, List.countP_nil, e2]; simp [i2]
  · simp only [St.cntS, Phase.sessInflight, List.countP_append, List.countP_cons, List.countP_nil, e3]; simp [i3]
  · simp [St.cntS, e4]; omega
  · intro c' hc'
    simp only [Phase.haveConn.injEq] at hc'
    subst hc'
    simp [St.conn, List.getD]
  · intro c' hc'
    simp at hc'
  · intro y hy
    simp only [List.mem_append, List.mem_singleton] at hy
    rcases hy with hy | rfl
    · exact i7 y hy
    · simp
  · intro hl
    obtain ⟨e, f, g⟩ := i8 hl
    exact ⟨e, by simp, g⟩

macro "mp_side" : tactic => `(tactic|
  (simp_all [St.setConn, Conn.closeBoth, Phase.inflight, Phase.rawInflight, Phase.sessInflight, Stage.isHeld,
         Stage.isRegistered, Stage.isCleaned, Stage.isRaw, Stage.isSessioned, Stage.isLost, Stage.maySess] <;> try omega))

/-- side goals about the in-flight pointer / liveness for steps on an arbitrary connection `c` -/
macro "mp_ptr" hi:ident c:ident : tactic => `(tactic|
  first
  | (intro c' hc'
     by_cases hcc : c' = $c
     · subst hcc
       first
       | (have h1 := ($hi).pRaw _ hc'; simp_all)
       | (have h1 := ($hi).pSess _ hc'; simp_all)
     · exact .inr hcc)
  | (intro c' hc' hcc
     subst hcc
     first
     | (have h1 := ($hi).pRaw _ hc'; simp_all)
     | (have h1 := ($hi).pSess _ hc'; simp_all))
  | (intro hl; exact (($hi).liveOk hl).2.1))

theorem inv_step (d : Defects) (σ σ' : St) (a : Act) (hi : Inv σ) (hs : step d σ a = some σ') : Inv σ' := by
  cases a with
  | acquire =>
    simp only [step] at hs
    split at hs
    · rename_i hph
      split at hs <;> cases hs
      rename_i hc
      refine inv_same σ hi _ _ _ _ _ _ ?_ ?_ ?_ ?_ ?_ ?_ ?_ <;> mp_side
    · cases hs
  | acquireFail =>
    simp only [step] at hs
    split at hs
    · rename_i hph
      split at hs <;> cases hs
      refine inv_same σ hi _ _ _ _ _ _ ?_ ?_ ?_ ?_ ?_ ?_ ?_ <;> mp_side
    · cases hs
  | connErr =>
    simp only [step] at hs
    split at hs
    · rename_i hph
      split at hs <;> cases hs
      · refine inv_same σ hi _ _ _ _ _ _ ?_ ?_ ?_ ?_ ?_ ?_ ?_ <;> mp_side
      · refine inv_same σ hi _ _ _ _ _ _ ?_ ?_ ?_ ?_ ?_ ?_ ?_ <;> mp_side
    · cases hs
  | connOk =>
    simp only [step] at hs
    split at hs
    · rename_i hph
      cases hs
      exact inv_push σ hi hph
    · cases hs
  | sessErr =>
    simp only [step] at hs
    split at hs
    · rename_i c hph
      obtain ⟨hlen, hst⟩ := hi.pRaw c hph
      have hso : (σ.conn c).sessOpen = false := by
        cases h : (σ.conn c).sessOpen
        · rfl
        · have := hi.sessSt _ (conn_mem σ c hlen) h
          simp [hst, Stage.maySess] at this
      split at hs <;> cases hs
      · refine inv_set σ hi c hlen _ _ _ _ _ _ _ ?_ ?_ ?_ ?_ ?_ ?_ ?_ ?_ <;> mp_side
      · refine inv_set σ hi c hlen _ _ _ _ _ _ _ ?_ ?_ ?_ ?_ ?_ ?_ ?_ ?_ <;> mp_side
        all_goals (split <;> simp_all)
    · cases hs
  | sessOk =>
    simp only [step] at hs
    split at hs
    · rename_i c hph
      obtain ⟨hlen, hst⟩ := hi.pRaw c hph
      cases hs
      refine inv_set σ hi c hlen _ _ _ _ _ _ _ ?_ ?_ ?_ ?_ ?_ ?_ ?_ ?_ <;> mp_side
    · cases hs
  | pingOk =>
    simp only [step] at hs
    split at hs
    · rename_i c hph
      split at hs <;> cases hs
      refine inv_same σ hi _ _ _ _ _ _ ?_ ?_ ?_ ?_ ?_ ?_ ?_ <;> mp_side
    · cases hs
  | pingErr k =>
    simp only [step] at hs
    split at hs
    · rename_i c hph
      obtain ⟨hlen, hst⟩ := hi.pSess c (.inl hph)
      split at hs <;> cases hs
      · refine inv_set σ hi c hlen _ _ _ _ _ _ _ ?_ ?_ ?_ ?_ ?_ ?_ ?_ ?_ <;> mp_side
      · refine inv_set σ hi c hlen _ _ _ _ _ _ _ ?_ ?_ ?_ ?_ ?_ ?_ ?_ ?_ <;> mp_side
    · cases hs
  | add =>
    simp only [step] at hs
    split at hs
    · rename_i c hph
      obtain ⟨hlen, hst⟩ := hi.pSess c (.inr hph)
      split at hs <;> cases hs
      · refine inv_set σ hi c hlen _ _ _ _ _ _ _ ?_ ?_ ?_ ?_ ?_ ?_ ?_ ?_ <;> mp_side
      · refine inv_set σ hi c hlen _ _ _ _ _ _ _ ?_ ?_ ?_ ?_ ?_ ?_ ?_ ?_ <;> mp_side
    · cases hs
  | peerClose c =>
    simp only [step] at hs
    split at hs <;> cases hs
    rename_i hc
    obtain ⟨hlen, hso⟩ := hc
    refine inv_set σ hi c hlen _ _ _ _ _ _ _ ?_ ?_ ?_ ?_ ?_ ?_ ?_ ?_ <;> mp_side
    all_goals mp_ptr hi c
  | localClose c =>
    simp only [step] at hs
    split at hs
    · rename_i mid hst
      split at hs <;> cases hs
      rename_i hc
      obtain ⟨hlen, hcd⟩ := hc
      refine inv_set σ hi c hlen _ _ _ _ _ _ _ ?_ ?_ ?_ ?_ ?_ ?_ ?_ ?_ <;> mp_side
      all_goals mp_ptr hi c
    · cases hs
  | cleanup c =>
    simp only [step] at hs
    split at hs
    · rename_i mid hst
      split at hs <;> cases hs
      rename_i hc
      obtain ⟨hlen, hcd⟩ := hc
      refine inv_set σ hi c hlen _ _ _ _ _ _ _ ?_ ?_ ?_ ?_ ?_ ?_ ?_ ?_ <;> mp_side
      all_goals mp_ptr hi c
    · cases hs
  | release c =>
    simp only [step] at hs
    split at hs
    · rename_i mid hst
      split at hs <;> cases hs
      rename_i hlen
      have hso : (σ.conn c).sessOpen = false := by
        cases h : (σ.conn c).sessOpen
        · rfl
        · have := hi.sessSt _ (conn_mem σ c hlen) h
          simp [hst, Stage.maySess] at this
      refine inv_set σ hi c hlen _ _ _ _ _ _ _ ?_ ?_ ?_ ?_ ?_ ?_ ?_ ?_ <;> mp_side
      all_goals mp_ptr hi c
    · cases hs
  | cancel =>
    simp only [step] at hs
    split at hs <;> cases hs
    refine inv_same σ hi _ _ _ _ _ _ ?_ ?_ ?_ ?_ ?_ ?_ ?_ <;> mp_side
  | onClose =>
    simp only [step] at hs
    split at hs
    · rename_i hph
      split at hs <;> cases hs
      refine inv_same σ hi _ _ _ _ _ _ ?_ ?_ ?_ ?_ ?_ ?_ ?_ <;> mp_side
    · cases hs

theorem inv_run (d : Defects) (σ : St) (acts : List Act) (hi : Inv σ) : Inv (run d σ acts) := by
  induction acts generalizing σ with
  | nil => exact hi
  | cons a rest ih =>
    simp only [run, List.foldl_cons]
    cases h : step d σ a with
    | none => simpa [run] using ih σ hi
    | some σ' => simpa [run] using ih σ' (inv_step d σ σ' a hi h)

theorem inv_reach (d : Defects) (n : Nat) (r : Role) (acts : List Act) : Inv (run d (St.init n r) acts) :=
  inv_run d _ acts (inv_init n r)

end S2S.MuxPool
