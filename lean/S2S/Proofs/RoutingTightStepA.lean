import S2S.Proofs.RoutingTightDef
/-! Preservation of `InvT`: the steps that leave the ghost alone and touch neither `pc` nor a send channel
    (`emit`, `startTgt`, `replayDone`, `ackFin`, `tick`, `tack`, `ackFwd`, `rack`). -/
namespace S2S.Routing

theorem step_invT_emit {σ σ' : State} {γ : GhostT} (hI : InvT σ γ) (t : TId)
    (h : step Cfg.cur σ (.emit t) = some σ') (hF' : InvF σ' γ.g) : InvT σ' γ := by
  simp only [step] at h
  split at h
  · cases h
  · simp only [Option.some.injEq] at h
    subst h
    exact invT_setTgt hI γ t _ hF' (hI.tgtS t) (fun _ _ _ _ hl => hl)
      (fun s => (hI.pair s t).congr rfl rfl rfl rfl rfl rfl rfl)

theorem step_invT_startTgt {σ σ' : State} {γ : GhostT} (hI : InvT σ γ) (t : TId)
    (h : step Cfg.cur σ (.startTgt t) = some σ') (hF' : InvF σ' γ.g) : InvT σ' γ := by
  simp only [step] at h
  split at h
  · cases h
  · simp only [Option.some.injEq] at h
    subst h
    exact invT_setTgt hI γ t _ hF' (hI.tgtS t) (fun _ _ _ _ hl => hl)
      (fun s => (hI.pair s t).congr rfl rfl rfl rfl rfl rfl rfl)

theorem step_invT_replayDone {σ σ' : State} {γ : GhostT} (hI : InvT σ γ) (t : TId)
    (h : step Cfg.cur σ (.replayDone t) = some σ') (hF' : InvF σ' γ.g) : InvT σ' γ := by
  simp only [step] at h
  split at h
  · simp only [Option.some.injEq] at h
    subst h
    exact invT_setTgt hI γ t _ hF' (hI.tgtS t) (fun _ _ _ _ hl => hl)
      (fun s => (hI.pair s t).congr rfl rfl rfl rfl rfl rfl rfl)
  · cases h

theorem step_invT_ackFin {σ σ' : State} {γ : GhostT} (hI : InvT σ γ) (t : TId)
    (h : step Cfg.cur σ (.ackFin t) = some σ') (hF' : InvF σ' γ.g) : InvT σ' γ := by
  simp only [step] at h
  split at h
  · simp only [Option.some.injEq] at h
    subst h
    refine invT_setTgt hI γ t _ hF' (hI.tgtS t) (fun _ _ _ _ hl => hl) ?_
    intro s
    have hp := hI.pair s t
    refine ⟨?_, ?_, hp.prev_safe, hp.chan_safe, hp.abt_safe, hp.last_safe, hp.seeded⟩
    · intro p o hm; exact hp.ring_lost p o (List.mem_of_mem_drop hm)
    · intro todo d r e; cases e
  · cases h

/-! tick -/

theorem pairT_tick {L : Int → Prop} {s : SId} {t : TId} {x : Source} {tg : Target}
    (h : PairT L s t x tg) : PairT L s t (tickSrc x) (tickTgt tg) := by
  have h1 : PairT L s t x (tickTgt tg) := by
    unfold tickTgt; split
    · exact h.congr rfl rfl rfl rfl rfl rfl rfl
    · exact h
  unfold tickSrc
  split
  · split
    · exact h1.congr rfl rfl rfl rfl rfl rfl rfl
    · exact h1
  · exact h1

theorem tickSrc_pc (x : Source) : (tickSrc x).pc = x.pc := by
  unfold tickSrc; split
  · split <;> rfl
  · rfl

theorem tickTgt_sendChan (tg : Target) : (tickTgt tg).sendChan = tg.sendChan := by
  unfold tickTgt; split <;> rfl

theorem lost_tick {γ : GhostT} {s : SId} {t : TId} {x : Source} {id : Int} (h : Lost γ s t (tickSrc x) id) :
    Lost γ s t x id :=
  h.of_eq (tickSrc_received x) (by unfold ebase; rw [tickSrc_active, tickSrc_received]) rfl (fun _ ha => ha)

theorem step_invT_tick {σ σ' : State} {γ : GhostT} (hI : InvT σ γ)
    (h : step Cfg.cur σ .tick = some σ') (hF' : InvF σ' γ.g) : InvT σ' γ := by
  rw [step_tick] at h
  simp only [Option.some.injEq] at h
  subst h
  refine ⟨hF', ?_, ?_, ?_⟩
  · intro s; rw [tick_src]; unfold SrcS; rw [tickSrc_pc]; exact hI.srcS s
  · intro t; rw [tick_tgt]; unfold TgtS; rw [tickTgt_sendChan]; exact hI.tgtS t
  · intro s t; rw [tick_src, tick_tgt]
    exact (pairT_tick (hI.pair s t)).mono (fun id hl => lost_tick hl)

/-! tack -/

theorem pairT_tack {L : Int → Prop} {s : SId} {t : TId} {x : Source} {tg : Target}
    (h : PairT L s t x tg) (w : Int)
    (pc' : AckPc) (ta : List Int)
    (hpc : ∀ todo d r, pc' = .forwarding todo d r → ∀ v, (s, v) ∈ todo →
      (s, v) ∈ tg.prevAck ∨ (s, v) ∈ (aggregate tg.ring w).1) :
    PairT L s t x { tg with
      ackPc := pc'
      targetAcks := ta
      confirmed := tg.confirmed ++ (tg.assigned.filter (fun a => a.2.2 < w)).map (fun a => (a.1, a.2.1)) } := by
  have hs : ∀ v, SafeN L s tg v → SafeN L s { tg with
      ackPc := pc'
      targetAcks := ta
      confirmed := tg.confirmed ++ (tg.assigned.filter (fun a => a.2.2 < w)).map (fun a => (a.1, a.2.1)) } v :=
    fun v hv => hv.mono (fun _ hl => hl) (fun a ha => List.mem_append_left _ ha)
  refine ⟨fun p o hm => hs o (h.ring_lost p o hm), ?_, fun v hv => hs v (h.prev_safe v hv),
    fun v hv => hs v (h.chan_safe v hv), fun v hv => hs v (h.abt_safe v hv),
    fun a ha => hs a (h.last_safe a ha), h.seeded⟩
  intro todo d r e v hv
  rcases hpc todo d r e v hv with hv | hv
  · exact hs v (h.prev_safe v hv)
  · obtain ⟨p, _, hpr⟩ := mem_aggregate hv
    exact hs v (h.ring_lost p v hpr)

theorem step_invT_tack {σ σ' : State} {γ : GhostT} (hI : InvT σ γ) (t : TId) (w : Int)
    (h : step Cfg.cur σ (.tack t w) = some σ') (hF' : InvF σ' γ.g) : InvT σ' γ := by
  simp only [step] at h
  split at h
  · cases h
  · split at h
    · simp only [Option.some.injEq] at h
      subst h
      refine invT_setTgt hI γ t _ hF' (hI.tgtS t) (fun _ _ _ _ hl => hl) ?_
      intro s
      apply pairT_tack (hI.pair s t) w
      intro todo d r e v hv
      split at e
      · cases e
      · cases e; left; exact hv
    · simp only [Option.some.injEq] at h
      subst h
      refine invT_setTgt hI γ t _ hF' (hI.tgtS t) (fun _ _ _ _ hl => hl) ?_
      intro s
      apply pairT_tack (hI.pair s t) w
      intro todo d r e v hv
      cases e; right; exact hv

/-! ackFwd -/

theorem step_invT_ackFwd {σ σ' : State} {γ : GhostT} (hI : InvT σ γ) (t : TId) (s : SId)
    (h : step Cfg.cur σ (.ackFwd t s) = some σ') (hF' : InvF σ' γ.g) : InvT σ' γ := by
  simp only [step] at h
  split at h
  · rename_i todo d r hpc
    split at h
    · cases h
    · rename_i v hv
      split at h
      · cases h
      · rename_i hg
        simp only [Bool.not_eq_true', Bool.and_eq_false_iff, not_or, Bool.not_eq_false] at hg
        simp only [Option.some.injEq] at h
        subst h
        have hreg := (hI.f.tgt t).reg_of_fwd hpc
        rw [setTgt_setSrc_comm] at hF' ⊢
        have hmem : (s, v) ∈ todo := aget_some_mem hv
        apply invT_setBoth hI s t _ _ hF' (src_active_lt σ hg.1) (tgt_registered_lt σ hreg)
        · exact hI.srcS s
        · exact hI.tgtS t
        · -- (s, t)
          have hp := hI.pair s t
          refine ⟨hp.ring_lost, ?_, ?_, ?_, hp.abt_safe, hp.last_safe, hp.seeded⟩
          · intro todo' d' r' e v' hv'
            cases e
            exact hp.todo_safe todo d r hpc v' (List.mem_filter.1 hv').1
          · intro v' hv'
            have hv' : (s, v') ∈ (if r = true then aset (σ.tgt t).prevAck s v else (σ.tgt t).prevAck) := hv'
            split at hv'
            · rcases mem_aset hv' with hv' | ⟨_, e2⟩
              · exact hp.prev_safe v' hv'
              · subst e2; exact hp.todo_safe todo d r hpc v' hmem
            · exact hp.prev_safe v' hv'
          · intro v' hv'
            have hv' : (t, v') ∈ (σ.src s).ackChan ++ [(t, v)] := hv'
            rcases List.mem_append.1 hv' with hv' | hv'
            · exact hp.chan_safe v' hv'
            · simp only [List.mem_singleton, Prod.mk.injEq, true_and] at hv'
              subst hv'; exact hp.todo_safe todo d r hpc v' hmem
        · -- (s, t'), t' ≠ t
          intro t' hne'
          have hp := hI.pair s t'
          refine ⟨hp.ring_lost, hp.todo_safe, hp.prev_safe, ?_, hp.abt_safe, hp.last_safe, hp.seeded⟩
          intro v' hv'
          have hv' : (t', v') ∈ (σ.src s).ackChan ++ [(t, v)] := hv'
          rcases List.mem_append.1 hv' with hv' | hv'
          · exact hp.chan_safe v' hv'
          · simp only [List.mem_singleton, Prod.mk.injEq] at hv'
            exact absurd hv'.1 hne'
        · -- (s', t), s' ≠ s
          intro s' hne'
          have hp := hI.pair s' t
          refine ⟨hp.ring_lost, ?_, ?_, hp.chan_safe, hp.abt_safe, hp.last_safe, hp.seeded⟩
          · intro todo' d' r' e v' hv'
            cases e
            exact hp.todo_safe todo d r hpc v' (List.mem_filter.1 hv').1
          · intro v' hv'
            have hv' : (s', v') ∈ (if r = true then aset (σ.tgt t).prevAck s v else (σ.tgt t).prevAck) := hv'
            split at hv'
            · rcases mem_aset hv' with hv' | ⟨e1, _⟩
              · exact hp.prev_safe v' hv'
              · exact absurd e1 hne'
            · exact hp.prev_safe v' hv'
  · cases h

/-! rack -/

theorem safeN_le {L : Int → Prop} {s : SId} {tg : Target} {v v' : Int} (h : SafeN L s tg v) (hle : v' ≤ v) :
    SafeN L s tg v' := fun id hl hlt => h id hl (by omega)

theorem pairT_rack {L : Int → Prop} {s : SId} {t : TId} {x : Source} {tg : Target}
    (h : PairT L s t x tg)
    (t0 : TId) (v0 : Int) (rest : List (TId × Int)) (hch : x.ackChan = (t0, v0) :: rest)
    (lsm' : Int) (lsa' : Option Int) (acks' : List Int)
    (hl : lsa' = x.lastSentAck ∨
      ∃ m m', lsa' = some m' ∧ minVal (aset x.ackByTarget t0 v0) = some m ∧ m' ≤ m) :
    PairT L s t { x with
      ackChan := rest
      ackByTarget := aset x.ackByTarget t0 v0
      lastSentMin := lsm'
      lastSentAck := lsa'
      acksSent := acks' } tg := by
  have habt : ∀ v, (t, v) ∈ aset x.ackByTarget t0 v0 → SafeN L s tg v := by
    intro v hv
    rcases mem_aset hv with hv | ⟨e1, e2⟩
    · exact h.abt_safe v hv
    · subst e1; subst e2
      exact h.chan_safe v (by rw [hch]; exact List.mem_cons_self)
  have hseed : ∀ id, L id → (aget (aset x.ackByTarget t0 v0) t).isSome = true := by
    intro id hn
    rw [aget_aset]; split
    · rfl
    · exact h.seeded id hn
  refine ⟨h.ring_lost, h.todo_safe, h.prev_safe, ?_, habt, ?_, hseed⟩
  · intro v hv
    exact h.chan_safe v (by rw [hch]; exact List.mem_cons_of_mem _ hv)
  · intro a ha
    have ha : lsa' = some a := ha
    rcases hl with hl | ⟨m, m', e1, e2, e3⟩
    · rw [hl] at ha; exact h.last_safe a ha
    · rw [e1] at ha; cases ha
      intro id hr hlt
      obtain ⟨v', hv'⟩ := Option.isSome_iff_exists.1 (hseed id hr)
      have hmem := aget_some_mem hv'
      have hle := minVal_le e2 _ hmem
      exact habt v' hmem id hr (by simp only at hle; omega)

theorem lost_rack {γ : GhostT} {s : SId} {t : TId} {x x' : Source} {id : Int}
    (hr : x'.received = x.received) (ha : x'.active = x.active) (h : Lost γ s t x' id) : Lost γ s t x id :=
  h.of_eq hr (by unfold ebase; rw [ha, hr]) rfl (fun _ h => h)

theorem step_invT_rack {σ σ' : State} {γ : GhostT} (hI : InvT σ γ) (s : SId)
    (h : step Cfg.cur σ (.rack s) = some σ') (hF' : InvF σ' γ.g) : InvT σ' γ := by
  simp only [step] at h
  split at h
  · cases h
  · split at h
    · cases h
    · rename_i t0 v0 rest hch
      split at h
      · simp only [Option.some.injEq] at h
        subst h
        refine invT_setSrc hI γ s _ hF' (hI.srcS s) (fun _ _ _ _ hl => hl) ?_
        intro t
        exact (pairT_rack (hI.pair s t) t0 v0 rest hch _ _ _ (Or.inl rfl)).mono
          (fun id hl => lost_rack rfl rfl hl)
      · rename_i m hm
        split at h
        · simp only [Option.some.injEq] at h
          subst h
          have hm' : (if (decide ((σ.src s).lastHigh > 0) && decide (m > (σ.src s).lastHigh)) = true then
              (σ.src s).lastHigh else m) ≤ m := by
            split
            · rename_i hc
              simp only [Bool.and_eq_true, decide_eq_true_eq] at hc
              omega
            · exact Int.le_refl _
          refine invT_setSrc hI γ s _ hF' (hI.srcS s) (fun _ _ _ _ hl => hl) ?_
          intro t
          exact (pairT_rack (hI.pair s t) t0 v0 rest hch _ _ _ (Or.inr ⟨m, _, rfl, hm, hm'⟩)).mono
            (fun id hl => lost_rack rfl rfl hl)
        · simp only [Option.some.injEq] at h
          subst h
          refine invT_setSrc hI γ s _ hF' (hI.srcS s) (fun _ _ _ _ hl => hl) ?_
          intro t
          exact (pairT_rack (hI.pair s t) t0 v0 rest hch _ _ _ (Or.inl rfl)).mono
            (fun id hl => lost_rack rfl rfl hl)

end S2S.Routing
