import S2S.Proofs.GossipBasic
import S2S.Spec.Gossip
/-! The inductive invariant of the gossip machine (C09) and its preservation by every action. -/
namespace S2S.Gossip

structure Inv (σ : State) : Prop where
  addsClock : ∀ n s c, (n, s, c) ∈ σ.adds → c ≤ σ.clock
  localAdds : ∀ n s c, aget (σ.node n).locals s = some c → (n, s, c) ∈ σ.adds
  pendAdds  : ∀ n p, p ∈ (σ.node n).pending → (n, p.1, p.2) ∈ σ.adds
  netClock  : ∀ src s t dst, Item.ann .register src s t dst ∈ σ.net → t ≤ σ.clock
  delClock  : ∀ src s t dst, Item.ann .register src s t dst ∈ σ.delivered → t ≤ σ.clock
  seen      : ∀ m s c src t, aget (σ.node m).locals s = some c →
                Item.ann .register src s t m ∈ σ.delivered → t ≤ c
  accounted : ∀ n s c, (n, s, c) ∈ σ.adds →
                aget (σ.node n).locals s = some c ∨ (∃ t, (n, s, c, t) ∈ σ.evicted) ∨
                (n, s, c) ∈ σ.ended ∨ (∃ c', (n, s, c') ∈ σ.adds ∧ c < c')
  evictedWhy : ∀ n s c t, (n, s, c, t) ∈ σ.evicted →
                c < t ∧ ∃ src, (Item.ann .register src s t n ∈ σ.net ∨ Item.ann .register src s t n ∈ σ.delivered)
  regFrom   : ∀ src s t dst, (Item.ann .register src s t dst ∈ σ.net ∨ Item.ann .register src s t dst ∈ σ.delivered) →
                src ≠ dst ∧ ∃ c, Claim.mk src s c t ∈ σ.claims
  claimWf   : ∀ k ∈ σ.claims, k.created ≤ k.stamp ∧ k.stamp ≤ σ.clock ∧ (k.node, k.shard, k.created) ∈ σ.adds
  netEmitted : ∀ it, (it ∈ σ.net ∨ it ∈ σ.delivered) → it ∈ σ.emitted

theorem Inv.init : Inv State.init := by
  constructor <;> intros <;> simp_all [State.init, aget]

/-- two states that agree on everything the invariant reads -/
structure SameCore (σ σ' : State) : Prop where
  net : σ'.net = σ.net
  clock : σ'.clock = σ.clock
  adds : σ'.adds = σ.adds
  claims : σ'.claims = σ.claims
  evicted : σ'.evicted = σ.evicted
  ended : σ'.ended = σ.ended
  delivered : σ'.delivered = σ.delivered
  emitted : σ'.emitted = σ.emitted
  locals : ∀ n, (σ'.node n).locals = (σ.node n).locals
  pending : ∀ n, (σ'.node n).pending = (σ.node n).pending

theorem Inv.ofSameCore {σ σ' : State} (h : SameCore σ σ') (i : Inv σ) : Inv σ' := by
  obtain ⟨h1, h2, h3, h4, h5, h6, h7, h8, h9, h10⟩ := h
  constructor
  · intro n s c; rw [h3, h2]; exact i.addsClock n s c
  · intro n s c; rw [h9, h3]; exact i.localAdds n s c
  · intro n p; rw [h10, h3]; exact i.pendAdds n p
  · intro a b c d; rw [h1, h2]; exact i.netClock a b c d
  · intro a b c d; rw [h7, h2]; exact i.delClock a b c d
  · intro m s c src t; rw [h9, h7]; exact i.seen m s c src t
  · intro n s c; rw [h3, h9, h5, h6]; exact i.accounted n s c
  · intro n s c t; rw [h5, h7, h1]; exact i.evictedWhy n s c t
  · intro a b c d; rw [h1, h7, h4]; exact i.regFrom a b c d
  · intro k; rw [h4, h2, h3]; exact i.claimWf k
  · intro it; rw [h1, h7, h8]; exact i.netEmitted it

theorem Inv.tick {σ : State} (i : Inv σ) : Inv { σ with clock := σ.clock + 1 } := by
  constructor
  · intro n s c h; exact Nat.le_succ_of_le (i.addsClock n s c h)
  · exact i.localAdds
  · exact i.pendAdds
  · intro a b c d h; exact Nat.le_succ_of_le (i.netClock a b c d h)
  · intro a b c d h; exact Nat.le_succ_of_le (i.delClock a b c d h)
  · exact i.seen
  · exact i.accounted
  · exact i.evictedWhy
  · exact i.regFrom
  · intro k hk; obtain ⟨a, b, c⟩ := i.claimWf k hk; exact ⟨a, Nat.le_succ_of_le b, c⟩
  · exact i.netEmitted

/-- sending items that are harmless for the invariant: register announcements must be stamped in the
    past and belong to a recorded claim of another node -/
theorem Inv.send {σ : State} (i : Inv σ) (items : List Item)
    (h : ∀ src s t dst, Item.ann .register src s t dst ∈ items →
      t ≤ σ.clock ∧ src ≠ dst ∧ ∃ c, Claim.mk src s c t ∈ σ.claims) : Inv (σ.send items) := by
  constructor
  · exact i.addsClock
  · exact i.localAdds
  · exact i.pendAdds
  · intro a b c d hm
    simp only [send_net, List.mem_append] at hm
    rcases hm with hm | hm
    · exact i.netClock a b c d hm
    · exact (h a b c d hm).1
  · exact i.delClock
  · exact i.seen
  · exact i.accounted
  · intro n s c t h0
    obtain ⟨h1, src, h2⟩ := i.evictedWhy n s c t h0
    refine ⟨h1, src, ?_⟩
    simp only [send_net, List.mem_append, send_delivered]
    rcases h2 with h2 | h2
    · exact Or.inl (Or.inl h2)
    · exact Or.inr h2
  · intro a b c d hm
    simp only [send_net, List.mem_append, send_delivered, send_claims] at hm ⊢
    rcases hm with (hm | hm) | hm
    · exact i.regFrom a b c d (Or.inl hm)
    · exact (h a b c d hm).2
    · exact i.regFrom a b c d (Or.inr hm)
  · exact i.claimWf
  · intro it hm
    simp only [send_net, List.mem_append, send_delivered, send_emitted] at hm ⊢
    rcases hm with (hm | hm) | hm
    · exact Or.inl (i.netEmitted it (Or.inl hm))
    · exact Or.inr hm
    · exact Or.inl (i.netEmitted it (Or.inr hm))


/-- node `n`'s entry for `s` (registered at `c`) is removed and the removal is recorded -/
theorem Inv.eraseLocal {σ : State} (i : Inv σ) (n : NodeId) (s : ShardId) (c : Time)
    (hc : aget (σ.node n).locals s = some c)
    (ev : List (NodeId × ShardId × Time × Time)) (en : List (NodeId × ShardId × Time))
    (hsub1 : ∀ e ∈ σ.evicted, e ∈ ev) (hsub2 : ∀ e ∈ σ.ended, e ∈ en)
    (hwhy : ∀ n s c t, (n, s, c, t) ∈ ev → c < t ∧ ∃ src, (Item.ann .register src s t n ∈ σ.net ∨ Item.ann .register src s t n ∈ σ.delivered))
    (hacc : (∃ t, (n, s, c, t) ∈ ev) ∨ (n, s, c) ∈ en) :
    Inv { σ.setNode n { σ.node n with locals := aerase (σ.node n).locals s } with evicted := ev, ended := en } := by
  have hloc : ∀ m s' c', aget (({ σ.setNode n { σ.node n with locals := aerase (σ.node n).locals s } with
      evicted := ev, ended := en } : State).node m).locals s' = some c' →
      aget (σ.node m).locals s' = some c' ∧ ¬ (m = n ∧ s' = s) := by
    intro m s' c' h
    simp only [setNode_node] at h
    by_cases hm : m = n
    · subst hm
      simp only [if_true, aget_aerase] at h
      by_cases hs : s' = s
      · simp [hs] at h
      · simp only [hs, if_false] at h; exact ⟨h, fun x => hs x.2⟩
    · simp only [hm, if_false] at h; exact ⟨h, fun x => hm x.1⟩
  constructor
  · exact i.addsClock
  · intro m s' c' h; exact i.localAdds m s' c' (hloc m s' c' h).1
  · intro m p h
    have : (({ σ.setNode n { σ.node n with locals := aerase (σ.node n).locals s } with
      evicted := ev, ended := en } : State).node m).pending = (σ.node m).pending := by
      simp only [setNode_node]; by_cases hm : m = n <;> simp [hm]
    rw [this] at h; exact i.pendAdds m p h
  · exact i.netClock
  · exact i.delClock
  · intro m s' c' src t h hd; exact i.seen m s' c' src t (hloc m s' c' h).1 hd
  · intro n' s' c' ha
    rcases i.accounted n' s' c' ha with h | ⟨t, h⟩ | h | h
    · by_cases hx : n' = n ∧ s' = s
      · obtain ⟨rfl, rfl⟩ := hx
        have : c' = c := by rw [hc] at h; exact (Option.some.inj h).symm
        subst this
        rcases hacc with ⟨t, ht⟩ | he
        · exact Or.inr (Or.inl ⟨t, ht⟩)
        · exact Or.inr (Or.inr (Or.inl he))
      · left
        simp only [setNode_node]
        by_cases hm : n' = n
        · subst hm
          have hs : ¬ s' = s := fun e => hx ⟨rfl, e⟩
          simp only [if_true, aget_aerase, hs, if_false]; exact h
        · simp only [hm, if_false]; exact h
    · exact Or.inr (Or.inl ⟨t, hsub1 _ h⟩)
    · exact Or.inr (Or.inr (Or.inl (hsub2 _ h)))
    · exact Or.inr (Or.inr (Or.inr h))
  · exact hwhy
  · exact i.regFrom
  · exact i.claimWf
  · exact i.netEmitted

end S2S.Gossip
