import S2S.Model.MuxPool
/-! Counting lemmas and the inductive invariant of the mux pool model (C10). -/
namespace S2S.MuxPool

/-- number of connections whose stage satisfies `f` -/
def St.cntS (σ : St) (f : Stage → Bool) : Nat := σ.conns.countP (fun x => f x.stage)

def Stage.isRaw : Stage → Bool | .raw => true | _ => false
def Stage.isSessioned : Stage → Bool | .sessioned => true | _ => false
def Stage.isLost : Stage → Bool | .dropped | .abandoned => true | _ => false
/-- stages in which the code still owns the connection and will close it later -/
def Stage.isOwned : Stage → Bool | .raw | .sessioned | .registered _ => true | _ => false
/-- stages in which a yamux session may still be running -/
def Stage.maySess : Stage → Bool | .sessioned | .registered _ | .dropped | .abandoned => true | _ => false

theorem countP_set_add {α} (p : α → Bool) (l : List α) (c : Nat) (x : α) (h : c < l.length) :
    (l.set c x).countP p + (p l[c]).toNat = l.countP p + (p x).toNat := by
  rw [List.countP_set h]
  have hpos : p l[c] = true → 0 < l.countP p := fun hp =>
    List.countP_pos_iff.mpr ⟨l[c], List.getElem_mem h, hp⟩
  generalize l.countP p = n at hpos ⊢
  generalize p l[c] = b at hpos ⊢
  generalize p x = b' at hpos ⊢
  cases b <;> cases b' <;> simp at hpos ⊢ <;> omega

theorem conn_eq (σ : St) (c : Nat) (h : c < σ.conns.length) : σ.conn c = σ.conns[c] := by
  simp [St.conn, List.getD, h]

theorem cntS_setConn (σ : St) (c : Nat) (x : Conn) (f : Stage → Bool) (h : c < σ.conns.length) :
    (σ.setConn c x).cntS f + (f (σ.conn c).stage).toNat = σ.cntS f + (f x.stage).toNat := by
  rw [conn_eq σ c h]
  exact countP_set_add (fun y => f y.stage) σ.conns c x h

theorem mem_setConn {σ : St} {c : Nat} {x y : Conn} (h : y ∈ (σ.setConn c x).conns) : y = x ∨ y ∈ σ.conns := by
  rcases List.mem_or_eq_of_mem_set h with h | h
  · exact .inr h
  · exact .inl h

theorem conn_mem (σ : St) (c : Nat) (h : c < σ.conns.length) : σ.conn c ∈ σ.conns := by
  rw [conn_eq σ c h]; exact List.getElem_mem h

theorem conn_setConn_same (σ : St) (c : Nat) (x : Conn) (h : c < σ.conns.length) : (σ.setConn c x).conn c = x := by
  simp [St.conn, St.setConn, List.getD, h]

theorem length_setConn (σ : St) (c : Nat) (x : Conn) : (σ.setConn c x).conns.length = σ.conns.length := by
  simp [St.setConn]

end S2S.MuxPool
