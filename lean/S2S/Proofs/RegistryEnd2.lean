import S2S.Proofs.RegistryEnd
/-!
C08: `activeReceivers` is empty once every stream has ended — under `RecvOK` (serial receiver sections) and `OpenOK`
(window (v): a successor that terminated the old receiver opens its own stream).
-/
namespace S2S.Registry

set_option linter.unusedSimpArgs false
set_option linter.unusedVariables false

/-- the receiver is the shard's active receiver and will still unregister itself (unless a successor cancels it) -/
def RPc.holdsActive : RPc → Bool
  | .start => false | .term _ => false | .termRm => false | .termAck => false | .opening => false | .opened => false
  | .ackSet => false | .cancelSet => false | .running => true | .cleanCheck => true | .cleanCancel => true
  | .cleanActive => true | .done => false

@[simp] theorem RPc.holdsActive_start : RPc.start.holdsActive = false := rfl
@[simp] theorem RPc.holdsActive_term (g : Nat) : (RPc.term g).holdsActive = false := rfl
@[simp] theorem RPc.holdsActive_termRm : RPc.termRm.holdsActive = false := rfl
@[simp] theorem RPc.holdsActive_termAck : RPc.termAck.holdsActive = false := rfl
@[simp] theorem RPc.holdsActive_opening : RPc.opening.holdsActive = false := rfl
@[simp] theorem RPc.holdsActive_opened : RPc.opened.holdsActive = false := rfl
@[simp] theorem RPc.holdsActive_ackSet : RPc.ackSet.holdsActive = false := rfl
@[simp] theorem RPc.holdsActive_cancelSet : RPc.cancelSet.holdsActive = false := rfl
@[simp] theorem RPc.holdsActive_running : RPc.running.holdsActive = true := rfl
@[simp] theorem RPc.holdsActive_cleanCheck : RPc.cleanCheck.holdsActive = true := rfl
@[simp] theorem RPc.holdsActive_cleanCancel : RPc.cleanCancel.holdsActive = true := rfl
@[simp] theorem RPc.holdsActive_cleanActive : RPc.cleanActive.holdsActive = true := rfl
@[simp] theorem RPc.holdsActive_done : RPc.done.holdsActive = false := rfl

/-- a receiver that has not finished its start-up has not been cancelled (start-ups are serial) -/
def InvNC (σ : State) : Prop := ∀ t, (σ.inc t).rpc = .cancelSet → (σ.inc t).cancelled = false

/-- an active-receiver entry belongs to a receiver that will remove it, or a successor is about to overwrite it -/
def InvAE (σ : State) : Prop :=
  ∀ c t, aget σ.actives c = some t → t < σ.next ∧ (σ.inc t).shard = c ∧
    ((σ.inc t).rpc.holdsActive = true ∨ ∃ j, j < σ.next ∧ (σ.inc j).shard = c ∧ (σ.inc j).rpc.evicting = true)

/-- a cancelled receiver that is still the active receiver has its successor's start-up right behind it -/
def InvAX (σ : State) : Prop :=
  ∀ t, (σ.inc t).cancelled = true → aget σ.actives (σ.inc t).shard = some t →
    ∃ j, j < σ.next ∧ (σ.inc j).shard = (σ.inc t).shard ∧ (σ.inc j).rpc.evicting = true

set_option maxHeartbeats 4000000 in
theorem invNC_step {c σ a σ'} (h : step c σ a = some σ') (B : InvBound σ) (P : InvPast σ) (S : InvSerial σ) (I : InvNC σ) : InvNC σ' := by
  cases a with
  | rCancel k =>
    step_inv h
    all_goals (rename_i g hg hgk)
    all_goals (have hP2 := P.2.1 k g hg)
    · subst hgk; rw [hg] at hP2; simp at hP2
    · intro t ht
      simp at ht ⊢
      by_cases e1 : g = t
      · subst e1
        have e2 : ¬ k = g := fun e => hgk e.symm
        simp [e2] at ht
        -- g is inside its start-up while k is inside its own: excluded by the serial sections
        have hkn : k < σ.next := lt_next_of_rpc B (by simp [hg])
        have hgn : g < σ.next := lt_next_of_rpc B (by simp [ht])
        exact absurd (S k g hkn hgn e2 hP2.1.symm (by simp [hg, RPc.sec]) (by simp [ht, RPc.sec])) id
      · simp [e1] at ht ⊢
        by_cases e2 : k = t
        · subst e2; simp at ht
        · simp [e2] at ht ⊢; exact I t ht
  | _ =>
    step_inv h
    all_goals (intro t ht)
    all_goals (try simp at ht ⊢)
    all_goals (first | exact I t ht | (have hI := I t; have hP3 := P.2.2 t; revert ht; crush))

/-! ### `InvAX` -/

theorem ax_of_eq {σ σ' : State} (I : InvAX σ) (hn : σ'.next = σ.next) (hi : ∀ j, σ'.inc j = σ.inc j)
    (hc : σ'.actives = σ.actives) : InvAX σ' := by
  intro t ht hcc
  rw [hi] at ht; rw [hi, hc] at hcc
  obtain ⟨j, h1, h2, h3⟩ := I t ht hcc
  exact ⟨j, by rw [hn]; exact h1, by rw [hi, hi]; exact h2, by rw [hi]; exact h3⟩

theorem ax_iff_of_eq {σ σ' : State} (hn : σ'.next = σ.next) (hi : ∀ j, σ'.inc j = σ.inc j) (hc : σ'.actives = σ.actives) :
    InvAX σ' ↔ InvAX σ :=
  ⟨fun I => ax_of_eq I hn.symm (fun j => (hi j).symm) hc.symm, fun I => ax_of_eq I hn hi hc⟩

@[simp] theorem ax_setLocal (σ : State) (l) : InvAX (σ.setLocal l) ↔ InvAX σ := ax_iff_of_eq rfl (fun _ => rfl) rfl
@[simp] theorem ax_setSend (σ : State) (l) : InvAX (σ.setSend l) ↔ InvAX σ := ax_iff_of_eq rfl (fun _ => rfl) rfl
@[simp] theorem ax_setAck (σ : State) (l) : InvAX (σ.setAck l) ↔ InvAX σ := ax_iff_of_eq rfl (fun _ => rfl) rfl
@[simp] theorem ax_setCancels (σ : State) (l) : InvAX (σ.setCancels l) ↔ InvAX σ := ax_iff_of_eq rfl (fun _ => rfl) rfl
@[simp] theorem ax_setClock (σ : State) (n) : InvAX (σ.setClock n) ↔ InvAX σ := ax_iff_of_eq rfl (fun _ => rfl) rfl
@[simp] theorem ax_setStopped (σ : State) : InvAX σ.setStopped ↔ InvAX σ := ax_iff_of_eq rfl (fun _ => rfl) rfl
@[simp] theorem ax_steal (σ : State) (i g v) : InvAX (steal σ i g v) ↔ InvAX σ := ax_iff_of_eq (by simp) (by simp) (by simp)
@[simp] theorem ax_sendOn (σ : State) (t r) : InvAX (sendOn σ t r) ↔ InvAX σ := ax_iff_of_eq (by simp) (by simp) (by simp)

theorem ax_setInc {σ : State} {k : Tok} {x : Inc} (I : InvAX σ) (hsh : x.shard = (σ.inc k).shard)
    (hw : (σ.inc k).rpc.evicting = true → x.rpc.evicting = true) (hcn : x.cancelled = true → (σ.inc k).cancelled = true) :
    InvAX (σ.setInc k x) := by
  intro t ht hc
  simp at ht hc ⊢
  have ht' : (σ.inc t).cancelled = true := by
    by_cases e : k = t
    · subst e; simp at ht; exact hcn ht
    · simpa [e] using ht
  have hc' : aget σ.actives (σ.inc t).shard = some t := by
    by_cases e : k = t
    · subst e; simp [hsh] at hc; exact hc
    · simpa [e] using hc
  obtain ⟨j, h1, h2, h3⟩ := I t ht' hc'
  refine ⟨j, h1, ?_, ?_⟩
  · by_cases e : k = j
    · subst e
      by_cases e2 : k = t
      · subst e2; simp
      · simp [e2, hsh, h2]
    · by_cases e2 : k = t
      · subst e2; simp [e, hsh, h2]
      · simp [e, e2, h2]
  · by_cases e : k = j
    · subst e; simp; exact hw h3
    · simp [e, h3]

set_option maxHeartbeats 4000000 in
theorem invAX_step {c σ a σ'} (h : step c σ a = some σ') (hy : OpenOK σ a) (B : InvBound σ) (P : InvPast σ) (N : InvNC σ)
    (I : InvAX σ) : InvAX σ' := by
  cases a with
  | «open» sh srv =>
    step_inv h
    intro t ht hc
    simp at ht hc ⊢
    by_cases e1 : σ.next = t
    · simp [e1] at ht
    · simp [e1] at ht hc ⊢
      obtain ⟨j, h1, h2, h3⟩ := I t ht hc
      refine ⟨j, by omega, ?_, ?_⟩ <;> (have : ¬ σ.next = j := by omega) <;> simp [this, h2, h3]
  | rCancel k =>
    step_inv h
    all_goals (rename_i g hg hgk)
    all_goals (have hP2 := P.2.1 k g hg)
    · subst hgk; rw [hg] at hP2; simp at hP2
    · intro t ht hc
      simp at ht hc ⊢
      have hkn : k < σ.next := lt_next_of_rpc B (by simp [hg])
      have e0 : ¬ g = k := hgk
      by_cases e1 : g = t
      · subst e1
        exact ⟨k, hkn, by simp [e0, hP2.1], by simp [e0]⟩
      · by_cases e2 : k = t
        · subst e2; simp [e1] at ht hc
          have := P.2.2 k ht; rw [hg] at this; simp at this
        · simp [e1, e2] at ht hc ⊢
          obtain ⟨j, h1, h2, h3⟩ := I t ht hc
          refine ⟨j, h1, ?_, ?_⟩
          · by_cases e3 : g = j
            · subst e3; simp [h2]
            · by_cases e4 : k = j
              · subst e4; simp [e3, h2]
              · simp [e3, e4, h2]
          · by_cases e3 : g = j
            · subst e3; simp [h3]
            · by_cases e4 : k = j
              · subst e4; rw [hg] at h3; simp at h3
              · simp [e3, e4, h3]
  | rOpen k ok =>
    step_inv h
    have hok : ok = true := hy
    subst hok
    apply ax_setInc I <;> simp_all
  | rRegActive k =>
    step_inv h
    rename_i hk
    intro t ht hc
    simp [aget_aset] at ht hc ⊢
    by_cases e1 : k = t
    · subst e1; simp at ht
      have := N k hk; rw [this] at ht; cases ht
    · simp [e1] at ht hc ⊢
      split at hc
      · injection hc with e; exact absurd e e1
      · obtain ⟨j, h1, h2, h3⟩ := I t ht hc
        refine ⟨j, h1, ?_, ?_⟩
        all_goals (by_cases e2 : k = j)
        all_goals (try subst e2)
        all_goals (simp_all)
  | rUnregActive k =>
    step_inv h
    rename_i hk
    intro t ht hc
    simp [aget_adel] at ht hc ⊢
    by_cases e1 : k = t
    · subst e1; simp at hc
    · simp [e1] at ht hc ⊢
      obtain ⟨j, h1, h2, h3⟩ := I t ht hc.2
      refine ⟨j, h1, ?_, ?_⟩
      all_goals (by_cases e2 : k = j)
      all_goals (try subst e2)
      all_goals (simp_all)
  | _ =>
    step_inv h
    all_goals (try simp only [ax_setLocal, ax_setSend, ax_setAck, ax_setCancels, ax_setClock, ax_setStopped, ax_steal, ax_sendOn])
    all_goals (first
      | exact I
      | (apply ax_setInc I <;> simp_all))

/-! ### `InvAE` -/

theorem ae_of_eq {σ σ' : State} (I : InvAE σ) (hn : σ'.next = σ.next) (hi : ∀ j, σ'.inc j = σ.inc j)
    (hc : σ'.actives = σ.actives) : InvAE σ' := by
  intro c t ht
  rw [hc] at ht
  obtain ⟨hb, hs, h⟩ := I c t ht
  refine ⟨by rw [hn]; exact hb, by rw [hi]; exact hs, ?_⟩
  rcases h with h | ⟨j, h1, h2, h3⟩
  · left; rw [hi]; exact h
  · right; exact ⟨j, by rw [hn]; exact h1, by rw [hi]; exact h2, by rw [hi]; exact h3⟩

theorem ae_iff_of_eq {σ σ' : State} (hn : σ'.next = σ.next) (hi : ∀ j, σ'.inc j = σ.inc j) (hc : σ'.actives = σ.actives) :
    InvAE σ' ↔ InvAE σ :=
  ⟨fun I => ae_of_eq I hn.symm (fun j => (hi j).symm) hc.symm, fun I => ae_of_eq I hn hi hc⟩

@[simp] theorem ae_setLocal (σ : State) (l) : InvAE (σ.setLocal l) ↔ InvAE σ := ae_iff_of_eq rfl (fun _ => rfl) rfl
@[simp] theorem ae_setSend (σ : State) (l) : InvAE (σ.setSend l) ↔ InvAE σ := ae_iff_of_eq rfl (fun _ => rfl) rfl
@[simp] theorem ae_setAck (σ : State) (l) : InvAE (σ.setAck l) ↔ InvAE σ := ae_iff_of_eq rfl (fun _ => rfl) rfl
@[simp] theorem ae_setCancels (σ : State) (l) : InvAE (σ.setCancels l) ↔ InvAE σ := ae_iff_of_eq rfl (fun _ => rfl) rfl
@[simp] theorem ae_setClock (σ : State) (n) : InvAE (σ.setClock n) ↔ InvAE σ := ae_iff_of_eq rfl (fun _ => rfl) rfl
@[simp] theorem ae_setStopped (σ : State) : InvAE σ.setStopped ↔ InvAE σ := ae_iff_of_eq rfl (fun _ => rfl) rfl
@[simp] theorem ae_steal (σ : State) (i g v) : InvAE (steal σ i g v) ↔ InvAE σ := ae_iff_of_eq (by simp) (by simp) (by simp)
@[simp] theorem ae_sendOn (σ : State) (t r) : InvAE (sendOn σ t r) ↔ InvAE σ := ae_iff_of_eq (by simp) (by simp) (by simp)

theorem ae_setInc {σ : State} {k : Tok} {x : Inc} (I : InvAE σ) (hsh : x.shard = (σ.inc k).shard)
    (hr : (σ.inc k).rpc.holdsActive = true → x.rpc.holdsActive = true)
    (hw : (σ.inc k).rpc.evicting = true → x.rpc.evicting = true) : InvAE (σ.setInc k x) := by
  intro c t ht
  simp at ht ⊢
  obtain ⟨hb, hs, h⟩ := I c t ht
  refine ⟨hb, ?_, ?_⟩
  · by_cases e : k = t
    · subst e; simp [hsh, hs]
    · simp [e, hs]
  · rcases h with h | ⟨j, h1, h2, h3⟩
    · left
      by_cases e : k = t
      · subst e; simp; exact hr h
      · simp [e]; exact h
    · right
      refine ⟨j, h1, ?_, ?_⟩
      · by_cases e : k = j
        · subst e; simp [hsh, h2]
        · simp [e, h2]
      · by_cases e : k = j
        · subst e; simp; exact hw h3
        · simp [e, h3]

set_option maxHeartbeats 4000000 in
theorem invAE_step {c σ a σ'} (h : step c σ a = some σ') (hy : OpenOK σ a) (B : InvBound σ) (X : InvAX σ)
    (I : InvAE σ) : InvAE σ' := by
  cases a with
  | «open» sh srv =>
    step_inv h
    intro c' t ht
    simp at ht ⊢
    obtain ⟨hb, hs, hh⟩ := I c' t ht
    have e : ¬ σ.next = t := by omega
    refine ⟨by omega, by simp [e, hs], ?_⟩
    rcases hh with hh | ⟨j, h1, h2, h3⟩
    · left; simp [e]; exact hh
    · right; refine ⟨j, by omega, ?_, ?_⟩ <;> (have : ¬ σ.next = j := by omega) <;> simp [this, h2, h3]
  | rCheck k =>
    step_inv h
    · apply ae_setInc I <;> simp_all
    · -- cancelled by a successor: the clean-up is skipped; the successor's start-up is right behind us
      rename_i hk hcond
      intro c' t ht
      simp at ht ⊢
      obtain ⟨hb, hs, hh⟩ := I c' t ht
      by_cases e : k = t
      · subst e
        have hcan : (σ.inc k).cancelled = true := by
          cases hx : (σ.inc k).cancelled <;> simp [hx] at hcond ⊢
        obtain ⟨j, h1, h2, h3⟩ := X k hcan (by rw [hs]; exact ht)
        refine ⟨hb, by simp [hs], Or.inr ⟨j, h1, ?_, ?_⟩⟩
        · by_cases e2 : k = j
          · subst e2; rw [hk] at h3; simp at h3
          · simp [e2, h2, hs]
        · by_cases e2 : k = j
          · subst e2; rw [hk] at h3; simp at h3
          · simp [e2, h3]
      · refine ⟨hb, by simp [e, hs], ?_⟩
        rcases hh with hl | ⟨j, h1, h2, h3⟩
        · left; simp [e]; exact hl
        · right
          refine ⟨j, h1, ?_, ?_⟩
          · by_cases e2 : k = j
            · subst e2; rw [hk] at h3; simp at h3
            · simp [e2, h2]
          · by_cases e2 : k = j
            · subst e2; rw [hk] at h3; simp at h3
            · simp [e2, h3]
  | rOpen k ok =>
    step_inv h
    have hok : ok = true := hy
    subst hok
    apply ae_setInc I <;> simp_all
  | rRegActive k =>
    step_inv h
    rename_i hk
    intro c' t ht
    simp [aget_aset] at ht ⊢
    split at ht
    · cases ht
      rename_i hs
      exact ⟨lt_next_of_rpc B (by simp [hk]), by simp [hs], Or.inl (by simp)⟩
    · obtain ⟨hb, hs, hh⟩ := I c' t ht
      have e : ¬ k = t := by intro e; subst e; simp_all
      refine ⟨hb, by simp [e, hs], ?_⟩
      rcases hh with hl | ⟨j, h1, h2, h3⟩
      · left; simp [e]; exact hl
      · right
        have e2 : ¬ k = j := by intro e2; subst e2; simp_all
        exact ⟨j, h1, by simp [e2, h2], by simp [e2, h3]⟩
  | rUnregActive k =>
    step_inv h
    rename_i hk
    intro c' t ht
    simp [aget_adel] at ht ⊢
    obtain ⟨hb, hs, hh⟩ := I c' t ht.2
    have e : ¬ k = t := by intro e; subst e; exact ht.1 hs
    refine ⟨hb, by simp [e, hs], ?_⟩
    rcases hh with hl | ⟨j, h1, h2, h3⟩
    · left; simp [e]; exact hl
    · right
      have e2 : ¬ k = j := by intro e2; subst e2; rw [hk] at h3; simp at h3
      exact ⟨j, h1, by simp [e2, h2], by simp [e2, h3]⟩
  | rCancel k =>
    step_inv h
    all_goals (rename_i g hg hgk)
    · apply ae_setInc I <;> simp_all
    · have e0 : ¬ k = g := fun e => hgk e.symm
      apply ae_setInc
      · apply ae_setInc I <;> simp_all
      · simp [e0]
      · simp [e0]
      · simp [e0]
  | _ =>
    step_inv h
    all_goals (try simp only [ae_setLocal, ae_setSend, ae_setAck, ae_setCancels, ae_setClock, ae_setStopped, ae_steal, ae_sendOn])
    all_goals (first
      | exact I
      | (apply ae_setInc I <;> simp_all))

end S2S.Registry
