import S2S.Proofs.RoutingInvDef
/-! Invariant preservation: the actions that touch one record in a simple way. -/
namespace S2S.Routing

theorem pairOK_default_tgt (s : SId) (t : TId) (x : Source) (h : PairOK s t x {})
    (r st : Bool) (i : Nat) : PairOK s t x { registered := r, started := st, inc := i } :=
  ⟨h.cover, h.sorted, h.flat_le, h.ring_ok, h.ring_le, h.todo_safe, h.prev_safe, h.chan_safe,
    h.abt_safe, h.last_safe⟩

theorem step_inv_emit {σ σ' : State} (hI : Inv σ) (t : TId)
    (h : step Cfg.cur σ (.emit t) = some σ') : Inv σ' := by
  simp only [step] at h
  split at h
  · cases h
  · rename_i e he
    simp only [Option.some.injEq] at h
    subst h
    apply inv_setTgt hI
    · have := hI.tgt t
      refine ⟨?_, this.asg_le⟩
      intro hr
      have := this.unreg hr
      rw [this] at he; cases he
    · intro s
      have h := hI.pair s t
      exact ⟨h.cover, h.sorted, h.flat_le, h.ring_ok, h.ring_le, h.todo_safe, h.prev_safe, h.chan_safe,
        h.abt_safe, h.last_safe⟩

theorem step_inv_startTgt {σ σ' : State} (hI : Inv σ) (t : TId)
    (h : step Cfg.cur σ (.startTgt t) = some σ') : Inv σ' := by
  simp only [step] at h
  split at h
  · cases h
  · rename_i hg
    simp only [Option.some.injEq] at h
    subst h
    apply inv_setTgt hI
    · have := hI.tgt t
      refine ⟨?_, this.asg_le⟩
      intro hr
      simp only [Bool.or_eq_true, Bool.not_eq_true', not_or] at hg
      exact absurd hr hg.1.1
    · intro s
      have h := hI.pair s t
      exact ⟨h.cover, h.sorted, h.flat_le, h.ring_ok, h.ring_le, h.todo_safe, h.prev_safe, h.chan_safe,
        h.abt_safe, h.last_safe⟩

theorem step_inv_replayDone {σ σ' : State} (hI : Inv σ) (t : TId)
    (h : step Cfg.cur σ (.replayDone t) = some σ') : Inv σ' := by
  simp only [step] at h
  split at h
  · rename_i he
    simp only [Option.some.injEq] at h
    subst h
    apply inv_setTgt hI
    · have := hI.tgt t
      refine ⟨?_, this.asg_le⟩
      intro hr
      have := this.unreg hr
      rw [this] at he; cases he
    · intro s
      have h := hI.pair s t
      exact ⟨h.cover, h.sorted, h.flat_le, h.ring_ok, h.ring_le, h.todo_safe, h.prev_safe, h.chan_safe,
        h.abt_safe, h.last_safe⟩
  · cases h

theorem step_inv_ackFin {σ σ' : State} (hI : Inv σ) (t : TId)
    (h : step Cfg.cur σ (.ackFin t) = some σ') : Inv σ' := by
  simp only [step] at h
  split at h
  · rename_i d r he
    simp only [Option.some.injEq] at h
    subst h
    apply inv_setTgt hI
    · have := hI.tgt t
      refine ⟨?_, this.asg_le⟩
      intro hr
      have := this.unreg hr
      rw [this] at he; cases he
    · intro s
      have h := hI.pair s t
      refine ⟨h.cover, h.sorted, h.flat_le, ?_, ?_, ?_, h.prev_safe, h.chan_safe,
        h.abt_safe, h.last_safe⟩
      · intro p o hm
        exact h.ring_ok p o (List.mem_of_mem_drop hm)
      · intro p o hm
        exact h.ring_le p o (List.mem_of_mem_drop hm)
      · intro todo d' r' e; cases e
  · cases h

theorem step_inv_openSrc {σ σ' : State} (hI : Inv σ) (s : SId)
    (h : step Cfg.cur σ (.openSrc s) = some σ') : Inv σ' := by
  simp only [step] at h
  split at h
  · cases h
  · rename_i hg
    simp only [Option.some.injEq] at h
    subst h
    simp only [Bool.or_eq_true, not_or, Bool.not_eq_true] at hg
    have hx := (hI.src s).inactive hg.1
    rw [hx]
    apply inv_setSrc hI
    · refine ⟨?_, ?_, ?_, ?_, ?_, ?_, rfl⟩
      · intro e; cases e
      · intro h e; cases e
      · intro h e; cases e
      · intro h todo e; cases e
      · intro a e; cases e
      · intro id t e; cases e
    · intro t
      have h := hI.pair s t
      rw [hx] at h
      exact pairOK_default_src s t _ h true _

theorem step_inv_openTgt {σ σ' : State} (hI : Inv σ) (t : TId)
    (h : step Cfg.cur σ (.openTgt t) = some σ') : Inv σ' := by
  simp only [step] at h
  split at h
  · cases h
  · rename_i hg
    simp only [Option.some.injEq] at h
    subst h
    simp only [Bool.or_eq_true, not_or, Bool.not_eq_true] at hg
    have hx := (hI.tgt t).unreg hg.1
    rw [hx]
    apply inv_setTgt hI
    · refine ⟨?_, ?_⟩
      · intro e; cases e
      · intro s id p e; cases e
    · intro s
      have h := hI.pair s t
      rw [hx] at h
      exact pairOK_default_tgt s t _ h true false _

/-! tick -/

def tickSrc (x : Source) : Source :=
  if x.active then (match x.lastSentAck with
    | some a => { x with acksSent := x.acksSent ++ [a] }
    | none => x) else x

def tickTgt (tg : Target) : Target :=
  if tg.started && tg.holding.isNone && tg.lastSentWm > 0 then
    { tg with emitted := tg.emitted ++ [{ src := 0, ids := [], high := tg.lastSentWm, orig := [], keepalive := true }] }
  else tg

theorem step_tick (c : Cfg) (σ : State) :
    step c σ .tick = some { sources := σ.sources.map tickSrc, targets := σ.targets.map tickTgt } := rfl

theorem getD_map_default {α β} (f : α → β) (l : List α) (i : Nat) (d : α) (d' : β) (h : f d = d') :
    (l.map f).getD i d' = f (l.getD i d) := by
  simp only [List.getD_eq_getElem?_getD, List.getElem?_map]
  cases l[i]? <;> simp [h]

theorem tick_src (σ : State) (s : SId) :
    (State.src { sources := σ.sources.map tickSrc, targets := σ.targets.map tickTgt } s) = tickSrc (σ.src s) := by
  simp only [State.src]
  exact getD_map_default tickSrc σ.sources s {} {} rfl

theorem tick_tgt (σ : State) (t : TId) :
    (State.tgt { sources := σ.sources.map tickSrc, targets := σ.targets.map tickTgt } t) = tickTgt (σ.tgt t) := by
  simp only [State.tgt]
  exact getD_map_default tickTgt σ.targets t {} {} rfl

theorem pairOK_tick {s : SId} {t : TId} {x : Source} {tg : Target} (h : PairOK s t x tg) :
    PairOK s t (tickSrc x) (tickTgt tg) := by
  unfold tickSrc tickTgt
  split <;> split
  · split <;>
    exact ⟨h.cover, h.sorted, h.flat_le, h.ring_ok, h.ring_le, h.todo_safe, h.prev_safe, h.chan_safe,
      h.abt_safe, h.last_safe⟩
  · split <;>
    exact ⟨h.cover, h.sorted, h.flat_le, h.ring_ok, h.ring_le, h.todo_safe, h.prev_safe, h.chan_safe,
      h.abt_safe, h.last_safe⟩
  · exact ⟨h.cover, h.sorted, h.flat_le, h.ring_ok, h.ring_le, h.todo_safe, h.prev_safe, h.chan_safe,
      h.abt_safe, h.last_safe⟩
  · exact h

theorem srcOK_tick {x : Source} (h : SrcOK x) : SrcOK (tickSrc x) := by
  unfold tickSrc
  split
  · split
    · refine ⟨?_, h.wm_le, h.wm_pend, h.bcast_le, h.last_le, h.seeded, h.grave⟩
      intro e
      rename_i ha _ _ _
      exact absurd (show x.active = false from e) (by simp [ha])
    · exact h
  · exact h

theorem tgtOK_tick {tg : Target} (h : TgtOK tg) : TgtOK (tickTgt tg) := by
  unfold tickTgt
  split
  · refine ⟨?_, h.asg_le⟩
    intro e
    rename_i hg
    have := h.unreg e
    rw [this] at hg
    simp at hg
  · exact h

theorem step_inv_tick {σ σ' : State} (hI : Inv σ)
    (h : step Cfg.cur σ .tick = some σ') : Inv σ' := by
  rw [step_tick] at h
  simp only [Option.some.injEq] at h
  subst h
  refine ⟨?_, ?_, ?_⟩
  · intro s; rw [tick_src]; exact srcOK_tick (hI.src s)
  · intro t; rw [tick_tgt]; exact tgtOK_tick (hI.tgt t)
  · intro s t; rw [tick_src, tick_tgt]; exact pairOK_tick (hI.pair s t)

end S2S.Routing
