import S2S.Model.Gossip
/-! Owner lookup and `ReconcilePeerStreams` lemmas (C09 (c), (d)). -/
namespace S2S.Gossip

theorem owner_never_self (x : Node) (self : NodeId) (s : ShardId) : self ∉ shardOwners x self s := by
  unfold shardOwners
  intro h
  obtain ⟨e, he, rfl⟩ := List.mem_map.1 h
  have := (List.mem_filter.1 he).2
  simp at this

theorem mem_shardOwners {x : Node} {self k : NodeId} {s : ShardId} (h : k ∈ shardOwners x self s) :
    k ≠ self ∧ ∃ tbl, (k, tbl) ∈ x.remote ∧ (aget tbl s).isSome := by
  unfold shardOwners at h
  obtain ⟨e, he, rfl⟩ := List.mem_map.1 h
  obtain ⟨hm, hp⟩ := List.mem_filter.1 he
  simp only [Bool.and_eq_true, Bool.not_eq_true', beq_eq_false_iff_ne, ne_eq] at hp
  exact ⟨hp.1, e.2, hm, hp.2⟩

theorem mem_crossPairs {locals : List CShard} {remote : List (NodeId × List CShard)} {p : NodeId × CShard × CShard} :
    p ∈ crossPairs locals remote ↔ p.2.1 ∈ locals ∧ (∃ e ∈ remote, e.1 = p.1 ∧ p.2.2 ∈ e.2) ∧ p.2.1.cluster ≠ p.2.2.cluster := by
  unfold crossPairs
  simp only [List.mem_flatMap, List.mem_map, List.mem_filter]
  constructor
  · rintro ⟨l, hl, e, he, r, ⟨hr, hc⟩, rfl⟩
    refine ⟨hl, ⟨e, he, rfl, hr⟩, ?_⟩
    simpa using hc
  · rintro ⟨hl, ⟨e, he, he1, hr⟩, hc⟩
    refine ⟨p.2.1, hl, e, he, p.2.2, ⟨hr, by simpa using hc⟩, ?_⟩
    rw [he1]

theorem desiredSenders_eq (locals : List CShard) (remote : List (NodeId × List CShard)) :
    desiredSenders locals remote = (desiredReceivers locals remote).map PKey.swap := by
  simp [desiredSenders, desiredReceivers, List.map_map, Function.comp_def, PKey.swap]

theorem mem_desiredReceivers {locals : List CShard} {remote : List (NodeId × List CShard)} {k : PKey} :
    k ∈ desiredReceivers locals remote ↔
      k.target ∈ locals ∧ (∃ e ∈ remote, k.source ∈ e.2) ∧ k.target.cluster ≠ k.source.cluster := by
  unfold desiredReceivers
  simp only [List.mem_map]
  constructor
  · rintro ⟨p, hp, rfl⟩
    obtain ⟨h1, ⟨e, he, _, hr⟩, h3⟩ := mem_crossPairs.1 hp
    exact ⟨h1, ⟨e, he, hr⟩, h3⟩
  · rintro ⟨h1, ⟨e, he, hr⟩, h3⟩
    exact ⟨(e.1, k.target, k.source), mem_crossPairs.2 ⟨h1, ⟨e, he, rfl, hr⟩, h3⟩, rfl⟩

theorem prune_within (dR dS receivers senders : List PKey) :
    (∀ k ∈ (prune dR dS receivers senders).1, k ∈ receivers ∧ k ∈ dR) ∧
    (∀ k ∈ (prune dR dS receivers senders).2, k ∈ senders ∧ k ∈ dS) := by
  constructor
  · intro k hk
    simp only [prune, List.mem_filter, Bool.not_eq_true', List.contains_eq_mem, decide_eq_false_iff_not,
      decide_eq_true_eq, not_and, Classical.not_not] at hk
    exact ⟨hk.1.1, hk.1.2 hk.1.1⟩
  · intro k hk
    simp only [prune, List.mem_filter, Bool.not_eq_true', List.contains_eq_mem, decide_eq_false_iff_not,
      decide_eq_true_eq, not_and, Classical.not_not] at hk
    exact ⟨hk.1.1, hk.2 hk.1⟩

/-- a desired receiver survives unless a stale sender happens to carry the same key -/
theorem prune_keeps_receiver (dR dS receivers senders : List PKey) (k : PKey)
    (hr : k ∈ receivers) (hd : k ∈ dR) (hs : k ∉ senders) : k ∈ (prune dR dS receivers senders).1 := by
  simp only [prune, List.mem_filter, Bool.not_eq_true', List.contains_eq_mem, decide_eq_false_iff_not,
    decide_eq_true_eq, not_and, Classical.not_not]
  exact ⟨⟨hr, fun _ => hd⟩, fun h => absurd h.1 hs⟩

end S2S.Gossip
