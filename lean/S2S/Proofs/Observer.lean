import S2S.Model.Observer
namespace S2S.Observer
open S2S.Shard

/-- the grown (or kept) slice length always covers an in-range index -/
theorem grow_covers (idx : Int) (n : Nat) (h0 : 0 ≤ idx) (h1 : idx ≤ 1048576) :
    idx.toNat <
      (if idx.toNat ≥ n then
        ((if (idx + 1) * 9 < maxInt32 then (idx + 1) * 9 else maxInt32).tdiv 8).toNat
       else n) := by
  have h9 : (idx + 1) * 9 < maxInt32 := by unfold maxInt32; omega
  rw [if_pos h9]
  split
  · rw [Int.tdiv_eq_ediv_of_nonneg (by omega)]
    omega
  · omega

/-- shape of `report`: either ignored with the state untouched, blocked on a held lock, or an
    `.ok` update of `len` and of the one counter. -/
theorem report_cases (o : Obs) (idx value : Int) :
    (report o idx value = some (o, .ignored)) ∨
    (0 ≤ idx ∧ o.locked = true ∧ report o idx value = none) ∨
    (0 ≤ idx ∧ o.locked = false ∧ ∃ len', report o idx value =
      some ({ o with len := len', counters := addCounter o.counters idx.toNat value }, .ok)) := by
  unfold report
  by_cases h : idx < 0 ∨ idx > maxObservedStreamIndex
  · left; rw [if_pos h]
  · right
    rw [if_neg h]
    have h0 : 0 ≤ idx := by omega
    have h1 : idx ≤ 1048576 := by unfold maxObservedStreamIndex at h; omega
    cases hl : o.locked
    · right
      refine ⟨h0, rfl, ?_⟩
      simp only [Bool.false_eq_true, if_false]
      have hc := grow_covers idx o.len h0 h1
      exact ⟨_, by rw [if_pos hc]⟩
    · left
      exact ⟨h0, rfl, by simp⟩

theorem report_total (o : Obs) (idx value : Int) (hfree : o.locked = false) :
    ∃ o' r, report o idx value = some (o', r) ∧ o'.locked = false ∧ r ≠ .panicLocked := by
  rcases report_cases o idx value with h | ⟨_, hl, _⟩ | ⟨_, _, len', h⟩
  · exact ⟨_, _, h, hfree, by decide⟩
  · rw [hfree] at hl; cases hl
  · exact ⟨_, _, h, hfree, by decide⟩

theorem addCounter_lookup_ne (l : List (Nat × Int)) (i : Nat) (v : Int) (j : Nat) (hj : j ≠ i) :
    (addCounter l i v).lookup j = l.lookup j := by
  induction l with
  | nil =>
    unfold addCounter
    split
    · rfl
    · have : (j == i) = false := by simp [hj]
      simp [List.lookup, this]
  | cons a rest ih =>
    obtain ⟨k, x⟩ := a
    unfold addCounter
    split
    · rename_i hk
      subst hk
      have : (j == k) = false := by simp [hj]
      split <;> simp [List.lookup, this]
    · split
      · split
        · rfl
        · have : (j == i) = false := by simp [hj]
          simp [List.lookup, this]
      · simp only [List.lookup]
        split
        · rfl
        · exact ih

theorem report_others_unchanged (o o' : Obs) (idx value : Int) (r : ReportOutcome)
    (h : report o idx value = some (o', r)) (j : Nat) (hj : (j : Int) ≠ idx) :
    o'.counters.lookup j = o.counters.lookup j := by
  rcases report_cases o idx value with h' | ⟨_, _, h'⟩ | ⟨h0, _, len', h'⟩
  · rw [h'] at h
    cases h; rfl
  · rw [h'] at h; cases h
  · rw [h'] at h
    cases h
    exact addCounter_lookup_ne _ _ _ _ (by omega)

theorem open_never_wedges (o : Obs) (mode : Mode) (p : LCMParams) (cc cs sc ss : String)
    (hfree : o.locked = false) :
    (openStream report o mode p cc cs sc ss).2 ≠ .wedged ∧
    (openStream report o mode p cc cs sc ss).1.locked = false := by
  unfold openStream
  split
  · exact ⟨by simp, hfree⟩
  · exact ⟨by simp, hfree⟩
  · rename_i md _
    obtain ⟨o1, r1, h1, hf1, hr1⟩ := report_total o md.serverShard 1 hfree
    obtain ⟨o2, r2, h2, hf2, hr2⟩ := report_total o1 md.serverShard (-1) hf1
    rw [h1]
    cases r1
    · simp only [h2]
      cases r2
      · refine ⟨?_, hf2⟩
        cases mode <;> simp <;> split <;> decide
      · refine ⟨?_, hf2⟩
        cases mode <;> simp <;> split <;> decide
      · exact absurd rfl hr2
    · simp only [h2]
      cases r2
      · refine ⟨?_, hf2⟩
        cases mode <;> simp <;> split <;> decide
      · refine ⟨?_, hf2⟩
        cases mode <;> simp <;> split <;> decide
      · exact absurd rfl hr2
    · exact absurd rfl hr1

theorem open_sequence (opens : List (Mode × LCMParams × String × String × String × String)) (o : Obs)
    (hfree : o.locked = false) :
    (opens.foldl (fun o x => (openStream report o x.1 x.2.1 x.2.2.1 x.2.2.2.1 x.2.2.2.2.1 x.2.2.2.2.2).1) o).locked = false := by
  induction opens generalizing o with
  | nil => exact hfree
  | cons x xs ih =>
    rw [List.foldl_cons]
    exact ih _ (open_never_wedges o _ _ _ _ _ _ hfree).2

theorem wellformed_served (o : Obs) (mode : Mode) (p : LCMParams) (cc cs sc ss : String) (md : StreamMD)
    (hfree : o.locked = false) (hmode : mode ≠ .lcm) (hdec : decodeMD cc cs sc ss = .ok md) :
    (openStream report o mode p cc cs sc ss).2 = .served := by
  obtain ⟨o1, r1, h1, hf1, hr1⟩ := report_total o md.serverShard 1 hfree
  obtain ⟨o2, r2, h2, hf2, hr2⟩ := report_total o1 md.serverShard (-1) hf1
  unfold openStream
  rw [hdec]
  simp only [h1]
  cases r1
  · simp only [h2]
  · simp only [h2]
  · exact absurd rfl hr1
end S2S.Observer
