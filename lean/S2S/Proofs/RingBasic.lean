import S2S.Spec.Ring
/-!
Physical-ring lemmas: what each operation of the model does to the logical contents
`Buf.items`, to `start`, `size` and to the structural invariant `Buf.WF`.
-/
namespace S2S.Ring

theorem mod_ne_of_lt {cap h i j : Nat} (hij : i < j) (hj : j < cap) :
    (h + i) % cap ≠ (h + j) % cap := by
  intro heq
  have h1 : ((h + j) - (h + i)) % cap = 0 := Nat.sub_mod_eq_zero_of_mod_eq heq.symm
  have h2 : (h + j) - (h + i) = j - i := by omega
  rw [h2, Nat.mod_eq_of_lt (by omega)] at h1
  omega

@[simp] theorem items_length (b : Buf) : b.items.length = b.size := by
  simp [Buf.items]

theorem items_getElem (b : Buf) (i : Nat) (h : i < b.items.length) : b.items[i] = b.at i := by
  simp [Buf.items]

/-- two buffers have the same logical contents when their sizes and slots agree -/
theorem items_eq_of_at {b b' : Buf} (hs : b'.size = b.size)
    (hat : ∀ i, i < b.size → b'.at i = b.at i) : b'.items = b.items := by
  apply List.ext_getElem
  · simp [hs]
  · intro i h1 h2
    rw [items_getElem, items_getElem]
    exact hat i (by simpa using h2)

/-! ### `new` -/

theorem new_wf (c : Int) : (new c).WF := by
  unfold Buf.WF Buf.cap new
  simp only [List.length_replicate]
  split <;> omega

@[simp] theorem new_items (c : Int) : (new c).items = [] := by
  simp [Buf.items, new]

@[simp] theorem new_size (c : Int) : (new c).size = 0 := rfl
@[simp] theorem new_start (c : Int) : (new c).start = 0 := rfl

/-! ### `ensureCapacity` -/

theorem ensureCapacity_of_lt {b : Buf} (h : b.size < b.cap) : b.ensureCapacity = b := by
  simp [Buf.ensureCapacity, h]

theorem ensureCapacity_size (b : Buf) : b.ensureCapacity.size = b.size := by
  unfold Buf.ensureCapacity; split <;> rfl

theorem ensureCapacity_start (b : Buf) : b.ensureCapacity.start = b.start := by
  unfold Buf.ensureCapacity; split <;> rfl

theorem ensureCapacity_grow_at {b : Buf} (hwf : b.WF) (h : ¬ b.size < b.cap) (i : Nat)
    (hi : i < b.size) : b.ensureCapacity.at i = b.at i := by
  obtain ⟨hc, hs, hh⟩ := hwf
  have hne : ¬ (b.cap * 2 = 0) := by omega
  unfold Buf.ensureCapacity
  rw [if_neg h, if_neg hne]
  unfold Buf.at Buf.cap
  simp only [List.length_map, List.length_range, Nat.zero_add]
  have hlt : i < b.entries.length * 2 := by unfold Buf.cap at hs; omega
  rw [Nat.mod_eq_of_lt hlt, List.getD_eq_getElem?_getD]
  simp [hlt, hi]

theorem ensureCapacity_spec {b : Buf} (hwf : b.WF) :
    b.ensureCapacity.WF ∧ b.ensureCapacity.items = b.items ∧
    b.ensureCapacity.size < b.ensureCapacity.cap := by
  by_cases h : b.size < b.cap
  · rw [ensureCapacity_of_lt h]; exact ⟨hwf, rfl, h⟩
  · have hat := ensureCapacity_grow_at hwf h
    obtain ⟨hc, hs, hh⟩ := hwf
    have hne : ¬ (b.cap * 2 = 0) := by omega
    have hcap : b.ensureCapacity.cap = b.cap * 2 := by
      unfold Buf.ensureCapacity
      rw [if_neg h, if_neg hne]
      simp [Buf.cap]
    have hhead : b.ensureCapacity.head = 0 := by
      unfold Buf.ensureCapacity
      rw [if_neg h]
    have hsz := ensureCapacity_size b
    refine ⟨?_, ?_, ?_⟩
    · unfold Buf.WF; rw [hcap, hhead, hsz]; omega
    · exact items_eq_of_at hsz hat
    · rw [hcap, hsz]; omega

/-! ### `writeTail` -/

theorem writeTail_size (b : Buf) (e : Entry) : (b.writeTail e).size = b.size + 1 := rfl
theorem writeTail_start (b : Buf) (e : Entry) : (b.writeTail e).start = b.start := rfl

theorem writeTail_cap (b : Buf) (e : Entry) : (b.writeTail e).cap = b.cap := by
  simp [Buf.writeTail, Buf.cap]

theorem writeTail_at_lt {b : Buf} (e : Entry) (hlt : b.size < b.cap) (i : Nat) (hi : i < b.size) :
    (b.writeTail e).at i = b.at i := by
  have hne : (b.head + b.size) % b.cap ≠ (b.head + i) % b.cap :=
    fun h => mod_ne_of_lt hi hlt h.symm
  unfold Buf.at
  rw [writeTail_cap]
  simp only [Buf.writeTail, List.getD_eq_getElem?_getD]
  rw [List.getElem?_set_ne hne]

theorem writeTail_at_size {b : Buf} (e : Entry) (hc : 0 < b.cap) :
    (b.writeTail e).at b.size = e := by
  have hlt : (b.head + b.size) % b.cap < b.entries.length := Nat.mod_lt _ hc
  unfold Buf.at
  rw [writeTail_cap]
  simp only [Buf.writeTail, List.getD_eq_getElem?_getD]
  rw [List.getElem?_set_self hlt]
  rfl

theorem writeTail_spec {b : Buf} (e : Entry) (hwf : b.WF) (hlt : b.size < b.cap) :
    (b.writeTail e).WF ∧ (b.writeTail e).items = b.items ++ [e] := by
  obtain ⟨hc, hs, hh⟩ := hwf
  refine ⟨?_, ?_⟩
  · unfold Buf.WF
    rw [writeTail_cap, writeTail_size]
    exact ⟨hc, hlt, hh⟩
  · apply List.ext_getElem
    · simp [writeTail_size]
    · intro i h1 h2
      rw [items_getElem]
      have hi : i < b.size + 1 := by simpa [writeTail_size] using h1
      by_cases hi' : i < b.size
      · rw [List.getElem_append_left (by simpa using hi'), items_getElem]
        exact writeTail_at_lt e hlt i hi'
      · have : i = b.size := by omega
        subst this
        rw [List.getElem_append_right (by simp)]
        simp [writeTail_at_size e hc]

/-! ### `fillHoles` -/

theorem fillHoles_spec (n : Nat) : ∀ {b : Buf}, b.WF →
    (b.fillHoles n).WF ∧ (b.fillHoles n).items = b.items ++ List.replicate n hole ∧
    (b.fillHoles n).start = b.start := by
  induction n with
  | zero => intro b hwf; simp [Buf.fillHoles, hwf]
  | succ n ih =>
    intro b hwf
    obtain ⟨hwf1, hit1, hlt1⟩ := ensureCapacity_spec hwf
    obtain ⟨hwf2, hit2⟩ := writeTail_spec hole hwf1 hlt1
    obtain ⟨hwf3, hit3, hst3⟩ := ih hwf2
    unfold Buf.fillHoles
    refine ⟨hwf3, ?_, ?_⟩
    · rw [hit3, hit2, hit1, List.replicate_succ]; simp
    · rw [hst3, writeTail_start, ensureCapacity_start]

/-! ### `append` (with the final `ensureCapacity`) -/

theorem size_eq_zero_iff_items (b : Buf) : b.size = 0 ↔ b.items = [] := by
  rw [← items_length, List.length_eq_zero_iff]

/-- the buffer between the first `ensureCapacity` and the final `ensureCapacity; write` -/
def Buf.mid (b : Buf) (p : Int) : Buf :=
  if b.size = 0 then { b with start := p }
  else
    let expected := b.start + (b.size : Int)
    if p ≠ expected then b.fillHoles (p - expected).toNat else b

theorem append_eq (b : Buf) (p : Int) (e : Entry) :
    b.append true p e = ((b.ensureCapacity.mid p).ensureCapacity).writeTail e := rfl

theorem tail_spec {b : Buf} (hwf : b.WF) (e : Entry) :
    (b.ensureCapacity.writeTail e).WF ∧ (b.ensureCapacity.writeTail e).items = b.items ++ [e] ∧
    (b.ensureCapacity.writeTail e).start = b.start := by
  obtain ⟨hwf3, hit3, hlt3⟩ := ensureCapacity_spec hwf
  obtain ⟨hwf4, hit4⟩ := writeTail_spec e hwf3 hlt3
  exact ⟨hwf4, by rw [hit4, hit3], by rw [writeTail_start, ensureCapacity_start]⟩

theorem mid_spec {b : Buf} (hwf : b.WF) (p : Int) :
    (b.mid p).WF ∧
    (b.mid p).items =
      (if b.size = 0 then []
       else b.items ++ List.replicate (p - (b.start + (b.size : Int))).toNat hole) ∧
    (b.mid p).start = (if b.size = 0 then p else b.start) := by
  unfold Buf.mid
  by_cases h0 : b.size = 0
  · rw [if_pos h0, if_pos h0, if_pos h0]
    refine ⟨hwf, ?_, rfl⟩
    rw [← (size_eq_zero_iff_items b).1 h0]; rfl
  · rw [if_neg h0, if_neg h0, if_neg h0]
    by_cases hp : p ≠ b.start + (b.size : Int)
    · simp only [if_pos hp]
      exact fillHoles_spec _ hwf
    · simp only [if_neg hp]
      have hp' : p = b.start + (b.size : Int) := Classical.not_not.1 hp
      refine ⟨hwf, ?_, trivial⟩
      rw [hp']; simp

theorem append_spec {b : Buf} (hwf : b.WF) (p : Int) (e : Entry) :
    (b.append true p e).WF ∧
    (b.append true p e).items =
      (if b.size = 0 then [e]
       else b.items ++ List.replicate (p - (b.start + (b.size : Int))).toNat hole ++ [e]) ∧
    (b.append true p e).start = (if b.size = 0 then p else b.start) := by
  obtain ⟨hwf1, hit1, hlt1⟩ := ensureCapacity_spec hwf
  have hsz1 := ensureCapacity_size b
  have hst1 := ensureCapacity_start b
  obtain ⟨hwf2, hit2, hst2⟩ := mid_spec hwf1 p
  obtain ⟨hwf4, hit4, hst4⟩ := tail_spec hwf2 e
  rw [hsz1, hst1, hit1] at hit2
  rw [hsz1, hst1] at hst2
  rw [append_eq]
  refine ⟨hwf4, ?_, ?_⟩
  · rw [hit4, hit2]; split <;> simp
  · rw [hst4, hst2]

/-! ### `discard` -/

theorem discard_at {b : Buf} (c i : Nat) :
    ({ b with head := (b.head + c) % b.cap, size := b.size - c, start := b.start + (c : Int) } : Buf).at i
      = b.at (c + i) := by
  unfold Buf.at Buf.cap
  simp only [Nat.mod_add_mod, Nat.add_assoc]

theorem discard_spec {b : Buf} (hwf : b.WF) (n : Int) :
    (b.discard n).WF ∧
    (b.discard n).items = b.items.drop (if n ≤ 0 then 0 else min n.toNat b.size) ∧
    (b.discard n).start = b.start + ((if n ≤ 0 then 0 else min n.toNat b.size : Nat) : Int) ∧
    (b.discard n).size = b.size - (if n ≤ 0 then 0 else min n.toNat b.size) := by
  unfold Buf.discard
  by_cases hn : n ≤ 0
  · simp [hn, hwf]
  · simp only [hn, if_false]
    have hc : (if n.toNat > b.size then b.size else n.toNat) = min n.toNat b.size := by
      split <;> omega
    rw [hc]
    obtain ⟨hcap, hs, hh⟩ := hwf
    refine ⟨?_, ?_, rfl, rfl⟩
    · refine ⟨hcap, ?_, ?_⟩
      · show b.size - min n.toNat b.size ≤ b.cap
        omega
      · exact Nat.mod_lt _ hcap
    · apply List.ext_getElem
      · simp
      · intro i h1 h2
        rw [items_getElem, discard_at, List.getElem_drop, items_getElem]

end S2S.Ring
