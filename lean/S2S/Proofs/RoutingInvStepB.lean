import S2S.Proofs.RoutingInvDef
/-! Invariant preservation: the acknowledgement path (`tack`, `ackFwd`, `rack`). -/
namespace S2S.Routing

theorem SafeV.mono_conf {s : SId} {t : TId} {x : Source} {tg tg' : Target} {v : Int}
    (h : SafeV s t x tg v) (hc : ∀ a, a ∈ tg.confirmed → a ∈ tg'.confirmed) : SafeV s t x tg' v :=
  fun id hr hlt => hc _ (h id hr hlt)

theorem pairOK_tack {s : SId} {t : TId} {x : Source} {tg : Target} (h : PairOK s t x tg) (w : Int)
    (pc' : AckPc) (ta : List Int)
    (hpc : ∀ todo d r, pc' = .forwarding todo d r → ∀ v, (s, v) ∈ todo →
      (s, v) ∈ tg.prevAck ∨ (s, v) ∈ (aggregate tg.ring w).1) :
    PairOK s t x { tg with
      ackPc := pc'
      targetAcks := ta
      confirmed := tg.confirmed ++ (tg.assigned.filter (fun a => a.2.2 < w)).map (fun a => (a.1, a.2.1)) } := by
  have hc : ∀ a, a ∈ tg.confirmed → a ∈ tg.confirmed ++ (tg.assigned.filter (fun a => a.2.2 < w)).map (fun a => (a.1, a.2.1)) :=
    fun a ha => List.mem_append_left _ ha
  refine ⟨h.cover, h.sorted, h.flat_le, h.ring_ok, h.ring_le, ?_, ?_, ?_, ?_, ?_⟩
  · intro todo d r e v hv
    rcases hpc todo d r e v hv with hv | hv
    · exact ⟨(h.prev_safe v hv).1.mono_conf hc, (h.prev_safe v hv).2⟩
    · obtain ⟨p, hpw, hpr⟩ := mem_aggregate hv
      refine ⟨?_, h.ring_le p v hpr⟩
      intro id hr hlt
      obtain ⟨p', hp', ha⟩ := h.ring_ok p v hpr id hr hlt
      apply List.mem_append_right
      simp only [List.mem_map, List.mem_filter, decide_eq_true_eq]
      exact ⟨(s, id, p'), ⟨ha, by show p' < w; omega⟩, rfl⟩
  · intro v hv; exact ⟨(h.prev_safe v hv).1.mono_conf hc, (h.prev_safe v hv).2⟩
  · intro v hv; exact ⟨(h.chan_safe v hv).1.mono_conf hc, (h.chan_safe v hv).2⟩
  · intro v hv; exact ⟨(h.abt_safe v hv).1.mono_conf hc, (h.abt_safe v hv).2⟩
  · intro a ha; exact (h.last_safe a ha).mono_conf hc

theorem step_inv_tack {σ σ' : State} (hI : Inv σ) (t : TId) (w : Int)
    (h : step Cfg.cur σ (.tack t w) = some σ') : Inv σ' := by
  simp only [step] at h
  split at h
  · cases h
  · rename_i hg
    simp only [Bool.or_eq_true, Bool.not_eq_true', not_or] at hg
    have hT := hI.tgt t
    have hreg : ¬ (σ.tgt t).registered = false := by
      intro e; have := hT.unreg e; rw [this] at hg; simp at hg
    split at h
    · simp only [Option.some.injEq] at h
      subst h
      apply inv_setTgt hI
      · exact ⟨fun e => absurd e hreg, hT.asg_le⟩
      · intro s
        apply pairOK_tack (hI.pair s t) w
        intro todo d r e v hv
        split at e
        · cases e
        · cases e; left; exact hv
    · simp only [Option.some.injEq] at h
      subst h
      apply inv_setTgt hI
      · exact ⟨fun e => absurd e hreg, hT.asg_le⟩
      · intro s
        apply pairOK_tack (hI.pair s t) w
        intro todo d r e v hv
        cases e; right; exact hv

theorem step_inv_ackFwd {σ σ' : State} (hI : Inv σ) (t : TId) (s : SId)
    (h : step Cfg.cur σ (.ackFwd t s) = some σ') : Inv σ' := by
  simp only [step] at h
  split at h
  · rename_i todo d r hpc
    split at h
    · cases h
    · rename_i v hv
      split at h
      · cases h
      · rename_i hg
        simp only [Bool.not_eq_true', Bool.and_eq_false_iff, not_or, Bool.not_eq_false] at hg
        simp only [Option.some.injEq] at h
        subst h
        have hT := hI.tgt t
        have hS := hI.src s
        have hne : σ.tgt t ≠ {} := by intro e; rw [e] at hpc; cases hpc
        have hreg := hI.tgt_registered hne
        rw [setTgt_setSrc_comm]
        have hmem : (s, v) ∈ todo := aget_some_mem hv
        apply inv_setBoth hI s t _ _ (hI.src_lt hg.1) (hI.tgt_lt hreg)
        · refine ⟨?_, hS.wm_le, hS.wm_pend, hS.bcast_le, hS.last_le, hS.seeded, hS.grave⟩
          intro e; exact absurd (show (σ.src s).active = false from e) (by simp [hg.1])
        · refine ⟨?_, hT.asg_le⟩
          intro e; exact absurd (show (σ.tgt t).registered = false from e) (by simp [hreg])
        · -- (s, t)
          have hp := hI.pair s t
          refine ⟨hp.cover, hp.sorted, hp.flat_le, hp.ring_ok, hp.ring_le, ?_, ?_, ?_, hp.abt_safe, hp.last_safe⟩
          · intro todo' d' r' e v' hv'
            cases e
            exact hp.todo_safe todo d r hpc v' (List.mem_filter.1 hv').1
          · intro v' hv'
            show SafeV s t (σ.src s) (σ.tgt t) v' ∧ v' ≤ (σ.src s).lastHigh
            have hv' : (s, v') ∈ (if r = true then aset (σ.tgt t).prevAck s v else (σ.tgt t).prevAck) := hv'
            split at hv'
            · rcases mem_aset hv' with hv' | ⟨_, e2⟩
              · exact hp.prev_safe v' hv'
              · subst e2; exact hp.todo_safe todo d r hpc v' hmem
            · exact hp.prev_safe v' hv'
          · intro v' hv'
            show SafeV s t (σ.src s) (σ.tgt t) v' ∧ v' ≤ (σ.src s).lastHigh
            have hv' : (t, v') ∈ (σ.src s).ackChan ++ [(t, v)] := hv'
            rcases List.mem_append.1 hv' with hv' | hv'
            · exact hp.chan_safe v' hv'
            · simp only [List.mem_singleton, Prod.mk.injEq, true_and] at hv'
              subst hv'; exact hp.todo_safe todo d r hpc v' hmem
        · -- (s, t'), t' ≠ t
          intro t' hne'
          have hp := hI.pair s t'
          refine ⟨hp.cover, hp.sorted, hp.flat_le, hp.ring_ok, hp.ring_le, hp.todo_safe, hp.prev_safe, ?_, hp.abt_safe, hp.last_safe⟩
          intro v' hv'
          have hv' : (t', v') ∈ (σ.src s).ackChan ++ [(t, v)] := hv'
          rcases List.mem_append.1 hv' with hv' | hv'
          · exact hp.chan_safe v' hv'
          · simp only [List.mem_singleton, Prod.mk.injEq] at hv'
            exact absurd hv'.1 hne'
        · -- (s', t), s' ≠ s
          intro s' hne'
          have hp := hI.pair s' t
          refine ⟨hp.cover, hp.sorted, hp.flat_le, hp.ring_ok, hp.ring_le, ?_, ?_, hp.chan_safe, hp.abt_safe, hp.last_safe⟩
          · intro todo' d' r' e v' hv'
            cases e
            exact hp.todo_safe todo d r hpc v' (List.mem_filter.1 hv').1
          · intro v' hv'
            show SafeV s' t (σ.src s') (σ.tgt t) v' ∧ v' ≤ (σ.src s').lastHigh
            have hv' : (s', v') ∈ (if r = true then aset (σ.tgt t).prevAck s v else (σ.tgt t).prevAck) := hv'
            split at hv'
            · rcases mem_aset hv' with hv' | ⟨e1, _⟩
              · exact hp.prev_safe v' hv'
              · exact absurd e1 hne'
            · exact hp.prev_safe v' hv'
  · cases h


/-! rack -/

theorem pairOK_rack {s : SId} {t : TId} {x : Source} {tg : Target} (hS : SrcOK x) (h : PairOK s t x tg)
    (t0 : TId) (v0 : Int) (rest : List (TId × Int)) (hch : x.ackChan = (t0, v0) :: rest)
    (lsm' : Int) (lsa' : Option Int) (acks' : List Int)
    (hl : lsa' = x.lastSentAck ∨
      ∃ m m', lsa' = some m' ∧ minVal (aset x.ackByTarget t0 v0) = some m ∧ m' ≤ m) :
    PairOK s t { x with
      ackChan := rest
      ackByTarget := aset x.ackByTarget t0 v0
      lastSentMin := lsm'
      lastSentAck := lsa'
      acksSent := acks' } tg := by
  have habt : ∀ v, (t, v) ∈ aset x.ackByTarget t0 v0 → SafeV s t x tg v ∧ v ≤ x.lastHigh := by
    intro v hv
    rcases mem_aset hv with hv | ⟨e1, e2⟩
    · exact h.abt_safe v hv
    · subst e1; subst e2
      exact h.chan_safe v (by rw [hch]; exact List.mem_cons_self)
  refine ⟨h.cover, h.sorted, h.flat_le, h.ring_ok, h.ring_le, h.todo_safe, h.prev_safe, ?_, habt, ?_⟩
  · intro v hv
    exact h.chan_safe v (by rw [hch]; exact List.mem_cons_of_mem _ hv)
  · intro a ha
    have ha : lsa' = some a := ha
    rcases hl with hl | ⟨m, m', e1, e2, e3⟩
    · rw [hl] at ha; exact h.last_safe a ha
    · rw [e1] at ha; cases ha
      intro id hr hlt
      have hsd := hS.seeded id t hr
      have hsd' : (aget (aset x.ackByTarget t0 v0) t).isSome = true := by
        rw [aget_aset]; split
        · rfl
        · exact hsd
      obtain ⟨v', hv'⟩ := Option.isSome_iff_exists.1 hsd'
      have hmem := aget_some_mem hv'
      have hle := minVal_le e2 _ hmem
      exact (habt v' hmem).1 id hr (by simp only at hle; omega)

theorem srcOK_rack {s : SId} {x : Source} {tg0 : Target} (hS : SrcOK x)
    (t0 : TId) (v0 : Int) (rest : List (TId × Int)) (hch : x.ackChan = (t0, v0) :: rest)
    (h0 : PairOK s t0 x tg0) (hact : x.active = true)
    (lsm' : Int) (lsa' : Option Int) (acks' : List Int)
    (hl : lsa' = x.lastSentAck ∨
      ∃ m m', lsa' = some m' ∧ minVal (aset x.ackByTarget t0 v0) = some m ∧ m' ≤ m) :
    SrcOK { x with
      ackChan := rest
      ackByTarget := aset x.ackByTarget t0 v0
      lastSentMin := lsm'
      lastSentAck := lsa'
      acksSent := acks' } := by
  refine ⟨?_, hS.wm_le, hS.wm_pend, hS.bcast_le, ?_, ?_, hS.grave⟩
  · intro e; exact absurd (show x.active = false from e) (by simp [hact])
  · intro a ha
    have ha : lsa' = some a := ha
    show a ≤ x.lastHigh
    rcases hl with hl | ⟨m, m', e1, e2, e3⟩
    · rw [hl] at ha; exact hS.last_le a ha
    · rw [e1] at ha; cases ha
      have hle := minVal_le e2 _ (mem_aset_self x.ackByTarget t0 v0)
      have := (h0.chan_safe v0 (by rw [hch]; exact List.mem_cons_self)).2
      simp only at hle; omega
  · intro id t hr
    show (aget (aset x.ackByTarget t0 v0) t).isSome = true
    rw [aget_aset]; split
    · rfl
    · exact hS.seeded id t hr

theorem step_inv_rack {σ σ' : State} (hI : Inv σ) (s : SId)
    (h : step Cfg.cur σ (.rack s) = some σ') : Inv σ' := by
  simp only [step] at h
  split at h
  · cases h
  · rename_i hg
    simp only [Bool.not_eq_true', Bool.not_eq_false] at hg
    split at h
    · cases h
    · rename_i t0 v0 rest hch
      split at h
      · simp only [Option.some.injEq] at h
        subst h
        apply inv_setSrc hI
        · exact srcOK_rack (hI.src s) t0 v0 rest hch (hI.pair s t0) hg _ _ _ (Or.inl rfl)
        · intro t
          exact pairOK_rack (hI.src s) (hI.pair s t) t0 v0 rest hch _ _ _ (Or.inl rfl)
      · rename_i m hm
        split at h
        · simp only [Option.some.injEq] at h
          subst h
          have hm' : (if (decide ((σ.src s).lastHigh > 0) && decide (m > (σ.src s).lastHigh)) = true then
              (σ.src s).lastHigh else m) ≤ m := by
            split
            · rename_i hc
              simp only [Bool.and_eq_true, decide_eq_true_eq] at hc
              omega
            · exact Int.le_refl _
          apply inv_setSrc hI
          · exact srcOK_rack (hI.src s) t0 v0 rest hch (hI.pair s t0) hg _ _ _ (Or.inr ⟨m, _, rfl, hm, hm'⟩)
          · intro t
            exact pairOK_rack (hI.src s) (hI.pair s t) t0 v0 rest hch _ _ _ (Or.inr ⟨m, _, rfl, hm, hm'⟩)
        · simp only [Option.some.injEq] at h
          subst h
          apply inv_setSrc hI
          · exact srcOK_rack (hI.src s) t0 v0 rest hch (hI.pair s t0) hg _ _ _ (Or.inl rfl)
          · intro t
            exact pairOK_rack (hI.src s) (hI.pair s t) t0 v0 rest hch _ _ _ (Or.inl rfl)

end S2S.Routing
