import S2S.Proofs.RoutingC03Base
/-! Preservation of `Inv` by every fault-free step and the C03 safety step statement. -/
namespace S2S.Routing

theorem Inv.setSrcTgt {σ : State} (hI : Inv σ) {s : SId} {x : Source} {t : TId} {y : Target} (hx : SrcOK x)
    (hm : x.lastHigh = (σ.src s).lastHigh) (hy : TgtOK σ.hi y) : Inv ((σ.setSrc s x).setTgt t y) := by
  refine (hI.setSrc hx (by rw [hm]; exact Int.le_refl _)).setTgt ?_
  rw [hi_setSrc hm]; exact hy

theorem Inv.setTgtSrc {σ : State} (hI : Inv σ) {s : SId} {x : Source} {t : TId} {y : Target}
    (hy : TgtOK σ.hi y) (hx : SrcOK x) (hm : (σ.src s).lastHigh ≤ x.lastHigh) :
    Inv ((σ.setTgt t y).setSrc s x) := (hI.setTgt hy).setSrc hx hm

theorem step_recv_inv {σ σ' : State} {s : SId} {tasks : List (Int × TId)} {high : Int} (hI : Inv σ)
    (h : step Cfg.cur σ (.recv s tasks high) = some σ')
    (hr : RecvOK σ.targets.length (σ.src s) tasks high) : Inv σ' ∧ AckStepMonoBounded σ σ' := by
  have hS := hI.srcs s
  obtain ⟨_, htasks, h1, hle⟩ := hr
  simp only [step] at h
  split at h
  · cases h
  · rename_i hen
    simp at hen
    split at h
    · cases h
      refine ⟨hI.setSrc ⟨?_, ?_, hS.acks, hS.lsa, ?_, ?_, ?_, ?_, ?_, hS.grave⟩ hle, amb_of_acks_eq (acks_setSrc (by rfl))⟩
      · intro h; simp [hen.1] at h
      · show (0:Int) ≤ high; omega
      · exact Int.le_trans hS.lsm hle
      · exact fun p hp => Int.le_trans (hS.abt p hp) hle
      · exact fun p hp => Int.le_trans (hS.ach p hp) hle
      · intro h hh; simp at hh; subst hh; exact Int.le_refl _
      · show PcOK high _
        split
        · trivial
        · exact Int.le_refl _
    · cases h
      refine ⟨hI.setSrc ⟨?_, ?_, hS.acks, hS.lsa, ?_, ?_, ?_, ?_, ?_, hS.grave⟩ hle, amb_of_acks_eq (acks_setSrc (by rfl))⟩
      · intro h; simp [hen.1] at h
      · show (0:Int) ≤ high; omega
      · exact Int.le_trans hS.lsm hle
      · intro p hp
        show p.2 ≤ high
        have hp : p ∈ seed (σ.src s).ackByTarget (groupByOwner tasks) := hp
        rcases mem_seed hp with hp | ⟨g, hg, hp⟩
        · exact Int.le_trans (hS.abt p hp) hle
        · subst hp
          show g.2.headD 0 ≤ high
          cases hg2 : g.2 with
          | nil => simp; omega
          | cons a r =>
            simp
            have := mem_groupByOwner (t := g.1) (ids := g.2) hg a (by rw [hg2]; exact List.mem_cons_self)
            have := htasks _ this
            simp at this; omega
      · exact fun p hp => Int.le_trans (hS.ach p hp) hle
      · intro h hh
        exact Int.le_trans (hS.lwm h hh) hle
      · show PcOK high (.deliver (groupByOwner tasks))
        intro p hp id hid
        have := htasks _ (mem_groupByOwner (t := p.1) (ids := p.2) hp id hid)
        simp at this; omega

theorem pcOK_filter_bcast {L : Int} {high : Int} {todo : List (TId × Nat)} (t : TId)
    (h : PcOK L (.bcast high todo)) :
    PcOK L (if (todo.filter (fun p => p.1 != t)).isEmpty then .idle else .bcast high (todo.filter (fun p => p.1 != t))) := by
  split
  · trivial
  · exact h

theorem pcOK_filter_deliver {L : Int} {pending : List (TId × List Int)} (t : TId)
    (h : PcOK L (.deliver pending)) :
    PcOK L (if (pending.filter (fun p => p.1 != t)).isEmpty then .idle else .deliver (pending.filter (fun p => p.1 != t))) := by
  split
  · trivial
  · exact fun p hp => h p (List.mem_filter.1 hp).1

theorem step_bcastStep_inv {σ σ' : State} {s : SId} {t : TId} (hI : Inv σ)
    (h : step Cfg.cur σ (.bcastStep s t) = some σ') : Inv σ' ∧ AckStepMonoBounded σ σ' := by
  have hS := hI.srcs s
  have hT := hI.tgts t
  simp only [step] at h
  split at h
  · rename_i high todo hpc
    have hpcb := hS.pcb
    rw [hpc] at hpcb
    have hx : SrcOK { (σ.src s) with pc := if (todo.filter (fun p => p.1 != t)).isEmpty then RecvPc.idle else .bcast high (todo.filter (fun p => p.1 != t)) } := by
      refine ⟨?_, hS.nonneg, hS.acks, hS.lsa, hS.lsm, hS.abt, hS.ach, hS.lwm, pcOK_filter_bcast t hpcb, hS.grave⟩
      intro ha
      have := hS.inact ha
      rw [this] at hpc; cases hpc
    split at h
    · cases h
    · split at h
      · cases h
        refine ⟨?_, amb_of_acks_eq fun s0 => ?_⟩
        · refine hI.setSrcTgt hx rfl ?_
          refine ⟨hT.ring, ?_, hT.prev, hT.apc⟩
          intro m hm
          rcases List.mem_append.1 hm with hm | hm
          · exact hT.chan m hm
          · simp at hm; subst hm; exact hpcb
        · rw [src_setTgt]; exact acks_setSrc (by rfl) s0
      · cases h
        exact ⟨hI.setSrc hx (Int.le_refl _), amb_of_acks_eq (acks_setSrc (by rfl))⟩
  · cases h

theorem step_deliver_inv {σ σ' : State} {s : SId} {t : TId} (hI : Inv σ)
    (h : step Cfg.cur σ (.deliver s t) = some σ') : Inv σ' ∧ AckStepMonoBounded σ σ' := by
  have hS := hI.srcs s
  have hT := hI.tgts t
  simp only [step] at h
  split at h
  · rename_i pending hpc
    have hpcb := hS.pcb
    rw [hpc] at hpcb
    have hx : SrcOK { (σ.src s) with pc := if (pending.filter (fun p => p.1 != t)).isEmpty then RecvPc.idle else .deliver (pending.filter (fun p => p.1 != t)) } := by
      refine ⟨?_, hS.nonneg, hS.acks, hS.lsa, hS.lsm, hS.abt, hS.ach, hS.lwm, pcOK_filter_deliver t hpcb, hS.grave⟩
      intro ha
      have := hS.inact ha
      rw [this] at hpc; cases hpc
    split at h
    · cases h
    · rename_i ids hids
      split at h
      · cases h
      · cases h
        refine ⟨?_, amb_of_acks_eq fun s0 => ?_⟩
        · refine hI.setSrcTgt hx rfl ?_
          refine ⟨hT.ring, ?_, hT.prev, hT.apc⟩
          intro m hm
          rcases List.mem_append.1 hm with hm | hm
          · exact hT.chan m hm
          · simp at hm; subst hm; exact hpcb _ (aget_mem hids)
        · rw [src_setTgt]; exact acks_setSrc (by rfl) s0
  · cases h

theorem TgtOK_process {hi : SId → Int} {tg : Target} {m : Msg} (hT : TgtOK hi tg) (hm : MsgOK hi m) :
    TgtOK hi (process tg m) := by
  cases m with
  | tasks s ids =>
    refine ⟨?_, hT.chan, hT.prev, hT.apc⟩
    intro e he
    simp only [process] at he
    rcases List.mem_append.1 he with he | he
    · exact hT.ring e he
    · simp only [List.mem_map] at he
      obtain ⟨⟨o, p⟩, hop, rfl⟩ := he
      exact hm o (List.of_mem_zip hop).1
  | wm s h =>
    refine ⟨?_, hT.chan, hT.prev, hT.apc⟩
    intro e he
    simp only [process] at he
    rcases List.mem_append.1 he with he | he
    · exact hT.ring e he
    · simp at he; subst he; exact hm

theorem step_take_inv {σ σ' : State} {t : TId} (hI : Inv σ)
    (h : step Cfg.cur σ (.take t) = some σ') : Inv σ' ∧ AckStepMonoBounded σ σ' := by
  have hT := hI.tgts t
  simp only [step] at h
  split at h
  · cases h
  · split at h
    · cases h
    · rename_i m rest hch
      cases h
      refine ⟨hI.setTgt ?_, amb_of_acks_eq fun s0 => rfl⟩
      have hc := hT.chan
      rw [hch] at hc
      exact TgtOK_process ⟨hT.ring, fun m' hm' => hc m' (List.mem_cons_of_mem _ hm'), hT.prev, hT.apc⟩
        (hc m List.mem_cons_self)

theorem step_emit_inv {σ σ' : State} {t : TId} (hI : Inv σ)
    (h : step Cfg.cur σ (.emit t) = some σ') : Inv σ' ∧ AckStepMonoBounded σ σ' := by
  have hT := hI.tgts t
  simp only [step] at h
  split at h
  · cases h
  · cases h
    exact ⟨hI.setTgt ⟨hT.ring, hT.chan, hT.prev, hT.apc⟩, amb_of_acks_eq fun s0 => rfl⟩

theorem step_tack_inv {σ σ' : State} {t : TId} {w : Int} (hI : Inv σ)
    (h : step Cfg.cur σ (.tack t w) = some σ') : Inv σ' ∧ AckStepMonoBounded σ σ' := by
  have hT := hI.tgts t
  simp only [step] at h
  split at h
  · cases h
  · split at h
    · cases h
      refine ⟨hI.setTgt ⟨hT.ring, hT.chan, hT.prev, ?_⟩, amb_of_acks_eq fun s0 => rfl⟩
      show AckPcOK _ (if _ then _ else _)
      split
      · trivial
      · exact hT.prev
    · cases h
      refine ⟨hI.setTgt ⟨hT.ring, hT.chan, hT.prev, ?_⟩, amb_of_acks_eq fun s0 => rfl⟩
      intro p hp
      obtain ⟨e, he, rfl⟩ := mem_aggregate hp
      exact hT.ring e he

theorem step_ackFwd_inv {σ σ' : State} {t : TId} {s : SId} (hI : Inv σ)
    (h : step Cfg.cur σ (.ackFwd t s) = some σ') : Inv σ' ∧ AckStepMonoBounded σ σ' := by
  have hS := hI.srcs s
  have hT := hI.tgts t
  simp only [step] at h
  split at h
  · rename_i todo discard rec hpc
    have hapc := hT.apc
    rw [hpc] at hapc
    split at h
    · cases h
    · rename_i v hv
      have hvle : v ≤ (σ.src s).lastHigh := hapc _ (aget_mem hv)
      split at h
      · cases h
      · rename_i hen
        simp at hen
        cases h
        refine ⟨?_, amb_of_acks_eq fun s0 => ?_⟩
        · refine hI.setTgtSrc ⟨hT.ring, hT.chan, ?_, ?_⟩ ⟨?_, hS.nonneg, hS.acks, hS.lsa, hS.lsm, hS.abt, ?_, hS.lwm, hS.pcb, hS.grave⟩ (by exact Int.le_refl _)
          · show ∀ p ∈ (if rec = true then aset (σ.tgt t).prevAck s v else (σ.tgt t).prevAck), p.2 ≤ σ.hi p.1
            split
            · intro p hp
              rcases mem_aset hp with hp | hp
              · exact hT.prev p hp
              · subst hp; exact hvle
            · exact hT.prev
          · exact fun p hp => hapc p (List.mem_filter.1 hp).1
          · intro ha; simp [hen.1] at ha
          · intro p hp
            rcases List.mem_append.1 hp with hp | hp
            · exact hS.ach p hp
            · simp at hp; subst hp; exact hvle
        · exact acks_setSrc (σ := σ.setTgt t _) (by rfl) s0
  · cases h

theorem step_ackFin_inv {σ σ' : State} {t : TId} (hI : Inv σ)
    (h : step Cfg.cur σ (.ackFin t) = some σ') : Inv σ' ∧ AckStepMonoBounded σ σ' := by
  have hT := hI.tgts t
  simp only [step] at h
  split at h
  · cases h
    refine ⟨hI.setTgt ⟨?_, hT.chan, hT.prev, trivial⟩, amb_of_acks_eq fun s0 => rfl⟩
    exact fun e he => hT.ring e (List.mem_of_mem_drop he)
  · cases h

theorem amb_setSrc {σ : State} {s : SId} {x : Source} (l : List Int)
    (hx : x.acksSent = (σ.src s).acksSent ++ l)
    (hb : ∀ v ∈ l, v ≤ x.lastHigh ∧ ∀ u ∈ (σ.src s).acksSent, u ≤ v) :
    AckStepMonoBounded σ (σ.setSrc s x) := by
  intro s0 _ v hv
  unfold newAcks at hv
  rw [src_setSrc] at hv ⊢
  split at hv
  · rename_i h
    rw [if_pos h]
    obtain ⟨rfl, _⟩ := h
    rw [hx] at hv
    simp at hv
    exact hb v hv
  · simp at hv

theorem step_rack_inv {σ σ' : State} {s : SId} (hI : Inv σ)
    (h : step Cfg.cur σ (.rack s) = some σ') : Inv σ' ∧ AckStepMonoBounded σ σ' := by
  have hS := hI.srcs s
  simp only [step] at h
  split at h
  · cases h
  · rename_i hact
    simp at hact
    split at h
    · cases h
    · rename_i t v rest hch
      have hach := hS.ach
      rw [hch] at hach
      have habt : ∀ p ∈ aset (σ.src s).ackByTarget t v, p.2 ≤ (σ.src s).lastHigh := by
        intro p hp
        rcases mem_aset hp with hp | hp
        · exact hS.abt p hp
        · subst hp; exact hach _ List.mem_cons_self
      have hrest : ∀ p ∈ rest, p.2 ≤ (σ.src s).lastHigh := fun p hp => hach p (List.mem_cons_of_mem _ hp)
      have hina : ∀ {x : Source}, x.active = (σ.src s).active → x.active = false → x = {} := by
        intro x hx hf; rw [hx, hact] at hf; cases hf
      split at h
      · cases h
        exact ⟨hI.setSrc ⟨hina rfl, hS.nonneg, hS.acks, hS.lsa, hS.lsm, habt, hrest, hS.lwm, hS.pcb, hS.grave⟩ (Int.le_refl _),
          amb_of_acks_eq (acks_setSrc (by rfl))⟩
      · rename_i m hm
        obtain ⟨tm, htm⟩ := minVal_mem hm
        have hmle : m ≤ (σ.src s).lastHigh := habt _ htm
        split at h
        · rename_i hge
          cases h
          have hm' : (if (decide ((σ.src s).lastHigh > 0) && decide (m > (σ.src s).lastHigh)) = true then (σ.src s).lastHigh else m) = m := by
            rw [if_neg]; simp; omega
          simp only [hm']
          have hge' : (σ.src s).lastSentMin ≤ m := hge
          refine ⟨hI.setSrc ⟨hina rfl, hS.nonneg, ?_, ?_, hmle, habt, hrest, hS.lwm, hS.pcb, hS.grave⟩ (Int.le_refl _),
            amb_setSrc [m] rfl ?_⟩
          · intro u hu
            rcases List.mem_append.1 hu with hu | hu
            · exact Int.le_trans (hS.acks u hu) hge'
            · simp at hu; subst hu; exact Int.le_refl _
          · intro a ha; simp at ha; exact ha.symm
          · intro v' hv'
            simp at hv'; subst hv'
            exact ⟨hmle, fun u hu => Int.le_trans (hS.acks u hu) hge'⟩
        · cases h
          exact ⟨hI.setSrc ⟨hina rfl, hS.nonneg, hS.acks, hS.lsa, hS.lsm, habt, hrest, hS.lwm, hS.pcb, hS.grave⟩ (Int.le_refl _),
            amb_of_acks_eq (acks_setSrc (by rfl))⟩

theorem step_openSrc_inv {σ σ' : State} {s : SId} (hI : Inv σ)
    (h : step Cfg.cur σ (.openSrc s) = some σ') : Inv σ' ∧ AckStepMonoBounded σ σ' := by
  have hS := hI.srcs s
  simp only [step] at h
  split at h
  · cases h
  · rename_i hen
    simp at hen
    have hd := hS.inact hen.1
    cases h
    rw [hd]
    refine ⟨hI.setSrc ?_ (by rw [hd]; exact Int.le_refl _), amb_of_acks_eq (acks_setSrc (by rw [hd]))⟩
    refine ⟨?_, Int.le_refl _, ?_, ?_, Int.le_refl _, ?_, ?_, ?_, trivial, rfl⟩ <;> simp

theorem step_openTgt_inv {σ σ' : State} {t : TId} (hI : Inv σ)
    (h : step Cfg.cur σ (.openTgt t) = some σ') : Inv σ' ∧ AckStepMonoBounded σ σ' := by
  simp only [step] at h
  split at h
  · cases h
  · cases h
    refine ⟨hI.setTgt ?_, amb_of_acks_eq fun s0 => rfl⟩
    refine ⟨?_, ?_, ?_, trivial⟩ <;> simp

theorem step_startTgt_inv {σ σ' : State} {t : TId} (hI : Inv σ)
    (h : step Cfg.cur σ (.startTgt t) = some σ') : Inv σ' ∧ AckStepMonoBounded σ σ' := by
  have hT := hI.tgts t
  simp only [step] at h
  split at h
  · cases h
  · cases h
    exact ⟨hI.setTgt ⟨hT.ring, hT.chan, hT.prev, hT.apc⟩, amb_of_acks_eq fun s0 => rfl⟩

theorem step_replayStep_inv {σ σ' : State} {t : TId} {s : SId} (hI : Inv σ)
    (h : step Cfg.cur σ (.replayStep t s) = some σ') : Inv σ' ∧ AckStepMonoBounded σ σ' := by
  have hS := hI.srcs s
  have hT := hI.tgts t
  simp only [step] at h
  split at h
  · cases h
  · split at h
    · cases h
    · split at h
      · rename_i hw hwm
        have hle : hw ≤ (σ.src s).lastHigh := by
          split at hwm
          · exact hS.lwm _ hwm
          · rw [hS.grave] at hwm; simp [aget] at hwm
        split at h
        · cases h
          refine ⟨hI.setTgt ⟨hT.ring, ?_, hT.prev, hT.apc⟩, amb_of_acks_eq fun s0 => rfl⟩
          intro m hm
          rcases List.mem_append.1 hm with hm | hm
          · exact hT.chan m hm
          · simp at hm; subst hm; exact hle
        · cases h
          exact ⟨hI.setTgt ⟨hT.ring, hT.chan, hT.prev, hT.apc⟩, amb_of_acks_eq fun s0 => rfl⟩
      · cases h
        exact ⟨hI.setTgt ⟨hT.ring, hT.chan, hT.prev, hT.apc⟩, amb_of_acks_eq fun s0 => rfl⟩

theorem step_replayDone_inv {σ σ' : State} {t : TId} (hI : Inv σ)
    (h : step Cfg.cur σ (.replayDone t) = some σ') : Inv σ' ∧ AckStepMonoBounded σ σ' := by
  have hT := hI.tgts t
  simp only [step] at h
  split at h
  · cases h
    exact ⟨hI.setTgt ⟨hT.ring, hT.chan, hT.prev, hT.apc⟩, amb_of_acks_eq fun s0 => rfl⟩
  · cases h

/-- the keep-alive effect of `tick` on one source / target -/
def tickSrc (x : Source) : Source :=
  if x.active then (match x.lastSentAck with
    | some a => { x with acksSent := x.acksSent ++ [a] }
    | none => x) else x

def tickTgt (tg : Target) : Target :=
  if tg.started && tg.holding.isNone && tg.lastSentWm > 0 then
    { tg with emitted := tg.emitted ++ [{ src := 0, ids := [], high := tg.lastSentWm, orig := [], keepalive := true }] }
  else tg

theorem step_tick (c : Cfg) (σ : State) :
    step c σ .tick = some { sources := σ.sources.map tickSrc, targets := σ.targets.map tickTgt } := rfl

theorem src_tick (σ : State) (s : SId) :
    (State.mk (σ.sources.map tickSrc) (σ.targets.map tickTgt)).src s = tickSrc (σ.src s) :=
  src_map σ.sources _ tickSrc rfl s

theorem tgt_tick (σ : State) (t : TId) :
    (State.mk (σ.sources.map tickSrc) (σ.targets.map tickTgt)).tgt t = tickTgt (σ.tgt t) :=
  tgt_map _ σ.targets tickTgt rfl t

theorem tickSrc_lastHigh (x : Source) : (tickSrc x).lastHigh = x.lastHigh := by
  unfold tickSrc; split
  · split <;> rfl
  · rfl

theorem SrcOK_tick {x : Source} (hS : SrcOK x) : SrcOK (tickSrc x) := by
  unfold tickSrc; split
  · rename_i hact
    split
    · rename_i a ha
      refine ⟨?_, hS.nonneg, ?_, hS.lsa, hS.lsm, hS.abt, hS.ach, hS.lwm, hS.pcb, hS.grave⟩
      · intro h; rw [hact] at h; cases h
      · intro u hu
        rcases List.mem_append.1 hu with hu | hu
        · exact hS.acks u hu
        · simp at hu; subst hu; rw [hS.lsa _ ha]; exact Int.le_refl _
    · exact hS
  · exact hS

theorem TgtOK_tick {hi : SId → Int} {tg : Target} (hT : TgtOK hi tg) : TgtOK hi (tickTgt tg) := by
  unfold tickTgt; split
  · exact ⟨hT.ring, hT.chan, hT.prev, hT.apc⟩
  · exact hT

theorem step_tick_inv {σ σ' : State} (hI : Inv σ)
    (h : step Cfg.cur σ .tick = some σ') : Inv σ' ∧ AckStepMonoBounded σ σ' := by
  rw [step_tick] at h
  cases h
  refine ⟨⟨fun s => ?_, fun t => ?_⟩, ?_⟩
  · rw [src_tick]; exact SrcOK_tick (hI.srcs s)
  · rw [tgt_tick]
    have : State.hi (State.mk (σ.sources.map tickSrc) (σ.targets.map tickTgt)) = σ.hi := by
      funext s
      show ((State.mk (σ.sources.map tickSrc) (σ.targets.map tickTgt)).src s).lastHigh = _
      rw [src_tick, tickSrc_lastHigh]; rfl
    rw [this]
    exact TgtOK_tick (hI.tgts t)
  · intro s _ v hv
    unfold newAcks at hv
    rw [src_tick] at hv ⊢
    have hS := hI.srcs s
    rw [tickSrc_lastHigh]
    unfold tickSrc at hv
    split at hv
    · split at hv
      · rename_i a ha
        simp at hv; subst hv
        have := hS.lsa _ ha
        subst this
        exact ⟨hS.lsm, hS.acks⟩
      · simp at hv
    · simp at hv

theorem step_inv {σ σ' : State} {a : Act} (hI : Inv σ) (h : step Cfg.cur σ a = some σ')
    (hf : a.isFault = false)
    (hr : ∀ s tasks high, a = .recv s tasks high → RecvOK σ.targets.length (σ.src s) tasks high) :
    Inv σ' ∧ AckStepMonoBounded σ σ' := by
  cases a with
  | recv s tasks high => exact step_recv_inv hI h (hr _ _ _ rfl)
  | bcastStep s t => exact step_bcastStep_inv hI h
  | deliver s t => exact step_deliver_inv hI h
  | take t => exact step_take_inv hI h
  | emit t => exact step_emit_inv hI h
  | tack t w => exact step_tack_inv hI h
  | ackFwd t s => exact step_ackFwd_inv hI h
  | ackFin t => exact step_ackFin_inv hI h
  | rack s => exact step_rack_inv hI h
  | openSrc s => exact step_openSrc_inv hI h
  | openTgt t => exact step_openTgt_inv hI h
  | startTgt t => exact step_startTgt_inv hI h
  | replayStep t s => exact step_replayStep_inv hI h
  | replayDone t => exact step_replayDone_inv hI h
  | tick => exact step_tick_inv hI h
  | breakTgt t => cases hf
  | breakSrc s => cases hf

end S2S.Routing
