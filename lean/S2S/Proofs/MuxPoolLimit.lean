import S2S.Proofs.MuxPoolInv
/-! C10 safety: the pool never holds more than `cap` sessions; every failure returns exactly one permit. -/
namespace S2S.MuxPool

theorem countP_le_add3 {α} (p q1 q2 q3 : α → Bool) (l : List α)
    (h : ∀ x ∈ l, p x = true → q1 x = true ∨ q2 x = true ∨ q3 x = true) :
    l.countP p ≤ l.countP q1 + l.countP q2 + l.countP q3 := by
  induction l with
  | nil => simp
  | cons x l ih =>
    have ih' := ih (fun y hy => h y (List.mem_cons_of_mem _ hy))
    have hx := h x (List.mem_cons_self)
    simp only [List.countP_cons]
    cases hp : p x <;> cases h1 : q1 x <;> cases h2 : q2 x <;> cases h3 : q3 x <;> simp_all <;> omega

theorem registered_le_cap (σ : St) (hi : Inv σ) : σ.registeredCount ≤ σ.cap := by
  have h1 : σ.registeredCount ≤ σ.cntS Stage.isHeld := by
    simp only [St.registeredCount, St.cntS]
    apply List.countP_mono_left
    intro x _ hx; simp [Stage.isHeld, hx]
  have := hi.cons
  omega

theorem openSessions_le_cap (σ : St) (hi : Inv σ) : σ.openSessions ≤ σ.cap := by
  have h1 : σ.openSessions ≤ σ.cntS Stage.isSessioned + σ.cntS Stage.isRegistered + σ.cntS Stage.isLost := by
    simp only [St.openSessions, St.cntS]
    apply countP_le_add3
    intro x hx hso
    have := hi.sessSt x hx hso
    cases hst : x.stage <;> simp [hst, Stage.maySess, Stage.isSessioned, Stage.isRegistered, Stage.isLost] at this ⊢
  have h2 : σ.cntS Stage.isRegistered ≤ σ.cntS Stage.isHeld := by
    simp only [St.cntS]
    apply List.countP_mono_left
    intro x _ hx; simp [Stage.isHeld, hx]
  have h3 : σ.phase.sessInflight ≤ σ.phase.inflight := by
    cases σ.phase <;> simp [Phase.sessInflight, Phase.inflight]
  have := hi.cons; have := hi.nSess; have := hi.nLost
  omega

/-- every failure branch of the loop, taken while the lifetime is live, puts the provider back at the
    top of the loop with exactly one more free permit -/
theorem failure_returns_permit (d : Defects) (σ σ' : St) (a : Act) (hl : σ.live = true)
    (ha : a = .connErr ∨ a = .sessErr ∨ ∃ k, a = .pingErr k) (hs : step d σ a = some σ') :
    σ'.permits = σ.permits + 1 ∧ σ'.phase = .idle ∧ σ'.lostPermits = σ.lostPermits := by
  rcases ha with rfl | rfl | ⟨k, rfl⟩ <;> simp only [step] at hs <;> split at hs <;>
    first
    | cases hs
    | (split at hs <;> cases hs <;> simp_all [St.setConn])

/-- a session's death is always followed through: `cleanup` is enabled as soon as the session is dying,
    `release` as soon as it is cleaned up, and `release` returns exactly one permit -/
theorem death_returns_permit (d : Defects) (σ : St) (c mid : Nat) (hc : c < σ.conns.length) :
    ((σ.conn c).stage = .registered mid → (σ.conn c).dying σ.live = true → ∃ σ', step d σ (.cleanup c) = some σ' ∧
        (σ'.conn c).stage = .cleaned mid ∧ (σ'.conn c).connOpen = false ∧ (σ'.conn c).sessOpen = false) ∧
    ((σ.conn c).stage = .cleaned mid → ∃ σ', step d σ (.release c) = some σ' ∧ σ'.permits = σ.permits + 1 ∧
        (σ'.conn c).stage = .released mid) := by
  constructor
  · intro hst hd
    refine ⟨_, by simp only [step, hst]; rw [if_pos ⟨hc, hd⟩], ?_⟩
    simp [conn_setConn_same σ c _ hc, Conn.closeBoth]
  · intro hst
    refine ⟨_, by simp only [step, hst]; rw [if_pos hc], ?_⟩
    simp [St.setConn, St.conn, List.getD, hc]


theorem step_cap (d : Defects) (σ σ' : St) (a : Act) (hs : step d σ a = some σ') : σ'.cap = σ.cap := by
  cases a <;> simp only [step] at hs <;> (repeat' split at hs) <;> simp_all <;> (subst hs; rfl)

theorem run_cap (d : Defects) (acts : List Act) (σ : St) : (run d σ acts).cap = σ.cap := by
  induction acts generalizing σ with
  | nil => rfl
  | cons a r ih =>
    simp only [run, List.foldl_cons]
    cases hs : step d σ a with
    | none => simpa [run] using ih σ
    | some σ' => simpa [run, step_cap d σ σ' a hs] using ih σ'

end S2S.MuxPool
